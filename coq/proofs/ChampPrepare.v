(* C10: what prepareForReproduction (adjustFitness, quota counting, delta coding / stolen babies,
   purge of the eliminated organisms) preserves: genomes, species membership, species ids; and
   the bound "reserved super-champion offspring <= quota" it establishes. *)
From NeatModel Require Import Compat.
From NeatModel Require Import Res F64 GoRand Genome Options Insert Dup Mutate Mate Population MonadLemmas WF ChampHeap.
From Coq Require Import Lia Sorting.Permutation.

(* ---------- heaps related field-wise ---------- *)
Definition proj_gss (x : organism) := (o_key x, o_genome x, o_species x, o_super x).
Definition proj_gs (x : organism) := (o_key x, o_genome x, o_species x).
(* everything the later phases of prepare leave alone: all but the super-champion counter, the
   expected offspring and the population-champion flag *)
Definition proj_e (x : organism) := (o_key x, o_genome x, o_species x, o_fit x, o_orig x, o_elim x, o_highest x).
Definition proj_b (x : organism) := (proj_e x, o_super x).

Definition heap_rel {T} (proj : organism -> T) (h h' : list organism) : Prop :=
  forall k, (forall x, hget h k = Ok x -> exists x', hget h' k = Ok x' /\ proj x' = proj x) /\
            (forall x', hget h' k = Ok x' -> exists x, hget h k = Ok x /\ proj x' = proj x).

Lemma heap_rel_refl {T} (proj : organism -> T) h : heap_rel proj h h.
Proof. intros k. split; intros x Hx; exists x; now split. Qed.

Lemma heap_rel_trans {T} (proj : organism -> T) a b c : heap_rel proj a b -> heap_rel proj b c -> heap_rel proj a c.
Proof.
  intros H1 H2 k. destruct (H1 k) as [F1 B1]. destruct (H2 k) as [F2 B2]. split.
  - intros x Hx. destruct (F1 x Hx) as [y [Hy Ey]]. destruct (F2 y Hy) as [z [Hz Ez]]. exists z. split; [exact Hz|congruence].
  - intros z Hz. destruct (B2 z Hz) as [y [Hy Ey]]. destruct (B1 y Hy) as [x [Hx Ex]]. exists x. split; [exact Hx|congruence].
Qed.

Lemma heap_rel_weaken_gen {T T'} (proj : organism -> T) (proj' : organism -> T') h h' :
  (forall x y, proj x = proj y -> proj' x = proj' y) -> heap_rel proj h h' -> heap_rel proj' h h'.
Proof.
  intros Hp H k. destruct (H k) as [F B]. split.
  - intros x Hx. destruct (F x Hx) as [y [Hy E]]. exists y. split; [exact Hy|now apply Hp].
  - intros y Hy. destruct (B y Hy) as [x [Hx E]]. exists x. split; [exact Hx|now apply Hp].
Qed.

Lemma heap_rel_weaken_e h h' : heap_rel proj_e h h' -> heap_rel proj_gs h h'.
Proof. apply heap_rel_weaken_gen. unfold proj_e, proj_gs. intros x y E. injection E as -> -> -> _ _ _ _. reflexivity. Qed.
Lemma heap_rel_weaken_be h h' : heap_rel proj_b h h' -> heap_rel proj_e h h'.
Proof. apply heap_rel_weaken_gen. unfold proj_b. intros x y E. apply (f_equal fst) in E. exact E. Qed.
Lemma heap_rel_weaken_bs h h' : heap_rel proj_b h h' -> heap_rel proj_gss h h'.
Proof.
  apply heap_rel_weaken_gen. unfold proj_b, proj_e, proj_gss. intros x y E. injection E as -> -> -> _ _ _ _ ->. reflexivity.
Qed.

Lemma heap_rel_weaken h h' : heap_rel proj_gss h h' -> heap_rel proj_gs h h'.
Proof.
  intros H k. destruct (H k) as [F B]. unfold proj_gss, proj_gs in *. split.
  - intros x Hx. destruct (F x Hx) as [y [Hy E]]. exists y. split; [exact Hy|]. injection E as -> -> -> _. reflexivity.
  - intros y Hy. destruct (B y Hy) as [x [Hx E]]. exists x. split; [exact Hx|]. injection E as -> -> -> _. reflexivity.
Qed.

Lemma heap_rel_hset {T} (proj : organism -> T) h x y :
  hget h (o_key y) = Ok x -> proj y = proj x -> heap_rel proj h (hset h y).
Proof.
  intros Hx E k. rewrite hget_hset. destruct (Z.eqb_spec (o_key y) k) as [<-|_].
  - split.
    + intros x0 H0. rewrite Hx in H0. injection H0 as <-. exists y. now split.
    + intros y0 H0. injection H0 as <-. exists x. now split.
  - split; intros z Hz; exists z; now split.
Qed.

Lemma heap_rel_hsets {T} (proj : organism -> T) l : forall h,
  (forall y, In y l -> exists x, hget h (o_key y) = Ok x /\ proj y = proj x) ->
  heap_rel proj h (hsets h l).
Proof.
  unfold hsets. induction l as [|y l IH]; intros h H; cbn [fold_left]; [apply heap_rel_refl|].
  destruct (H y (or_introl eq_refl)) as [x [Hx E]].
  apply (heap_rel_trans _ _ (hset h y)); [now apply (heap_rel_hset _ _ x)|].
  apply IH. intros y' Hy'. rewrite hget_hset.
  destruct (H y' (or_intror Hy')) as [x' [Hx' E']].
  destruct (Z.eqb_spec (o_key y) (o_key y')) as [Ek|_].
  - exists y. split; [reflexivity|]. rewrite <- Ek, Hx in Hx'. injection Hx' as <-. congruence.
  - exists x'. now split.
Qed.

Lemma heap_rel_gs_fwd h h' k x : heap_rel proj_gs h h' -> hget h k = Ok x ->
  exists x', hget h' k = Ok x' /\ o_genome x' = o_genome x /\ o_species x' = o_species x.
Proof.
  intros H Hx. destruct (H k) as [F _]. destruct (F x Hx) as [x' [Hx' E]]. exists x'. split; [exact Hx'|].
  unfold proj_gs in E. injection E as _ -> ->. now split.
Qed.

Lemma heap_rel_gs_bwd h h' k x' : heap_rel proj_gs h h' -> hget h' k = Ok x' ->
  exists x, hget h k = Ok x /\ o_genome x' = o_genome x /\ o_species x' = o_species x.
Proof.
  intros H Hx. destruct (H k) as [_ B]. destruct (B x' Hx) as [x [Hx0 E]]. exists x. split; [exact Hx0|].
  unfold proj_gs in E. injection E as _ -> ->. now split.
Qed.

Lemma heap_rel_gss_bwd h h' k x' : heap_rel proj_gss h h' -> hget h' k = Ok x' ->
  exists x, hget h k = Ok x /\ o_super x' = o_super x.
Proof.
  intros H Hx. destruct (H k) as [_ B]. destruct (B x' Hx) as [x [Hx0 E]]. exists x. split; [exact Hx0|].
  unfold proj_gss in E. now injection E.
Qed.

(* ---------- species lists: ids and member lists ---------- *)
Definition sp_shape (s : species) := (sp_id s, sp_orgs s).

Definition members_ok (h : list organism) (sps : list species) : Prop :=
  forall s k, In s sps -> In k (sp_orgs s) -> exists x, hget h k = Ok x /\ o_species x = sp_id s.

Definition ids_nodup (sps : list species) : Prop := NoDup (map sp_id sps).

Lemma shape_ids sps sps' : map sp_shape sps' = map sp_shape sps -> map sp_id sps' = map sp_id sps.
Proof.
  intros H. assert (E : forall l, map sp_id l = map fst (map sp_shape l)).
  { intros l. rewrite map_map. reflexivity. }
  now rewrite !E, H.
Qed.

Lemma shape_in sps sps' s' : map sp_shape sps' = map sp_shape sps -> In s' sps' ->
  exists s, In s sps /\ sp_id s = sp_id s' /\ sp_orgs s = sp_orgs s'.
Proof.
  intros H Hin. apply (in_map sp_shape) in Hin. rewrite H in Hin. apply in_map_iff in Hin.
  destruct Hin as [s [E Hs]]. exists s. split; [exact Hs|]. unfold sp_shape in E. now injection E.
Qed.

Lemma members_ok_shape h h' sps sps' :
  heap_rel proj_gs h h' -> map sp_shape sps' = map sp_shape sps -> members_ok h sps -> members_ok h' sps'.
Proof.
  intros Hh Hs Hm s' k Hin Hk. destruct (shape_in _ _ _ Hs Hin) as [s [Hs0 [Eid Eorgs]]].
  rewrite <- Eorgs in Hk. destruct (Hm s k Hs0 Hk) as [x [Hx Esp]].
  destruct (heap_rel_gs_fwd _ _ _ _ Hh Hx) as [x' [Hx' [_ Es]]]. exists x'. split; [exact Hx'|congruence].
Qed.

Lemma sp_find_In l id s : sp_find l id = Some s -> In s l /\ sp_id s = id.
Proof.
  induction l as [|x l IH]; cbn [sp_find]; [discriminate|].
  destruct (Z.eqb_spec (sp_id x) id) as [E|_].
  - intros H. injection H as <-. split; [now left|exact E].
  - intros H. destruct (IH H). split; [now right|assumption].
Qed.

Lemma sp_set_shape l id f : (forall t, sp_shape (f t) = sp_shape t) -> map sp_shape (sp_set l id f) = map sp_shape l.
Proof.
  intros Hf. unfold sp_set. rewrite map_map. apply map_ext. intros s. destruct (Z.eqb _ _); [apply Hf|reflexivity].
Qed.

Lemma sp_set_In l id f s' : In s' (sp_set l id f) ->
  exists s, In s l /\ ((sp_id s = id /\ s' = f s) \/ (sp_id s <> id /\ s' = s)).
Proof.
  unfold sp_set. intros H. apply in_map_iff in H. destruct H as [s [E Hs]]. exists s. split; [exact Hs|].
  destruct (Z.eqb_spec (sp_id s) id); [left|right]; now split.
Qed.

(* two members of species of one list with the same key are in species of the same id *)
Lemma members_same_species h sps s1 s2 k :
  members_ok h sps -> In s1 sps -> In s2 sps -> In k (sp_orgs s1) -> In k (sp_orgs s2) -> sp_id s1 = sp_id s2.
Proof.
  intros Hm H1 H2 K1 K2. destruct (Hm s1 k H1 K1) as [x [Hx E1]]. destruct (Hm s2 k H2 K2) as [y [Hy E2]].
  rewrite Hx in Hy. injection Hy as <-. congruence.
Qed.

Lemma ids_nodup_eq sps s1 s2 : ids_nodup sps -> In s1 sps -> In s2 sps -> sp_id s1 = sp_id s2 -> s1 = s2.
Proof.
  unfold ids_nodup. induction sps as [|x l IH]; intros Hnd H1 H2 E; [destruct H1|].
  cbn [map] in Hnd. inversion Hnd as [|? ? Hnot Hnd']; subst.
  destruct H1 as [<-|H1], H2 as [<-|H2]; try reflexivity.
  - exfalso. apply Hnot. rewrite E. now apply in_map.
  - exfalso. apply Hnot. rewrite <- E. now apply in_map.
  - now apply IH.
Qed.

(* ---------- sort_desc is a permutation ---------- *)
Lemma ins_rev_perm {A} (lt : A -> A -> bool) x rp : Permutation (ins_rev lt x rp) (x :: rp).
Proof.
  induction rp as [|y r IH]; cbn [ins_rev]; [apply Permutation_refl|].
  destruct (lt y x); [|apply Permutation_refl].
  apply (Permutation_trans (l' := y :: x :: r)); [now apply perm_skip|apply perm_swap].
Qed.

Lemma sort_desc_perm {A} (lt : A -> A -> bool) l : Permutation (sort_desc lt l) l.
Proof.
  unfold sort_desc.
  assert (H : forall acc, Permutation (fold_left (fun rp x => ins_rev lt x rp) l acc) (l ++ acc)).
  { induction l as [|x l IH]; intros acc; cbn [fold_left app]; [apply Permutation_refl|].
    apply (Permutation_trans (IH _)).
    apply (Permutation_trans (l' := l ++ x :: acc)).
    - apply Permutation_app_head. apply ins_rev_perm.
    - apply Permutation_sym. apply Permutation_middle. }
  apply (Permutation_trans (l' := fold_left (fun rp x => ins_rev lt x rp) l [])).
  - apply Permutation_sym. apply Permutation_rev.
  - specialize (H []). now rewrite app_nil_r in H.
Qed.

(* ---------- adjustFitness ---------- *)
Lemma hgets_In h ks l x : hgets h ks = Ok l -> In x l -> exists k, In k ks /\ hget h k = Ok x.
Proof.
  intros H. apply hgets_ok in H. induction H as [|k y ks l Hy _ IH]; intros Hin; [destruct Hin|].
  destruct Hin as [<-|Hin].
  - exists k. split; [now left|exact Hy].
  - destruct (IH Hin) as [k' [Hk' Hx]]. exists k'. split; [now right|exact Hx].
Qed.

Lemma mark_elim_keys l : forall i n, map o_key (mark_elim l i n) = map o_key l.
Proof.
  induction l as [|x l IH]; intros i n; cbn [mark_elim map]; [reflexivity|].
  rewrite IH. destruct (Z.geb i n); reflexivity.
Qed.

Lemma mark_elim_In l : forall i n y, In y (mark_elim l i n) -> exists z, In z l /\ proj_gss y = proj_gss z.
Proof.
  induction l as [|x l IH]; intros i n y; cbn [mark_elim]; [intros []|].
  intros [<-|H].
  - exists x. split; [now left|]. destruct (Z.geb i n); reflexivity.
  - destruct (IH _ _ _ H) as [z [Hz E]]. exists z. split; [now right|exact E].
Qed.

Lemma adjust_fitness_frame o h s h1 s1 :
  adjust_fitness o h s = Ok (h1, s1) ->
  heap_rel proj_gss h h1 /\ sp_id s1 = sp_id s /\ sp_exp s1 = sp_exp s /\ Permutation (sp_orgs s1) (sp_orgs s).
Proof.
  unfold adjust_fitness. cbv zeta. intros H. rbind H as orgs Horgs.
  remember (sort_desc org_lt (map (adjust_one o (sp_age s)
             (if Z.eqb (sp_age s - sp_lastimp s + 1 - o_dropoff o) 0 then 1 else sp_age s - sp_lastimp s + 1 - o_dropoff o)
             (zlen orgs)) orgs)) as sorted eqn:Es.
  destruct sorted as [|top r]; [discriminate|].
  destruct (Z.ltb (f_trunc_Z _) 0); [discriminate|]. injection H as <- <-.
  set (D := fun y : organism => exists x, hget h (o_key y) = Ok x /\ proj_gss y = proj_gss x).
  assert (HD : forall y, In y (top :: r) -> D y).
  { intros y Hy. rewrite Es in Hy. apply (Permutation_in _ (sort_desc_perm _ _)) in Hy.
    apply in_map_iff in Hy. destruct Hy as [x [<- Hx]].
    destruct (hgets_In _ _ _ _ Horgs Hx) as [k [_ Hk]]. exists x. split; [|reflexivity].
    cbn [adjust_one o_with_fit o_with_orig o_key]. now rewrite (hget_key _ _ _ Hk). }
  assert (Dproj : forall y z, proj_gss y = proj_gss z -> D z -> D y).
  { intros y z E [x [Hx Ex]]. exists x. unfold proj_gss in E. injection E as Ek Eg Es' Esu.
    split; [now rewrite Ek|]. unfold proj_gss in *. congruence. }
  cbn [mark_elim]. split; [|split; [|split]].
  - refine (heap_rel_hsets proj_gss (_ :: _) h _). intros y [<-|Hy].
    + apply (Dproj _ top); [|apply HD; now left]. destruct (Z.geb 0 _); reflexivity.
    + destruct (mark_elim_In _ _ _ _ Hy) as [z [Hz E]]. apply (Dproj _ z E). apply HD. now right.
  - destruct (PrimFloat.ltb _ _); reflexivity.
  - destruct (PrimFloat.ltb _ _); reflexivity.
  - replace (sp_orgs _) with (map o_key (top :: r)).
    + rewrite Es. apply (Permutation_trans (Permutation_map o_key (sort_desc_perm _ _))).
      rewrite map_map. cbn [adjust_one o_with_fit o_with_orig o_key].
      change (fun x : organism => o_key x) with o_key. rewrite (hgets_keys _ _ _ Horgs). apply Permutation_refl.
    + destruct (PrimFloat.ltb _ _); cbn [sp_with_orgs sp_orgs map]; rewrite mark_elim_keys;
        f_equal; destruct (Z.geb 0 _); reflexivity.
Qed.

Lemma adjust_all_frame o : forall l h h1 l1,
  adjust_all o h l = Ok (h1, l1) ->
  heap_rel proj_gss h h1 /\
  Forall2 (fun s s1 => sp_id s1 = sp_id s /\ sp_exp s1 = sp_exp s /\ Permutation (sp_orgs s1) (sp_orgs s)) l l1.
Proof.
  induction l as [|s l IH]; intros h h1 l1 H; cbn [adjust_all] in H.
  - injection H as <- <-. split; [apply heap_rel_refl|constructor].
  - rbind H as r Hr. destruct r as [h0 s0]. rbind H as r2 Hr2. destruct r2 as [h2 l2]. injection H as <- <-.
    apply adjust_fitness_frame in Hr. destruct Hr as [Hh Hs]. apply IH in Hr2. destruct Hr2 as [Hh2 Hl].
    split; [exact (heap_rel_trans _ _ _ _ Hh Hh2)|]. constructor; assumption.
Qed.

(* consequences for the invariants *)
Lemma Forall2_ids l l1 :
  Forall2 (fun s s1 => sp_id s1 = sp_id s /\ sp_exp s1 = sp_exp s /\ Permutation (sp_orgs s1) (sp_orgs s)) l l1 ->
  map sp_id l1 = map sp_id l.
Proof. induction 1 as [|s s1 l l1 [E _] _ IH]; cbn [map]; [reflexivity|]. now rewrite E, IH. Qed.

Lemma Forall2_In_r' {A B} (R : A -> B -> Prop) l l1 y : Forall2 R l l1 -> In y l1 -> exists x, In x l /\ R x y.
Proof.
  induction 1 as [|a b l l1 Hab _ IH]; intros Hin; [destruct Hin|].
  destruct Hin as [<-|Hin]; [exists a; split; [now left|exact Hab]|].
  destruct (IH Hin) as [x [Hx Hr]]. exists x. split; [now right|exact Hr].
Qed.

Lemma members_ok_perm h h' sps sps' :
  heap_rel proj_gs h h' ->
  Forall2 (fun s s1 => sp_id s1 = sp_id s /\ sp_exp s1 = sp_exp s /\ Permutation (sp_orgs s1) (sp_orgs s)) sps sps' ->
  members_ok h sps -> members_ok h' sps'.
Proof.
  intros Hh Hf Hm s' k Hin Hk. destruct (Forall2_In_r' _ _ _ _ Hf Hin) as [s [Hs [Eid [_ Hp]]]].
  apply (Permutation_in _ Hp) in Hk. destruct (Hm s k Hs Hk) as [x [Hx Esp]].
  destruct (heap_rel_gs_fwd _ _ _ _ Hh Hx) as [x' [Hx' [_ Es]]]. exists x'. split; [exact Hx'|congruence].
Qed.

(* ---------- purgeZeroOffspringSpecies ---------- *)
Lemma count_all_shape h : forall l skim total l2 t,
  count_all h l skim total = Ok (l2, t) -> map sp_shape l2 = map sp_shape l.
Proof.
  induction l as [|s l IH]; intros skim total l2 t H; cbn [count_all] in H.
  - injection H as <- _. reflexivity.
  - rbind H as orgs Ho. destruct (count_offspring orgs 0 skim) as [e skim'].
    rbind H as r Hr. destruct r as [l3 t3]. injection H as <- _. cbn [map]. f_equal. exact (IH _ _ _ _ Hr).
Qed.

Lemma sp_replace_ids l s : map sp_id (sp_replace l s) = map sp_id l.
Proof.
  induction l as [|x l IH]; cbn [sp_replace map]; [reflexivity|].
  destruct (Z.eqb_spec (sp_id x) (sp_id s)) as [E|_]; cbn [map]; [now rewrite E|now rewrite IH].
Qed.

Lemma sp_replace_In l s s' : In s' (sp_replace l s) -> In s' l \/ s' = s.
Proof.
  induction l as [|x l IH]; cbn [sp_replace]; [intros []|].
  destruct (Z.eqb (sp_id x) (sp_id s)).
  - intros [<-|H]; [now right|left; now right].
  - intros [<-|H]; [left; now left|]. destruct (IH H); [left; now right|now right].
Qed.

Lemma best_by_exp_In : forall l mx best b, best_by_exp l mx best = Some b -> best = Some b \/ In b l.
Proof.
  induction l as [|s l IH]; intros mx best b H; cbn [best_by_exp] in H; [now left|].
  destruct (Z.geb (sp_exp s) mx).
  - destruct (IH _ _ _ H) as [E|Hin]; [injection E as <-; right; now left|right; now right].
  - destruct (IH _ _ _ H) as [E|Hin]; [now left|right; now right].
Qed.

Lemma NoDup_map_filter {A B} (f : A -> B) (p : A -> bool) l : NoDup (map f l) -> NoDup (map f (filter p l)).
Proof.
  induction l as [|x l IH]; cbn [map filter]; intros H; [constructor|].
  inversion H as [|? ? Hnot Hnd]; subst. destruct (p x); cbn [map]; [|now apply IH].
  constructor; [|now apply IH]. intros Hin. apply Hnot. apply in_map_iff in Hin. destruct Hin as [y [E Hy]].
  apply filter_In in Hy. rewrite <- E. apply in_map. apply Hy.
Qed.

(* every species of [l'] has the id and members of a species of [l], position by position the same ids *)
Definition shaped (l l' : list species) : Prop :=
  map sp_id l' = map sp_id l /\ forall s', In s' l' -> exists s, In s l /\ sp_shape s' = sp_shape s.

Lemma shaped_replace l l' b n :
  shaped l l' -> (exists s, In s l /\ sp_shape b = sp_shape s) -> shaped l (sp_replace l' (sp_with_exp b n)).
Proof.
  intros [Hi Hs] [s [Hs0 E]]. split; [now rewrite sp_replace_ids|].
  intros s' Hin. apply sp_replace_In in Hin. destruct Hin as [Hin| ->]; [now apply Hs|].
  exists s. split; [exact Hs0|exact E].
Qed.

Lemma shaped_zero l l' : shaped l l' -> shaped l (map (fun s => sp_with_exp s 0) l').
Proof.
  intros [Hi Hs]. split.
  - rewrite map_map. cbn [sp_with_exp sp_id]. exact Hi.
  - intros s' Hin. apply in_map_iff in Hin. destruct Hin as [s0 [<- H0]]. destruct (Hs s0 H0) as [s [Hs0 E]].
    exists s. split; [exact Hs0|exact E].
Qed.

Lemma purge_zero_frame p p' :
  purge_zero_offspring p = Ok p' ->
  heap_rel proj_b (p_heap p) (p_heap p') /\ p_orgs p' = p_orgs p /\ p_next_key p' = p_next_key p /\
  (ids_nodup (p_species p) -> ids_nodup (p_species p')) /\
  (forall s', In s' (p_species p') -> sp_exp s' > 0 /\ exists s, In s (p_species p) /\ sp_shape s' = sp_shape s).
Proof.
  unfold purge_zero_offspring. cbv zeta. intros H. rbind H as orgs Horgs. rbind H as r Hr. destruct r as [sps total].
  injection H as <-. cbn [p_with p_heap p_orgs p_next_key p_species].
  apply count_all_shape in Hr.
  assert (Hsh : shaped (p_species p) sps).
  { split; [now apply shape_ids|]. intros s' Hin. destruct (shape_in _ _ _ Hr Hin) as [s [Hs [E1 E2]]].
    exists s. split; [exact Hs|]. unfold sp_shape. now rewrite E1, E2. }
  clear Hr.
  match goal with |- _ /\ _ /\ _ /\ (_ -> ids_nodup (filter _ ?X)) /\ _ => assert (Hsh2 : shaped (p_species p) X) end.
  { destruct (Z.ltb total (zlen orgs)); [|exact Hsh].
    destruct (best_by_exp sps 0 None) as [b|] eqn:Eb.
    - assert (Hb : In b sps) by (destruct (best_by_exp_In _ _ _ _ Eb) as [E|Hin]; [discriminate|exact Hin]).
      assert (Hb' : exists s, In s (p_species p) /\ sp_shape b = sp_shape s) by (apply Hsh; exact Hb).
      destruct (Z.ltb _ _).
      + apply shaped_replace; [|exact Hb']. apply shaped_zero. now apply shaped_replace.
      + now apply shaped_replace.
    - destruct (Z.ltb _ _); [now apply shaped_zero|exact Hsh]. }
  match goal with |- _ /\ _ /\ _ /\ (_ -> ids_nodup (filter _ ?X)) /\ _ => generalize dependent X end.
  intros X HX. split; [|split; [reflexivity|split; [reflexivity|split]]].
  - destruct (PrimFloat.eqb _ _); [apply heap_rel_refl|].
    apply heap_rel_hsets. intros y Hy. apply in_map_iff in Hy. destruct Hy as [x [<- Hx]].
    destruct (hgets_In _ _ _ _ Horgs Hx) as [k [_ Hk]]. exists x. split; [|reflexivity].
    cbn [o_with_exp o_key]. now rewrite (hget_key _ _ _ Hk).
  - unfold ids_nodup. intros Hnd. apply NoDup_map_filter. destruct HX as [-> _]. exact Hnd.
  - intros s' Hin. apply filter_In in Hin. destruct Hin as [Hin Hgt]. split; [apply Z.gtb_lt in Hgt; lia|].
    destruct HX as [_ HX]. now apply HX.
Qed.

(* ---------- the bound: reserved super-champion offspring <= quota ---------- *)
Definition S0 (h : list organism) : Prop := forall k x, hget h k = Ok x -> o_super x = 0.
Definition E0 (sps : list species) : Prop := forall s, In s sps -> 0 <= sp_exp s.
Definition Qb (h : list organism) (sps : list species) : Prop :=
  forall s k x, In s sps -> In k (sp_orgs s) -> hget h k = Ok x -> 0 <= o_super x <= sp_exp s.

Lemma S0_E0_Qb h sps : S0 h -> E0 sps -> Qb h sps.
Proof. intros Hs He s k x Hin _ Hx. rewrite (Hs k x Hx). specialize (He s Hin). lia. Qed.

Lemma S0_rel h h' : heap_rel proj_gss h h' -> S0 h -> S0 h'.
Proof. intros Hr Hs k x' Hx'. destruct (heap_rel_gss_bwd _ _ _ _ Hr Hx') as [x [Hx ->]]. exact (Hs k x Hx). Qed.

Lemma first_org_member h s c : first_org h s = Ok c -> In (o_key c) (sp_orgs s) /\ hget h (o_key c) = Ok c.
Proof.
  unfold first_org. destruct (sp_orgs s) as [|k r]; [discriminate|]. intros H.
  rewrite (hget_key _ _ _ H). split; [now left|exact H].
Qed.

Lemma Q_step h sps s c n f :
  ids_nodup sps -> members_ok h sps -> Qb h sps -> In s sps -> first_org h s = Ok c ->
  (forall t, sp_shape (f t) = sp_shape t) ->
  0 <= n <= sp_exp (f s) -> sp_exp s <= sp_exp (f s) ->
  Qb (hset h (o_with_super c n)) (sp_set sps (sp_id s) f).
Proof.
  intros Hnd Hm Hq Hs Hc Hf Hn He s' k x Hin Hk Hx.
  destruct (first_org_member _ _ _ Hc) as [Hcm Hcg].
  apply sp_set_In in Hin. destruct Hin as [s0 [Hs0 [[Eid ->]|[Hne ->]]]].
  - assert (s0 = s) by now apply (ids_nodup_eq sps). subst s0.
    assert (Eo : sp_orgs (f s) = sp_orgs s) by (specialize (Hf s); unfold sp_shape in Hf; now injection Hf).
    rewrite Eo in Hk. rewrite hget_hset in Hx. cbn [o_with_super o_key] in Hx.
    destruct (Z.eqb (o_key c) k).
    + injection Hx as <-. cbn [o_with_super o_super]. exact Hn.
    + specialize (Hq s k x Hs Hk Hx). lia.
  - rewrite hget_hset in Hx. cbn [o_with_super o_key] in Hx.
    destruct (Z.eqb_spec (o_key c) k) as [<-|_].
    + exfalso. apply Hne. exact (members_same_species h sps s0 s _ Hm Hs0 Hs Hk Hcm).
    + exact (Hq s0 k x Hs0 Hk Hx).
Qed.

(* ---------- stolen babies ---------- *)
Lemma steal_loop_inv o : forall rs sps stolen sps' stolen',
  steal_loop o sps rs stolen = (sps', stolen') ->
  ids_nodup sps -> E0 sps -> 0 <= stolen ->
  map sp_shape sps' = map sp_shape sps /\ E0 sps' /\ 0 <= stolen'.
Proof.
  induction rs as [|id r IH]; intros sps stolen sps' stolen' H Hnd He Hst; cbn [steal_loop] in H.
  - injection H as <- <-. now repeat split.
  - destruct (Z.geb stolen (o_babies_stolen o)) eqn:Ege; [injection H as <- <-; now repeat split|].
    destruct (sp_find sps id) as [s|] eqn:Ef; [|now apply (IH _ _ _ _ H)].
    destruct (sp_find_In _ _ _ Ef) as [Hs Eid].
    destruct (Z.gtb (sp_age s) 5 && Z.gtb (sp_exp s) 2) eqn:Ec; [|now apply (IH _ _ _ _ H)].
    apply andb_prop in Ec. destruct Ec as [_ Eg2]. apply Z.gtb_lt in Eg2.
    assert (Hbs : stolen < o_babies_stolen o) by (destruct (Z.geb_spec stolen (o_babies_stolen o)); [discriminate|lia]).
    assert (Hgen : forall g, (forall t, sp_shape (g t) = sp_shape t) -> 0 <= sp_exp (g s) ->
                   ids_nodup (sp_set sps id g) /\ E0 (sp_set sps id g) /\ map sp_shape (sp_set sps id g) = map sp_shape sps).
    { intros g Hg Hge. assert (Hsh := sp_set_shape sps id g Hg). split; [|split; [|exact Hsh]].
      - unfold ids_nodup. rewrite (shape_ids _ _ Hsh). exact Hnd.
      - intros s' Hin. apply sp_set_In in Hin. destruct Hin as [s0 [Hs0 [[E0' ->]|[_ ->]]]]; [|now apply He].
        assert (s0 = s) by (apply (ids_nodup_eq sps); try assumption; congruence). subst s0. exact Hge. }
    destruct (Z.geb (sp_exp s - 1) (o_babies_stolen o - stolen)) eqn:Ege2.
    + destruct (Hgen (fun s0 => sp_with_exp s0 (sp_exp s0 - (o_babies_stolen o - stolen)))) as [Hn' [He' Hsh]].
      * reflexivity.
      * cbn [sp_with_exp sp_exp]. destruct (Z.geb_spec (sp_exp s - 1) (o_babies_stolen o - stolen)); [lia|discriminate].
      * destruct (IH _ _ _ _ H Hn' He') as [Hsh' R]; [lia|]. split; [congruence|exact R].
    + destruct (Hgen (fun s0 => sp_with_exp s0 1)) as [Hn' [He' Hsh]].
      * reflexivity.
      * cbn. lia.
      * destruct (IH _ _ _ _ H Hn' He') as [Hsh' R]; [lia|]. split; [congruence|exact R].
Qed.

Lemma post_bind2 {A B} (m : @M st A) (f : A -> @M st B) (Q : A -> Prop) (P : B -> Prop) :
  post m Q -> (forall a, Q a -> post (f a) P) -> post (bindM m f) P.
Proof.
  intros Hm Hf s b s' H. apply bindM_ok in H. destruct H as [a [s1 [H1 H]]]. exact (Hf a (Hm _ _ _ H1) s1 b s' H).
Qed.
Lemma post_lift {A} (r : res A) (P : A -> Prop) : (forall a, r = Ok a -> P a) -> post (lift r) P.
Proof. intros Hp s a s' H. apply lift_ok in H. destruct H as [H _]. now apply Hp. Qed.

Section Give.
  Variables (h0 : list organism) (sps0 : list species).
  Hypothesis Hnd0 : ids_nodup sps0.
  Hypothesis Hm0 : members_ok h0 sps0.

  Definition GInv (acc : list species * list organism * Z) : Prop :=
    let '(sps, h, stolen) := acc in
    Qb h sps /\ 0 <= stolen /\ heap_rel proj_e h0 h /\ map sp_shape sps = map sp_shape sps0.

  Lemma GInv_nd sps h st : GInv (sps, h, st) -> ids_nodup sps /\ members_ok h sps.
  Proof.
    intros [_ [_ [Hr Hs]]]. split.
    - unfold ids_nodup. now rewrite (shape_ids _ _ Hs).
    - exact (members_ok_shape _ _ _ _ (heap_rel_weaken_e _ _ Hr) Hs Hm0).
  Qed.

  Lemma GInv_step sps h stolen id s n h1 stolen' :
    GInv (sps, h, stolen) -> sp_find sps id = Some s -> set_champ_super h s n = Ok h1 ->
    0 <= n -> 0 <= stolen' ->
    GInv (sp_set sps id (fun s => sp_with_exp s (sp_exp s + n)), h1, stolen').
  Proof.
    intros Hinv Ef Hh1 Hn Hst. destruct (GInv_nd _ _ _ Hinv) as [Hnd Hm]. destruct Hinv as [Hq [_ [Hr Hs]]].
    destruct (sp_find_In _ _ _ Ef) as [Hin Eid]. unfold set_champ_super in Hh1. rbind Hh1 as c Hc. injection Hh1 as <-.
    destruct (first_org_member _ _ _ Hc) as [_ Hcg].
    assert (E0s : 0 <= sp_exp s).
    { destruct (first_org_member _ _ _ Hc) as [Hcm _]. specialize (Hq s _ c Hin Hcm Hcg). lia. }
    split; [|split; [exact Hst|split]].
    - rewrite <- Eid. apply Q_step; try assumption; cbn [sp_with_exp sp_exp]; try reflexivity; lia.
    - apply (heap_rel_trans _ _ _ _ Hr). now apply (heap_rel_hset _ _ c).
    - rewrite sp_set_shape; [exact Hs|reflexivity].
  Qed.

  Lemma give_loop_inv o blocks :
    (forall i, 0 <= nth i blocks 0) ->
    forall sorted bi acc, GInv acc -> post (give_loop o sorted bi blocks acc) GInv.
  Proof.
    intros Hb. induction sorted as [|id r IH]; intros bi acc Hinv; cbn [give_loop].
    - now apply post_ret.
    - destruct acc as [[sps h] stolen]. destruct (sp_find sps id) as [s|] eqn:Ef; [|apply post_fail_panic].
      destruct (Z.gtb _ _); [now apply IH|].
      assert (Hst0 : 0 <= stolen) by (destruct Hinv as [_ [H _]]; exact H).
      apply (post_bind2 _ _ GInv).
      + destruct (Z.ltb bi 3 && Z.geb stolen (nth (Z.to_nat bi) blocks 0)) eqn:E1.
        * apply andb_prop in E1. destruct E1 as [_ E1].
          apply (post_bind2 _ _ (fun h1 => set_champ_super h s (nth (Z.to_nat bi) blocks 0) = Ok h1)); [now apply post_lift|].
          intros h1 Hh1. apply post_ret. apply (GInv_step _ _ _ _ _ _ _ _ Hinv Ef Hh1 (Hb _)).
          destruct (Z.geb_spec stolen (nth (Z.to_nat bi) blocks 0)); [lia|discriminate].
        * destruct (Z.geb bi 3); [|now apply post_ret].
          apply post_bind. intros rr. destruct (PrimFloat.ltb _ rr); [|now apply post_ret].
          destruct (Z.gtb stolen 3) eqn:E3.
          -- apply (post_bind2 _ _ (fun h1 => set_champ_super h s 3 = Ok h1)); [now apply post_lift|].
             intros h1 Hh1. apply post_ret. apply (GInv_step _ _ _ _ _ _ _ _ Hinv Ef Hh1); [lia|].
             apply Z.gtb_lt in E3. lia.
          -- apply (post_bind2 _ _ (fun h1 => set_champ_super h s stolen = Ok h1)); [now apply post_lift|].
             intros h1 Hh1. apply post_ret. apply (GInv_step _ _ _ _ _ _ _ _ Hinv Ef Hh1); lia.
      + intros [[sps' h'] stolen'] Hacc'. destruct (Z.leb stolen' 0); [now apply post_ret|now apply IH].
  Qed.
End Give.

Definition prep_post (p p' : population) : Prop :=
  Qb (p_heap p') (p_species p') /\ heap_rel proj_e (p_heap p) (p_heap p') /\
  map sp_shape (p_species p') = map sp_shape (p_species p) /\ p_orgs p' = p_orgs p /\ p_next_key p' = p_next_key p.

Lemma give_babies_inv o p sorted :
  0 < o_babies_stolen o -> ids_nodup (p_species p) -> members_ok (p_heap p) (p_species p) ->
  S0 (p_heap p) -> E0 (p_species p) ->
  post (give_babies o p sorted) (prep_post p).
Proof.
  intros Hbs Hnd Hm Hs0 He0. unfold give_babies.
  destruct (steal_loop o (p_species p) (rev sorted) 0) as [sps1 stolen] eqn:Est.
  destruct (steal_loop_inv _ _ _ _ _ _ Est Hnd He0 (Z.le_refl 0)) as [Hsh1 [He1 Hst1]].
  assert (Hnd1 : ids_nodup sps1) by (unfold ids_nodup; now rewrite (shape_ids _ _ Hsh1)).
  assert (Hm1 : members_ok (p_heap p) sps1) by exact (members_ok_shape _ _ _ _ (heap_rel_refl _ _) Hsh1 Hm).
  assert (Hq : 0 <= Z.quot (o_babies_stolen o) 5 /\ 0 <= Z.quot (o_babies_stolen o) 10) by (split; apply Z.quot_pos; lia).
  apply (post_bind2 _ _ (GInv (p_heap p) sps1)).
  - apply (give_loop_inv _ _ Hnd1 Hm1).
    + intros i. destruct i as [|[|[|[|i]]]]; cbn [nth]; lia.
    + unfold GInv. split; [now apply S0_E0_Qb|]. split; [exact Hst1|]. split; [apply heap_rel_refl|reflexivity].
  - intros [[sps2 h2] leftover] Hinv.
    destruct (GInv_nd _ _ Hnd1 Hm1 _ _ _ Hinv) as [Hnd2 Hm2]. destruct Hinv as [Hq2 [Hl [Hr2 Hsh2]]].
    destruct (Z.gtb leftover 0) eqn:El.
    + destruct sorted as [|id r]; [apply post_fail_panic|].
      destruct (sp_find sps2 id) as [s|] eqn:Ef; [|apply post_fail_panic].
      destruct (sp_find_In _ _ _ Ef) as [Hin Eid].
      apply (post_bind2 _ _ (fun c => first_org h2 s = Ok c)); [now apply post_lift|].
      intros c Hc. apply post_ret. unfold prep_post. cbn [p_with p_heap p_species p_orgs p_next_key].
      destruct (first_org_member _ _ _ Hc) as [Hcm Hcg]. pose proof (Hq2 s _ c Hin Hcm Hcg) as Hb.
      apply Z.gtb_lt in El.
      split; [|split; [|split; [|split; reflexivity]]].
      * rewrite <- Eid. apply Q_step; try assumption; cbn [sp_with_exp sp_exp]; try reflexivity; lia.
      * apply (heap_rel_trans _ _ _ _ Hr2). now apply (heap_rel_hset _ _ c).
      * rewrite sp_set_shape; [congruence|reflexivity].
    + apply post_ret. unfold prep_post. cbn [p_with p_heap p_species p_orgs p_next_key].
      split; [exact Hq2|]. split; [exact Hr2|]. split; [congruence|]. now split.
Qed.

(* ---------- delta coding ---------- *)
Definition zero_exp (acc : list species) (id : Z) : list species := sp_set acc id (fun s => sp_with_exp s 0).

Lemma fold_zero_shape rest : forall l, map sp_shape (fold_left zero_exp rest l) = map sp_shape l.
Proof.
  induction rest as [|id r IH]; intros l; cbn [fold_left]; [reflexivity|].
  rewrite IH. unfold zero_exp. now apply sp_set_shape.
Qed.

Lemma fold_zero_In rest : forall l s', In s' (fold_left zero_exp rest l) ->
  exists s, In s l /\ sp_shape s' = sp_shape s /\
            ((In (sp_id s) rest /\ sp_exp s' = 0) \/ (~ In (sp_id s) rest /\ s' = s)).
Proof.
  induction rest as [|id r IH]; intros l s' H; cbn [fold_left] in H.
  - exists s'. split; [exact H|]. split; [reflexivity|]. right. split; [intros []|reflexivity].
  - destruct (IH _ _ H) as [s1 [H1 [Esh Hc]]]. unfold zero_exp in H1. apply sp_set_In in H1.
    destruct H1 as [s [Hs [[Eid ->]|[Hne ->]]]].
    + exists s. split; [exact Hs|]. split; [exact Esh|]. left. split; [left; now symmetry|].
      destruct Hc as [[_ E]|[_ ->]]; [exact E|reflexivity].
    + exists s. split; [exact Hs|]. split; [exact Esh|].
      destruct Hc as [[Hin E]|[Hnin ->]]; [left; split; [now right|exact E]|right].
      split; [|reflexivity]. intros [E|Hin]; [now apply Hne|now apply Hnin].
Qed.

Lemma quot2_bounds n : 0 <= n -> 0 <= Z.quot n 2 <= n.
Proof.
  intros Hn. rewrite Z.quot_div_nonneg by lia. split; [apply Z.div_pos; lia|].
  apply Z.div_le_upper_bound; lia.
Qed.

Lemma delta_coding_inv o p sorted p' :
  delta_coding o p sorted = Ok p' ->
  0 <= o_pop_size o -> NoDup sorted ->
  ids_nodup (p_species p) -> members_ok (p_heap p) (p_species p) -> S0 (p_heap p) -> E0 (p_species p) ->
  prep_post p p'.
Proof.
  intros H Hpop Hsd Hnd Hm Hs0 He0. unfold delta_coding in H. cbv zeta in H.
  pose proof (quot2_bounds _ Hpop) as Hhalf.
  destruct sorted as [|a [|b rest]]; [discriminate| |].
  - (* one species *)
    destruct (sp_find (p_species p) a) as [sa|] eqn:Efa; [|discriminate]. cbn [bind] in H.
    rbind H as h1 Hh1. injection H as <-. unfold set_champ_super in Hh1. rbind Hh1 as ca Hca. injection Hh1 as <-.
    destruct (sp_find_In _ _ _ Efa) as [Hina Eida]. destruct (first_org_member _ _ _ Hca) as [Hcam Hcag].
    unfold prep_post. cbn [p_with p_with_stagnation p_heap p_species p_orgs p_next_key].
    split; [|split; [|split; [|split; reflexivity]]].
    + intros s' k x Hin Hk Hx. apply sp_set_In in Hin. rewrite hget_hset in Hx. cbn [o_with_super o_key] in Hx.
      destruct Hin as [s0 [Hs0' [[Eid ->]|[Hne ->]]]]; cbn [sp_exp sp_orgs] in *.
      * destruct (Z.eqb (o_key ca) k); [injection Hx as <-; cbn; lia|]. rewrite (Hs0 k x Hx). lia.
      * destruct (Z.eqb_spec (o_key ca) k) as [<-|_].
        -- exfalso. apply Hne. rewrite <- Eida. exact (members_same_species _ _ s0 sa _ Hm Hs0' Hina Hk Hcam).
        -- rewrite (Hs0 k x Hx). specialize (He0 s0 Hs0'). lia.
    + now apply (heap_rel_hset _ _ ca).
    + now apply sp_set_shape.
  - (* two or more *)
    destruct (sp_find (p_species p) a) as [sa|] eqn:Efa; [|discriminate]. cbn [bind] in H.
    destruct (sp_find (p_species p) b) as [sb|] eqn:Efb; [|discriminate]. cbn [bind] in H.
    rbind H as h1 Hh1. rbind H as h2 Hh2. injection H as <-.
    unfold set_champ_super in Hh1, Hh2. rbind Hh1 as ca Hca. injection Hh1 as <-.
    rbind Hh2 as cb Hcb. injection Hh2 as <-.
    destruct (sp_find_In _ _ _ Efa) as [Hina Eida]. destruct (sp_find_In _ _ _ Efb) as [Hinb Eidb].
    destruct (first_org_member _ _ _ Hca) as [Hcam Hcag]. destruct (first_org_member _ _ _ Hcb) as [Hcbm Hcbg].
    inversion Hsd as [|? ? Hna Hsd1]; subst. inversion Hsd1 as [|? ? Hnb Hsd2]; subst.
    assert (Hab : sp_id sa <> sp_id sb) by (intros E; apply Hna; left; now symmetry).
    assert (Hr1 : heap_rel proj_e (p_heap p) (hset (p_heap p) (o_with_super ca (Z.quot (o_pop_size o) 2))))
      by now apply (heap_rel_hset _ _ ca).
    unfold prep_post. cbn [p_with p_with_stagnation p_heap p_species p_orgs p_next_key].
    split; [|split; [|split; [|split; reflexivity]]].
    + intros s' k x Hin Hk Hx.
      change (fold_left _ rest ?l) with (fold_left zero_exp rest l) in Hin.
      apply fold_zero_In in Hin. destruct Hin as [s2 [Hs2 [Esh2 Hc2]]].
      apply sp_set_In in Hs2. destruct Hs2 as [s1 [Hs1 Hc1]]. apply sp_set_In in Hs1. destruct Hs1 as [s0 [Hs0' Hc0]].
      assert (E21 : sp_shape s2 = sp_shape s1) by (destruct Hc1 as [[_ ->]|[_ ->]]; reflexivity).
      assert (E10 : sp_shape s1 = sp_shape s0) by (destruct Hc0 as [[_ ->]|[_ ->]]; reflexivity).
      assert (Esh : sp_shape s' = sp_shape s0) by congruence.
      unfold sp_shape in Esh, E21, E10. injection Esh as Eid' Eorgs'. injection E21 as Eid21 _. injection E10 as Eid10 _.
      rewrite Eorgs' in Hk.
      assert (Hcbm' : In (o_key cb) (sp_orgs sb)) by exact Hcbm.
      (* the key of cb in the first heap *)
      assert (Hcb0 : exists cb0, hget (p_heap p) (o_key cb) = Ok cb0).
      { destruct (heap_rel_gs_bwd _ _ _ _ (heap_rel_weaken_e _ _ Hr1) Hcbg) as [cb0 [H0 _]]. now exists cb0. }
      rewrite !hget_hset in Hx. cbn [o_with_super o_key] in Hx.
      destruct (Z.eqb_spec (o_key cb) k) as [Ek|Hnk].
      * injection Hx as <-. cbn [o_with_super o_super].
        assert (E0b : sp_id s0 = sp_id sb) by (subst k; exact (members_same_species _ _ s0 sb _ Hm Hs0' Hinb Hk Hcbm)).
        assert (Hs1' : s1 = s0 \/ sp_id s1 = sp_id s0) by (right; exact Eid10).
        destruct Hc2 as [[Hin2 _]|[_ ->]]; [exfalso; apply Hnb; rewrite <- E0b, <- Eid10, <- Eid21; exact Hin2|].
        destruct Hc1 as [[_ ->]|[Hne1 _]]; [cbn [sp_exp]; lia|]. exfalso. apply Hne1. congruence.
      * destruct (Z.eqb_spec (o_key ca) k) as [Ek|Hnk2].
        -- injection Hx as <-. cbn [o_with_super o_super].
           assert (E0a : sp_id s0 = sp_id sa) by (subst k; exact (members_same_species _ _ s0 sa _ Hm Hs0' Hina Hk Hcam)).
           destruct Hc2 as [[Hin2 _]|[_ ->]];
             [exfalso; apply Hna; right; rewrite <- E0a, <- Eid10, <- Eid21; exact Hin2|].
           destruct Hc1 as [[E1b _]|[_ ->]]; [exfalso; apply Hab; congruence|].
           destruct Hc0 as [[_ ->]|[Hne0 _]]; [cbn [sp_exp]; lia|]. exfalso. apply Hne0. congruence.
        -- rewrite (Hs0 k x Hx).
           destruct Hc2 as [[_ ->]|[_ ->]]; [lia|].
           destruct Hc1 as [[_ ->]|[_ ->]]; [cbn [sp_exp]; lia|].
           destruct Hc0 as [[_ ->]|[_ ->]]; [cbn [sp_exp]; lia|]. specialize (He0 s0 Hs0'). lia.
    + apply (heap_rel_trans _ _ _ _ Hr1). now apply (heap_rel_hset _ _ cb).
    + change (fold_left _ rest ?l) with (fold_left zero_exp rest l). rewrite fold_zero_shape.
      rewrite sp_set_shape by reflexivity. now apply sp_set_shape.
Qed.

(* ---------- purgeOrganisms ---------- *)
Definition purged (h : list organism) (s s' : species) : Prop :=
  sp_id s' = sp_id s /\ sp_exp s' = sp_exp s /\
  exists g, sp_orgs s' = filter g (sp_orgs s) /\
            forall k, g k = false -> exists x, hget h k = Ok x /\ o_elim x = true.

Lemma purged_refl h s : purged h s s.
Proof.
  split; [reflexivity|split; [reflexivity|]]. exists (fun _ => true). split; [|discriminate].
  induction (sp_orgs s) as [|k l IH]; cbn [filter]; [reflexivity|now rewrite <- IH].
Qed.

Lemma filter_filter {A} (g1 g2 : A -> bool) l : filter g2 (filter g1 l) = filter (fun x => g1 x && g2 x) l.
Proof.
  induction l as [|x l IH]; cbn [filter]; [reflexivity|].
  destruct (g1 x); cbn [filter andb]; [destruct (g2 x); now rewrite IH|exact IH].
Qed.

Lemma purged_trans h a b c : purged h a b -> purged h b c -> purged h a c.
Proof.
  intros [I1 [E1 [g1 [O1 G1]]]] [I2 [E2 [g2 [O2 G2]]]]. split; [congruence|split; [congruence|]].
  exists (fun k => g1 k && g2 k). split; [now rewrite O2, O1, filter_filter|].
  intros k Hk. apply andb_false_iff in Hk. destruct Hk as [Hk|Hk]; [now apply G1|now apply G2].
Qed.

Lemma Forall2_refl {A} (R : A -> A -> Prop) l : (forall x, R x x) -> Forall2 R l l.
Proof. intros H. induction l; constructor; auto. Qed.

Lemma Forall2_trans {A} (R : A -> A -> Prop) : (forall a b c, R a b -> R b c -> R a c) ->
  forall l1 l2 l3, Forall2 R l1 l2 -> Forall2 R l2 l3 -> Forall2 R l1 l3.
Proof.
  intros HR l1 l2 l3 H12. revert l3. induction H12 as [|a b l1 l2 Hab _ IH]; intros l3 H23; inversion H23; subst; constructor.
  - eapply HR; eauto.
  - now apply IH.
Qed.

Lemma remove_org_purged h l sid k l' :
  remove_org l sid k = Ok l' -> (exists x, hget h k = Ok x /\ o_elim x = true) -> Forall2 (purged h) l l'.
Proof.
  unfold remove_org. intros H Hx. destruct (sp_find l sid) as [s|] eqn:Ef; [|discriminate].
  destruct (_ && _); [|discriminate]. injection H as <-.
  revert Ef. induction l as [|y l IH]; cbn [sp_find sp_replace]; [discriminate|].
  cbn [sp_with_orgs sp_id]. destruct (Z.eqb_spec (sp_id y) sid) as [E|Hne].
  - intros Hs. injection Hs as ->. rewrite E. subst sid. rewrite Z.eqb_refl. constructor.
    + split; [reflexivity|split; [reflexivity|]]. exists (fun x => negb (Z.eqb x k)). split; [reflexivity|].
      intros k' Hk'. apply negb_false_iff in Hk'. apply Z.eqb_eq in Hk'. now subst k'.
    + apply Forall2_refl. apply purged_refl.
  - intros Hs. destruct (sp_find_In _ _ _ Hs) as [_ Eid]. rewrite Eid.
    destruct (Z.eqb_spec (sp_id y) sid); [contradiction|]. constructor; [apply purged_refl|now apply IH].
Qed.

Lemma purge_organisms_loop_frame : forall ks p keep p',
  purge_organisms_loop p ks keep = Ok p' ->
  p_heap p' = p_heap p /\ p_next_key p' = p_next_key p /\
  Forall2 (purged (p_heap p)) (p_species p) (p_species p') /\
  (forall k, In k (p_orgs p') -> In k ks \/ In k keep).
Proof.
  induction ks as [|k ks IH]; intros p keep p' H; cbn [purge_organisms_loop] in H.
  - injection H as <-. cbn [p_with p_heap p_next_key p_species p_orgs]. split; [reflexivity|split; [reflexivity|split]].
    + apply Forall2_refl. apply purged_refl.
    + intros k Hk. right. now apply in_rev.
  - rbind H as x Hx. destruct (o_elim x) eqn:Eel.
    + rbind H as p1 Hp1. destruct (IH _ _ _ H) as [Hh [Hn [Hf Ho]]].
      assert (Hp : p_heap p1 = p_heap p /\ p_next_key p1 = p_next_key p /\ Forall2 (purged (p_heap p)) (p_species p) (p_species p1)).
      { unfold remove_from_species in Hp1. destruct (sp_find (p_species p) (o_species x)).
        - rbind Hp1 as l Hl. injection Hp1 as <-. cbn [p_with p_heap p_next_key p_species]. repeat split.
          rewrite (hget_key _ _ _ Hx) in Hl. apply (remove_org_purged _ _ _ _ _ Hl). now exists x.
        - rbind Hp1 as l Hl. injection Hp1 as <-. cbn [p_with p_heap p_next_key p_species]. repeat split.
          apply Forall2_refl. apply purged_refl. }
      destruct Hp as [Hh1 [Hn1 Hf1]]. split; [congruence|split; [congruence|split]].
      * rewrite Hh1 in Hf. exact (Forall2_trans _ (purged_trans _) _ _ _ Hf1 Hf).
      * intros k' Hk'. destruct (Ho k' Hk'); [left; now right|now right].
    + destruct (IH _ _ _ H) as [Hh [Hn [Hf Ho]]]. split; [exact Hh|split; [exact Hn|split; [exact Hf|]]].
      intros k' Hk'. destruct (Ho k' Hk') as [Hin|[<-|Hin]]; [left; now right|left; now left|now right].
Qed.

Lemma purged_ids h l l' : Forall2 (purged h) l l' -> map sp_id l' = map sp_id l.
Proof. induction 1 as [|s s' l l' [E _] _ IH]; cbn [map]; [reflexivity|]. now rewrite E, IH. Qed.

Lemma filter_incl' {A} (g : A -> bool) l x : In x (filter g l) -> In x l.
Proof. intros H. apply filter_In in H. apply H. Qed.

(* ---------- prepareForReproduction ---------- *)
(* the phases, exposed *)
Theorem prepare_phases o p st p1 sorted best st1 :
  prepare o p st = Ok ((p1, sorted, best), st1) ->
  0 <= o_pop_size o ->
  ids_nodup (p_species p) -> members_ok (p_heap p) (p_species p) -> S0 (p_heap p) ->
  exists hA spsA p2 p5,
    adjust_all o (p_heap p) (p_species p) = Ok (hA, spsA) /\
    purge_zero_offspring (p_with p spsA (p_detached p) (p_orgs p) hA) = Ok p2 /\
    heap_rel proj_e (p_heap p2) (p_heap p5) /\ map sp_shape (p_species p5) = map sp_shape (p_species p2) /\
    Qb (p_heap p5) (p_species p5) /\ p_orgs p5 = p_orgs p2 /\ p_next_key p5 = p_next_key p2 /\
    purge_organisms p5 = Ok p1.
Proof.
  intros H Hpop Hnd Hm Hs0. unfold prepare in H.
  mbind H as r sA HA H. apply lift_ok in HA. destruct HA as [HA ->]. destruct r as [hA spsA].
  pose proof HA as HA0.
  apply adjust_all_frame in HA. destruct HA as [HrA HfA].
  assert (HndA : ids_nodup spsA) by (unfold ids_nodup; now rewrite (Forall2_ids _ _ HfA)).
  assert (HmA : members_ok hA spsA) by exact (members_ok_perm _ _ _ _ (heap_rel_weaken _ _ HrA) HfA Hm).
  mbind H as p2 sB HB H. apply lift_ok in HB. destruct HB as [HB ->].
  pose proof HB as HB0.
  apply purge_zero_frame in HB. cbn [p_with p_heap p_species p_orgs p_next_key] in HB.
  destruct HB as [HrB [HoB [HnB [HndB HspB]]]]. specialize (HndB HndA).
  assert (HmB : members_ok (p_heap p2) (p_species p2)).
  { intros s' k Hin Hk. destruct (HspB s' Hin) as [_ [s [Hs E]]]. unfold sp_shape in E. injection E as Eid Eo.
    rewrite Eo in Hk. destruct (HmA s k Hs Hk) as [x [Hx Esp]].
    destruct (heap_rel_gs_fwd _ _ _ _ (heap_rel_weaken_e _ _ (heap_rel_weaken_be _ _ HrB)) Hx) as [x' [Hx' [_ Es]]].
    exists x'. split; [exact Hx'|congruence]. }
  assert (He0B : E0 (p_species p2)) by (intros s Hin; destruct (HspB s Hin) as [Hgt _]; lia).
  assert (Hs0B : S0 (p_heap p2)) by exact (S0_rel _ _ (heap_rel_weaken_bs _ _ HrB) (S0_rel _ _ HrA Hs0)).
  pose proof (sort_desc_perm (species_lt (p_heap p2)) (p_species p2)) as Hperm.
  destruct (sort_desc (species_lt (p_heap p2)) (p_species p2)) as [|bs srt] eqn:Esrt; [discriminate|].
  mbind H as c sC HC H. apply lift_ok in HC. destruct HC as [HC ->].
  destruct (first_org_member _ _ _ HC) as [_ HCg].
  set (h3 := hset (p_heap p2) (o_with_popchamp c true)) in *.
  assert (Hr3 : heap_rel proj_b (p_heap p2) h3) by (now apply (heap_rel_hset _ _ c)).
  set (p4 := if PrimFloat.ltb (p_highest (p_with_heap p2 h3)) (o_orig c)
             then p_with_stagnation (p_with_heap p2 h3) (o_orig c) 0
             else p_with_stagnation (p_with_heap p2 h3) (p_highest (p_with_heap p2 h3)) (p_epochs_highest (p_with_heap p2 h3) + 1)) in *.
  assert (Hp4 : p_heap p4 = h3 /\ p_species p4 = p_species p2 /\ p_orgs p4 = p_orgs p2 /\ p_next_key p4 = p_next_key p2)
    by (unfold p4; destruct (PrimFloat.ltb _ _); repeat split).
  destruct Hp4 as [Hh4 [Hsp4 [Ho4 Hn4]]].
  assert (Hnd4 : ids_nodup (p_species p4)) by now rewrite Hsp4.
  assert (Hm4 : members_ok (p_heap p4) (p_species p4)).
  { rewrite Hh4, Hsp4.
    exact (members_ok_shape _ _ _ _ (heap_rel_weaken_e _ _ (heap_rel_weaken_be _ _ Hr3)) eq_refl HmB). }
  assert (Hs04 : S0 (p_heap p4)) by (rewrite Hh4; exact (S0_rel _ _ (heap_rel_weaken_bs _ _ Hr3) Hs0B)).
  assert (He04 : E0 (p_species p4)) by now rewrite Hsp4.
  mbind H as p5 sE HE H.
  assert (HE' : prep_post p4 p5).
  { destruct (Z.geb (p_epochs_highest p4) (o_dropoff o + 5)).
    - apply lift_ok in HE. destruct HE as [HE _]. apply (delta_coding_inv _ _ _ _ HE); try assumption.
      apply (Permutation_NoDup (l := map sp_id (p_species p2))); [|exact HndB].
      apply Permutation_map. apply Permutation_sym. exact Hperm.
    - destruct (Z.gtb (o_babies_stolen o) 0) eqn:Ebs.
      + apply Z.gtb_lt in Ebs. exact (give_babies_inv _ _ _ Ebs Hnd4 Hm4 Hs04 He04 _ _ _ HE).
      + apply ret_ok in HE. destruct HE as [<- _]. unfold prep_post.
        split; [now apply S0_E0_Qb|]. split; [apply heap_rel_refl|]. now repeat split. }
  destruct HE' as [Hq5 [Hr5 [Hsh5 [Ho5 Hn5]]]].
  mbind H as p6 sF HF H. apply lift_ok in HF. destruct HF as [HF ->].
  apply ret_ok in H. destruct H as [H _]. injection H as <- _ _.
  exists hA, spsA, p2, p5. split; [exact HA0|]. split; [exact HB0|]. split.
  - rewrite Hh4 in Hr5. exact (heap_rel_trans _ _ _ _ (heap_rel_weaken_be _ _ Hr3) Hr5).
  - split; [congruence|]. split; [exact Hq5|]. split; [congruence|]. split; [congruence|exact HF].
Qed.

Record prepared (p p1 : population) : Prop := {
  pr_ids : ids_nodup (p_species p1);
  pr_members : members_ok (p_heap p1) (p_species p1);
  pr_quota : Qb (p_heap p1) (p_species p1);
  pr_heap : heap_rel proj_gs (p_heap p) (p_heap p1);
  pr_next : p_next_key p1 = p_next_key p;
  pr_orgs : incl (p_orgs p1) (p_orgs p)
}.

Theorem prepare_frame o p st p1 sorted best st1 :
  prepare o p st = Ok ((p1, sorted, best), st1) ->
  0 <= o_pop_size o ->
  ids_nodup (p_species p) -> members_ok (p_heap p) (p_species p) -> S0 (p_heap p) ->
  prepared p p1.
Proof.
  intros H Hpop Hnd Hm Hs0.
  destruct (prepare_phases _ _ _ _ _ _ _ H Hpop Hnd Hm Hs0) as [hA [spsA [p2 [p5 [HA [HB [Hr5 [Hsh5 [Hq5 [Ho5 [Hn5 HF]]]]]]]]]]].
  apply adjust_all_frame in HA. destruct HA as [HrA HfA].
  assert (HndA : ids_nodup spsA) by (unfold ids_nodup; now rewrite (Forall2_ids _ _ HfA)).
  assert (HmA : members_ok hA spsA) by exact (members_ok_perm _ _ _ _ (heap_rel_weaken _ _ HrA) HfA Hm).
  apply purge_zero_frame in HB. cbn [p_with p_heap p_species p_orgs p_next_key] in HB.
  destruct HB as [HrB [HoB [HnB [HndB HspB]]]]. specialize (HndB HndA).
  assert (HrB' : heap_rel proj_gs hA (p_heap p2)) by exact (heap_rel_weaken_e _ _ (heap_rel_weaken_be _ _ HrB)).
  assert (HmB : members_ok (p_heap p2) (p_species p2)).
  { intros s' k Hin Hk. destruct (HspB s' Hin) as [_ [s [Hs E]]]. unfold sp_shape in E. injection E as Eid Eo.
    rewrite Eo in Hk. destruct (HmA s k Hs Hk) as [x [Hx Esp]].
    destruct (heap_rel_gs_fwd _ _ _ _ HrB' Hx) as [x' [Hx' [_ Es]]]. exists x'. split; [exact Hx'|congruence]. }
  unfold purge_organisms in HF. apply purge_organisms_loop_frame in HF.
  destruct HF as [Hh6 [Hn6 [Hf6 Ho6]]].
  assert (Hm5 : members_ok (p_heap p5) (p_species p5)) by exact (members_ok_shape _ _ _ _ (heap_rel_weaken_e _ _ Hr5) Hsh5 HmB).
  constructor.
  - unfold ids_nodup. rewrite (purged_ids _ _ _ Hf6), (shape_ids _ _ Hsh5). exact HndB.
  - intros s' k Hin Hk. destruct (Forall2_In_r' _ _ _ _ Hf6 Hin) as [s [Hs [Eid [_ [g [Eo _]]]]]].
    rewrite Eo in Hk. apply filter_incl' in Hk. rewrite Hh6, Eid. exact (Hm5 s k Hs Hk).
  - intros s' k x Hin Hk Hx. destruct (Forall2_In_r' _ _ _ _ Hf6 Hin) as [s [Hs [_ [Ee [g [Eo _]]]]]].
    rewrite Eo in Hk. apply filter_incl' in Hk. rewrite Hh6 in Hx. rewrite Ee. exact (Hq5 s k x Hs Hk Hx).
  - rewrite Hh6. apply (heap_rel_trans _ _ _ _ (heap_rel_weaken _ _ HrA)).
    exact (heap_rel_trans _ _ _ _ HrB' (heap_rel_weaken_e _ _ Hr5)).
  - congruence.
  - intros k Hk. destruct (Ho6 k Hk) as [Hin|[]]. rewrite Ho5, HoB in Hin. exact Hin.
Qed.
