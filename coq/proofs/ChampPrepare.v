(* C10: what prepareForReproduction (adjustFitness, quota counting, delta coding / stolen babies,
   purge of the eliminated organisms) preserves: genomes, species membership, species ids; and
   the bound "reserved super-champion offspring <= quota" it establishes. *)
From NeatModel Require Import Compat.
From NeatModel Require Import Res F64 GoRand Genome Options Insert Dup Mutate Mate Population MonadLemmas WF ChampHeap.
From Coq Require Import Lia Sorting.Permutation.

(* ---------- heaps related field-wise ---------- *)
Definition proj_gss (x : organism) := (o_key x, o_genome x, o_species x, o_super x).
Definition proj_gs (x : organism) := (o_key x, o_genome x, o_species x).

Definition heap_rel {T} (proj : organism -> T) (h h' : list organism) : Prop :=
  forall k, (forall x, hget h k = Ok x -> exists x', hget h' k = Ok x' /\ proj x' = proj x) /\
            (forall x', hget h' k = Ok x' -> exists x, hget h k = Ok x /\ proj x' = proj x).

Lemma heap_rel_refl {T} (proj : organism -> T) h : heap_rel proj h h.
Proof. intros k. split; intros x Hx; exists x; now split. Qed.

Lemma heap_rel_trans {T} (proj : organism -> T) a b c : heap_rel proj a b -> heap_rel proj b c -> heap_rel proj a c.
Proof.
  intros H1 H2 k. destruct (H1 k) as [F1 B1]. destruct (H2 k) as [F2 B2]. split.
  - intros x Hx. destruct (F1 x Hx) as [y [Hy Ey]]. destruct (F2 y Hy) as [z [Hz Ez]]. exists z. split; [exact Hz|congruence].
  - intros z Hz. destruct (B2 z Hz) as [y [Hy Ey]]. destruct (B1 y Hy) as [x [Hx Ex]]. exists x. split; [exact Hx|congruence].
Qed.

Lemma heap_rel_weaken h h' : heap_rel proj_gss h h' -> heap_rel proj_gs h h'.
Proof.
  intros H k. destruct (H k) as [F B]. unfold proj_gss, proj_gs in *. split.
  - intros x Hx. destruct (F x Hx) as [y [Hy E]]. exists y. split; [exact Hy|]. injection E as -> -> -> _. reflexivity.
  - intros y Hy. destruct (B y Hy) as [x [Hx E]]. exists x. split; [exact Hx|]. injection E as -> -> -> _. reflexivity.
Qed.

Lemma heap_rel_hset {T} (proj : organism -> T) h x y :
  hget h (o_key y) = Ok x -> proj y = proj x -> heap_rel proj h (hset h y).
Proof.
  intros Hx E k. rewrite hget_hset. destruct (Z.eqb_spec (o_key y) k) as [<-|_].
  - split.
    + intros x0 H0. rewrite Hx in H0. injection H0 as <-. exists y. now split.
    + intros y0 H0. injection H0 as <-. exists x. now split.
  - split; intros z Hz; exists z; now split.
Qed.

Lemma heap_rel_hsets {T} (proj : organism -> T) l : forall h,
  (forall y, In y l -> exists x, hget h (o_key y) = Ok x /\ proj y = proj x) ->
  heap_rel proj h (hsets h l).
Proof.
  unfold hsets. induction l as [|y l IH]; intros h H; cbn [fold_left]; [apply heap_rel_refl|].
  destruct (H y (or_introl eq_refl)) as [x [Hx E]].
  apply (heap_rel_trans _ _ (hset h y)); [now apply (heap_rel_hset _ _ x)|].
  apply IH. intros y' Hy'. rewrite hget_hset.
  destruct (H y' (or_intror Hy')) as [x' [Hx' E']].
  destruct (Z.eqb_spec (o_key y) (o_key y')) as [Ek|_].
  - exists y. split; [reflexivity|]. rewrite <- Ek, Hx in Hx'. injection Hx' as <-. congruence.
  - exists x'. now split.
Qed.

Lemma heap_rel_gs_fwd h h' k x : heap_rel proj_gs h h' -> hget h k = Ok x ->
  exists x', hget h' k = Ok x' /\ o_genome x' = o_genome x /\ o_species x' = o_species x.
Proof.
  intros H Hx. destruct (H k) as [F _]. destruct (F x Hx) as [x' [Hx' E]]. exists x'. split; [exact Hx'|].
  unfold proj_gs in E. injection E as _ -> ->. now split.
Qed.

Lemma heap_rel_gs_bwd h h' k x' : heap_rel proj_gs h h' -> hget h' k = Ok x' ->
  exists x, hget h k = Ok x /\ o_genome x' = o_genome x /\ o_species x' = o_species x.
Proof.
  intros H Hx. destruct (H k) as [_ B]. destruct (B x' Hx) as [x [Hx0 E]]. exists x. split; [exact Hx0|].
  unfold proj_gs in E. injection E as _ -> ->. now split.
Qed.

Lemma heap_rel_gss_bwd h h' k x' : heap_rel proj_gss h h' -> hget h' k = Ok x' ->
  exists x, hget h k = Ok x /\ o_super x' = o_super x.
Proof.
  intros H Hx. destruct (H k) as [_ B]. destruct (B x' Hx) as [x [Hx0 E]]. exists x. split; [exact Hx0|].
  unfold proj_gss in E. now injection E.
Qed.

(* ---------- species lists: ids and member lists ---------- *)
Definition sp_shape (s : species) := (sp_id s, sp_orgs s).

Definition members_ok (h : list organism) (sps : list species) : Prop :=
  forall s k, In s sps -> In k (sp_orgs s) -> exists x, hget h k = Ok x /\ o_species x = sp_id s.

Definition ids_nodup (sps : list species) : Prop := NoDup (map sp_id sps).

Lemma shape_ids sps sps' : map sp_shape sps' = map sp_shape sps -> map sp_id sps' = map sp_id sps.
Proof.
  intros H. assert (E : forall l, map sp_id l = map fst (map sp_shape l)).
  { intros l. rewrite map_map. reflexivity. }
  now rewrite !E, H.
Qed.

Lemma shape_in sps sps' s' : map sp_shape sps' = map sp_shape sps -> In s' sps' ->
  exists s, In s sps /\ sp_id s = sp_id s' /\ sp_orgs s = sp_orgs s'.
Proof.
  intros H Hin. apply (in_map sp_shape) in Hin. rewrite H in Hin. apply in_map_iff in Hin.
  destruct Hin as [s [E Hs]]. exists s. split; [exact Hs|]. unfold sp_shape in E. now injection E.
Qed.

Lemma members_ok_shape h h' sps sps' :
  heap_rel proj_gs h h' -> map sp_shape sps' = map sp_shape sps -> members_ok h sps -> members_ok h' sps'.
Proof.
  intros Hh Hs Hm s' k Hin Hk. destruct (shape_in _ _ _ Hs Hin) as [s [Hs0 [Eid Eorgs]]].
  rewrite <- Eorgs in Hk. destruct (Hm s k Hs0 Hk) as [x [Hx Esp]].
  destruct (heap_rel_gs_fwd _ _ _ _ Hh Hx) as [x' [Hx' [_ Es]]]. exists x'. split; [exact Hx'|congruence].
Qed.

Lemma sp_find_In l id s : sp_find l id = Some s -> In s l /\ sp_id s = id.
Proof.
  induction l as [|x l IH]; cbn [sp_find]; [discriminate|].
  destruct (Z.eqb_spec (sp_id x) id) as [E|_].
  - intros H. injection H as <-. split; [now left|exact E].
  - intros H. destruct (IH H). split; [now right|assumption].
Qed.

Lemma sp_set_shape l id f : (forall t, sp_shape (f t) = sp_shape t) -> map sp_shape (sp_set l id f) = map sp_shape l.
Proof.
  intros Hf. unfold sp_set. rewrite map_map. apply map_ext. intros s. destruct (Z.eqb _ _); [apply Hf|reflexivity].
Qed.

Lemma sp_set_In l id f s' : In s' (sp_set l id f) ->
  exists s, In s l /\ ((sp_id s = id /\ s' = f s) \/ (sp_id s <> id /\ s' = s)).
Proof.
  unfold sp_set. intros H. apply in_map_iff in H. destruct H as [s [E Hs]]. exists s. split; [exact Hs|].
  destruct (Z.eqb_spec (sp_id s) id); [left|right]; now split.
Qed.

(* two members of species of one list with the same key are in species of the same id *)
Lemma members_same_species h sps s1 s2 k :
  members_ok h sps -> In s1 sps -> In s2 sps -> In k (sp_orgs s1) -> In k (sp_orgs s2) -> sp_id s1 = sp_id s2.
Proof.
  intros Hm H1 H2 K1 K2. destruct (Hm s1 k H1 K1) as [x [Hx E1]]. destruct (Hm s2 k H2 K2) as [y [Hy E2]].
  rewrite Hx in Hy. injection Hy as <-. congruence.
Qed.

Lemma ids_nodup_eq sps s1 s2 : ids_nodup sps -> In s1 sps -> In s2 sps -> sp_id s1 = sp_id s2 -> s1 = s2.
Proof.
  unfold ids_nodup. induction sps as [|x l IH]; intros Hnd H1 H2 E; [destruct H1|].
  cbn [map] in Hnd. inversion Hnd as [|? ? Hnot Hnd']; subst.
  destruct H1 as [<-|H1], H2 as [<-|H2]; try reflexivity.
  - exfalso. apply Hnot. rewrite E. now apply in_map.
  - exfalso. apply Hnot. rewrite <- E. now apply in_map.
  - now apply IH.
Qed.

(* ---------- sort_desc is a permutation ---------- *)
Lemma ins_rev_perm {A} (lt : A -> A -> bool) x rp : Permutation (ins_rev lt x rp) (x :: rp).
Proof.
  induction rp as [|y r IH]; cbn [ins_rev]; [apply Permutation_refl|].
  destruct (lt y x); [|apply Permutation_refl].
  apply (Permutation_trans (l' := y :: x :: r)); [now apply perm_skip|apply perm_swap].
Qed.

Lemma sort_desc_perm {A} (lt : A -> A -> bool) l : Permutation (sort_desc lt l) l.
Proof.
  unfold sort_desc.
  assert (H : forall acc, Permutation (fold_left (fun rp x => ins_rev lt x rp) l acc) (l ++ acc)).
  { induction l as [|x l IH]; intros acc; cbn [fold_left app]; [apply Permutation_refl|].
    apply (Permutation_trans (IH _)).
    apply (Permutation_trans (l' := l ++ x :: acc)).
    - apply Permutation_app_head. apply ins_rev_perm.
    - apply Permutation_sym. apply Permutation_middle. }
  apply (Permutation_trans (l' := fold_left (fun rp x => ins_rev lt x rp) l [])).
  - apply Permutation_sym. apply Permutation_rev.
  - specialize (H []). now rewrite app_nil_r in H.
Qed.
