(* C13 for the fast solver (model/Fast.v), any connection structure.

   [feqv s1 s2]: equal neuronSignals; neuronSignalsBeingProcessed equal from index sensorNeuronCount on
   (below it the array is written but never read); lastActivation equal below sensorNeuronCount (never
   written); activated / inActivation / the rest of lastActivation are ignored: RecursiveSteps
   re-initialises them before reading them.  Every operation maps feqv states to feqv states with equal
   results and outputs; Flush maps every reachable state to one that is feqv to the initial state (the bias
   signals 1.0 at the indices below biasNeuronCount are invariant). *)
From NeatModel Require Import Res Net Fast SolverUtil.
From Coq Require Import Arith Lia.
Open Scope nat_scope.

Section FlushFast.
Variable F : Type.
Variable NF : num F.
Variable act : Z -> F -> res F.
Variable fn : fnet F.
Hypothesis sensor_le_total : f_sensor fn <= f_total fn.

Notation fstate := (fstate F).

Definition rsig (P : nat -> Prop) (s1 s2 : fstate) : Prop :=
  fs_sig s1 = fs_sig s2 /\ length (fs_bp s1) = length (fs_bp s2) /\
  forall j, P j -> bpF NF s1 j = bpF NF s2 j.

Definition rstrong (s1 s2 : fstate) : Prop :=
  fs_done s1 = fs_done s2 /\ fs_inact s1 = fs_inact s2 /\ fs_last s1 = fs_last s2.

Definition rweak (s1 s2 : fstate) : Prop :=
  forall j, j < f_sensor fn -> getF NF (fs_last s1) j = getF NF (fs_last s2) j.

Definition from_sensor (j : nat) : Prop := f_sensor fn <= j.

Definition feqv (s1 s2 : fstate) : Prop := rsig from_sensor s1 s2 /\ rweak s1 s2.

Definition flens (s : fstate) : nat * nat * nat * nat * nat :=
  (length (fs_sig s), length (fs_bp s), length (fs_done s), length (fs_inact s), length (fs_last s)).

Definition rec_fields (s : fstate) := (fs_done s, fs_inact s, fs_last s).

Lemma rsig_weaken (P Q : nat -> Prop) s1 s2 : (forall j, Q j -> P j) -> rsig P s1 s2 -> rsig Q s1 s2.
Proof. intros H (H1 & H2 & H3). repeat split; auto. Qed.

Lemma rstrong_weak s1 s2 : rstrong s1 s2 -> rweak s1 s2.
Proof. intros (_ & _ & H) j _. now rewrite H. Qed.

(* ----- primitives ----- *)
Lemma set_bp_rsig_in P s1 s2 i v1 v2 :
  rsig P s1 s2 -> (P i -> v1 = v2) -> rsig P (set_bp s1 i v1) (set_bp s2 i v2).
Proof.
  intros (H1 & H2 & H3) Hv. unfold set_bp, rsig, bpF, getF. simpl. repeat split; auto.
  - now rewrite !upd_length.
  - intros j Hj. rewrite !nth_upd, H2.
    destruct ((i =? j) && (i <? length (fs_bp s2))) eqn:E.
    + apply andb_true_iff in E. destruct E as [E _]. apply Nat.eqb_eq in E. subst j. auto.
    + apply H3. exact Hj.
Qed.

Lemma set_bp_rsig_new P s1 s2 i v :
  rsig P s1 s2 -> rsig (fun j => P j \/ j = i) (set_bp s1 i v) (set_bp s2 i v).
Proof.
  intros (H1 & H2 & H3). unfold set_bp, rsig, bpF, getF. simpl. repeat split; auto.
  - now rewrite !upd_length.
  - intros j Hj. apply nth_upd_agree_or; [exact H2|].
    destruct Hj as [Hj|Hj]; [right; apply H3; exact Hj|left; exact Hj].
Qed.

Lemma set_sig_rsig P s1 s2 i v : rsig P s1 s2 -> rsig P (set_sig s1 i v) (set_sig s2 i v).
Proof. intros (H1 & H2 & H3). unfold set_sig, rsig. simpl. repeat split; auto. now rewrite H1. Qed.

Lemma sigF_rsig P s1 s2 j : rsig P s1 s2 -> sigF NF s1 j = sigF NF s2 j.
Proof. intros (H1 & _). unfold sigF. now rewrite H1. Qed.

(* ----- forwardStep ----- *)
Lemma conn_step_rsig P s1 s2 c : rsig P s1 s2 -> rsig P (conn_step NF s1 c) (conn_step NF s2 c).
Proof.
  intros H. unfold conn_step. apply set_bp_rsig_in; [exact H|].
  intros Hp. rewrite (sigF_rsig P s1 s2 _ H). destruct H as (_ & _ & H3). now rewrite (H3 _ Hp).
Qed.

Lemma fold_conn_step_rsig P cs : forall s1 s2,
  rsig P s1 s2 -> rsig P (fold_left (conn_step NF) cs s1) (fold_left (conn_step NF) cs s2).
Proof.
  induction cs as [|c rest IH]; intros s1 s2 H; simpl; [exact H|]. apply IH. apply conn_step_rsig. exact H.
Qed.

Lemma fs_activate_rsig P is : forall s1 s2,
  rsig P s1 s2 -> (forall i, In i is -> P i) ->
  rsig P (fst (fs_activate NF act fn is s1)) (fst (fs_activate NF act fn is s2)) /\
  snd (fs_activate NF act fn is s1) = snd (fs_activate NF act fn is s2).
Proof.
  induction is as [|i rest IH]; intros s1 s2 H HP; simpl; [auto|].
  assert (E : bpF NF s1 i = bpF NF s2 i) by (apply H; apply HP; simpl; auto).
  rewrite E.
  destruct (act (nth i (f_acts fn) 0%Z) _); simpl;
    try (split; [apply set_bp_rsig_in; auto|reflexivity]).
  apply IH; [apply set_bp_rsig_in; auto|]. intros j Hj. apply HP. simpl. auto.
Qed.

Lemma commit_one_rsig P s1 s2 i : rsig P s1 s2 -> P i -> rsig P (commit_one NF s1 i) (commit_one NF s2 i).
Proof.
  intros H Hi. unfold commit_one.
  assert (E : bpF NF s1 i = bpF NF s2 i) by (apply H; exact Hi). rewrite E.
  apply set_bp_rsig_in; [|reflexivity]. apply set_sig_rsig. exact H.
Qed.

Lemma fs_commit_rsig P is : forall s1 s2,
  rsig P s1 s2 -> (forall i, In i is -> P i) -> rsig P (fs_commit NF is s1) (fs_commit NF is s2).
Proof.
  induction is as [|i rest IH]; intros s1 s2 H HP; simpl; [exact H|].
  apply IH; [apply commit_one_rsig; [exact H|apply HP; simpl; auto]|]. intros j Hj. apply HP. simpl. auto.
Qed.

Lemma fs_commit_delta_rsig P d is : forall r s1 s2,
  rsig P s1 s2 -> (forall i, In i is -> P i) ->
  rsig P (fst (fs_commit_delta NF d is r s1)) (fst (fs_commit_delta NF d is r s2)) /\
  snd (fs_commit_delta NF d is r s1) = snd (fs_commit_delta NF d is r s2).
Proof.
  induction is as [|i rest IH]; intros r s1 s2 H HP; simpl; [auto|].
  assert (E : bpF NF s1 i = bpF NF s2 i) by (apply H; apply HP; simpl; auto).
  rewrite E, (sigF_rsig P s1 s2 i H).
  apply IH; [apply commit_one_rsig; [exact H|apply HP; simpl; auto]|]. intros j Hj. apply HP. simpl. auto.
Qed.

Lemma neuron_range_from_sensor i : In i (neuron_range fn) -> from_sensor i.
Proof. unfold neuron_range, from_sensor. intros H. apply in_seq in H. lia. Qed.

Lemma forward_step_rsig P d s1 s2 :
  rsig P s1 s2 -> (forall j, from_sensor j -> P j) ->
  rsig P (fst (forward_step NF act fn d s1)) (fst (forward_step NF act fn d s2)) /\
  snd (forward_step NF act fn d s1) = snd (forward_step NF act fn d s2).
Proof.
  intros H HP. unfold forward_step.
  assert (HR : forall i, In i (neuron_range fn) -> P i) by (intros i Hi; apply HP, neuron_range_from_sensor, Hi).
  pose proof (fold_conn_step_rsig P (f_conns fn) s1 s2 H) as H1.
  destruct (fs_activate_rsig P (neuron_range fn) _ _ H1 HR) as [H2 E2].
  destruct (fs_activate NF act fn (neuron_range fn) (fold_left (conn_step NF) (f_conns fn) s1)) as [a1 r1].
  destruct (fs_activate NF act fn (neuron_range fn) (fold_left (conn_step NF) (f_conns fn) s2)) as [a2 r2].
  simpl in H2, E2. subst r2.
  destruct r1; simpl; auto.
  destruct (fleb NF d (fzero NF)); simpl.
  - split; [|reflexivity]. apply fs_commit_rsig; assumption.
  - destruct (fs_commit_delta_rsig P d (neuron_range fn) true a1 a2 H2 HR) as [H3 E3].
    destruct (fs_commit_delta NF d (neuron_range fn) true a1) as [c1 q1].
    destruct (fs_commit_delta NF d (neuron_range fn) true a2) as [c2 q2].
    simpl in *. subst q2. auto.
Qed.

(* the forward machinery does not touch activated / inActivation / lastActivation *)
Lemma rec_fields_fold_conn cs : forall s, rec_fields (fold_left (conn_step NF) cs s) = rec_fields s.
Proof. induction cs as [|c rest IH]; intros s; simpl; [reflexivity|]. now rewrite IH. Qed.
Lemma rec_fields_fs_activate is : forall s, rec_fields (fst (fs_activate NF act fn is s)) = rec_fields s.
Proof.
  induction is as [|i rest IH]; intros s; simpl; [reflexivity|].
  destruct (act _ _); simpl; try reflexivity. now rewrite IH.
Qed.
Lemma rec_fields_fs_commit is : forall s, rec_fields (fs_commit NF is s) = rec_fields s.
Proof. induction is as [|i rest IH]; intros s; simpl; [reflexivity|]. now rewrite IH. Qed.
Lemma rec_fields_fs_commit_delta d is : forall r s, rec_fields (fst (fs_commit_delta NF d is r s)) = rec_fields s.
Proof. induction is as [|i rest IH]; intros r s; simpl; [reflexivity|]. now rewrite IH. Qed.

Lemma rec_fields_forward_step d s : rec_fields (fst (forward_step NF act fn d s)) = rec_fields s.
Proof.
  unfold forward_step.
  pose proof (rec_fields_fs_activate (neuron_range fn) (fold_left (conn_step NF) (f_conns fn) s)) as H.
  rewrite rec_fields_fold_conn in H.
  destruct (fs_activate NF act fn (neuron_range fn) (fold_left (conn_step NF) (f_conns fn) s)) as [a r].
  simpl in H. destruct r; simpl; try exact H.
  destruct (fleb NF d (fzero NF)); simpl.
  - now rewrite rec_fields_fs_commit.
  - pose proof (rec_fields_fs_commit_delta d (neuron_range fn) true a) as H2.
    destruct (fs_commit_delta NF d (neuron_range fn) true a) as [c q]. simpl in *. congruence.
Qed.

Lemma rweak_of_rec_fields s1 s2 t1 t2 :
  rec_fields t1 = rec_fields s1 -> rec_fields t2 = rec_fields s2 -> rweak s1 s2 -> rweak t1 t2.
Proof.
  unfold rec_fields, rweak. intros E1 E2 H j Hj. injection E1 as _ _ E1. injection E2 as _ _ E2.
  rewrite E1, E2. apply H. exact Hj.
Qed.

Lemma forward_step_feqv d s1 s2 :
  feqv s1 s2 ->
  feqv (fst (forward_step NF act fn d s1)) (fst (forward_step NF act fn d s2)) /\
  snd (forward_step NF act fn d s1) = snd (forward_step NF act fn d s2).
Proof.
  intros [H W]. destruct (forward_step_rsig from_sensor d s1 s2 H) as [H1 E1]; [auto|].
  split; [|exact E1]. split; [exact H1|].
  eapply rweak_of_rec_fields; [apply rec_fields_forward_step|apply rec_fields_forward_step|exact W].
Qed.

Lemma ff_loop_feqv it : forall last s1 s2,
  feqv s1 s2 ->
  feqv (fst (ff_loop NF act fn it last s1)) (fst (ff_loop NF act fn it last s2)) /\
  snd (ff_loop NF act fn it last s1) = snd (ff_loop NF act fn it last s2).
Proof.
  induction it as [|it IH]; intros last s1 s2 H; simpl; [auto|].
  destruct (forward_step_feqv (fzero NF) s1 s2 H) as [H1 E1].
  destruct (forward_step NF act fn (fzero NF) s1) as [a1 r1], (forward_step NF act fn (fzero NF) s2) as [a2 r2].
  simpl in *. subst r2. destruct r1; simpl; auto.
Qed.

Lemma relax_loop_feqv it d : forall last s1 s2,
  feqv s1 s2 ->
  feqv (fst (relax_loop NF act fn it d last s1)) (fst (relax_loop NF act fn it d last s2)) /\
  snd (relax_loop NF act fn it d last s1) = snd (relax_loop NF act fn it d last s2).
Proof.
  induction it as [|it IH]; intros last s1 s2 H; simpl; [auto|].
  destruct (forward_step_feqv d s1 s2 H) as [H1 E1].
  destruct (forward_step NF act fn d s1) as [a1 r1], (forward_step NF act fn d s2) as [a2 r2].
  simpl in *. subst r2. destruct r1 as [[|]| | | | |]; simpl; auto.
Qed.

(* ----- LoadSensors, Flush ----- *)
Lemma fold_set_sig_feqv (g : nat -> nat) (v : nat -> F) is : forall s1 s2,
  feqv s1 s2 ->
  feqv (fold_left (fun s i => set_sig s (g i) (v i)) is s1) (fold_left (fun s i => set_sig s (g i) (v i)) is s2).
Proof.
  induction is as [|i rest IH]; intros s1 s2 H; simpl; [exact H|].
  apply IH. destruct H as [H W]. split; [apply set_sig_rsig; exact H|exact W].
Qed.

Lemma fast_load_feqv x s1 s2 :
  feqv s1 s2 ->
  feqv (fst (fast_load NF fn x s1)) (fst (fast_load NF fn x s2)) /\
  snd (fast_load NF fn x s1) = snd (fast_load NF fn x s2).
Proof.
  intros H. unfold fast_load. destruct (length x =? f_in fn); simpl; auto.
  split; [|reflexivity]. apply (fold_set_sig_feqv (fun i => f_bias fn + i) (fun i => getF NF x i)). exact H.
Qed.

Lemma rec_fields_eq (s t : fstate) :
  rec_fields t = rec_fields s -> fs_done t = fs_done s /\ fs_inact t = fs_inact s /\ fs_last t = fs_last s.
Proof. unfold rec_fields. intros H. injection H. auto. Qed.

(* what Flush leaves behind: the signals from biasNeuronCount on and the whole scratch buffer are zero *)
Lemma fold_flush_sig is : forall s : fstate,
  fs_sig (fold_left (flush_sig_one NF) is s) = fold_left (fun l i => upd i (fzero NF) l) is (fs_sig s) /\
  fs_bp (fold_left (flush_sig_one NF) is s) = fs_bp s /\
  rec_fields (fold_left (flush_sig_one NF) is s) = rec_fields s.
Proof. induction is as [|i rest IH]; intros s; simpl; [auto|]. apply (IH (flush_sig_one NF s i)). Qed.

Lemma fold_flush_bp is : forall s : fstate,
  fs_bp (fold_left (flush_bp_one NF) is s) = fold_left (fun l i => upd i (fzero NF) l) is (fs_bp s) /\
  fs_sig (fold_left (flush_bp_one NF) is s) = fs_sig s /\
  rec_fields (fold_left (flush_bp_one NF) is s) = rec_fields s.
Proof. induction is as [|i rest IH]; intros s; simpl; [auto|]. apply (IH (flush_bp_one NF s i)). Qed.

Lemma fast_flush_fields (s : fstate) :
  fs_sig (fst (fast_flush NF fn s)) =
    fold_left (fun l i => upd i (fzero NF) l) (seq (f_bias fn) (f_total fn - f_bias fn)) (fs_sig s) /\
  fs_bp (fst (fast_flush NF fn s)) = repeat (fzero NF) (length (fs_bp s)) /\
  rec_fields (fst (fast_flush NF fn s)) = rec_fields s.
Proof.
  unfold fast_flush. simpl.
  destruct (fold_flush_sig (seq (f_bias fn) (f_total fn - f_bias fn)) s) as (A1 & A2 & A3).
  set (s1 := fold_left (flush_sig_one NF) (seq (f_bias fn) (f_total fn - f_bias fn)) s) in *.
  destruct (fold_flush_bp (seq 0 (length (fs_bp s1))) s1) as (B1 & B2 & B3).
  split; [congruence|]. split; [|congruence].
  rewrite B1, upd_all by reflexivity. now rewrite A2.
Qed.

Lemma fast_flush_feqv s1 s2 :
  feqv s1 s2 -> feqv (fst (fast_flush NF fn s1)) (fst (fast_flush NF fn s2)).
Proof.
  intros [(H1 & H2 & H3) W].
  destruct (fast_flush_fields s1) as (A1 & A2 & A3). destruct (fast_flush_fields s2) as (B1 & B2 & B3).
  split.
  - unfold rsig, bpF. rewrite A1, A2, B1, B2, H1, H2. repeat split; reflexivity.
  - eapply rweak_of_rec_fields; [exact A3|exact B3|exact W].
Qed.

(* ----- RecursiveSteps ----- *)
(* after the initialisation loop activated / inActivation / lastActivation are equal *)
Definition rinit (I : nat -> Prop) (s1 s2 : fstate) : Prop :=
  length (fs_done s1) = length (fs_done s2) /\ length (fs_inact s1) = length (fs_inact s2) /\
  length (fs_last s1) = length (fs_last s2) /\
  (forall j, I j -> getB (fs_done s1) j = getB (fs_done s2) j) /\
  (forall j, I j -> getB (fs_inact s1) j = getB (fs_inact s2) j) /\
  (forall j, I j \/ j < f_sensor fn -> getF NF (fs_last s1) j = getF NF (fs_last s2) j).

Lemma rec_init_one_rel P I s1 s2 i :
  rsig P s1 s2 -> rinit I s1 s2 ->
  rsig P (rec_init_one NF fn s1 i) (rec_init_one NF fn s2 i) /\
  rinit (fun j => I j \/ j = i) (rec_init_one NF fn s1 i) (rec_init_one NF fn s2 i).
Proof.
  intros H (L1 & L2 & L3 & D & A & L). unfold rec_init_one.
  assert (ES : forall j, sigF NF (set_inact (set_done s1 i (i <? f_sensor fn)) i false) j =
                         sigF NF (set_inact (set_done s2 i (i <? f_sensor fn)) i false) j).
  { intros j. unfold sigF, set_inact, set_done. simpl. destruct H as (H1 & _). now rewrite H1. }
  destruct (f_sensor fn <=? i) eqn:E.
  - rewrite ES. split.
    + destruct H as (H1 & H2 & H3). unfold rsig, set_last, set_inact, set_done, bpF. simpl. auto.
    + unfold rinit, set_last, set_inact, set_done, getB, getF. simpl. rewrite !upd_length.
      repeat split; auto.
      * intros j Hj. apply nth_upd_agree_or; [exact L1|]. destruct Hj as [Hj|Hj]; [right; apply D; exact Hj|left; exact Hj].
      * intros j Hj. apply nth_upd_agree_or; [exact L2|]. destruct Hj as [Hj|Hj]; [right; apply A; exact Hj|left; exact Hj].
      * intros j Hj. apply nth_upd_agree_or; [exact L3|].
        destruct Hj as [[Hj|Hj]|Hj]; [right; apply L; auto|left; exact Hj|right; apply L; auto].
  - split.
    + destruct H as (H1 & H2 & H3). unfold rsig, set_inact, set_done, bpF. simpl. auto.
    + unfold rinit, set_inact, set_done, getB. simpl. rewrite !upd_length.
      repeat split; auto.
      * intros j Hj. apply nth_upd_agree_or; [exact L1|]. destruct Hj as [Hj|Hj]; [right; apply D; exact Hj|left; exact Hj].
      * intros j Hj. apply nth_upd_agree_or; [exact L2|]. destruct Hj as [Hj|Hj]; [right; apply A; exact Hj|left; exact Hj].
      * intros j Hj. apply L. apply Nat.leb_gt in E. destruct Hj as [[Hj|Hj]|Hj]; auto. subst j. auto.
Qed.

Lemma fold_rec_init_rel P is : forall I s1 s2,
  rsig P s1 s2 -> rinit I s1 s2 ->
  rsig P (fold_left (rec_init_one NF fn) is s1) (fold_left (rec_init_one NF fn) is s2) /\
  rinit (fun j => I j \/ In j is) (fold_left (rec_init_one NF fn) is s1) (fold_left (rec_init_one NF fn) is s2).
Proof.
  induction is as [|i rest IH]; intros I s1 s2 H R; simpl.
  - split; [exact H|]. destruct R as (L1 & L2 & L3 & D & A & L). repeat split; auto.
    + intros j [Hj|[]]. apply D. exact Hj.
    + intros j [Hj|[]]. apply A. exact Hj.
    + intros j [[Hj|[]]|Hj]; apply L; auto.
  - destruct (rec_init_one_rel P I s1 s2 i H R) as [H1 R1].
    destruct (IH _ _ _ H1 R1) as [H2 R2]. split; [exact H2|].
    destruct R2 as (L1 & L2 & L3 & D & A & L). repeat split; auto.
    + intros j Hj. apply D. destruct Hj as [Hj|[Hj|Hj]]; auto.
    + intros j Hj. apply A. destruct Hj as [Hj|[Hj|Hj]]; auto.
    + intros j Hj. apply L. destruct Hj as [[Hj|[Hj|Hj]]|Hj]; auto.
Qed.

Lemma flens_rec_init_one s i : flens (rec_init_one NF fn s i) = flens s.
Proof.
  unfold rec_init_one, flens, set_last, set_inact, set_done. destruct (f_sensor fn <=? i); simpl;
    rewrite ?upd_length; reflexivity.
Qed.
Lemma flens_fold_rec_init is : forall s, flens (fold_left (rec_init_one NF fn) is s) = flens s.
Proof. induction is as [|i rest IH]; intros s; simpl; [reflexivity|]. rewrite IH. apply flens_rec_init_one. Qed.

Definition full_lens : nat * nat * nat * nat * nat :=
  (f_total fn, f_total fn, f_total fn, f_total fn, f_total fn).

Lemma rec_init_strong P s1 s2 :
  rsig P s1 s2 -> rweak s1 s2 -> flens s1 = full_lens -> flens s2 = full_lens ->
  rsig P (rec_init NF fn s1) (rec_init NF fn s2) /\ rstrong (rec_init NF fn s1) (rec_init NF fn s2).
Proof.
  intros H W L1 L2. unfold rec_init.
  assert (R0 : rinit (fun _ => False) s1 s2).
  { unfold flens, full_lens in L1, L2. injection L1 as ? ? ? ? ?. injection L2 as ? ? ? ? ?.
    unfold rinit. repeat split; try congruence; try (now intros j []).
    intros j [[]|Hj]. apply W. exact Hj. }
  destruct (fold_rec_init_rel P (seq 0 (f_total fn)) _ s1 s2 H R0) as [H1 R1].
  split; [exact H1|].
  pose proof (flens_fold_rec_init (seq 0 (f_total fn)) s1) as F1.
  pose proof (flens_fold_rec_init (seq 0 (f_total fn)) s2) as F2.
  rewrite L1 in F1. rewrite L2 in F2. unfold flens, full_lens in F1, F2.
  injection F1 as ? ? ? ? ?. injection F2 as ? ? ? ? ?.
  destruct R1 as (_ & _ & _ & D & A & L).
  unfold rstrong. repeat split.
  - apply nth_ext with (d := false) (d' := false); [congruence|].
    intros j Hj. apply D. right. apply in_seq. lia.
  - apply nth_ext with (d := false) (d' := false); [congruence|].
    intros j Hj. apply A. right. apply in_seq. lia.
  - apply nth_ext with (d := fzero NF) (d' := fzero NF); [congruence|].
    intros j Hj. apply L. left. right. apply in_seq. lia.
Qed.

(* the recursion: related states stay related; the set on which beingProcessed agrees only grows *)
Definition call_spec (call : fstate -> nat -> fstate * res bool) : Prop :=
  forall P s1 s2 a, rsig P s1 s2 -> rstrong s1 s2 ->
    exists P' : nat -> Prop, (forall j, P j -> P' j) /\
               rsig P' (fst (call s1 a)) (fst (call s2 a)) /\ rstrong (fst (call s1 a)) (fst (call s2 a)) /\
               snd (call s1 a) = snd (call s2 a).

Lemma set_bp_rstrong s1 s2 i v1 v2 : rstrong s1 s2 -> rstrong (set_bp s1 i v1) (set_bp s2 i v2).
Proof. intros H. exact H. Qed.
Lemma set_sig_rstrong s1 s2 i v1 v2 : rstrong s1 s2 -> rstrong (set_sig s1 i v1) (set_sig s2 i v2).
Proof. intros H. exact H. Qed.
Lemma set_inact_rstrong s1 s2 i v : rstrong s1 s2 -> rstrong (set_inact s1 i v) (set_inact s2 i v).
Proof. intros (H1 & H2 & H3). unfold rstrong, set_inact. simpl. now rewrite H2. Qed.
Lemma set_done_rstrong s1 s2 i v : rstrong s1 s2 -> rstrong (set_done s1 i v) (set_done s2 i v).
Proof. intros (H1 & H2 & H3). unfold rstrong, set_done. simpl. now rewrite H1. Qed.
Lemma set_inact_rsig P s1 s2 i v : rsig P s1 s2 -> rsig P (set_inact s1 i v) (set_inact s2 i v).
Proof. intros H. exact H. Qed.
Lemma set_done_rsig P s1 s2 i v : rsig P s1 s2 -> rsig P (set_done s1 i v) (set_done s2 i v).
Proof. intros H. exact H. Qed.

Lemma rec_loop_rel call cur (Hcall : call_spec call) adjs : forall P s1 s2,
  rsig P s1 s2 -> rstrong s1 s2 -> P cur ->
  exists P' : nat -> Prop, (forall j, P j -> P' j) /\
    rsig P' (fst (rec_loop NF fn call cur adjs s1)) (fst (rec_loop NF fn call cur adjs s2)) /\
    rstrong (fst (rec_loop NF fn call cur adjs s1)) (fst (rec_loop NF fn call cur adjs s2)) /\
    snd (rec_loop NF fn call cur adjs s1) = snd (rec_loop NF fn call cur adjs s2).
Proof.
  induction adjs as [|a rest IH]; intros P s1 s2 H S Hc; simpl.
  - exists P. auto.
  - assert (Ei : fs_inact s1 = fs_inact s2) by apply S.
    assert (Ed : fs_done s1 = fs_done s2) by apply S.
    assert (El : fs_last s1 = fs_last s2) by apply S.
    rewrite Ei, Ed. destruct (getB (fs_inact s2) a).
    + apply IH; [|exact S|exact Hc].
      apply set_bp_rsig_in; [exact H|]. intros _. rewrite El.
      destruct H as (_ & _ & H3). now rewrite (H3 _ Hc).
    + destruct (negb (getB (fs_done s2) a)).
      * destruct (Hcall P s1 s2 a H S) as (P1 & HP1 & H1 & S1 & E1).
        destruct (call s1 a) as [c1 r1], (call s2 a) as [c2 r2]. simpl in H1, S1, E1. subst r2.
        destruct r1 as [[|]| | | | |]; simpl; try solve [exists P1; auto].
        assert (Hpre : rsig P1 (set_bp c1 cur (fadd NF (bpF NF c1 cur) (fmul NF (sigF NF c1 a) (adj_w NF fn a cur))))
                     (set_bp c2 cur (fadd NF (bpF NF c2 cur) (fmul NF (sigF NF c2 a) (adj_w NF fn a cur))))).
        { apply set_bp_rsig_in; [exact H1|]. intros _. rewrite (sigF_rsig P1 c1 c2 a H1).
          destruct H1 as (_ & _ & H3). now rewrite (H3 _ (HP1 _ Hc)). }
        destruct (IH P1 _ _ Hpre S1 (HP1 _ Hc)) as (P2 & HP2 & R).
        exists P2. split; [|exact R]. auto.
      * apply IH; [|exact S|exact Hc].
        apply set_bp_rsig_in; [exact H|]. intros _. rewrite (sigF_rsig P s1 s2 a H).
        destruct H as (_ & _ & H3). now rewrite (H3 _ Hc).
Qed.

Lemma rec_node_rel fuel : call_spec (rec_node NF act fn fuel).
Proof.
  induction fuel as [|f IH]; intros P s1 s2 cur H S; simpl.
  - exists P. auto.
  - assert (Ed : fs_done s1 = fs_done s2) by apply S. rewrite Ed.
    destruct (getB (fs_done s2) cur).
    + exists P. simpl. split; [auto|]. split; [exact H|]. split; [apply set_inact_rstrong; exact S|reflexivity].
    + set (t1 := set_bp (set_inact s1 cur true) cur (fzero NF)).
      set (t2 := set_bp (set_inact s2 cur true) cur (fzero NF)).
      assert (Ht : rsig (fun j => P j \/ j = cur) t1 t2) by (apply set_bp_rsig_new; exact H).
      assert (St : rstrong t1 t2) by (apply set_inact_rstrong; exact S).
      destruct (rec_loop_rel (rec_node NF act fn f) cur IH (radj fn cur) _ t1 t2 Ht St) as (P1 & HP1 & H1 & S1 & E1);
        [right; reflexivity|].
      destruct (rec_loop NF fn (rec_node NF act fn f) cur (radj fn cur) t1) as [c1 r1].
      destruct (rec_loop NF fn (rec_node NF act fn f) cur (radj fn cur) t2) as [c2 r2].
      simpl in H1, S1, E1. subst r2.
      assert (Pc : P1 cur) by (apply HP1; right; reflexivity).
      exists P1. split; [intros j Hj; apply HP1; left; exact Hj|].
      destruct r1; simpl; auto.
      assert (Ebp : bpF NF c1 cur = bpF NF c2 cur) by (apply H1; exact Pc).
      set (d1 := if 0 <? f_bias fn then set_bp c1 cur (fadd NF (bpF NF c1 cur) (getF NF (f_biases fn) cur)) else c1).
      set (d2 := if 0 <? f_bias fn then set_bp c2 cur (fadd NF (bpF NF c2 cur) (getF NF (f_biases fn) cur)) else c2).
      assert (Hd : rsig P1 d1 d2).
      { unfold d1, d2. destruct (0 <? f_bias fn); [|exact H1]. apply set_bp_rsig_in; [exact H1|]. intros _. now rewrite Ebp. }
      assert (Sd : rstrong d1 d2) by (unfold d1, d2; destruct (0 <? f_bias fn); exact S1).
      set (e1 := set_inact (set_done d1 cur true) cur false).
      set (e2 := set_inact (set_done d2 cur true) cur false).
      assert (He : rsig P1 e1 e2) by exact Hd.
      assert (Se : rstrong e1 e2) by (apply set_inact_rstrong, set_done_rstrong; exact Sd).
      assert (Ee : bpF NF e1 cur = bpF NF e2 cur) by (apply He; exact Pc).
      rewrite Ee.
      destruct (act (nth cur (f_acts fn) 0%Z) (bpF NF e2 cur)); simpl;
        (split; [apply set_bp_rsig_in; [apply set_sig_rsig; exact He|intros _; reflexivity]|split; [exact Se|reflexivity]]).
Qed.

Opaque rec_node.
Lemma rec_outputs_rel is : forall P last s1 s2,
  rsig P s1 s2 -> rstrong s1 s2 ->
  exists P' : nat -> Prop, (forall j, P j -> P' j) /\
    rsig P' (fst (rec_outputs NF act fn is last s1)) (fst (rec_outputs NF act fn is last s2)) /\
    rstrong (fst (rec_outputs NF act fn is last s1)) (fst (rec_outputs NF act fn is last s2)) /\
    snd (rec_outputs NF act fn is last s1) = snd (rec_outputs NF act fn is last s2).
Proof.
  induction is as [|i rest IH]; intros P last s1 s2 H St; simpl.
  - exists P. auto.
  - destruct (rec_node_rel (S (f_total fn)) P s1 s2 (f_sensor fn + i) H St) as (P1 & HP1 & H1 & S1 & E1).
    destruct (rec_node NF act fn (S (f_total fn)) s1 (f_sensor fn + i)) as [c1 r1].
    destruct (rec_node NF act fn (S (f_total fn)) s2 (f_sensor fn + i)) as [c2 r2].
    simpl in H1, S1, E1. subst r2.
    destruct r1 as [[|]| | | | |]; simpl; try solve [exists P1; auto].
    destruct (IH P1 true c1 c2 H1 S1) as (P2 & HP2 & R). exists P2. split; [|exact R]. auto.
Qed.

Lemma fast_recursive_feqv s1 s2 :
  feqv s1 s2 -> flens s1 = full_lens -> flens s2 = full_lens ->
  feqv (fst (fast_recursive NF act fn s1)) (fst (fast_recursive NF act fn s2)) /\
  snd (fast_recursive NF act fn s1) = snd (fast_recursive NF act fn s2).
Proof.
  intros [H W] L1 L2. unfold fast_recursive.
  destruct (rec_init_strong from_sensor s1 s2 H W L1 L2) as [H1 S1].
  destruct (rec_outputs_rel (seq 0 (f_out fn)) from_sensor false _ _ H1 S1) as (P' & HP' & H2 & S2 & E2).
  split; [|exact E2]. split.
  - eapply rsig_weaken; [|exact H2]. exact HP'.
  - apply rstrong_weak. exact S2.
Qed.

Transparent rec_node.
(* ----- lengths never change ----- *)
Ltac flens_tac := unfold flens; simpl; rewrite ?upd_length; reflexivity.

Lemma flens_fold_conn cs : forall s, flens (fold_left (conn_step NF) cs s) = flens s.
Proof. induction cs as [|c rest IH]; intros s; simpl; [reflexivity|]. rewrite IH. unfold conn_step, set_bp. flens_tac. Qed.
Lemma flens_fs_activate is : forall s, flens (fst (fs_activate NF act fn is s)) = flens s.
Proof.
  induction is as [|i rest IH]; intros s; simpl; [reflexivity|].
  destruct (act _ _); simpl; try (unfold set_bp; flens_tac). rewrite IH. unfold set_bp. flens_tac.
Qed.
Lemma flens_commit_one s i : flens (commit_one NF s i) = flens s.
Proof. unfold commit_one, set_bp, set_sig. flens_tac. Qed.
Lemma flens_fs_commit is : forall s, flens (fs_commit NF is s) = flens s.
Proof. induction is as [|i rest IH]; intros s; simpl; [reflexivity|]. rewrite IH. apply flens_commit_one. Qed.
Lemma flens_fs_commit_delta d is : forall r s, flens (fst (fs_commit_delta NF d is r s)) = flens s.
Proof. induction is as [|i rest IH]; intros r s; simpl; [reflexivity|]. rewrite IH. apply flens_commit_one. Qed.
Lemma flens_forward_step d s : flens (fst (forward_step NF act fn d s)) = flens s.
Proof.
  unfold forward_step.
  pose proof (flens_fs_activate (neuron_range fn) (fold_left (conn_step NF) (f_conns fn) s)) as H.
  rewrite flens_fold_conn in H.
  destruct (fs_activate NF act fn (neuron_range fn) (fold_left (conn_step NF) (f_conns fn) s)) as [a r].
  simpl in H. destruct r; simpl; try exact H.
  destruct (fleb NF d (fzero NF)); simpl.
  - now rewrite flens_fs_commit.
  - pose proof (flens_fs_commit_delta d (neuron_range fn) true a) as H2.
    destruct (fs_commit_delta NF d (neuron_range fn) true a) as [c q]. simpl in *. congruence.
Qed.
Lemma flens_ff_loop it : forall last s, flens (fst (ff_loop NF act fn it last s)) = flens s.
Proof.
  induction it as [|it IH]; intros last s; simpl; [reflexivity|].
  pose proof (flens_forward_step (fzero NF) s) as H.
  destruct (forward_step NF act fn (fzero NF) s) as [a r]. simpl in H.
  destruct r; simpl; try exact H. rewrite IH. exact H.
Qed.
Lemma flens_relax_loop it d : forall last s, flens (fst (relax_loop NF act fn it d last s)) = flens s.
Proof.
  induction it as [|it IH]; intros last s; simpl; [reflexivity|].
  pose proof (flens_forward_step d s) as H.
  destruct (forward_step NF act fn d s) as [a r]. simpl in H.
  destruct r as [[|]| | | | |]; simpl; try exact H. rewrite IH. exact H.
Qed.
Lemma flens_fast_load x s : flens (fst (fast_load NF fn x s)) = flens s.
Proof.
  unfold fast_load. destruct (length x =? f_in fn); simpl; [|reflexivity].
  generalize (seq 0 (f_in fn)). intros is. revert s.
  induction is as [|i rest IH]; intros s; simpl; [reflexivity|]. rewrite IH. unfold set_sig. flens_tac.
Qed.
Lemma flens_fast_flush s : flens (fst (fast_flush NF fn s)) = flens s.
Proof.
  destruct (fast_flush_fields s) as (A1 & A2 & A3). apply rec_fields_eq in A3. destruct A3 as (D1 & D2 & D3).
  unfold flens. rewrite A1, A2, D1, D2, D3, fold_upd_length, repeat_length. reflexivity.
Qed.

Definition call_lens (call : fstate -> nat -> fstate * res bool) : Prop :=
  forall s a, flens (fst (call s a)) = flens s.

Lemma flens_rec_loop call cur (Hc : call_lens call) adjs : forall s,
  flens (fst (rec_loop NF fn call cur adjs s)) = flens s.
Proof.
  induction adjs as [|a rest IH]; intros s; simpl; [reflexivity|].
  destruct (getB (fs_inact s) a).
  - rewrite IH. unfold set_bp. flens_tac.
  - destruct (negb (getB (fs_done s) a)).
    + pose proof (Hc s a) as H. destruct (call s a) as [c r]. simpl in H.
      destruct r as [[|]| | | | |]; simpl; try exact H. rewrite IH. rewrite <- H. unfold set_bp. flens_tac.
    + rewrite IH. unfold set_bp. flens_tac.
Qed.

Lemma flens_rec_node fuel : call_lens (rec_node NF act fn fuel).
Proof.
  induction fuel as [|f IH]; intros s cur; simpl; [reflexivity|].
  destruct (getB (fs_done s) cur); simpl; [unfold set_inact; flens_tac|].
  pose proof (flens_rec_loop (rec_node NF act fn f) cur IH (radj fn cur)
                             (set_bp (set_inact s cur true) cur (fzero NF))) as H.
  destruct (rec_loop NF fn (rec_node NF act fn f) cur (radj fn cur) (set_bp (set_inact s cur true) cur (fzero NF))) as [c r].
  simpl in H.
  assert (H0 : flens (set_bp (set_inact s cur true) cur (fzero NF)) = flens s) by (unfold set_bp, set_inact; flens_tac).
  rewrite H0 in H.
  destruct r; simpl; try exact H.
  destruct (act _ _); simpl; rewrite <- H; destruct (0 <? f_bias fn);
    unfold set_sig, set_inact, set_done, set_bp; flens_tac.
Qed.

Opaque rec_node.
Lemma flens_rec_outputs is : forall last s, flens (fst (rec_outputs NF act fn is last s)) = flens s.
Proof.
  induction is as [|i rest IH]; intros last s; simpl; [reflexivity|].
  pose proof (flens_rec_node (S (f_total fn)) s (f_sensor fn + i)) as H.
  destruct (rec_node NF act fn (S (f_total fn)) s (f_sensor fn + i)) as [c r]. simpl in H.
  destruct r as [[|]| | | | |]; simpl; try exact H. rewrite IH. exact H.
Qed.

Transparent rec_node.
Lemma flens_fast_recursive s : flens (fst (fast_recursive NF act fn s)) = flens s.
Proof. unfold fast_recursive, rec_init. rewrite flens_rec_outputs. apply flens_fold_rec_init. Qed.

Lemma flens_fast_step s o : flens (fst (fast_step NF act fn s o)) = flens s.
Proof.
  destruct o; simpl.
  - apply flens_fast_load.
  - apply flens_ff_loop.
  - apply flens_fast_recursive.
  - apply flens_relax_loop.
  - apply flens_fast_flush.
Qed.

Lemma flens_fast_run h : forall s, flens (fast_run NF act fn s h) = flens s.
Proof.
  unfold fast_run. induction h as [|o rest IH]; intros s; simpl; [reflexivity|]. rewrite IH. apply flens_fast_step.
Qed.

(* ----- every operation respects feqv ----- *)
Theorem fast_step_respects o s1 s2 :
  feqv s1 s2 -> flens s1 = full_lens -> flens s2 = full_lens ->
  feqv (fst (fast_step NF act fn s1 o)) (fst (fast_step NF act fn s2 o)) /\
  snd (fast_step NF act fn s1 o) = snd (fast_step NF act fn s2 o).
Proof.
  intros H L1 L2. destruct o as [x|k| |ms d|]; simpl.
  - apply fast_load_feqv. exact H.
  - apply ff_loop_feqv. exact H.
  - apply fast_recursive_feqv; assumption.
  - apply relax_loop_feqv. exact H.
  - split; [|reflexivity]. apply fast_flush_feqv. exact H.
Qed.

Lemma fast_outputs_respects s1 s2 : feqv s1 s2 -> fast_outputs NF fn s1 = fast_outputs NF fn s2.
Proof.
  intros [(H1 & _) _]. unfold fast_outputs. apply map_ext. intros j. unfold sigF. now rewrite H1.
Qed.

Theorem fast_trace_respects ops : forall s1 s2,
  feqv s1 s2 -> flens s1 = full_lens -> flens s2 = full_lens ->
  fast_trace NF act fn s1 ops = fast_trace NF act fn s2 ops.
Proof.
  induction ops as [|o rest IH]; intros s1 s2 H L1 L2; simpl; [reflexivity|].
  destruct (fast_step_respects o s1 s2 H L1 L2) as [Hr He].
  pose proof (flens_fast_step s1 o) as F1. pose proof (flens_fast_step s2 o) as F2.
  destruct (fast_step NF act fn s1 o) as [s1' r1], (fast_step NF act fn s2 o) as [s2' r2]. simpl in *.
  subst r2. rewrite (fast_outputs_respects s1' s2' Hr). f_equal. apply IH; congruence.
Qed.


(* ----- invariants of every reachable state ----- *)
Definition bias_ok (s : fstate) : Prop := forall j, j < f_bias fn -> sigF NF s j = fone NF.
Definition last_low (s : fstate) : Prop := forall j, j < f_sensor fn -> getF NF (fs_last s) j = fzero NF.
Definition finv (s : fstate) : Prop := flens s = full_lens /\ bias_ok s /\ last_low s.

Lemma bias_le_sensor : f_bias fn <= f_sensor fn.
Proof. unfold f_sensor. lia. Qed.

Lemma sig_fold_conn cs : forall s, fs_sig (fold_left (conn_step NF) cs s) = fs_sig s.
Proof. induction cs as [|c rest IH]; intros s; simpl; [reflexivity|]. now rewrite IH. Qed.
Lemma sig_fs_activate is : forall s, fs_sig (fst (fs_activate NF act fn is s)) = fs_sig s.
Proof.
  induction is as [|i rest IH]; intros s; simpl; [reflexivity|].
  destruct (act _ _); simpl; try reflexivity. now rewrite IH.
Qed.
Lemma sig_fs_commit is j : (forall i, In i is -> i <> j) -> forall s, sigF NF (fs_commit NF is s) j = sigF NF s j.
Proof.
  induction is as [|i rest IH]; intros Hn s; simpl; [reflexivity|].
  rewrite IH by (intros k Hk; apply Hn; simpl; auto).
  unfold commit_one, sigF, set_bp, set_sig, getF. simpl. apply nth_upd_other. apply Hn. simpl. auto.
Qed.
Lemma sig_fs_commit_delta d is j : (forall i, In i is -> i <> j) ->
  forall r s, sigF NF (fst (fs_commit_delta NF d is r s)) j = sigF NF s j.
Proof.
  induction is as [|i rest IH]; intros Hn r s; simpl; [reflexivity|].
  rewrite IH by (intros k Hk; apply Hn; simpl; auto).
  unfold commit_one, sigF, set_bp, set_sig, getF. simpl. apply nth_upd_other. apply Hn. simpl. auto.
Qed.

Lemma sig_forward_step d s j : j < f_sensor fn -> sigF NF (fst (forward_step NF act fn d s)) j = sigF NF s j.
Proof.
  intros Hj. unfold forward_step.
  assert (Hn : forall i, In i (neuron_range fn) -> i <> j).
  { intros i Hi. apply neuron_range_from_sensor in Hi. unfold from_sensor in Hi. lia. }
  pose proof (sig_fs_activate (neuron_range fn) (fold_left (conn_step NF) (f_conns fn) s)) as H.
  rewrite sig_fold_conn in H.
  destruct (fs_activate NF act fn (neuron_range fn) (fold_left (conn_step NF) (f_conns fn) s)) as [a r].
  simpl in H.
  assert (Ha : sigF NF a j = sigF NF s j) by (unfold sigF; now rewrite H).
  destruct r; simpl; try exact Ha.
  destruct (fleb NF d (fzero NF)); simpl.
  - now rewrite sig_fs_commit.
  - pose proof (sig_fs_commit_delta d (neuron_range fn) j Hn true a) as H2.
    destruct (fs_commit_delta NF d (neuron_range fn) true a) as [c q]. simpl in *. congruence.
Qed.

Lemma last_low_of_rec_fields s t : rec_fields t = rec_fields s -> last_low s -> last_low t.
Proof. unfold rec_fields, last_low. intros E H j Hj. injection E as _ _ E. rewrite E. apply H. exact Hj. Qed.

Lemma finv_forward_step d s : finv s -> finv (fst (forward_step NF act fn d s)).
Proof.
  intros (L & B & W). split; [rewrite flens_forward_step; exact L|]. split.
  - intros j Hj. rewrite sig_forward_step by (pose proof bias_le_sensor; lia). apply B. exact Hj.
  - eapply last_low_of_rec_fields; [apply rec_fields_forward_step|exact W].
Qed.

Lemma finv_ff_loop it : forall last s, finv s -> finv (fst (ff_loop NF act fn it last s)).
Proof.
  induction it as [|it IH]; intros last s H; simpl; [exact H|].
  pose proof (finv_forward_step (fzero NF) s H) as H1.
  destruct (forward_step NF act fn (fzero NF) s) as [a r]. simpl in H1. destruct r; simpl; auto.
Qed.
Lemma finv_relax_loop it d : forall last s, finv s -> finv (fst (relax_loop NF act fn it d last s)).
Proof.
  induction it as [|it IH]; intros last s H; simpl; [exact H|].
  pose proof (finv_forward_step d s H) as H1.
  destruct (forward_step NF act fn d s) as [a r]. simpl in H1. destruct r as [[|]| | | | |]; simpl; auto.
Qed.

Lemma finv_fast_load x s : finv s -> finv (fst (fast_load NF fn x s)).
Proof.
  intros (L & B & W). split; [rewrite flens_fast_load; exact L|].
  unfold fast_load. destruct (length x =? f_in fn); simpl; [|auto].
  generalize (seq 0 (f_in fn)). intros is. revert s L B W.
  induction is as [|i rest IH]; intros s L B W; simpl; [auto|].
  apply IH.
  - rewrite <- L. unfold set_sig. unfold flens. simpl. now rewrite upd_length.
  - intros j Hj. unfold sigF, set_sig, getF. simpl. rewrite nth_upd_other by lia. apply B. exact Hj.
  - exact W.
Qed.

Lemma finv_fast_flush s : finv s -> finv (fst (fast_flush NF fn s)).
Proof.
  intros (L & B & W). split; [rewrite flens_fast_flush; exact L|].
  destruct (fast_flush_fields s) as (A1 & A2 & A3). split.
  - intros j Hj. unfold sigF, getF. rewrite A1.
    rewrite fold_upd_below by (intros i Hi E; apply in_seq in Hi; lia). apply B. exact Hj.
  - eapply last_low_of_rec_fields; [exact A3|exact W].
Qed.

(* recursion: nodes already marked activated keep their mark and their signal; lastActivation is not written *)
Definition call_keep (call : fstate -> nat -> fstate * res bool) : Prop :=
  forall s a, fs_last (fst (call s a)) = fs_last s /\
              forall j, getB (fs_done s) j = true ->
                        getB (fs_done (fst (call s a))) j = true /\ sigF NF (fst (call s a)) j = sigF NF s j.

Lemma rec_loop_keep call cur (Hc : call_keep call) adjs : forall s,
  fs_last (fst (rec_loop NF fn call cur adjs s)) = fs_last s /\
  forall j, getB (fs_done s) j = true ->
            getB (fs_done (fst (rec_loop NF fn call cur adjs s))) j = true /\
            sigF NF (fst (rec_loop NF fn call cur adjs s)) j = sigF NF s j.
Proof.
  induction adjs as [|a rest IH]; intros s; simpl; [auto|].
  destruct (getB (fs_inact s) a).
  - apply (IH (set_bp s cur _)).
  - destruct (negb (getB (fs_done s) a)).
    + destruct (Hc s a) as [HL HK]. destruct (call s a) as [c r]. simpl in HL, HK.
      destruct r as [[|]| | | | |]; simpl; try (split; [exact HL|exact HK]).
      destruct (IH (set_bp c cur (fadd NF (bpF NF c cur) (fmul NF (sigF NF c a) (adj_w NF fn a cur))))) as [HL2 HK2].
      split; [rewrite HL2; exact HL|].
      intros j Hj. destruct (HK j Hj) as [D1 S1]. destruct (HK2 j D1) as [D2 S2]. split; [exact D2|].
      rewrite S2. exact S1.
    + apply (IH (set_bp s cur _)).
Qed.

Lemma rec_node_keep fuel : call_keep (rec_node NF act fn fuel).
Proof.
  induction fuel as [|f IH]; intros s cur; simpl; [auto|].
  destruct (getB (fs_done s) cur) eqn:Ed; simpl; [auto|].
  destruct (rec_loop_keep (rec_node NF act fn f) cur IH (radj fn cur) (set_bp (set_inact s cur true) cur (fzero NF)))
    as [HL HK].
  destruct (rec_loop NF fn (rec_node NF act fn f) cur (radj fn cur) (set_bp (set_inact s cur true) cur (fzero NF))) as [c r].
  simpl in HL, HK.
  destruct r; simpl; try (split; [exact HL|exact HK]).
  assert (G : forall v,
    fs_last (set_sig (set_inact (set_done (if 0 <? f_bias fn
               then set_bp c cur (fadd NF (bpF NF c cur) (getF NF (f_biases fn) cur)) else c) cur true) cur false) cur v)
      = fs_last s /\
    forall j, getB (fs_done s) j = true ->
      getB (fs_done (set_sig (set_inact (set_done (if 0 <? f_bias fn
               then set_bp c cur (fadd NF (bpF NF c cur) (getF NF (f_biases fn) cur)) else c) cur true) cur false) cur v)) j = true /\
      sigF NF (set_sig (set_inact (set_done (if 0 <? f_bias fn
               then set_bp c cur (fadd NF (bpF NF c cur) (getF NF (f_biases fn) cur)) else c) cur true) cur false) cur v) j
        = sigF NF s j).
  { intros v. split.
    - destruct (0 <? f_bias fn); simpl; exact HL.
    - intros j Hj. destruct (HK j Hj) as [D1 S1].
      assert (Hne : cur <> j) by (intros E; subst j; congruence).
      split.
      + destruct (0 <? f_bias fn); unfold getB; simpl; rewrite nth_upd_other by exact Hne; exact D1.
      + destruct (0 <? f_bias fn); unfold sigF, getF; simpl; rewrite nth_upd_other by exact Hne; exact S1. }
  destruct (act _ _); simpl; apply G.
Qed.

Opaque rec_node.
Lemma rec_outputs_keep is : forall last s,
  fs_last (fst (rec_outputs NF act fn is last s)) = fs_last s /\
  forall j, getB (fs_done s) j = true -> sigF NF (fst (rec_outputs NF act fn is last s)) j = sigF NF s j.
Proof.
  induction is as [|i rest IH]; intros last s; simpl; [auto|].
  destruct (rec_node_keep (S (f_total fn)) s (f_sensor fn + i)) as [HL HK].
  destruct (rec_node NF act fn (S (f_total fn)) s (f_sensor fn + i)) as [c r]. simpl in HL, HK.
  destruct r as [[|]| | | | |]; simpl; try (split; [exact HL|intros j Hj; apply HK; exact Hj]).
  destruct (IH true c) as [HL2 HK2]. split; [rewrite HL2; exact HL|].
  intros j Hj. destruct (HK j Hj) as [D1 S1]. rewrite (HK2 j D1). exact S1.
Qed.
Transparent rec_node.

Lemma rec_init_fields is : forall s,
  let s' := fold_left (rec_init_one NF fn) is s in
  fs_sig s' = fs_sig s /\
  fs_done s' = fold_left (fun l i => upd i (i <? f_sensor fn) l) is (fs_done s) /\
  (forall j, j < f_sensor fn -> getF NF (fs_last s') j = getF NF (fs_last s) j).
Proof.
  induction is as [|i rest IH]; intros s; simpl; [auto|].
  destruct (IH (rec_init_one NF fn s i)) as (E1 & E2 & E3).
  split; [|split].
  - rewrite E1. unfold rec_init_one. destruct (f_sensor fn <=? i); reflexivity.
  - rewrite E2. unfold rec_init_one. destruct (f_sensor fn <=? i); reflexivity.
  - intros j Hj. rewrite E3 by exact Hj. unfold rec_init_one.
    destruct (f_sensor fn <=? i) eqn:E; [|reflexivity].
    apply Nat.leb_le in E. unfold set_last, getF. simpl. apply nth_upd_other. lia.
Qed.

Lemma finv_fast_recursive s : finv s -> finv (fst (fast_recursive NF act fn s)).
Proof.
  intros (L & B & W). split; [rewrite flens_fast_recursive; exact L|].
  unfold fast_recursive, rec_init.
  destruct (rec_init_fields (seq 0 (f_total fn)) s) as (E1 & E2 & E3).
  set (s0 := fold_left (rec_init_one NF fn) (seq 0 (f_total fn)) s) in *.
  destruct (rec_outputs_keep (seq 0 (f_out fn)) false s0) as [HL HK].
  assert (D : forall j, j < f_sensor fn -> getB (fs_done s0) j = true).
  { intros j Hj. unfold getB. rewrite E2.
    rewrite (fold_upd_at (fun i => i <? f_sensor fn) false j).
    - apply Nat.ltb_lt. exact Hj.
    - apply seq_NoDup.
    - apply in_seq. lia.
    - unfold flens, full_lens in L. injection L as ? ? ? ? ?. lia. }
  split.
  - intros j Hj. rewrite HK by (apply D; pose proof bias_le_sensor; lia).
    unfold sigF. rewrite E1. apply B. exact Hj.
  - intros j Hj. rewrite HL, E3 by exact Hj. apply W. exact Hj.
Qed.

Lemma finv_fast_step s o : finv s -> finv (fst (fast_step NF act fn s o)).
Proof.
  intros H. destruct o; simpl.
  - apply finv_fast_load. exact H.
  - apply finv_ff_loop. exact H.
  - apply finv_fast_recursive. exact H.
  - apply finv_relax_loop. exact H.
  - apply finv_fast_flush. exact H.
Qed.

Lemma finv_fast_run h : forall s, finv s -> finv (fast_run NF act fn s h).
Proof.
  unfold fast_run. induction h as [|o rest IH]; intros s H; simpl; [exact H|]. apply IH. apply finv_fast_step. exact H.
Qed.

Lemma finv_init : finv (fast_init NF fn).
Proof.
  pose proof bias_le_sensor as HB.
  unfold finv, fast_init. split; [|split].
  - unfold flens, full_lens. simpl. rewrite app_length, !repeat_length. f_equal; f_equal; f_equal; f_equal; lia.
  - intros j Hj. unfold sigF, getF. simpl. rewrite app_nth1 by (rewrite repeat_length; exact Hj). apply nth_repeat_lt. exact Hj.
  - intros j Hj. unfold getF. simpl. apply nth_repeat.
Qed.

(* ----- Flush brings every reachable state back to (an equivalent of) the initial one ----- *)
Theorem fast_flush_init s : finv s -> feqv (fst (fast_flush NF fn s)) (fast_init NF fn).
Proof.
  intros (L & B & W). pose proof bias_le_sensor as HB.
  unfold flens, full_lens in L. injection L as L1 L2 L3 L4 L5.
  destruct (fast_flush_fields s) as (E1 & E2 & E3). apply rec_fields_eq in E3. destruct E3 as (_ & _ & E3).
  assert (Hin : forall j, f_bias fn <= j < f_total fn -> In j (seq (f_bias fn) (f_total fn - f_bias fn))).
  { intros j Hj. apply in_seq. lia. }
  unfold feqv, rsig, rweak, bpF. rewrite E1, E2, E3, L2. unfold fast_init. simpl.
  repeat split.
  - apply nth_ext with (d := fzero NF) (d' := fzero NF).
    + rewrite fold_upd_length, app_length, !repeat_length. lia.
    + intros j Hj. rewrite fold_upd_length in Hj.
      destruct (Nat.lt_ge_cases j (f_bias fn)) as [Hlt|Hge].
      * rewrite fold_upd_below by (intros i Hi E; apply in_seq in Hi; lia).
        rewrite app_nth1 by (rewrite repeat_length; exact Hlt). rewrite nth_repeat_lt by exact Hlt. apply B. exact Hlt.
      * rewrite (fold_upd_at (fun _ => fzero NF)); [|apply seq_NoDup|apply Hin; lia|lia].
        rewrite app_nth2 by (rewrite repeat_length; exact Hge). now rewrite nth_repeat.
  - intros j Hj. unfold getF. rewrite nth_repeat. apply W. exact Hj.
Qed.

(* ----- C13, fast solver ----- *)
Theorem fast_flush_fresh (h ops : list (op F)) :
  fast_trace NF act fn (fst (fast_flush NF fn (fast_run NF act fn (fast_init NF fn) h))) ops =
  fast_trace NF act fn (fast_init NF fn) ops.
Proof.
  pose proof (finv_fast_run h _ finv_init) as HI.
  apply fast_trace_respects.
  - apply fast_flush_init. exact HI.
  - rewrite flens_fast_flush. apply HI.
  - apply finv_init.
Qed.

End FlushFast.
