(* correspondence for C13: same case format and same check as C12 (cases/C12Cases.v); the networks here
   have self-loops, 2- and 3-cycles and time-delayed links, and the runs are random sequences of
   Load / Forward k / Recursive / Relax / Flush with the full state observed after every operation *)
From NeatModel Require Import Res F64 Net Fast C12Cases.

Definition c13_case := solver_case.
Definition c13_check := solver_check.
Definition c13_mismatches (l : list c13_case) : list Z := failing c13_check sc_id l.
(* agent-modules: the case library for networks with control nodes (module semantics of both solvers) is built with
   this one; its case files import ModCases directly *)
From NeatModel Require Export ModCases.
