(* correspondence for C18: the harness supplies inputs, the library results it observed around every
   libm call, and the outputs of the running factory; the model must agree bit for bit. *)
From Coq Require Export String.
From NeatModel Require Import Res F64 ActRegistry Act.

Inductive c18_case :=
(* ActivateByType(x, nil, code): libm table, error?, output *)
| C18Scalar (id : Z) (code : Z) (x : float) (tbl : list libm_entry) (go_err : bool) (go_out : float)
(* ActivateModuleByType(inputs, nil, code): error?, outputs *)
| C18Module (id : Z) (code : Z) (inputs : list float) (go_err : bool) (go_out : list float)
(* ActivationNameFromType(code): error?, name *)
| C18NameOf (id : Z) (code : Z) (go_err : bool) (go_name : string)
(* ActivationTypeFromName(name): error?, code *)
| C18TypeOf (id : Z) (name : string) (go_err : bool) (go_code : Z)
(* network.NodeTypeName / NeuronTypeName (code) *)
| C18NodeName (id : Z) (code : Z) (go_node_name go_neuron_name : string)
(* network.NeuronTypeByName(name): error?, code *)
| C18NeuronByName (id : Z) (name : string) (go_err : bool) (go_code : Z).

Definition c18_id (c : c18_case) : Z :=
  match c with
  | C18Scalar id _ _ _ _ _ | C18Module id _ _ _ _ | C18NameOf id _ _ _ | C18TypeOf id _ _ _
  | C18NodeName id _ _ _ | C18NeuronByName id _ _ _ => id
  end.

Definition c18_check (c : c18_case) : bool :=
  match c with
  | C18Scalar _ code x tbl go_err go_out =>
    match activate_by_type node_activators x code with
    | Ok cmp =>
      match run_tbl tbl cmp with
      | Ok v => negb go_err && feqb_exact v go_out
      | _ => false
      end
    | GoErr _ => go_err && feqb_exact go_out neg_infinity   (* documented: error and -Inf *)
    | _ => false
    end
  | C18Module _ code inputs go_err go_out =>
    match activate_module_by_type node_activators inputs code with
    | Ok out => negb go_err && list_eqb feqb_exact out go_out
    | GoErr _ => go_err && match go_out with [] => true | _ => false end
    | _ => false
    end
  | C18NameOf _ code go_err go_name =>
    match activation_name_from_type node_activators code with
    | Ok n => negb go_err && String.eqb n go_name
    | GoErr _ => go_err && String.eqb go_name ""
    | _ => false
    end
  | C18TypeOf _ name go_err go_code =>
    match activation_type_from_name node_activators name with
    | Ok t => negb go_err && Z.eqb t go_code
    | GoErr _ => go_err && Z.eqb go_code 127    (* math.MaxInt8 *)
    | _ => false
    end
  | C18NodeName _ code n1 n2 =>
    String.eqb (node_type_name code) n1 && String.eqb (neuron_type_name code) n2
  | C18NeuronByName _ name go_err go_code =>
    match neuron_type_by_name name with
    | Ok t => negb go_err && Z.eqb t go_code
    | GoErr _ => go_err && Z.eqb go_code 127
    | _ => false
    end
  end.

Definition c18_mismatches (l : list c18_case) : list Z := failing c18_check c18_id l.
