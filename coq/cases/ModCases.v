(* correspondence for the module (control node) semantics of both solvers (C13, with C12 / C15 relying on it):
   the binary64 instance of model/NetMod.v and model/FastMod.v run on the modular networks, inputs and operation
   sequences that harness/c13_mod.go ran through the real Network (NewModularNetwork / Genome.Genesis) and the real
   fast solver (Network.FastNetworkSolver).  After every operation the result, ReadOutputs() and the full mutable
   state are compared bit for bit (NaNs identified): for the Network the six per-node fields of Net.v plus
   isActive of every control node; for the fast solver the five arrays.  The fast solver's static description
   (counts, activation types, connections, biasList, modules) is compared with [fast_of_net_mod].

   Scalar activations: as in cases/C12Cases.v ([fact]: computed here, or looked up in the recorded table for the
   libm-based ones).  Module activations are computed here: the three functions of model/Act.v (C18) under the
   type codes 21 / 22 / 23 the registry binds them to (checked against gen/ActRegistry.v by
   [fmact_is_the_registry] below); any other code is "unknown module activation type". *)
From NeatModel Require Import Res F64 Net Fast NetMod FastMod ActRegistry Act C12Cases.
From Coq Require Import Floats.
Open Scope Z_scope.

Definition fmact (code : Z) (inputs : list float) : res (list float) :=
  match code with
  | 21 => Ok (multiplyModule inputs)
  | 22 => Ok (maxModule inputs)
  | 23 => Ok (minModule inputs)
  | _ => GoErr ErrUnknownModuleActivation
  end.

(* the codes are the ones NewNodeActivatorsFactory registers the three functions under (every byte value checked) *)
Definition fmact_agrees_on (inputs : list float) (c : Z) : bool :=
  match fmact c inputs, activate_module_by_type node_activators inputs c with
  | Ok a, Ok b => list_eqb feqb_exact a b
  | GoErr _, GoErr _ => true
  | _, _ => false
  end.

Lemma fmact_is_the_registry :
  forallb (fmact_agrees_on [0.5%float; (-2)%float; 3%float]) all_bytes = true /\
  forallb (fmact_agrees_on []) all_bytes = true.
Proof. split; vm_compute; reflexivity. Qed.

(* observed state of a modular Network: Net.v's fields, then isActive of the control nodes *)
Definition mstd_obs (st : mstate float) : obs_state :=
  ([s_act (ms_s st); s_sum (ms_s st); s_l1 (ms_s st); s_l2 (ms_s st)], [s_cnt (ms_s st)], [s_on (ms_s st); ms_con st]).

(* one observed operation of a modular run: the operation (Network.ActivateSteps(k) / Activate() included), result code,
   outputs, state if recorded *)
Definition nobs_op : Type := nop float * Z * list float * option obs_state.

Definition nobs_matches (r : res bool) (outs : list float) (st : obs_state) (o : nobs_op) : bool :=
  let '(_, code, gouts, gst) := o in
  (code_of_res r =? code) && list_eqb feqb_exact outs gouts
  && match gst with None => true | Some g => obs_eqb st g end.

Fixpoint mstd_follow (t : table) (n : mnet float) (st : mstate float) (l : list nobs_op) : bool :=
  match l with
  | [] => true
  | o :: l' =>
    let '(st', r) := mstd_nstep F64num (fact t) fmact n st (fst (fst (fst o))) in
    nobs_matches r (mstd_outputs F64num n st') (mstd_obs st') o && mstd_follow t n st' l'
  end.

(* the fast solver has the Solver interface only *)
Fixpoint mfast_follow (t : table) (fx : fmnet float) (s : fstate float) (l : list nobs_op) : bool :=
  match l with
  | [] => true
  | o :: l' =>
    match fst (fst (fst o)) with
    | NOp o' =>
      let '(s', r) := mfast_step F64num (fact t) fmact fx s o' in
      nobs_matches r (mfast_outputs F64num fx s') (fast_obs s') o && mfast_follow t fx s' l'
    | NActivate _ => false
    end
  end.

(* modules as the harness reads them from the real fast solver: ActivationType, InputIndexes, OutputIndexes *)
Definition mod_static : Type := list (Z * list nat * list nat).

Definition mod_static_of (fx : fmnet float) : mod_static :=
  map (fun m => (fmd_act m, fmd_ins m, fmd_outs m)) (fx_mods fx).

Definition mod_static_eqb (a b : mod_static) : bool :=
  list_eqb (fun x y => Z.eqb (fst (fst x)) (fst (fst y)) && list_eqb Nat.eqb (snd (fst x)) (snd (fst y))
                       && list_eqb Nat.eqb (snd x) (snd y)) a b.

Definition mk_mnet (nodes : list (Z * Z * list (nat * float * bool))) (ins outs : list nat)
           (ctrl : list (Z * list nat * list nat)) : mnet float :=
  mkMnet (mk_net nodes ins outs) (map (fun c => mkCnode (fst (fst c)) (snd (fst c)) (snd c)) ctrl).

Record mod_case := {
  mc_id : Z;
  mc_nodes : list (Z * Z * list (nat * float * bool));   (* NeuronType, ActivationType, Incoming (position, weight, time delayed) *)
  mc_inputs : list nat;
  mc_outputs : list nat;
  mc_ctrl : list (Z * list nat * list nat);              (* control nodes: ActivationType, Incoming positions, Outgoing positions *)
  mc_table : table;
  mc_fast_code : Z;                                      (* FastNetworkSolver(): 1 = built, 100+c = error c, 200+c = panic *)
  mc_fast_static : option (fast_static * mod_static);
  mc_runs : list (Z * list nobs_op)                      (* 0 = a fresh Network, 1 = a fresh fast solver; then the observed operations *)
}.

Definition mfast_build_code (r : res (fmnet float)) : Z :=
  match r with Ok _ => 1 | GoErr c => 100 + c | GoPanic c => 200 + c | OutOfFuel => 300 | BadOracle => 301 | OutOfTape => 302 end.

Definition mod_check (c : mod_case) : bool :=
  let n := mk_mnet (mc_nodes c) (mc_inputs c) (mc_outputs c) (mc_ctrl c) in
  let t := mc_table c in
  let fr := fast_of_net_mod F64num n in
  mnet_ok n
  && (mfast_build_code fr =? mc_fast_code c)
  && match fr, mc_fast_static c with
     | Ok fx, Some (g, gm) => fast_static_eqb (fast_static_of (fx_net fx)) g && mod_static_eqb (mod_static_of fx) gm
     | _, _ => true
     end
  && forallb (fun run =>
                match fst run with
                | 0 => mstd_follow t n (mstd_init F64num n) (snd run)
                | _ => match fr with
                       | Ok fx => mfast_follow t fx (mfast_init F64num fx) (snd run)
                       | _ => false
                       end
                end) (mc_runs c).

Definition c13m_case := mod_case.
Definition c13m_check := mod_check.
Definition c13m_mismatches (l : list c13m_case) : list Z := failing c13m_check mc_id l.
