(* correspondence for C19.  Three kinds of cases (the third, c19g_case, at the end of the file:
   a population given to Generation.FillPopulationStatistics and what it recorded):
   c19s_case  a float64 series (with the 16-byte alignment of its first element, which the
              amd64 assembly of gonum's Sum reads) and what the ten Floats methods returned;
   c19e_case  a synthetic experiment (recorded fields of every generation of every trial), the
              sort oracles read off the real BestOrganism calls, and what the real accessors
              returned.
   The model (binary64 instance) must reproduce every observation: bit-exactly, NaN = NaN; the
   quantiles of series longer than 12 are compared with -0 = +0 because pdqsort, unlike the
   insertion sort Go uses up to 12 elements, may permute the numerically equal +0 and -0. *)
From NeatModel Require Import Res F64 Stats Exper.
From Coq Require Import List ZArith Bool Floats.
Import ListNotations.
Open Scope Z_scope.

(* ---------------- statistics ---------------- *)

Record c19s_case := {
  c19s_id : Z; c19s_al : bool; c19s_xs : list float;
  c19s_min : res float; c19s_max : res float;
  c19s_sum : float; c19s_mean : float; c19s_mvm : float; c19s_mvv : float;
  c19s_var : float; c19s_std : float;
  c19s_med : res float; c19s_q25 : res float; c19s_q75 : res float }.

Definition c19s_check (c : c19s_case) : bool :=
  let x := c19s_xs c in
  let al := c19s_al c in
  let qeq := if Z.of_nat (length x) <=? 12 then feqb_exact else feqb_num in
  res_feqb feqb_exact (F_min fnum x) (c19s_min c)
  && res_feqb feqb_exact (F_max fnum x) (c19s_max c)
  && feqb_exact (F_sum fnum al x) (c19s_sum c)
  && feqb_exact (F_mean fnum al x) (c19s_mean c)
  && feqb_exact (fst (F_mean_variance fnum al x)) (c19s_mvm c)
  && feqb_exact (snd (F_mean_variance fnum al x)) (c19s_mvv c)
  && feqb_exact (F_variance fnum al x) (c19s_var c)
  && feqb_exact (F_stddev fnum al x) (c19s_std c)
  && res_feqb qeq (F_median fnum x) (c19s_med c)
  && res_feqb qeq (F_q25 fnum x) (c19s_q25 c)
  && res_feqb qeq (F_q75 fnum x) (c19s_q75 c).

Definition c19s_mismatches (l : list c19s_case) : list Z := failing c19s_check c19s_id l.

(* ---------------- experiments ---------------- *)

Definition forg := @organism float.
Definition fgen := @generation float.
Definition ftrial := @trial float.

Definition mkorg (fit hf : float) (age : option Z) (cplx : Z) : forg :=
  {| o_fitness := fit; o_hfit := hf; o_age := age; o_cplx := cplx |}.
Definition mkgen (solved : bool) (ch : option forg) (fs az cs : list float)
           (dv wn wg we du : Z) : fgen :=
  {| g_solved := solved; g_champ := ch; g_fitness := fs; g_age := az; g_complexity := cs;
     g_diversity := dv; g_wnodes := wn; g_wgenes := wg; g_wevals := we; g_duration := du |}.
Definition mktrial (gs : list fgen) (w : option fgen) (du : Z) : ftrial :=
  {| t_gens := gs; t_winner := w; t_duration := du |}.

Definition fl_eqb := list_eqb feqb_exact.

Definition org_eqb (a b : forg) : bool :=
  feqb_exact (o_fitness a) (o_fitness b) && feqb_exact (o_hfit a) (o_hfit b)
  && option_eqb Z.eqb (o_age a) (o_age b) && Z.eqb (o_cplx a) (o_cplx b).

Definition res_eqb {A} (eq : A -> A -> bool) (a b : res A) : bool :=
  match a, b with
  | Ok x, Ok y => eq x y
  | GoPanic c, GoPanic d => Z.eqb c d
  | _, _ => false
  end.

(* what the real Trial accessors returned *)
Record c19t_obs := {
  ot_solved : bool;
  ot_cf : list float; ot_ca : list float; ot_cc : list float; ot_div : list float;
  ot_avg_f : list float; ot_avg_a : list float; ot_avg_c : list float;
  ot_ws : list Z;                       (* nodes, genes, evals, diversity *)
  ot_cache : bool;                      (* WinnerGeneration != nil afterwards *)
  ot_aed : Z;                           (* AvgEpochDuration *)
  ot_chc : list Z;                      (* Generation.ChampionComplexity per generation *)
  ot_k_all : Z; ot_k_solv : Z;          (* sort oracles: position of the returned organism *)
  ot_best_all : res (option (option forg));
  ot_best_solv : res (option (option forg)) }.

Definition c19t_check (t : ftrial) (o : c19t_obs) : bool :=
  let '(af, aa, ac) := t_average fnum t in
  let '(wn, wg, we, wd, cache) := t_winner_statistics t in
  Bool.eqb (t_solved t) (ot_solved o)
  && fl_eqb (t_champions_fitness fnum t) (ot_cf o)
  && fl_eqb (t_champion_species_ages fnum t) (ot_ca o)
  && fl_eqb (t_champions_complexities fnum t) (ot_cc o)
  && fl_eqb (t_diversity fnum t) (ot_div o)
  && fl_eqb af (ot_avg_f o) && fl_eqb aa (ot_avg_a o) && fl_eqb ac (ot_avg_c o)
  && list_eqb Z.eqb [wn; wg; we; wd] (ot_ws o)
  && Bool.eqb (match cache with Some _ => true | None => false end) (ot_cache o)
  && Z.eqb (t_avg_epoch_duration t) (ot_aed o)
  && list_eqb Z.eqb (map g_champion_complexity (t_gens t)) (ot_chc o)
  && res_eqb (option_eqb (option_eqb org_eqb)) (t_best_organism fnum false t (ot_k_all o)) (ot_best_all o)
  && res_eqb (option_eqb (option_eqb org_eqb)) (t_best_organism fnum true t (ot_k_solv o)) (ot_best_solv o).

Record c19e_case := {
  c19e_id : Z;
  c19e_trials : list ftrial;
  c19e_tobs : list c19t_obs;
  c19e_avg_trial_dur : Z; c19e_avg_epoch_dur : Z;
  c19e_avg_gens : float;
  c19e_solved : bool; c19e_trials_solved : Z; c19e_success_rate : float;
  c19e_epochs : list float; c19e_avg_div : list float;
  c19e_best_fit : res (list float); c19e_best_age : res (list float); c19e_best_cplx : res (list float);
  c19e_k_all : Z; c19e_k_solv : Z;
  c19e_best_all : res (option (forg * Z)); c19e_best_solv : res (option (forg * Z));
  c19e_avg_winner : list float }.

Fixpoint c19t_all (ts : list ftrial) (os : list c19t_obs) : bool :=
  match ts, os with
  | [], [] => true
  | t :: ts', o :: os' => c19t_check t o && c19t_all ts' os'
  | _, _ => false
  end.

Definition c19e_check (c : c19e_case) : bool :=
  let e := c19e_trials c in
  let ks_all := map ot_k_all (c19e_tobs c) in
  let ks_solv := map ot_k_solv (c19e_tobs c) in
  let '(an, ag, ae, ad) := e_avg_winner_statistics fnum e in
  let beq := res_eqb (option_eqb (pair_eqb org_eqb Z.eqb)) in
  c19t_all e (c19e_tobs c)
  && Z.eqb (e_avg_trial_duration e) (c19e_avg_trial_dur c)
  && Z.eqb (e_avg_epoch_duration e) (c19e_avg_epoch_dur c)
  && feqb_exact (e_avg_generations_per_trial fnum e) (c19e_avg_gens c)
  && Bool.eqb (e_solved e) (c19e_solved c)
  && Z.eqb (e_trials_solved e) (c19e_trials_solved c)
  && feqb_exact (e_success_rate fnum e) (c19e_success_rate c)
  && fl_eqb (e_epochs_per_trial fnum e) (c19e_epochs c)
  && fl_eqb (e_avg_diversity fnum e) (c19e_avg_div c)
  && res_eqb fl_eqb (e_best_fitness fnum e ks_all) (c19e_best_fit c)
  && res_eqb fl_eqb (e_best_species_age fnum e ks_all) (c19e_best_age c)
  && res_eqb fl_eqb (e_best_complexity fnum e ks_all) (c19e_best_cplx c)
  && beq (e_best_organism fnum false e ks_all (c19e_k_all c)) (c19e_best_all c)
  && beq (e_best_organism fnum true e ks_solv (c19e_k_solv c)) (c19e_best_solv c)
  && fl_eqb [an; ag; ae; ad] (c19e_avg_winner c).

Definition c19e_mismatches (l : list c19e_case) : list Z := failing c19e_check c19e_id l.

(* ---------------- Generation.FillPopulationStatistics ---------------- *)

Definition mkspecies (age : Z) (os : list forg) : @species float := {| s_age := age; s_orgs := os |}.

Record c19g_case := {
  c19g_id : Z; c19g_solved : bool; c19g_species : list (@species float); c19g_ks : list Z;
  c19g_out : res (Z * (list float * list float * list float * option forg)) }.

Definition c19g_out_eqb (a b : Z * (list float * list float * list float * option forg)) : bool :=
  let '(d1, (a1, c1, f1, ch1)) := a in
  let '(d2, (a2, c2, f2, ch2)) := b in
  Z.eqb d1 d2 && fl_eqb a1 a2 && fl_eqb c1 c2 && fl_eqb f1 f2 && option_eqb org_eqb ch1 ch2.

Definition c19g_check (c : c19g_case) : bool :=
  res_eqb c19g_out_eqb (g_fill fnum (c19g_solved c) None (c19g_species c) (c19g_ks c)) (c19g_out c).

Definition c19g_mismatches (l : list c19g_case) : list Z := failing c19g_check c19g_id l.
