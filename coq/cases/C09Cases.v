(* C09 uses the population correspondence of EpochCases.v *)
From NeatModel Require Export EpochCases.
