(* 61-bit polynomial digest of observations, computed identically by the harness (Go) and here, so
   that long histories can be compared without writing every genome of every generation into the
   case file.  A digest mismatch names the step; the harness can re-emit the case with full
   observations to locate the first differing observable. *)
From NeatModel Require Import Res F64 GoRand Genome.

Definition DM : Z := 2305843009213693951.   (* 2^61 - 1 *)
Definition DP : Z := 1000003.

Definition dstep (h v : Z) : Z := (h * DP + (v mod DM) + 17) mod DM.
Definition digest (l : list Z) : Z := fold_left dstep l 7.

Definition b2z (b : bool) : Z := if b then 1 else 0.

(* a float as integers: class, sign, mantissa, exponent (all NaNs identified) *)
Definition enc_float (x : float) : list Z :=
  match Prim2SF x with
  | S754_zero s => [0; b2z s]
  | S754_infinity s => [1; b2z s]
  | S754_nan => [2]
  | S754_finite s m e => [3; b2z s; Zpos m; e]
  end.

Definition enc_opt (o : option Z) : list Z := match o with None => [0] | Some z => [1; z] end.
Definition enc_list {A} (f : A -> list Z) (l : list A) : list Z := Z.of_nat (length l) :: flat_map f l.

Definition enc_trait (t : trait) : list Z := t_id t :: enc_list enc_float (t_params t).
Definition enc_node (n : node) : list Z := [n_id n; n_type n; n_act n] ++ enc_opt (n_trait n).
Definition enc_gene (x : gene) : list Z :=
  [g_in x; g_out x; b2z (g_rec x)] ++ enc_float (g_w x) ++ enc_opt (g_trait x) ++ [g_innov x] ++ enc_float (g_mut x) ++ [b2z (g_en x)].
Definition enc_zf (p : Z * float) : list Z := fst p :: enc_float (snd p).
Definition enc_mimo (m : mimo) : list Z :=
  enc_node (m_node m) ++ [m_innov m] ++ enc_float (m_mut m) ++ [b2z (m_en m)] ++ enc_list enc_zf (m_ins m) ++ enc_list enc_zf (m_outs m).
Definition enc_genome (g : genome) : list Z :=
  gid g :: enc_list enc_trait (traits g) ++ enc_list enc_node (nodes g) ++ enc_list enc_gene (genes g) ++ enc_list enc_mimo (modules g).
Definition enc_innovation (i : innovation) : list Z :=
  [i_type i; i_in i; i_out i; i_num i; i_num2 i] ++ enc_float (i_w i) ++ [i_trait i; i_node i; i_old i; b2z (i_rec i)].
Definition enc_env (e : ienv) : list Z := enc_list enc_innovation (innovs e) ++ [next_innov e; next_node e].
