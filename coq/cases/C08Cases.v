(* correspondence for C08: the harness supplies a population (species with their members), a batch
   of organisms (key = genome id, genome = its (innovation, mutation number) gene list), the
   compatibility options, and what the real Population.speciate left behind; the float instance of
   the model (distances computed by the model's own compatibility) must leave the same species
   (ids, member keys in order), the same LastSpecies, the same Organism.Species back pointers and
   the same error status *)
From NeatModel Require Import Res F64 Compat Speciate SpeciateFloat.

Definition genes := list (Z * float).

Record c08_case := {
  c08_id : Z;
  c08_linear : bool; c08_dc : float; c08_ec : float; c08_mc : float; c08_thr : float;
  c08_species : list (Z * list (Z * genes));      (* id, members (key, genes) *)
  c08_last : Z;
  c08_batch : list (Z * genes);
  c08_go_species : list (Z * list Z);             (* id, member keys *)
  c08_go_last : Z;
  c08_go_assign : list (Z * Z);                   (* key of each placed organism, id of its Organism.Species *)
  c08_go_status : Z                               (* 0 nil, 1 no organisms, 2 zero threshold *)
}.

Definition mk_org (kg : Z * genes) : organism genes := {| o_key := fst kg; o_genome := snd kg |}.
Definition mk_species (s : Z * list (Z * genes)) : species genes :=
  {| sp_id := fst s; sp_orgs := map mk_org (snd s) |}.

Definition status_code (r : res unit) : Z :=
  match r with Ok _ => 0 | GoErr c => c | _ => 99 end.

Definition c08_run (c : c08_case) : population genes * res unit :=
  speciate PrimFloat.ltb f_is_zero max_float64
           (compat_float (c08_linear c) (c08_dc c) (c08_ec c) (c08_mc c)) (c08_thr c)
           {| p_species := map mk_species (c08_species c); p_last := c08_last c; p_assign := [] |}
           (map mk_org (c08_batch c)).

Definition zz_eqb (a b : Z * Z) : bool := Z.eqb (fst a) (fst b) && Z.eqb (snd a) (snd b).

Definition c08_check (c : c08_case) : bool :=
  let '(p, st) := c08_run c in
  list_eqb (pair_eqb Z.eqb (list_eqb Z.eqb))
           (map (fun s => (sp_id s, map (@o_key genes) (sp_orgs s))) (p_species p)) (c08_go_species c) &&
  Z.eqb (p_last p) (c08_go_last c) &&
  list_eqb zz_eqb (p_assign p) (c08_go_assign c) &&
  Z.eqb (status_code st) (c08_go_status c).

Definition c08_mismatches (l : list c08_case) : list Z := failing c08_check c08_id l.
