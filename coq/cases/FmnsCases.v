(* correspondence for the fast-solver model file (C15): the binary64 instance of model/Fmns.v, with the activation
   registry of gen/ActRegistry.v (replayed into Act.node_activators), against the real WriteModel / ReadFMNSModel.

   A case is a list of observations made on the real code, each checked on its own:
     ObsNet   a network description and the solver Network.FastNetworkSolver built from it (static description through
              the verif hooks, Id, Name)                        -> solver_of id name 0 (fast_of_net n) must be that solver
     ObsWrite a solver and what WriteModel did with it (the JSON text decoded generically into the document value, an
              error class, or a panic)                          -> fmns_write
     ObsRead  a document (the generic decoding of a JSON text) and what ReadFMNSModel did with that text (the static
              description of the solver it returned, an error, or a panic class)   -> fmns_read
     ObsRun   a solver returned by ReadFMNSModel, and operations performed on it with their results, outputs and
              (sometimes) full state                            -> the solver steps of Fast.v on fnet_of
   Floats are compared bit for bit (NaNs identified), strings byte for byte. *)
From Coq Require Export String.
From NeatModel Require Import Res F64 Net Fast ActRegistry Act Fmns C12Cases.
Open Scope Z_scope.

Definition f_finite (x : float) : bool := negb (PrimFloat.is_nan x) && negb (PrimFloat.is_infinity x).

Definition fm_name_of (c : Z) : res string := activation_name_from_type node_activators c.
Definition fm_type_of (n : string) : res Z := activation_type_from_name node_activators n.

Definition fm_write (s : fsolver float) : res (doc float) := fmns_write f_finite fm_name_of s.
Definition fm_read (d : doc float) : res (fsolver float) := fmns_read fm_type_of d.

(* ---------- equality of observables ---------- *)
Definition slink_eqb (a b : slink float) : bool :=
  (sl_src a =? sl_src b) && (sl_tgt a =? sl_tgt b) && feqb_exact (sl_w a) (sl_w b) && feqb_exact (sl_sig a) (sl_sig b).

Definition smodule_eqb (a b : smodule) : bool :=
  (sm_act a =? sm_act b) && list_eqb Z.eqb (sm_ins a) (sm_ins b) && list_eqb Z.eqb (sm_outs a) (sm_outs b).

Definition dmodule_eqb (a b : dmodule) : bool :=
  String.eqb (dm_act a) (dm_act b) && list_eqb Z.eqb (dm_ins a) (dm_ins b) && list_eqb Z.eqb (dm_outs a) (dm_outs b).

Definition solver_eqb (a b : fsolver float) : bool :=
  (s_id a =? s_id b) && String.eqb (s_name a) (s_name b)
  && (s_bias a =? s_bias b) && (s_in a =? s_in b) && (s_out a =? s_out b) && (s_total a =? s_total b)
  && list_eqb Z.eqb (s_acts a) (s_acts b) && list_eqb feqb_exact (s_biases a) (s_biases b)
  && list_eqb slink_eqb (s_conns a) (s_conns b) && list_eqb smodule_eqb (s_modules a) (s_modules b).

Definition doc_eqb (a b : doc float) : bool :=
  (d_id a =? d_id b) && String.eqb (d_name a) (d_name b)
  && (d_in a =? d_in b) && (d_sensor a =? d_sensor b) && (d_out a =? d_out b) && (d_bias a =? d_bias b)
  && (d_total a =? d_total b)
  && list_eqb String.eqb (d_acts a) (d_acts b) && list_eqb feqb_exact (d_biases a) (d_biases b)
  && list_eqb (option_eqb slink_eqb) (d_conns a) (d_conns b)
  && option_eqb (list_eqb dmodule_eqb) (d_modules a) (d_modules b).

(* ---------- what the implementation did ---------- *)
Inductive go_write :=
| WOk (d : doc float)      (* the text WriteModel wrote, decoded generically *)
| WErr (code : Z)          (* 301: *json.MarshalerError, 302: *json.UnsupportedValueError, 399: another error *)
| WPanic.

Inductive go_read :=
| ROk (s : fsolver float)  (* the solver ReadFMNSModel returned *)
| RErr                     (* it returned an error *)
| RPanic (code : Z).       (* 1: index out of range, 2: makeslice, 3: nil pointer dereference, 99: another panic *)

Definition write_matches (m : res (doc float)) (g : go_write) : bool :=
  match m, g with
  | Ok d, WOk d' => doc_eqb d d'
  | GoErr c, WErr c' => c =? c'
  | GoPanic _, WPanic => true
  | _, _ => false
  end.

Definition read_matches (m : res (fsolver float)) (g : go_read) : bool :=
  match m, g with
  | Ok s, ROk s' => solver_eqb s s'
  | GoErr _, RErr => true
  | GoPanic c, RPanic c' => c =? c'
  | _, _ => false
  end.

Inductive fm_obs :=
| ObsNet (nodes : list (Z * Z * list (nat * float * bool))) (ins outs : list nat) (id : Z) (name : string)
         (built : fsolver float)
| ObsWrite (s : fsolver float) (go : go_write)
| ObsRead (d : doc float) (go : go_read)
| ObsRun (s : fsolver float) (t : table) (ops : list obs_op).

Definition fm_obs_check (o : fm_obs) : bool :=
  match o with
  | ObsNet nodes ins outs id name built =>
    let n := mk_net nodes ins outs in
    net_ok n &&
    match fast_of_net F64num n with
    | Ok fn => solver_eqb (solver_of id name 0%float fn) built
    | _ => false
    end
  | ObsWrite s go => write_matches (fm_write s) go
  | ObsRead d go => read_matches (fm_read d) go
  | ObsRun s t ops =>
    solver_fits s && fast_follow t (fnet_of s) (fast_init F64num (fnet_of s)) ops
  end.

Record fmns_case := { fm_id : Z; fm_obss : list fm_obs }.

Definition fmns_check (c : fmns_case) : bool := forallb fm_obs_check (fm_obss c).
Definition fmns_mismatches (l : list fmns_case) : list Z := failing fmns_check fm_id l.

(* ---------- compact constructors for generated terms ---------- *)
Definition SL (s t : Z) (w g : float) : slink float := mkSlink s t w g.
Definition SM (a : Z) (i o : list Z) : smodule := mkSmodule a i o.
Definition DM (a : string) (i o : list Z) : dmodule := mkDmodule a i o.
Arguments DM _%string _ _.
Definition NAMES (l : list string) : list string := l.
Arguments NAMES _%string.
Definition SOLV (id : Z) (name : string) (b i o t : Z) (acts : list Z) (biases : list float) (conns : list (slink float))
           (mods : list smodule) : fsolver float := mkFsolver id name b i o t acts biases conns mods.
Arguments SOLV _ _%string _ _ _ _ _ _ _ _.
Definition DOC (id : Z) (name : string) (i s o b t : Z) (acts : list string) (biases : list float)
           (conns : list (option (slink float))) (mods : option (list dmodule)) : doc float :=
  mkDoc id name i s o b t acts biases conns mods.
Arguments DOC _ _%string _ _ _ _ _ _ _ _ _.
Definition NET := ObsNet.
Arguments NET _ _ _ _ _%string _.
