(* compact constructors used by generated case files *)
From NeatModel Require Import Res F64 GoRand Genome Options.

Definition T (id : Z) (ps : list float) : trait := {| t_id := id; t_params := ps |}.
Definition N (id ty act : Z) (tr : option Z) : node := {| n_id := id; n_type := ty; n_act := act; n_trait := tr |}.
Definition G (i o : Z) (rc : bool) (w : float) (tr : option Z) (innov : Z) (mut : float) (en : bool) : gene :=
  {| g_in := i; g_out := o; g_rec := rc; g_w := w; g_trait := tr; g_innov := innov; g_mut := mut; g_en := en |}.
Definition MM (nd : node) (innov : Z) (mut : float) (en : bool) (ins outs : list (Z * float)) : mimo :=
  {| m_node := nd; m_innov := innov; m_mut := mut; m_en := en; m_ins := ins; m_outs := outs |}.
Definition GN (id : Z) (ts : list trait) (ns : list node) (gs : list gene) (ms : list mimo) : genome :=
  {| gid := id; traits := ts; nodes := ns; genes := gs; modules := ms |}.
Definition IV (ty i o num num2 : Z) (w : float) (tr nd old : Z) (rc : bool) : innovation :=
  {| i_type := ty; i_in := i; i_out := o; i_num := num; i_num2 := num2; i_w := w; i_trait := tr;
     i_node := nd; i_old := old; i_rec := rc |}.
Definition EV (l : list innovation) (ni nn : Z) : ienv := {| innovs := l; next_innov := ni; next_node := nn |}.

(* options from a flat list of floats (in declaration order) and the integer fields *)
Definition OPT (f : list float) (pop dropoff tries stolen : Z) (linear : bool) (acts : list Z) (probs : list float) : options :=
  let a k := nth k f 0%float in
  {| o_trait_param_mut_prob := a 0%nat; o_trait_mut_power := a 1%nat; o_weight_mut_power := a 2%nat;
     o_disjoint := a 3%nat; o_excess := a 4%nat; o_mutdiff := a 5%nat; o_compat_thresh := a 6%nat;
     o_age_sig := a 7%nat; o_survival := a 8%nat;
     o_mutate_only := a 9%nat; o_mut_random_trait := a 10%nat; o_mut_link_trait := a 11%nat; o_mut_node_trait := a 12%nat;
     o_mut_link_weights := a 13%nat; o_mut_toggle := a 14%nat; o_mut_reenable := a 15%nat;
     o_mut_add_node := a 16%nat; o_mut_add_link := a 17%nat; o_mut_connect_sensors := a 18%nat;
     o_interspecies := a 19%nat; o_mate_multi := a 20%nat; o_mate_multi_avg := a 21%nat; o_mate_single := a 22%nat;
     o_mate_only := a 23%nat; o_recur_only := a 24%nat;
     o_pop_size := pop; o_dropoff := dropoff; o_newlink_tries := tries; o_babies_stolen := stolen;
     o_compat_linear := linear; o_activators := acts; o_activator_probs := probs |}.
