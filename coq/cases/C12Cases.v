(* correspondence for C12 (and, through C13Cases.v, C13): the binary64 instance of the solver models,
   run on the networks, inputs and operation sequences the harness ran through the real code.
   After every operation the result, ReadOutputs() and (when recorded) the full mutable state are
   compared bit for bit (NaNs identified).

   Activations: the ones made of +,-,*,/,abs and comparisons are evaluated here (linear, abs, clipped,
   null, sign, step, the two polynomial sigmoids, inverse-abs); the libm-based ones (exp, tanh, sin,
   pow) are looked up in the table (code, input) -> output that the harness recorded from the
   implementation's own activation calls; a missing entry is BadOracle, i.e. a mismatch. *)
From NeatModel Require Import Res F64 Net Fast.
From Coq Require Import Floats.
Open Scope Z_scope.

Definition F64num : num float :=
  mkNum float 0%float 1%float neg_infinity PrimFloat.add PrimFloat.sub PrimFloat.mul PrimFloat.abs
        PrimFloat.ltb PrimFloat.leb.

Definition table := list (Z * float * float).

Fixpoint table_lookup (t : table) (code : Z) (x : float) : res float :=
  match t with
  | [] => BadOracle
  | (c, i, o) :: rest => if (c =? code) && feqb_exact i x then Ok o else table_lookup rest code x
  end.

Definition f_is_zero (x : float) : bool := PrimFloat.eqb x 0%float.
Definition f_signbit (x : float) : bool :=
  match Prim2SF x with
  | S754_zero s => s | S754_infinity s => s | S754_finite s _ _ => s | S754_nan => false
  end.

(* neat/math/activations.go; codes are the NodeActivationType constants *)
Definition fact (t : table) (code : Z) (x : float) : res float :=
  match code with
  | 5 =>   (* approximationSigmoid *)
    if (x <? -4)%float then Ok 0%float
    else if (x <? 0)%float then Ok ((x + 4) * (x + 4) * 0.03125)%float
    else if (x <? 4)%float then Ok (1 - (x - 4) * (x - 4) * 0.03125)%float
    else Ok 1%float
  | 6 =>   (* approximationSteepenedSigmoid *)
    if (x <? -1)%float then Ok 0%float
    else if (x <? 0)%float then Ok ((x + 1) * (x + 1) * 0.5)%float
    else if (x <? 1)%float then Ok (1 - (x - 1) * (x - 1) * 0.5)%float
    else Ok 1%float
  | 7 => Ok (0.5 + (x / (1 + PrimFloat.abs x)) * 0.5)%float        (* inverseAbsoluteSigmoid *)
  | 14 => Ok x                                                       (* linear *)
  | 15 => Ok (PrimFloat.abs x)                                       (* absoluteLinear *)
  | 16 => if (x <? -1)%float then Ok (-1)%float else if (1 <? x)%float then Ok 1%float else Ok x
  | 17 => Ok 0%float                                                 (* nullFunctor *)
  | 18 => if PrimFloat.is_nan x || f_is_zero x then Ok 0%float
          else if f_signbit x then Ok (-1)%float else Ok 1%float     (* signFunction *)
  | 20 => if (x <? 0)%float then Ok 0%float else Ok 1%float          (* stepFunction *)
  | 1 | 2 | 3 | 4 | 8 | 9 | 10 | 11 | 12 | 13 | 19 => table_lookup t code x
  | _ => GoErr ErrUnknownActivation
  end.

(* result codes as the harness writes them *)
Definition code_of_res (r : res bool) : Z :=
  match r with
  | Ok true => 1 | Ok false => 0
  | GoErr c => 100 + c | GoPanic c => 200 + c
  | OutOfFuel => 300 | BadOracle => 301 | OutOfTape => 302
  end.

(* observed mutable state: float fields, integer fields, boolean fields *)
Definition obs_state : Type := list (list float) * list (list Z) * list (list bool).

Definition obs_eqb (a b : obs_state) : bool :=
  let '(fa, za, ba) := a in
  let '(fb, zb, bb) := b in
  list_eqb (list_eqb feqb_exact) fa fb && list_eqb (list_eqb Z.eqb) za zb && list_eqb (list_eqb Bool.eqb) ba bb.

Definition std_obs (s : sstate float) : obs_state :=
  ([s_act s; s_sum s; s_l1 s; s_l2 s], [s_cnt s], [s_on s]).
Definition fast_obs (s : fstate float) : obs_state :=
  ([fs_sig s; fs_bp s; fs_last s], [], [fs_done s; fs_inact s]).

(* one observed operation: the operation, result code, outputs, state if recorded *)
Definition obs_op : Type := op float * Z * list float * option obs_state.

Definition obs_matches (r : res bool) (outs : list float) (st : obs_state) (o : obs_op) : bool :=
  let '(_, code, gouts, gst) := o in
  (code_of_res r =? code) && list_eqb feqb_exact outs gouts
  && match gst with None => true | Some g => obs_eqb st g end.

Fixpoint std_follow (t : table) (n : net float) (s : sstate float) (l : list obs_op) : bool :=
  match l with
  | [] => true
  | o :: l' =>
    let '(s', r) := std_step F64num (fact t) n s (fst (fst (fst o))) in
    obs_matches r (std_outputs F64num n s') (std_obs s') o && std_follow t n s' l'
  end.

Fixpoint fast_follow (t : table) (fn : fnet float) (s : fstate float) (l : list obs_op) : bool :=
  match l with
  | [] => true
  | o :: l' =>
    let '(s', r) := fast_step F64num (fact t) fn s (fst (fst (fst o))) in
    obs_matches r (fast_outputs F64num fn s') (fast_obs s') o && fast_follow t fn s' l'
  end.

(* the static part of a fast solver as the harness reads it: counts, activation types, connections, biasList *)
Definition fast_static : Type := list nat * list Z * list (nat * nat * float) * list float.

Definition fast_static_of (fn : fnet float) : fast_static :=
  ([f_bias fn; f_in fn; f_out fn; f_total fn], f_acts fn,
   map (fun c => (fl_src c, fl_tgt c, fl_w c)) (f_conns fn), f_biases fn).

Definition fast_static_eqb (a b : fast_static) : bool :=
  let '(ca, aa, la, ba) := a in
  let '(cb, ab, lb, bb) := b in
  list_eqb Nat.eqb ca cb && list_eqb Z.eqb aa ab
  && list_eqb (fun x y => Nat.eqb (fst (fst x)) (fst (fst y)) && Nat.eqb (snd (fst x)) (snd (fst y))
                          && feqb_exact (snd x) (snd y)) la lb
  && list_eqb feqb_exact ba bb.

Definition mk_net (nodes : list (Z * Z * list (nat * float * bool))) (ins outs : list nat) : net float :=
  mkNet (map (fun nd => mkNode (role_of_Z (fst (fst nd))) (snd (fst nd))
                               (map (fun l => mkLink (fst (fst l)) (snd (fst l)) (snd l)) (snd nd))) nodes)
        ins outs.

Record solver_case := {
  sc_id : Z;
  sc_nodes : list (Z * Z * list (nat * float * bool));   (* NeuronType, ActivationType, Incoming (position, weight, time delayed) *)
  sc_inputs : list nat;
  sc_outputs : list nat;
  sc_table : table;
  sc_fast_code : Z;                     (* FastNetworkSolver(): 1 = built, 100+c = error c, 200+c = panic *)
  sc_fast_static : option fast_static;
  sc_runs : list (Z * list obs_op)      (* 0 = a fresh Network, 1 = a fresh fast solver; then the observed operations *)
}.

Definition fast_build_code (r : res (fnet float)) : Z :=
  match r with Ok _ => 1 | GoErr c => 100 + c | GoPanic c => 200 + c | OutOfFuel => 300 | BadOracle => 301 | OutOfTape => 302 end.

Definition solver_check (c : solver_case) : bool :=
  let n := mk_net (sc_nodes c) (sc_inputs c) (sc_outputs c) in
  let t := sc_table c in
  let fr := fast_of_net F64num n in
  net_ok n
  && (fast_build_code fr =? sc_fast_code c)
  && match fr, sc_fast_static c with
     | Ok fn, Some g => fast_static_eqb (fast_static_of fn) g
     | _, _ => true
     end
  && forallb (fun run =>
                match fst run with
                | 0 => std_follow t n (std_init F64num n) (snd run)
                | _ => match fr with
                       | Ok fn => fast_follow t fn (fast_init F64num fn) (snd run)
                       | _ => false
                       end
                end) (sc_runs c).

Definition c12_case := solver_case.
Definition c12_check := solver_check.
Definition c12_mismatches (l : list c12_case) : list Z := failing c12_check sc_id l.
