(* correspondence for whole populations (C01-C03, C08-C10, C17): spawn a population from a start
   genome, then repeatedly set the fitness values the harness chose and turn the epoch over, on
   one tape; after every step the observable projection of the population, the innovation
   counters and the next raw draw must equal what the implementation showed. *)
From NeatModel Require Import Compat.
From NeatModel Require Import Res F64 GoRand GoSource Genome Options Population GenomeLit Digest.

(* one organism as observed: genome, fitness, species id, generation, population-champion-child flag,
   highest fitness, structural-mutation and mate flags *)
Record org_obs := { oo_genome : genome; oo_fit : float; oo_species : Z; oo_gen : Z;
                    oo_champchild : bool; oo_highest : float; oo_mutstruct : bool; oo_mate : bool }.
(* one species: id, age, novel, max fitness ever, expected offspring, age of last improvement, member genome ids *)
Record sp_obs := { so_id : Z; so_age : Z; so_novel : bool; so_maxfit : float; so_exp : Z; so_lastimp : Z;
                   so_members : list Z }.
Record pop_obs := { po_orgs : list org_obs; po_species : list sp_obs; po_last_species : Z;
                    po_highest : float; po_epochs_highest : Z; po_env : ienv; po_next_draw : Z }.

Definition OO g f s gen cc hi ms mt : org_obs :=
  {| oo_genome := g; oo_fit := f; oo_species := s; oo_gen := gen; oo_champchild := cc; oo_highest := hi;
     oo_mutstruct := ms; oo_mate := mt |}.
Definition SO id age novel mf e li ms : sp_obs :=
  {| so_id := id; so_age := age; so_novel := novel; so_maxfit := mf; so_exp := e; so_lastimp := li; so_members := ms |}.
Definition PO os ss ls hi eh env nd : pop_obs :=
  {| po_orgs := os; po_species := ss; po_last_species := ls; po_highest := hi; po_epochs_highest := eh;
     po_env := env; po_next_draw := nd |}.

Definition org_obs_eqb (a b : org_obs) : bool :=
  genome_eqb (oo_genome a) (oo_genome b) && feqb_exact (oo_fit a) (oo_fit b) && Z.eqb (oo_species a) (oo_species b)
  && Z.eqb (oo_gen a) (oo_gen b) && Bool.eqb (oo_champchild a) (oo_champchild b)
  && feqb_exact (oo_highest a) (oo_highest b) && Bool.eqb (oo_mutstruct a) (oo_mutstruct b) && Bool.eqb (oo_mate a) (oo_mate b).
Definition sp_obs_eqb (a b : sp_obs) : bool :=
  Z.eqb (so_id a) (so_id b) && Z.eqb (so_age a) (so_age b) && Bool.eqb (so_novel a) (so_novel b)
  && feqb_exact (so_maxfit a) (so_maxfit b) && Z.eqb (so_exp a) (so_exp b) && Z.eqb (so_lastimp a) (so_lastimp b)
  && list_eqb Z.eqb (so_members a) (so_members b).
Definition pop_obs_eqb (a b : pop_obs) : bool :=
  list_eqb org_obs_eqb (po_orgs a) (po_orgs b) && list_eqb sp_obs_eqb (po_species a) (po_species b)
  && Z.eqb (po_last_species a) (po_last_species b) && feqb_exact (po_highest a) (po_highest b)
  && Z.eqb (po_epochs_highest a) (po_epochs_highest b) && ienv_eqb (po_env a) (po_env b)
  && Z.eqb (po_next_draw a) (po_next_draw b).

Definition observe_org (x : organism) : org_obs :=
  {| oo_genome := o_genome x; oo_fit := o_fit x; oo_species := o_species x; oo_gen := o_gen x;
     oo_champchild := o_popchampchild x; oo_highest := o_highest x; oo_mutstruct := o_mutstruct x; oo_mate := o_mate x |}.

Definition observe_species (h : list organism) (s : species) : res sp_obs :=
  do orgs <- hgets h (sp_orgs s);
  Ok {| so_id := sp_id s; so_age := sp_age s; so_novel := sp_novel s; so_maxfit := sp_maxfit s; so_exp := sp_exp s;
        so_lastimp := sp_lastimp s; so_members := map (fun x => gid (o_genome x)) orgs |}.

Fixpoint map_res' {A B} (f : A -> res B) (l : list A) : res (list B) :=
  match l with [] => Ok [] | x :: l' => do y <- f x; do ys <- map_res' f l'; Ok (y :: ys) end.

Definition observe (p : population) (s : st) : res pop_obs :=
  do orgs <- hgets (p_heap p) (p_orgs p);
  do sps <- map_res' (observe_species (p_heap p)) (p_species p);
  Ok {| po_orgs := map observe_org orgs; po_species := sps; po_last_species := p_last_species p;
        po_highest := p_highest p; po_epochs_highest := p_epochs_highest p; po_env := s_env s;
        po_next_draw := match s_tape s with x :: _ => x | [] => -1 end |}.

Definition enc_org_obs (x : org_obs) : list Z :=
  enc_genome (oo_genome x) ++ enc_float (oo_fit x) ++ [oo_species x; oo_gen x; b2z (oo_champchild x)]
  ++ enc_float (oo_highest x) ++ [b2z (oo_mutstruct x); b2z (oo_mate x)].
Definition enc_sp_obs (x : sp_obs) : list Z :=
  [so_id x; so_age x; b2z (so_novel x)] ++ enc_float (so_maxfit x) ++ [so_exp x; so_lastimp x] ++ enc_list (fun z => [z]) (so_members x).
Definition enc_pop_obs (x : pop_obs) : list Z :=
  enc_list enc_org_obs (po_orgs x) ++ enc_list enc_sp_obs (po_species x) ++ [po_last_species x]
  ++ enc_float (po_highest x) ++ [po_epochs_highest x] ++ enc_env (po_env x) ++ [po_next_draw x].
Definition obs_digest (x : pop_obs) : Z := digest (enc_pop_obs x).

(* what the implementation showed after a step: a digest of the observation, optionally the full
   observation as well *)
Record go_obs := { go_digest : Z; go_full : option pop_obs }.
Definition GD (d : Z) : go_obs := {| go_digest := d; go_full := None |}.
Definition GF (d : Z) (o : pop_obs) : go_obs := {| go_digest := d; go_full := Some o |}.

Definition obs_agree (mine : pop_obs) (g : go_obs) : bool :=
  Z.eqb (obs_digest mine) (go_digest g) &&
  match go_full g with Some o => pop_obs_eqb mine o | None => true end.

(* one epoch of a history: the fitness values assigned before the turnover, and what was observed
   afterwards (None: the implementation returned an error) *)
Record epoch_step := { es_fitness : list float; es_go : option go_obs }.

(* the tape is the first [ec_draws] values of Go's source seeded with [ec_seed], produced in Coq *)
Record epoch_case := { ec_id : Z; ec_opts : options; ec_start : genome; ec_seed : Z; ec_draws : Z;
                       ec_spawn_go : go_obs; ec_steps : list epoch_step }.

(* the harness reads one raw draw off the global source after every observation *)
Definition skip1 (s : st) : st := {| s_tape := tl (s_tape s); s_env := s_env s |}.

(* returns the index of the first step that disagrees: 0 spawn, k the k-th epoch; -1 none *)
Fixpoint run_steps (o : options) (generation : Z) (p : population) (x : executor) (s : st)
         (steps : list epoch_step) : Z :=
  match steps with
  | [] => -1
  | e :: rest =>
    match set_fitness (p_heap p) (p_orgs p) (es_fitness e) with
    | Ok h =>
      match next_epoch o generation (p_with_heap p h) x s, es_go e with
      | Ok ((p', x'), s'), Some obs =>
        match observe p' s' with
        | Ok mine => if obs_agree mine obs then run_steps o (generation + 1) p' x' (skip1 s') rest else generation + 1
        | _ => generation + 1
        end
      | GoErr _, None | GoPanic _, None => -1       (* both fail: the history ends here *)
      | _, _ => generation + 1
      end
    | _ => generation + 1
    end
  end.

Definition epoch_check_at (c : epoch_case) : Z :=
  let s0 := {| s_tape := go_tape (ec_seed c) (ec_draws c); s_env := {| innovs := []; next_innov := 0; next_node := 0 |} |} in
  match new_population (ec_opts c) (ec_start c) s0 with
  | Ok (p, s) =>
    match observe p s with
    | Ok mine =>
      if obs_agree mine (ec_spawn_go c)
      then run_steps (ec_opts c) 0 p {| x_best_id := 0; x_best_reproduced := false |} (skip1 s) (ec_steps c)
      else 0
    | _ => 0
    end
  | _ => 0
  end.

Definition epoch_check (c : epoch_case) : bool := Z.eqb (epoch_check_at c) (-1).
Definition epoch_mismatches (l : list epoch_case) : list Z := failing epoch_check ec_id l.
(* diagnostic: (case id, first disagreeing step) *)
Definition epoch_first_diffs (l : list epoch_case) : list (Z * Z) :=
  filter (fun p => negb (Z.eqb (snd p) (-1))) (map (fun c => (ec_id c, epoch_check_at c)) l).
