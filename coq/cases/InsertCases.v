(* direct correspondence for geneInsert / nodeInsert (model/Insert.v): the harness calls the two Go functions on
   every ascending key list over a small universe and every new key (equal keys included) and reports the
   order of the result as the list of the elements' tags; the model must produce the same order *)
From NeatModel Require Import Res Genome Insert.

Record ins_case := { ins_id : Z; ins_keys : list Z; ins_new : Z; ins_go : list Z }.

(* elements are (key, tag): tags 0..n-1 for the old elements in order, n for the new one *)
Definition ins_model (keys : list Z) (k : Z) : list Z :=
  let old := combine keys (map Z.of_nat (seq 0 (length keys))) in
  map snd (insert_sorted fst old (k, zlen keys)).

Definition ins_check (c : ins_case) : bool := list_eqb Z.eqb (ins_model (ins_keys c) (ins_new c)) (ins_go c).

Definition ins_mismatches (l : list ins_case) : list Z := failing ins_check ins_id l.
