(* correspondence for C07: the harness supplies two gene lists and three coefficients and what the
   real compatLinear / compatFast / compatibility returned for both argument orders; the float
   instance of the model must return the same binary64 values, bit for bit (all NaNs identified) *)
From NeatModel Require Import Res F64 Compat.

Record c07_case := {
  c07_id : Z;
  c07_a : list (Z * float); c07_b : list (Z * float);
  c07_dc : float; c07_ec : float; c07_mc : float;
  c07_go_fast_ab : float; c07_go_fast_ba : float;
  c07_go_lin_ab : float; c07_go_lin_ba : float;
  c07_go_disp_lin_ab : float; c07_go_disp_fast_ab : float  (* through the dispatching compatibility *)
}.

Definition res_is (r : res float) (x : float) : bool :=
  match r with Ok v => feqb_exact v x | _ => false end.

Definition c07_check (c : c07_case) : bool :=
  let dc := c07_dc c in let ec := c07_ec c in let mc := c07_mc c in
  res_is (compat_fast float_num dc ec mc (c07_a c) (c07_b c)) (c07_go_fast_ab c) &&
  res_is (compat_fast float_num dc ec mc (c07_b c) (c07_a c)) (c07_go_fast_ba c) &&
  res_is (compat_linear float_num dc ec mc (c07_a c) (c07_b c)) (c07_go_lin_ab c) &&
  res_is (compat_linear float_num dc ec mc (c07_b c) (c07_a c)) (c07_go_lin_ba c) &&
  res_is (compatibility float_num true dc ec mc (c07_a c) (c07_b c)) (c07_go_disp_lin_ab c) &&
  res_is (compatibility float_num false dc ec mc (c07_a c) (c07_b c)) (c07_go_disp_fast_ab c).

Definition c07_mismatches (l : list c07_case) : list Z := failing c07_check c07_id l.
