(* C01 uses the operator correspondence of OpsCases.v and the direct insertion correspondence *)
From NeatModel Require Export OpsCases InsertCases.
