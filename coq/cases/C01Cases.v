(* C01 uses the operator correspondence of OpsCases.v *)
From NeatModel Require Export OpsCases.
