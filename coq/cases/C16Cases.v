(* C16 has no model-side correspondence cases: a parallel epoch is not reproducible from the seed
   (the goroutines interleave their draws from the global math/rand source), so the harness checks
   the C01/C02/C03 invariants on the Go side after every parallel epoch, soaks the executor under
   the race detector, and re-derives the lock table from the source; see harness/c16.go.
   The one thing evaluated in Coq per run is the regenerated table (props/C16.v). *)
From NeatModel Require Import Res.

Record c16_case := { c16_id : Z }.
Definition c16_check (c : c16_case) : bool := true.
Definition c16_mismatches (l : list c16_case) : list Z := failing c16_check c16_id l.
