(* correspondence for C20: the harness supplies scripts and the trace it observed on the
   real Experiment.Execute; the model must produce the same observable trace and status *)
From NeatModel Require Import Res Execute.

Record c20_case := { c20_id : Z; c20_obs : bool; c20_script : list (list Z);
                     c20_go_trace : list (list Z); c20_go_status : Z }.

Definition c20_check (c : c20_case) : bool :=
  let '(tr, st) := observed_trace (c20_obs c) (c20_script c) in
  list_eqb (list_eqb Z.eqb) tr (c20_go_trace c) && Z.eqb st (c20_go_status c).

Definition c20_mismatches (l : list c20_case) : list Z := failing c20_check c20_id l.
