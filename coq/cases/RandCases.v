(* correspondence for random construction (C01/C02/C03/C08 "randomly constructed" start genomes and
   populations): the harness seeds the global source, calls newGenomeRand / NewPopulationRandom on the
   real code and reads one more raw draw; the model must produce the same genome (bit-exactly) /
   the same observable population from the tape (the consumed prefix of the stream of rand.Seed(seed) plus
   one cell, written out or as [go_tape seed draws]), and must have consumed all of it but the last cell,
   which is the draw the harness read. *)
From NeatModel Require Import Compat.
From NeatModel Require Import Res F64 GoRand GoSource Genome Options Population GenomeLit Digest EpochCases RandGenome.

Inductive rg_result :=
| RgOk (g : genome) (next_draw : Z)
| RgFailed.                                   (* the implementation returned an error or panicked *)

Record rand_case := { rc_id : Z; rc_opts : options; rc_new_id : Z; rc_in : Z; rc_out : Z; rc_n : Z; rc_max_hidden : Z;
                      rc_rec : bool; rc_link_prob : float; rc_tape : tape; rc_go : rg_result }.

Definition rand_st0 (seed draws : Z) : st :=
  {| s_tape := go_tape seed draws; s_env := {| innovs := []; next_innov := 0; next_node := 0 |} |}.

Definition rand_run (c : rand_case) : res (genome * st) :=
  new_genome_rand (rc_opts c) (rc_new_id c) (rc_in c) (rc_out c) (rc_n c) (rc_max_hidden c) (rc_rec c) (rc_link_prob c)
                  {| s_tape := rc_tape c; s_env := {| innovs := []; next_innov := 0; next_node := 0 |} |}.

Definition rand_check (c : rand_case) : bool :=
  match rand_run c, rc_go c with
  | Ok (g', s), RgOk g nd =>
    genome_eqb g' g && match s_tape s with [x] => Z.eqb x nd | _ => false end
  | GoErr _, RgFailed | GoPanic _, RgFailed => true
  | _, _ => false
  end.

Definition rand_mismatches (l : list rand_case) : list Z := failing rand_check rc_id l.

(* whole populations *)
Record randpop_case := { rp_id : Z; rp_opts : options; rp_in : Z; rp_out : Z; rp_max_hidden : Z; rp_rec : bool;
                         rp_link_prob : float; rp_seed : Z; rp_draws : Z; rp_go : option go_obs }.

Definition randpop_run (c : randpop_case) : res (population * st) :=
  new_population_random (rp_opts c) (rp_in c) (rp_out c) (rp_max_hidden c) (rp_rec c) (rp_link_prob c)
                        (rand_st0 (rp_seed c) (rp_draws c)).

Definition randpop_check (c : randpop_case) : bool :=
  match randpop_run c, rp_go c with
  | Ok (p, s), Some obs =>
    match observe p s with
    | Ok mine => obs_agree mine obs && Nat.eqb (length (s_tape s)) 1
    | _ => false
    end
  | GoErr _, None | GoPanic _, None => true
  | _, _ => false
  end.

Definition randpop_mismatches (l : list randpop_case) : list Z := failing randpop_check rp_id l.
