(* correspondence for C11: the harness supplies a genome, the network the real Genome.Genesis built from
   it (projected to values: ids instead of pointers) and, for a list of ids S = V + two absent ids, the result
   of every graph query as a gonum client sees it; the model must produce the same values.
   Pair observations are sparse: the Go side lists, in row-major order over S x S, exactly the pairs on
   which some query is not "absent" (false / nil / (0,false)); the model evaluates ALL pairs of S x S,
   drops the all-absent ones and must obtain the same list. *)
From NeatModel Require Import Res F64 Genome Genesis Graph GenomeLit.

Definition PL (i o : Z) (w : float) (rc : bool) (tr : option Z) : plink :=
  {| l_in := i; l_out := o; l_w := w; l_rec := rc; l_trait := tr |}.
Definition PD (id ty act : Z) (tr : option Z) (inc out : list plink) : pnode :=
  {| p_id := id; p_type := ty; p_act := act; p_trait := tr; p_incoming := inc; p_outgoing := out |}.
Definition PN (id : Z) (ins outs : list Z) (all ctl mimo : list pnode) : pnet :=
  {| net_id := id; net_inputs := ins; net_outputs := outs; net_all := all; net_control := ctl; net_all_mimo := mimo |}.

(* what the real Genesis returned *)
Inductive c11_go := GoNet (n : pnet) | GoError (code : Z).

(* one ordered pair: HasEdgeFromTo, HasEdgeBetween, Edge (From().ID(), To().ID()),
   WeightedEdge (From().ID(), To().ID(), Weight()), Weight (w, ok) *)
Record c11_pair := PO { po_u : Z; po_v : Z; po_hft : bool; po_hb : bool; po_edge : option (Z * Z);
                        po_wedge : option (Z * Z * float); po_w : float; po_ok : bool }.

Record c11_case := { c11_id : Z; c11_g : genome; c11_netid : Z; c11_go_net : c11_go;
                     c11_ids : list Z;
                     c11_node : list (option Z);        (* Node(u) for u in ids *)
                     c11_nodes : list Z;                (* Nodes() *)
                     c11_from : list (list Z);          (* From(u) for u in ids *)
                     c11_to : list (list Z);            (* To(u) for u in ids *)
                     c11_pairs : list c11_pair;         (* sparse, row-major *)
                     c11_counts : Z * Z * Z             (* NodeCount, LinkCount, Complexity *) }.

Definition model_pair (n : pnet) (u v : Z) : c11_pair :=
  let '(w, ok) := gweight n u v in
  {| po_u := u; po_v := v; po_hft := has_edge_from_to n u v; po_hb := has_edge_between n u v;
     po_edge := option_map (fun l => (l_in l, l_out l)) (gedge n u v);
     po_wedge := option_map (fun l => (l_in l, l_out l, l_w l)) (gweighted_edge n u v);
     po_w := w; po_ok := ok |}.

Definition pair_absent (p : c11_pair) : bool :=
  negb (po_hft p) && negb (po_hb p)
  && match po_edge p with None => true | _ => false end
  && match po_wedge p with None => true | _ => false end
  && feqb_exact (po_w p) 0%float && negb (po_ok p).

Definition zz_eqb (a b : Z * Z) : bool := Z.eqb (fst a) (fst b) && Z.eqb (snd a) (snd b).
Definition zzf_eqb (a b : Z * Z * float) : bool := zz_eqb (fst a) (fst b) && feqb_exact (snd a) (snd b).

Definition c11_pair_eqb (a b : c11_pair) : bool :=
  Z.eqb (po_u a) (po_u b) && Z.eqb (po_v a) (po_v b) && Bool.eqb (po_hft a) (po_hft b)
  && Bool.eqb (po_hb a) (po_hb b) && option_eqb zz_eqb (po_edge a) (po_edge b)
  && option_eqb zzf_eqb (po_wedge a) (po_wedge b) && feqb_exact (po_w a) (po_w b) && Bool.eqb (po_ok a) (po_ok b).

Definition model_pairs (n : pnet) (ids : list Z) : list c11_pair :=
  filter (fun p => negb (pair_absent p))
         (flat_map (fun u => map (fun v => model_pair n u v) ids) ids).

Definition c11_check (c : c11_case) : bool :=
  match genesis (c11_g c) (c11_netid c), c11_go_net c with
  | Ok n, GoNet gn =>
    pnet_eqb n gn
    && list_eqb (option_eqb Z.eqb) (map (gnode n) (c11_ids c)) (c11_node c)
    && list_eqb Z.eqb (gnodes n) (c11_nodes c)
    && list_eqb (list_eqb Z.eqb) (map (gfrom n) (c11_ids c)) (c11_from c)
    && list_eqb (list_eqb Z.eqb) (map (gto n) (c11_ids c)) (c11_to c)
    && list_eqb c11_pair_eqb (model_pairs n (c11_ids c)) (c11_pairs c)
    && (let '(nc, lc, cx) := c11_counts c in
        Z.eqb (node_count n) nc && Z.eqb (link_count n) lc && Z.eqb (complexity n) cx)
  | GoErr e, GoError e' => Z.eqb e e'
  | _, _ => false
  end.

Definition c11_mismatches (l : list c11_case) : list Z := failing c11_check c11_id l.
