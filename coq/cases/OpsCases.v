(* correspondence for the genetic operators (C01, C04, C05, C06): the harness applies one operator
   to one or two genomes on the real code with the global source seeded, and records the result,
   the innovation environment afterwards and the next raw draw of the global source; the model
   must reproduce all three from the same tape. *)
From NeatModel Require Import Res F64 GoRand Genome Options Insert Dup Mutate Mate GenomeLit.

Inductive op :=
| OpDup (new_id : Z)
| OpMut (kind : Z) (times : Z)     (* 0 connect_sensors 1 add_link 2 add_node 3 link_weights 4 link_weights_cold
                                      5 random_trait 6 link_trait 7 node_trait 8 toggle_enable 9 gene_reenable
                                      10 all_nonstructural *)
| OpMate (method : Z) (new_id : Z) (f1 f2 : float).

Inductive go_result :=
| GoOk (g : genome) (flag : bool) (env : ienv) (next_draw : Z)
| GoFailed.                                  (* the implementation returned an error or panicked *)

Record op_case := { oc_id : Z; oc_op : op; oc_g : genome; oc_g2 : genome; oc_env : ienv; oc_opts : options;
                    oc_tape : tape; oc_go : go_result }.

Definition run_mut (kind times : Z) (o : options) (g : genome) : @M st (genome * bool) :=
  let n := Z.to_nat times in
  match kind with
  | 0 => mutate_connect_sensors g
  | 1 => mutate_add_link o g
  | 2 => mutate_add_node o g
  | 3 => mutate_link_weights (o_weight_mut_power o) 1%float true g
  | 4 => mutate_link_weights (o_weight_mut_power o) 1%float false g
  | 5 => mutate_random_trait o g
  | 6 => mutate_link_trait n g
  | 7 => mutate_node_trait n g
  | 8 => mutate_toggle_enable n g
  | 9 => mutate_gene_reenable g
  | _ => mutate_all_nonstructural o g
  end.

Definition run_op (c : op_case) : res (genome * bool * st) :=
  let s0 := {| s_tape := oc_tape c; s_env := oc_env c |} in
  match oc_op c with
  | OpDup id => do g' <- duplicate (oc_g c) id; Ok (g', true, s0)
  | OpMut k t => do r <- run_mut k t (oc_opts c) (oc_g c) s0; let '((g', b), s) := r in Ok (g', b, s)
  | OpMate m id f1 f2 =>
    do r <- (match m with
             | 0 => mate_multipoint (oc_g c) (oc_g2 c) id f1 f2
             | 1 => mate_multipoint_avg (oc_g c) (oc_g2 c) id f1 f2
             | _ => mate_singlepoint (oc_g c) (oc_g2 c) id
             end) s0;
    let '(g', s) := r in Ok (g', true, s)
  end.

Definition ops_check (c : op_case) : bool :=
  match run_op c, oc_go c with
  | Ok (g', b, s), GoOk g b' env nd =>
    genome_eqb g' g && Bool.eqb b b' && ienv_eqb (s_env s) env
    && match s_tape s with x :: _ => Z.eqb x nd | [] => false end
  | GoErr _, GoFailed | GoPanic _, GoFailed => true
  | _, _ => false
  end.

Definition ops_mismatches (l : list op_case) : list Z := failing ops_check oc_id l.
