(* correspondence for C15: both directions separately.
   Writers: the harness tokenises what the real writer produced (strings.Split on single spaces; a field
   is TInt when it is a canonical decimal integer, TBool for true/false, TFloat when strconv.ParseFloat
   accepts it, TWord otherwise) and the model writer must produce the same lines for the same value.
   Readers: the real reader ran on some text; the model reader must give the same result on the same token
   lines (same genome, or an error where the implementation returned one, or a panic where it panicked). *)
From Coq Require Export String.
From NeatModel Require Import Res F64 Genome GenomeLit Plain Tree.

Inductive go_pop :=
| PopOk (gs : list rgenome) (next_node next_innov : Z)
| PopErr
| PopPanic.

Inductive go_yaml :=
| YOk (g : ygenome)
| YErr
| YPanic.

Inductive c15_obs :=
| ObsWrite (g : genome) (go : option (list line))                     (* Genome.Write *)
| ObsRead (ls : list line) (id : option Z) (go : option rgenome)      (* GenomeReader.Read / ReadGenome(r, id) *)
| ObsOrgWrite (o : organism) (go : option (list line))                (* Organism.MarshalBinary *)
| ObsOrgRead (ls : list line) (go : option rorganism)                 (* Organism.UnmarshalBinary *)
| ObsPopWrite (gs : list genome) (go : option (list line))            (* Population.Write *)
| ObsPopRead (ls : list line) (go : go_pop)                           (* ReadPopulation *)
| ObsYamlWrite (g : genome) (go : option tree)                        (* YAML writer, then yaml.v3 into interface{} *)
| ObsYamlRead (t : tree) (go : go_yaml)                               (* YAML reader on a text that decodes to t *)
| ObsExp (e : experiment (option champion)) (go : option (experiment rchampion)).  (* Experiment.Write then Read *)

Record c15_case := { c15_id : Z; c15_reg : registry; c15_what : c15_obs }.

(* compact constructors for generated terms *)
Definition RG (i o : option Z) (rc : bool) (w : float) (tr : option Z) (innov : Z) (mut : float) (en : bool) : rgene :=
  {| rg_in := i; rg_out := o; rg_rec := rc; rg_w := w; rg_trait := tr; rg_innov := innov; rg_mut := mut; rg_en := en |}.
Definition RGN (id : Z) (ts : list trait) (ns : list node) (gs : list rgene) : rgenome :=
  {| rg_id := id; rg_traits := ts; rg_nodes := ns; rg_genes := gs |}.
Definition ORG (fit : float) (gen : Z) (high : float) (cc : bool) (g : genome) : organism :=
  {| o_fit := fit; o_gen := gen; o_high := high; o_champ_child := cc; o_genome := g |}.
Definition RORG (fit : float) (gen : Z) (high : float) (cc : bool) (g : rgenome) : rorganism :=
  {| ro_fit := fit; ro_gen := gen; ro_high := high; ro_champ_child := cc; ro_genome := g |}.
Definition TI := TInt.
Definition TF := TFloat.
Definition TB := TBool.
Definition TW := TWord.
Arguments TW _%string.
Definition RE (c : Z) (s : string) : Z * string := (c, s).
Arguments RE _%Z _%string.

Definition KV (k : string) (v : tree) : string * tree := (k, v).
Arguments KV _%string _.
Definition YG (core : rgenome) (ms : list mimo) : ygenome := {| y_core := core; y_modules := ms |}.
Definition CH (fit : float) (win : bool) (gen : Z) (off err : float) (g : genome) : champion :=
  {| c_fit := fit; c_winner := win; c_gen := gen; c_offspring := off; c_error := err; c_genome := g |}.
Definition RCH (fit : float) (win : bool) (gen : Z) (off err : float) (g : rgenome) : rchampion :=
  {| rc_fit := fit; rc_winner := win; rc_gen := gen; rc_offspring := off; rc_error := err; rc_genome := g |}.
Definition GEN {C} (id ex : Z) (so : bool) (fi ag co : list float) (di ev no ge du tr : Z) (ch : C) : generation C :=
  {| gn_id := id; gn_executed := ex; gn_solved := so; gn_fitness := fi; gn_age := ag; gn_complexity := co;
     gn_diversity := di; gn_evals := ev; gn_nodes := no; gn_genes := ge; gn_duration := du; gn_trial := tr;
     gn_champion := ch |}.
Definition TR {C} (id : Z) (gs : list (generation C)) : trial C := {| tr_id := id; tr_gens := gs |}.
Definition EXPT {C} (id : Z) (name : string) (ts : list (trial C)) : experiment C :=
  {| ex_id := id; ex_name := name; ex_trials := ts |}.
Arguments EXPT {C} _%Z _%string _.

Definition write_matches (m : res (list line)) (go : option (list line)) : bool :=
  match m, go with
  | Ok ls, Some gl => lines_agree ls gl
  | GoErr _, None => true
  | _, _ => false
  end.

Definition c15_check (c : c15_case) : bool :=
  let reg := c15_reg c in
  match c15_what c with
  | ObsWrite g go => write_matches (write_genome reg g) go
  | ObsRead ls id go =>
    match (match id with Some i => read_genome_id reg ls i | None => read_genome reg ls end), go with
    | Ok r, Some r' => rgenome_eqb r r'
    | GoErr _, None => true
    | _, _ => false
    end
  | ObsOrgWrite o go => write_matches (write_organism reg o) go
  | ObsOrgRead ls go =>
    match read_organism reg ls, go with
    | Ok r, Some r' => rorganism_eqb r r'
    | GoErr _, None => true
    | _, _ => false
    end
  | ObsPopWrite gs go => write_matches (write_population reg gs) go
  | ObsYamlWrite g go =>
    match y_genome reg g, go with
    | Ok t, Some gt => tree_eqb (yaml_lib il_g t) gt && tree_eqb gt (yaml_lib il_g t)
    | GoErr _, None => true
    | _, _ => false
    end
  | ObsYamlRead t go =>
    match y_read reg t, go with
    | Ok r, YOk r' => ygenome_eqb r r'
    | GoErr _, YErr => true
    | GoPanic _, YPanic => true
    | _, _ => false
    end
  | ObsExp e go =>
    match enc_experiment reg e with
    | Ok s =>
      match dec_experiment reg s, go with
      | Ok (e', []), Some ge => experiment_eqb e' ge
      | GoErr _, None => true
      | _, _ => false
      end
    | GoErr _ => match go with None => true | Some _ => false end
    | _ => false
    end
  | ObsPopRead ls go =>
    match read_population reg ls, go with
    | Ok (gs, nn, ni), PopOk gs' nn' ni' => list_eqb rgenome_eqb gs gs' && Z.eqb nn nn' && Z.eqb ni ni'
    | GoErr _, PopErr => true
    | GoPanic _, PopPanic => true
    | _, _ => false
    end
  end.

Definition c15_mismatches (l : list c15_case) : list Z := failing c15_check c15_id l.
