(* correspondence for C14: the harness supplies a network (nodes with NeuronType code, the id
   lists behind inputs/Outputs, links in creation order, number of control nodes), a list of
   queries issued one after the other on the SAME network object, and for every query what the
   real MaxActivationDepth / MaxActivationDepthWithCap returned (value, error code) together with
   the ids still marked visited afterwards.  The model must produce the same list. *)
From NeatModel Require Import Res Depth.

Record c14_case := { c14_id : Z;
                     c14_nodes : list (Z * Z); c14_inputs : list Z; c14_outputs : list Z;
                     c14_links : list (Z * Z); c14_control : Z;
                     c14_queries : list (Z * Z);
                     c14_go : list (Z * Z * list Z) }.

Definition c14_obs_eqb (a b : Z * Z * list Z) : bool :=
  let '(r1, e1, m1) := a in
  let '(r2, e2, m2) := b in
  Z.eqb r1 r2 && Z.eqb e1 e2 && list_eqb Z.eqb m1 m2.

Definition c14_check (c : c14_case) : bool :=
  match run_queries (mk_net (c14_nodes c) (c14_inputs c) (c14_outputs c) (c14_links c) (c14_control c))
                    (c14_queries c) [] with
  | Ok l => list_eqb c14_obs_eqb l (c14_go c)
  | _ => false
  end.

Definition c14_mismatches (l : list c14_case) : list Z := failing c14_check c14_id l.
