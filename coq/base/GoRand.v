(* Go's math/rand derivations over a tape of raw 63-bit draws (the Int63() stream of the
   seeded global source), and the state monad every randomised model function runs in.
   Each loop that may redraw consumes at least one tape cell per iteration, so recursion is
   structural on the tape: an adversarial tape yields OutOfTape, never divergence. *)
From NeatModel Require Import Res F64.
From Coq Require Import Lia.

Definition tape := list Z.

(* ---- state monad over an arbitrary state carrying the tape ---- *)
Section Monad.
  Context {S : Type}.
  Definition M (A : Type) := S -> res (A * S).
  Definition ret {A} (a : A) : M A := fun s => Ok (a, s).
  Definition bindM {A B} (m : M A) (f : A -> M B) : M B :=
    fun s => match m s with
             | Ok (a, s') => f a s'
             | GoErr c => GoErr c | GoPanic c => GoPanic c
             | OutOfTape => OutOfTape | OutOfFuel => OutOfFuel | BadOracle => BadOracle
             end.
  Definition fail_err {A} (c : Z) : M A := fun _ => GoErr c.
  Definition fail_panic {A} (c : Z) : M A := fun _ => GoPanic c.
  Definition lift {A} (r : res A) : M A := fun s => bind r (fun a => Ok (a, s)).
  Definition get : M S := fun s => Ok (s, s).
  Definition put (s : S) : M unit := fun _ => Ok (tt, s).
End Monad.

Notation "'let!' x ':=' m 'in' k" := (bindM m (fun x => k))
  (at level 200, x pattern, m at level 100, k at level 200, right associativity).
Notation "'exec' m ';;' k" := (bindM m (fun _ => k))
  (at level 200, m at level 100, k at level 200, right associativity).

(* ---- derivations on a bare tape ---- *)
Definition two63 : float := 0x1p+63%float.

(* Float64: float64(Int63()) / (1<<63), resampled when it rounds to 1 *)
Fixpoint tape_float64 (t : tape) : res (float * tape) :=
  match t with
  | [] => OutOfTape
  | x :: t' =>
    let f := PrimFloat.div (f_of_Z x) two63 in
    if PrimFloat.eqb f 1%float then tape_float64 t' else Ok (f, t')
  end.

(* binary64 -> binary32 -> binary64 (Go's float32(x) for finite x), via SpecFloat *)
Definition round32 (x : float) : float :=
  match Prim2SF x with
  | S754_finite s m e => SF2Prim (SpecFloat.binary_normalize 24 128 (if s then Zneg m else Zpos m) e false)
  | _ => x
  end.

(* Float32: float32(Float64()), resampled when it rounds to 1 *)
Fixpoint tape_float32 (t : tape) : res (float * tape) :=
  match t with
  | [] => OutOfTape
  | x :: t' =>
    let f := PrimFloat.div (f_of_Z x) two63 in
    if PrimFloat.eqb f 1%float then tape_float32 t'
    else let g := round32 f in
         if PrimFloat.eqb g 1%float then tape_float32 t' else Ok (g, t')
  end.

Definition int31_of (x : Z) : Z := Z.shiftr x 32.

(* Int31n(n), n > 0: mask for powers of two, else rejection sampling *)
Fixpoint tape_int31n_rej (n mx : Z) (t : tape) : res (Z * tape) :=
  match t with
  | [] => OutOfTape
  | x :: t' => let v := int31_of x in
               if Z.gtb v mx then tape_int31n_rej n mx t' else Ok (v mod n, t')
  end.

Definition tape_int31n (n : Z) (t : tape) : res (Z * tape) :=
  if Z.eqb (Z.land n (n - 1)) 0 then
    match t with
    | [] => OutOfTape
    | x :: t' => Ok (Z.land (int31_of x) (n - 1), t')
    end
  else
    let mx := 2147483647 - (2147483648 mod n) in
    tape_int31n_rej n mx t.

(* Intn(n): panics for n <= 0; every n the code can reach is < 2^31 *)
Definition tape_intn (n : Z) (t : tape) : res (Z * tape) :=
  if Z.leb n 0 then GoPanic 1 else tape_int31n n t.

(* neat/math.RandSign: rand.Int() even -> -1 else 1 *)
Definition tape_randsign (t : tape) : res (float * tape) :=
  match t with
  | [] => OutOfTape
  | x :: t' => Ok (if Z.even x then (-1)%float else 1%float, t')
  end.

(* consumption lemmas: every successful draw returns a strict suffix *)
Lemma tape_float64_suffix t : forall f t', tape_float64 t = Ok (f, t') -> exists p, p <> [] /\ t = p ++ t'.
Proof.
  induction t as [|x t IH]; cbn [tape_float64]; intros f t' H; [discriminate|].
  destruct (PrimFloat.eqb _ _).
  - destruct (IH _ _ H) as [p [Hp ->]]. exists (x :: p). split; [discriminate|reflexivity].
  - injection H as _ <-. exists [x]. split; [discriminate|reflexivity].
Qed.
