(* Result type shared by every model function: every Go error return and every place
   where the Go code would panic is a visible value; the model artefacts (finite random
   tape, recursion fuel, sort oracle) are distinguishable from both. *)
From Coq Require Export List ZArith Bool.
Export ListNotations.
Open Scope Z_scope.

Inductive res (A : Type) : Type :=
| Ok (a : A)
| GoErr (code : Z)
| GoPanic (code : Z)
| OutOfTape
| OutOfFuel
| BadOracle.
Arguments Ok {A} a.
Arguments GoErr {A} code.
Arguments GoPanic {A} code.
Arguments OutOfTape {A}.
Arguments OutOfFuel {A}.
Arguments BadOracle {A}.

Definition bind {A B} (r : res A) (f : A -> res B) : res B :=
  match r with
  | Ok a => f a
  | GoErr c => GoErr c
  | GoPanic c => GoPanic c
  | OutOfTape => OutOfTape
  | OutOfFuel => OutOfFuel
  | BadOracle => BadOracle
  end.

Notation "'do' x <- r ; k" := (bind r (fun x => k))
  (at level 200, x pattern, r at level 100, k at level 200, right associativity).

Definition is_ok {A} (r : res A) : bool := match r with Ok _ => true | _ => false end.

(* generic boolean list equality *)
Fixpoint list_eqb {A} (eqb : A -> A -> bool) (l1 l2 : list A) : bool :=
  match l1, l2 with
  | [], [] => true
  | x :: l1', y :: l2' => eqb x y && list_eqb eqb l1' l2'
  | _, _ => false
  end.

Lemma list_eqb_eq {A} (eqb : A -> A -> bool)
      (H : forall x y, eqb x y = true <-> x = y) :
  forall l1 l2, list_eqb eqb l1 l2 = true <-> l1 = l2.
Proof.
  induction l1 as [|x l1 IH]; destruct l2 as [|y l2]; simpl; split; intros E;
    try reflexivity; try discriminate.
  - apply andb_true_iff in E. destruct E as [E1 E2]. apply H in E1. apply IH in E2. now subst.
  - injection E as -> ->. apply andb_true_iff. split; [now apply H | now apply IH].
Qed.

Definition option_eqb {A} (eqb : A -> A -> bool) (a b : option A) : bool :=
  match a, b with
  | None, None => true
  | Some x, Some y => eqb x y
  | _, _ => false
  end.

Definition pair_eqb {A B} (ea : A -> A -> bool) (eb : B -> B -> bool) (p q : A * B) : bool :=
  ea (fst p) (fst q) && eb (snd p) (snd q).

(* indices of the cases whose check fails: what every cases file evaluates *)
Fixpoint failing {A} (check : A -> bool) (id : A -> Z) (l : list A) : list Z :=
  match l with
  | [] => []
  | c :: l' => if check c then failing check id l' else id c :: failing check id l'
  end.
