(* binary64 helpers shared by the executable (float) instances of the models *)
From Coq Require Export Floats.
From Coq Require Import ZArith Bool Uint63.
Open Scope Z_scope.

(* exact comparison used by the correspondence: same bits, all NaNs identified *)
Definition feqb_exact (x y : float) : bool :=
  match Prim2SF x, Prim2SF y with
  | S754_zero s1, S754_zero s2 => Bool.eqb s1 s2
  | S754_infinity s1, S754_infinity s2 => Bool.eqb s1 s2
  | S754_nan, S754_nan => true
  | S754_finite s1 m1 e1, S754_finite s2 m2 e2 => Bool.eqb s1 s2 && Pos.eqb m1 m2 && Z.eqb e1 e2
  | _, _ => false
  end.

(* numeric comparison: -0 = +0, NaN = NaN *)
Definition feqb_num (x y : float) : bool :=
  PrimFloat.eqb x y || (PrimFloat.is_nan x && PrimFloat.is_nan y).

(* Go's float64(int) / float64(int64) for every int64 value -2^63 <= z < 2^63: round to nearest even.
   (Coq's primitive integers have 63 bits: 2^63 itself does not fit, so math.MinInt64 = -2^63 is a case
   of its own; outside the int64 range the function is not meaningful - the conversion of z >= 2^63
   goes through Uint63.of_Z, i.e. modulo 2^63.) *)
Definition f_of_Z (z : Z) : float :=
  match z with
  | Z0 => PrimFloat.zero
  | Zpos _ => PrimFloat.of_uint63 (Uint63.of_Z z)
  | Zneg p => if Pos.eqb p 9223372036854775808 then (-0x1p+63)%float
              else PrimFloat.opp (PrimFloat.of_uint63 (Uint63.of_Z (Zpos p)))
  end.

(* Go's int(x) / int64(x) for a float64 x, for EVERY x, AS COMPILED FOR amd64.
   PLATFORM ASSUMPTION "amd64-cvttsd2sq" (part of the trusted base; cite it by this name): the Go
   specification says that converting a floating-point value to an integer type discards the
   fraction and that "if the value cannot be represented by the type the result is
   implementation-dependent" (no panic).  On amd64 the compiler emits CVTTSD2SQ, which truncates
   toward zero when the truncated value lies in [-2^63, 2^63) and otherwise - for NaN, +Inf, -Inf and
   every finite value outside that interval - returns the "integer indefinite" value
   0x8000000000000000 = -2^63 = math.MinInt64.  That behaviour is what is modelled here (checked on the
   real toolchain, go1.23.5/amd64: int(NaN) = int(+Inf) = int(-Inf) = int(1e300) = int(-1e300) =
   int(9.3e18) = int(2^63) = -9223372036854775808; int(-2^63) = -2^63 is the in-range value).
   Other ports differ (arm64 FCVTZS saturates and maps NaN to 0): every statement that depends on an
   out-of-range conversion is a statement about amd64 only. *)
Definition int64_indefinite : Z := -9223372036854775808.       (* -2^63 = math.MinInt64 *)
Definition f_trunc_Z (x : float) : Z :=
  match Prim2SF x with
  | S754_zero _ => 0
  | S754_finite s m e =>
    let v := if Z.leb 0 e then Z.shiftl (Zpos m) e else Z.shiftr (Zpos m) (- e) in
    let r := if s then - v else v in
    if Z.leb int64_indefinite r && Z.ltb r 9223372036854775808 then r else int64_indefinite
  | S754_infinity _ => int64_indefinite
  | S754_nan => int64_indefinite
  end.

(* math.Floor as an integer, for a finite x with |x| < 2^52 only (the one caller, [ffloor] of
   model/Population.v, guards with exactly that; no conversion is involved, the value is exact) *)
Definition f_floor_Z (x : float) : Z :=
  match Prim2SF x with
  | S754_finite s m e =>
    if Z.leb 0 e then (if s then - Z.shiftl (Zpos m) e else Z.shiftl (Zpos m) e)
    else
      let q := Z.shiftr (Zpos m) (- e) in
      let exact := Z.eqb (Z.shiftl q (- e)) (Zpos m) in
      if s then (if exact then - q else - q - 1) else q
  | _ => 0
  end.

Definition fabs (x : float) : float := PrimFloat.abs x.
Definition fltb (x y : float) : bool := PrimFloat.ltb x y.
Definition fleb (x y : float) : bool := PrimFloat.leb x y.
Definition fgtb (x y : float) : bool := PrimFloat.ltb y x.
Definition fgeb (x y : float) : bool := PrimFloat.leb y x.
