(* binary64 helpers shared by the executable (float) instances of the models *)
From Coq Require Export Floats.
From Coq Require Import ZArith Bool Uint63.
Open Scope Z_scope.

(* exact comparison used by the correspondence: same bits, all NaNs identified *)
Definition feqb_exact (x y : float) : bool :=
  match Prim2SF x, Prim2SF y with
  | S754_zero s1, S754_zero s2 => Bool.eqb s1 s2
  | S754_infinity s1, S754_infinity s2 => Bool.eqb s1 s2
  | S754_nan, S754_nan => true
  | S754_finite s1 m1 e1, S754_finite s2 m2 e2 => Bool.eqb s1 s2 && Pos.eqb m1 m2 && Z.eqb e1 e2
  | _, _ => false
  end.

(* numeric comparison: -0 = +0, NaN = NaN *)
Definition feqb_num (x y : float) : bool :=
  PrimFloat.eqb x y || (PrimFloat.is_nan x && PrimFloat.is_nan y).

(* Go's float64(int) / float64(int64) for |z| < 2^63: round to nearest even *)
Definition f_of_Z (z : Z) : float :=
  match z with
  | Z0 => PrimFloat.zero
  | Zpos _ => PrimFloat.of_uint63 (Uint63.of_Z z)
  | Zneg p => PrimFloat.opp (PrimFloat.of_uint63 (Uint63.of_Z (Zpos p)))
  end.

(* Go's int(x) for a finite float with |x| < 2^62: truncation toward zero *)
Definition f_trunc_Z (x : float) : Z :=
  match Prim2SF x with
  | S754_finite s m e =>
    let v := if Z.leb 0 e then Z.shiftl (Zpos m) e else Z.shiftr (Zpos m) (- e) in
    if s then - v else v
  | _ => 0
  end.

(* math.Floor as an integer, same domain *)
Definition f_floor_Z (x : float) : Z :=
  match Prim2SF x with
  | S754_finite s m e =>
    if Z.leb 0 e then (if s then - Z.shiftl (Zpos m) e else Z.shiftl (Zpos m) e)
    else
      let q := Z.shiftr (Zpos m) (- e) in
      let exact := Z.eqb (Z.shiftl q (- e)) (Zpos m) in
      if s then (if exact then - q else - q - 1) else q
  | _ => 0
  end.

Definition fabs (x : float) : float := PrimFloat.abs x.
Definition fltb (x y : float) : bool := PrimFloat.ltb x y.
Definition fleb (x y : float) : bool := PrimFloat.leb x y.
Definition fgtb (x y : float) : bool := PrimFloat.ltb y x.
Definition fgeb (x y : float) : bool := PrimFloat.leb y x.
