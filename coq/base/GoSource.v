(* Go's math/rand seeded source (additive lagged Fibonacci, rng.go): the raw Int63() stream after
   rand.Seed(seed).  The vector is kept modulo 2^63 in a primitive array: Int63() reads only the low
   63 bits of the 64-bit sums and those depend only on the low 63 bits of the summands.  Used by the
   correspondence runs to produce the tape inside Coq; theorems quantify over all tapes and never
   look at this file. *)
From Coq Require Import ZArith List Uint63 PArray.
From NeatModel Require Import GoRandCooked.
Import ListNotations.
Open Scope Z_scope.

Definition int32max : Z := 2147483647.
Definition two63z : Z := 9223372036854775808.

(* seedrand: x = 48271 * (x mod 44488) - 3399 * (x / 44488), Schrage's method *)
Definition seedrand (x : Z) : Z :=
  let hi := Z.quot x 44488 in
  let lo := Z.rem x 44488 in
  let y := 48271 * lo - 3399 * hi in
  if Z.ltb y 0 then y + int32max else y.

Definition seed_start (seed : Z) : Z :=
  let s := Z.rem seed int32max in
  let s := if Z.ltb s 0 then s + int32max else s in
  if Z.eqb s 0 then 89482311 else s.

Fixpoint warm (n : nat) (x : Z) : Z := match n with O => x | S k => warm k (seedrand x) end.

(* the 607 initial words, modulo 2^63 *)
Fixpoint seed_vec (cooked : list Z) (x : Z) : list Z :=
  match cooked with
  | [] => []
  | c :: rest =>
    let x1 := seedrand x in
    let x2 := seedrand x1 in
    let x3 := seedrand x2 in
    let u := Z.lxor (Z.lxor (Z.lxor ((x1 * 1099511627776) mod two63z) (x2 * 1048576)) x3) (c mod two63z) in
    u :: seed_vec rest x3
  end.

Fixpoint fill (a : array int) (i : int) (l : list Z) : array int :=
  match l with
  | [] => a
  | z :: l' => fill (PArray.set a i (Uint63.of_Z z)) (Uint63.add i 1) l'
  end.

Definition prev (i : int) : int := if Uint63.eqb i 0 then 606%uint63 else Uint63.sub i 1.

Fixpoint draw_loop (n : nat) (vec : array int) (tap feed : int) (acc : list Z) : list Z :=
  match n with
  | O => rev' acc
  | S k =>
    let tap := prev tap in
    let feed := prev feed in
    let x := Uint63.add (PArray.get vec feed) (PArray.get vec tap) in
    draw_loop k (PArray.set vec feed x) tap feed (Uint63.to_Z x :: acc)
  end.

(* the first n values of Int63() after rand.Seed(seed) *)
Definition go_tape (seed : Z) (n : Z) : list Z :=
  let x0 := warm 20 (seed_start seed) in
  let vec := fill (PArray.make 607 0%uint63) 0%uint63 (seed_vec rng_cooked x0) in
  draw_loop (Z.to_nat n) vec 0%uint63 334%uint63 [].
