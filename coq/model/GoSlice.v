(* Go slice indexing, pointer dereference and len, for code translated from Go source by the harness
   translators (gen/CompatBodies.v).  Executable definitions only.

   Go panics on an out-of-range index and on a nil pointer dereference; both are explicit [GoPanic] values here,
   distinguishable from every number and from each other -- never a default element. *)
From NeatModel Require Import Res.

Definition panic_index_out_of_range : Z := 710.
Definition panic_nil_deref : Z := 711.

(* len(s), as a Go int *)
Definition go_len {A : Type} (l : list A) : Z := Z.of_nat (length l).

(* s[i] *)
Definition go_index {A : Type} (l : list A) (i : Z) : res A :=
  if Z.leb 0 i && Z.ltb i (go_len l) then
    match nth_error l (Z.to_nat i) with
    | Some x => Ok x
    | None => GoPanic panic_index_out_of_range
    end
  else GoPanic panic_index_out_of_range.

(* *p / p.field for a pointer variable p: [None] is nil *)
Definition go_deref {A : Type} (p : option A) : res A :=
  match p with
  | Some x => Ok x
  | None => GoPanic panic_nil_deref
  end.
