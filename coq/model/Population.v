(* Population, Species, Organism and the epoch turnover
   (neat/genetics/population.go, species.go, population_epoch.go, organism.go).

   *Organism / *Species pointers are genuinely shared and mutated through both
   Population.Organisms and Species.Organisms: the model keeps one heap key |-> organism, both
   lists hold keys, and organisms name their species by id.  Species that are dropped from
   Population.Species while organisms still point to them (purgeZeroOffspringSpecies) stay
   addressable in [p_detached].  sort.Sort is modelled by the stable insertion sort Go itself
   uses for slices of at most 12 elements (for longer slices pdqsort may order ties differently:
   the correspondence uses tie-free fitness there; theorems are stated for any valid sort). *)
From NeatModel Require Import Compat.
From NeatModel Require Import Res F64 GoRand Genome Options Insert Dup Mutate Mate.

Record organism := {
  o_key : Z; o_fit : float; o_orig : float; o_genome : genome; o_species : Z;
  o_exp : float; o_gen : Z; o_elim : bool; o_champ : bool; o_super : Z;
  o_popchamp : bool; o_popchampchild : bool; o_highest : float;
  o_mutstruct : bool; o_mate : bool }.

Record species := {
  sp_id : Z; sp_age : Z; sp_maxfit : float; sp_exp : Z; sp_novel : bool;
  sp_orgs : list Z; sp_lastimp : Z }.

Record population := {
  p_species : list species; p_detached : list species; p_orgs : list Z; p_heap : list organism;
  p_last_species : Z; p_highest : float; p_epochs_highest : Z; p_next_key : Z }.

(* executor state that survives between epochs *)
Record executor := { x_best_id : Z; x_best_reproduced : bool }.

(* ---------- record updates ---------- *)
Definition o_with_fit (o : organism) (f : float) : organism :=
  {| o_key := o_key o; o_fit := f; o_orig := o_orig o; o_genome := o_genome o; o_species := o_species o;
     o_exp := o_exp o; o_gen := o_gen o; o_elim := o_elim o; o_champ := o_champ o; o_super := o_super o;
     o_popchamp := o_popchamp o; o_popchampchild := o_popchampchild o; o_highest := o_highest o;
     o_mutstruct := o_mutstruct o; o_mate := o_mate o |}.
Definition o_with_orig (o : organism) (f : float) : organism :=
  {| o_key := o_key o; o_fit := o_fit o; o_orig := f; o_genome := o_genome o; o_species := o_species o;
     o_exp := o_exp o; o_gen := o_gen o; o_elim := o_elim o; o_champ := o_champ o; o_super := o_super o;
     o_popchamp := o_popchamp o; o_popchampchild := o_popchampchild o; o_highest := o_highest o;
     o_mutstruct := o_mutstruct o; o_mate := o_mate o |}.
Definition o_with_exp (o : organism) (f : float) : organism :=
  {| o_key := o_key o; o_fit := o_fit o; o_orig := o_orig o; o_genome := o_genome o; o_species := o_species o;
     o_exp := f; o_gen := o_gen o; o_elim := o_elim o; o_champ := o_champ o; o_super := o_super o;
     o_popchamp := o_popchamp o; o_popchampchild := o_popchampchild o; o_highest := o_highest o;
     o_mutstruct := o_mutstruct o; o_mate := o_mate o |}.
Definition o_with_elim (o : organism) (b : bool) : organism :=
  {| o_key := o_key o; o_fit := o_fit o; o_orig := o_orig o; o_genome := o_genome o; o_species := o_species o;
     o_exp := o_exp o; o_gen := o_gen o; o_elim := b; o_champ := o_champ o; o_super := o_super o;
     o_popchamp := o_popchamp o; o_popchampchild := o_popchampchild o; o_highest := o_highest o;
     o_mutstruct := o_mutstruct o; o_mate := o_mate o |}.
Definition o_with_champ (o : organism) (b : bool) : organism :=
  {| o_key := o_key o; o_fit := o_fit o; o_orig := o_orig o; o_genome := o_genome o; o_species := o_species o;
     o_exp := o_exp o; o_gen := o_gen o; o_elim := o_elim o; o_champ := b; o_super := o_super o;
     o_popchamp := o_popchamp o; o_popchampchild := o_popchampchild o; o_highest := o_highest o;
     o_mutstruct := o_mutstruct o; o_mate := o_mate o |}.
Definition o_with_super (o : organism) (n : Z) : organism :=
  {| o_key := o_key o; o_fit := o_fit o; o_orig := o_orig o; o_genome := o_genome o; o_species := o_species o;
     o_exp := o_exp o; o_gen := o_gen o; o_elim := o_elim o; o_champ := o_champ o; o_super := n;
     o_popchamp := o_popchamp o; o_popchampchild := o_popchampchild o; o_highest := o_highest o;
     o_mutstruct := o_mutstruct o; o_mate := o_mate o |}.
Definition o_with_popchamp (o : organism) (b : bool) : organism :=
  {| o_key := o_key o; o_fit := o_fit o; o_orig := o_orig o; o_genome := o_genome o; o_species := o_species o;
     o_exp := o_exp o; o_gen := o_gen o; o_elim := o_elim o; o_champ := o_champ o; o_super := o_super o;
     o_popchamp := b; o_popchampchild := o_popchampchild o; o_highest := o_highest o;
     o_mutstruct := o_mutstruct o; o_mate := o_mate o |}.
Definition o_with_species (o : organism) (s : Z) : organism :=
  {| o_key := o_key o; o_fit := o_fit o; o_orig := o_orig o; o_genome := o_genome o; o_species := s;
     o_exp := o_exp o; o_gen := o_gen o; o_elim := o_elim o; o_champ := o_champ o; o_super := o_super o;
     o_popchamp := o_popchamp o; o_popchampchild := o_popchampchild o; o_highest := o_highest o;
     o_mutstruct := o_mutstruct o; o_mate := o_mate o |}.
Definition o_with_genome (o : organism) (g : genome) : organism :=
  {| o_key := o_key o; o_fit := o_fit o; o_orig := o_orig o; o_genome := g; o_species := o_species o;
     o_exp := o_exp o; o_gen := o_gen o; o_elim := o_elim o; o_champ := o_champ o; o_super := o_super o;
     o_popchamp := o_popchamp o; o_popchampchild := o_popchampchild o; o_highest := o_highest o;
     o_mutstruct := o_mutstruct o; o_mate := o_mate o |}.

Definition sp_with_orgs (s : species) (l : list Z) : species :=
  {| sp_id := sp_id s; sp_age := sp_age s; sp_maxfit := sp_maxfit s; sp_exp := sp_exp s; sp_novel := sp_novel s;
     sp_orgs := l; sp_lastimp := sp_lastimp s |}.
Definition sp_with_exp (s : species) (n : Z) : species :=
  {| sp_id := sp_id s; sp_age := sp_age s; sp_maxfit := sp_maxfit s; sp_exp := n; sp_novel := sp_novel s;
     sp_orgs := sp_orgs s; sp_lastimp := sp_lastimp s |}.
Definition sp_with_improved (s : species) (maxfit : float) (lastimp : Z) : species :=
  {| sp_id := sp_id s; sp_age := sp_age s; sp_maxfit := maxfit; sp_exp := sp_exp s; sp_novel := sp_novel s;
     sp_orgs := sp_orgs s; sp_lastimp := lastimp |}.
Definition sp_with_age (s : species) (age : Z) (novel : bool) : species :=
  {| sp_id := sp_id s; sp_age := age; sp_maxfit := sp_maxfit s; sp_exp := sp_exp s; sp_novel := novel;
     sp_orgs := sp_orgs s; sp_lastimp := sp_lastimp s |}.

Definition p_with (p : population) (sps det : list species) (orgs : list Z) (heap : list organism) : population :=
  {| p_species := sps; p_detached := det; p_orgs := orgs; p_heap := heap;
     p_last_species := p_last_species p; p_highest := p_highest p; p_epochs_highest := p_epochs_highest p;
     p_next_key := p_next_key p |}.
Definition p_with_heap (p : population) (heap : list organism) : population :=
  p_with p (p_species p) (p_detached p) (p_orgs p) heap.
Definition p_with_species (p : population) (sps : list species) : population :=
  p_with p sps (p_detached p) (p_orgs p) (p_heap p).
Definition p_with_stagnation (p : population) (hi : float) (n : Z) : population :=
  {| p_species := p_species p; p_detached := p_detached p; p_orgs := p_orgs p; p_heap := p_heap p;
     p_last_species := p_last_species p; p_highest := hi; p_epochs_highest := n; p_next_key := p_next_key p |}.

(* ---------- heap ---------- *)
Fixpoint hget (h : list organism) (k : Z) : res organism :=
  match h with
  | [] => GoPanic 4                              (* nil pointer: no such organism *)
  | o :: h' => if Z.eqb (o_key o) k then Ok o else hget h' k
  end.
Fixpoint hset (h : list organism) (o : organism) : list organism :=
  match h with
  | [] => [o]
  | x :: h' => if Z.eqb (o_key x) (o_key o) then o :: h' else x :: hset h' o
  end.
Definition hupd (h : list organism) (k : Z) (f : organism -> organism) : res (list organism) :=
  do o <- hget h k; Ok (hset h (f o)).

Fixpoint sp_find (l : list species) (id : Z) : option species :=
  match l with
  | [] => None
  | s :: l' => if Z.eqb (sp_id s) id then Some s else sp_find l' id
  end.
Fixpoint sp_replace (l : list species) (s : species) : list species :=
  match l with
  | [] => []
  | x :: l' => if Z.eqb (sp_id x) (sp_id s) then s :: l' else x :: sp_replace l' s
  end.

(* ---------- floats ---------- *)
Definition two52 : float := 0x1p+52%float.
(* math.Floor, for every x: NaN, +-Inf, +-0 and everything of magnitude >= 2^52 (integral already) are
   returned unchanged; otherwise the exact integer below, with Floor(x) = +0 for 0 < x < 1.
   [f_floor_Z] is only ever applied here, to a finite nonzero x with |x| < 2^52. *)
Definition ffloor (x : float) : float :=
  if PrimFloat.leb two52 (PrimFloat.abs x) then x
  else match Prim2SF x with
       | S754_finite _ _ _ => let z := f_floor_Z x in
                              if Z.eqb z 0 then (if PrimFloat.ltb x 0%float then neg_zero else 0%float)
                              else f_of_Z z
       | _ => x
       end.
(* math.Mod(x, 1.0), for every x: NaN for NaN and for +-Inf (math.Mod: "Mod(+-Inf, y) = NaN"); a zero
   with the sign of x when x is integral (|x| >= 2^52, x = +-0, or an integer below 2^52: the result of
   Mod carries the sign of x); otherwise x - trunc(x), which is exact.  [f_trunc_Z] is applied to
   finite |x| < 2^52 only, so no out-of-range conversion is involved. *)
Definition fmod1 (x : float) : float :=
  match Prim2SF x with
  | S754_finite _ _ _ =>
    if PrimFloat.leb two52 (PrimFloat.abs x) then (if PrimFloat.ltb x 0%float then neg_zero else 0%float)
    else let r := PrimFloat.sub x (f_of_Z (f_trunc_Z x)) in
         if PrimFloat.ltb x 0%float && PrimFloat.eqb r 0%float then neg_zero else r
  | S754_infinity _ => PrimFloat.nan
  | _ => x
  end.

(* ---------- sort.Sort on short slices: stable insertion sort ---------- *)
(* [lt a b] is data.Less(a, b) of the un-reversed order; sort.Reverse makes the result descending *)
Section Sort.
  Context {A : Type} (lt : A -> A -> bool).
  Fixpoint ins_rev (x : A) (rp : list A) : list A :=
    match rp with
    | [] => [x]
    | y :: r => if lt y x then y :: ins_rev x r else x :: rp
    end.
  Definition sort_desc (l : list A) : list A := rev (fold_left (fun rp x => ins_rev x rp) l []).
End Sort.

(* Organisms.Less *)
Definition org_lt (a b : organism) : bool :=
  if PrimFloat.ltb (o_fit a) (o_fit b) then true
  else if PrimFloat.eqb (o_fit a) (o_fit b) then PrimFloat.ltb (o_highest a) (o_highest b)
  else false.

Definition genome_compat (o : options) (a b : genome) : float :=
  let proj g := map (fun x => (g_innov x, g_mut x)) (genes g) in
  compat_float (o_compat_linear o) (o_disjoint o) (o_excess o) (o_mutdiff o) (proj a) (proj b).

(* ---------- Species.adjustFitness ---------- *)
Definition adjust_one (o : options) (age debt n : Z) (x : organism) : organism :=
  let x := o_with_orig x (o_fit x) in
  let f := o_fit x in
  let f := if Z.geb debt 1 then PrimFloat.mul f 0x1.47ae147ae147bp-7%float else f in   (* 0.01 *)
  let f := if Z.leb age 10 then PrimFloat.mul f (o_age_sig o) else f in
  let f := if PrimFloat.ltb f 0%float then 0x1.a36e2eb1c432dp-14%float else f in          (* 0.0001 *)
  o_with_fit x (PrimFloat.div f (f_of_Z n)).

Fixpoint hgets (h : list organism) (ks : list Z) : res (list organism) :=
  match ks with
  | [] => Ok []
  | k :: ks' => do o <- hget h k; do r <- hgets h ks'; Ok (o :: r)
  end.
Definition hsets (h : list organism) (l : list organism) : list organism := fold_left hset l h.

Fixpoint mark_elim (l : list organism) (i : Z) (num_parents : Z) : list organism :=
  match l with
  | [] => []
  | x :: l' => (if Z.geb i num_parents then o_with_elim x true else x) :: mark_elim l' (i + 1) num_parents
  end.

Definition adjust_fitness (o : options) (h : list organism) (s : species) : res (list organism * species) :=
  let debt0 := (sp_age s - sp_lastimp s + 1) - o_dropoff o in
  let debt := if Z.eqb debt0 0 then 1 else debt0 in
  do orgs <- hgets h (sp_orgs s);
  let n := zlen orgs in
  let adj := map (adjust_one o (sp_age s) debt n) orgs in
  let sorted := sort_desc org_lt adj in
  match sorted with
  | [] => GoPanic 2                                    (* s.Organisms[0] on an empty species *)
  | top :: _ =>
    let s1 := if PrimFloat.ltb (sp_maxfit s) (o_orig top)
              then sp_with_improved s (o_orig top) (sp_age s) else s in
    let num_parents := f_trunc_Z (ffloor (PrimFloat.add (PrimFloat.mul (o_survival o) (f_of_Z n)) 1%float)) in
    (* for c := numParents; c < len(s.Organisms); c++ { s.Organisms[c].toEliminate = true }: the species is
       not empty here, so a negative numParents (negative SurvivalThresh, or the conversion of NaN / +-Inf /
       a product beyond 2^63: math.MinInt64) indexes s.Organisms[numParents]: index out of range *)
    if Z.ltb num_parents 0 then GoPanic 2 else
    let marked := match mark_elim sorted 0 num_parents with
                  | t :: r => o_with_champ t true :: r
                  | [] => []
                  end in
    Ok (hsets h marked, sp_with_orgs s1 (map o_key marked))
  end.

Fixpoint adjust_all (o : options) (h : list organism) (l : list species) : res (list organism * list species) :=
  match l with
  | [] => Ok (h, [])
  | s :: l' => do r <- adjust_fitness o h s;
               let '(h1, s1) := r in
               do r2 <- adjust_all o h1 l';
               let '(h2, l2) := r2 in Ok (h2, s1 :: l2)
  end.

(* ---------- Species.countOffspring ---------- *)
(* written once over a small number structure: the float instance is what runs against Go, the
   real instance (proofs/QuotaSpec.v) is what the apportionment theorems of C09 are about.
   The conversion int(math.Floor(x)) of the float instance is F64.f_trunc_Z (amd64: math.MinInt64 for NaN,
   +-Inf and |x| >= 2^63).  NOT MODELLED: Go's int additions wrap modulo 2^64, the counts here are
   unbounded integers.  The two agree as long as every partial sum stays inside [-2^63, 2^63); they
   differ when two or more out-of-range conversions meet in one sum (MinInt64 + MinInt64 = 0 in Go,
   -2^64 here: e.g. two members with ExpectedOffspring NaN), in [expectedOffspring += ...] below, in
   [totalExpected += ...] of count_all and in [finalExpected += ...] of purge_zero_offspring. *)
Record qnum (F : Type) : Type := {
  q_add : F -> F -> F;
  q_sub : F -> F -> F;
  q_ge1 : F -> bool;          (* x >= 1.0 *)
  q_floor : F -> F;           (* math.Floor *)
  q_floorZ : F -> Z;          (* int(math.Floor(x)) *)
  q_frac : F -> F             (* math.Mod(x, 1.0) *)
}.
Arguments q_add {F}. Arguments q_sub {F}. Arguments q_ge1 {F}. Arguments q_floor {F}.
Arguments q_floorZ {F}. Arguments q_frac {F}.

Section CountOffspring.
  Context {F : Type} (N : qnum F).
  (* exps: the members' ExpectedOffspring in species order *)
  Fixpoint count_offspring_gen (exps : list F) (expected : Z) (skim : F) : Z * F :=
    match exps with
    | [] => (expected, skim)
    | e :: l =>
      let expected := expected + q_floorZ N e in
      let skim := q_add N skim (q_frac N e) in
      if q_ge1 N skim then
        let si := q_floor N skim in
        count_offspring_gen l (expected + q_floorZ N skim) (q_sub N skim si)
      else count_offspring_gen l expected skim
    end.
End CountOffspring.

Definition float_qnum : qnum float := {|
  q_add := PrimFloat.add; q_sub := PrimFloat.sub;
  q_ge1 := fun x => PrimFloat.leb 1%float x;
  q_floor := ffloor;
  q_floorZ := fun x => f_trunc_Z (ffloor x);
  q_frac := fmod1 |}.

Definition count_offspring (orgs : list organism) (expected : Z) (skim : float) : Z * float :=
  count_offspring_gen float_qnum (map o_exp orgs) expected skim.

(* ---------- Population.purgeZeroOffspringSpecies ---------- *)
Fixpoint count_all (h : list organism) (l : list species) (skim : float) (total : Z) : res (list species * Z) :=
  match l with
  | [] => Ok ([], total)
  | s :: l' =>
    do orgs <- hgets h (sp_orgs s);
    let '(e, skim') := count_offspring orgs 0 skim in
    do r <- count_all h l' skim' (total + e);
    let '(l2, t) := r in Ok (sp_with_exp s e :: l2, t)
  end.

(* for _, sp := range p.Species { if sp.ExpectedOffspring >= maxExpected {...} }: the LAST maximal one *)
Fixpoint best_by_exp (l : list species) (mx : Z) (best : option species) : option species :=
  match l with
  | [] => best
  | s :: l' => if Z.geb (sp_exp s) mx then best_by_exp l' (sp_exp s) (Some s) else best_by_exp l' mx best
  end.

Definition purge_zero_offspring (p : population) : res population :=
  do orgs <- hgets (p_heap p) (p_orgs p);
  let total := fold_left (fun acc x => PrimFloat.add acc (o_fit x)) orgs 0%float in
  let n := zlen orgs in
  let avg := PrimFloat.div total (f_of_Z n) in
  let h1 := if PrimFloat.eqb avg 0%float then p_heap p   (* overallAverage != 0 is false for 0 and -0; NaN != 0 is true *)
            else hsets (p_heap p) (map (fun x => o_with_exp x (PrimFloat.div (o_fit x) avg)) orgs) in
  do r <- count_all h1 (p_species p) 0%float 0;
  let '(sps, total_expected) := r in
  let sps :=
      if Z.ltb total_expected n then
        let best := best_by_exp sps 0 None in
        let final := fold_left (fun acc s => acc + sp_exp s) sps 0 in
        let sps1 := match best with Some b => sp_replace sps (sp_with_exp b (sp_exp b + 1)) | None => sps end in
        let final := final + 1 in
        if Z.ltb final n then
          let zeroed := map (fun s => sp_with_exp s 0) sps1 in
          match best with Some b => sp_replace zeroed (sp_with_exp b n) | None => zeroed end
        else sps1
      else sps in
  let keep := filter (fun s => Z.gtb (sp_exp s) 0) sps in
  let drop := filter (fun s => negb (Z.gtb (sp_exp s) 0)) sps in
  Ok (p_with p keep (p_detached p ++ drop) (p_orgs p) h1).

(* ---------- byOrganismOrigFitness ---------- *)
Definition species_lt (h : list organism) (a b : species) : bool :=
  match sp_orgs a, sp_orgs b with
  | ka :: _, kb :: _ =>
    match hget h ka, hget h kb with
    | Ok x, Ok y =>
      if PrimFloat.ltb (o_orig x) (o_orig y) then true
      else if PrimFloat.eqb (o_orig x) (o_orig y) then Z.gtb (sp_age a) (sp_age b)
      else false
    | _, _ => false
    end
  | _, _ => false
  end.

Definition first_org (h : list organism) (s : species) : res organism :=
  match sp_orgs s with
  | [] => GoPanic 2
  | k :: _ => hget h k
  end.

(* ---------- deltaCoding / giveBabiesToTheBest work on the species list by id ---------- *)
Definition set_champ_super (h : list organism) (s : species) (n : Z) : res (list organism) :=
  do c <- first_org h s; Ok (hset h (o_with_super c n)).

Definition sp_set (l : list species) (id : Z) (f : species -> species) : list species :=
  map (fun s => if Z.eqb (sp_id s) id then f s else s) l.

Definition delta_coding (o : options) (p : population) (sorted : list Z) : res population :=
  let half := Z.quot (o_pop_size o) 2 in
  let get id := match sp_find (p_species p) id with Some s => Ok s | None => GoPanic 4 end in
  let refresh s n := {| sp_id := sp_id s; sp_age := sp_age s; sp_maxfit := sp_maxfit s; sp_exp := n;
                        sp_novel := sp_novel s; sp_orgs := sp_orgs s; sp_lastimp := sp_age s |} in
  match sorted with
  | [] => GoPanic 2
  | a :: [] =>
    do sa <- get a;
    do h1 <- set_champ_super (p_heap p) sa (o_pop_size o);
    Ok (p_with_stagnation (p_with p (sp_set (p_species p) a (fun s => refresh s (o_pop_size o)))
                                  (p_detached p) (p_orgs p) h1) (p_highest p) 0)
  | a :: b :: rest =>
    do sa <- get a;
    do sb <- get b;
    do h1 <- set_champ_super (p_heap p) sa half;
    do h2 <- set_champ_super h1 sb (o_pop_size o - half);
    let sps := sp_set (p_species p) a (fun s => refresh s half) in
    let sps := sp_set sps b (fun s => refresh s (o_pop_size o - half)) in
    let sps := fold_left (fun acc id => sp_set acc id (fun s => sp_with_exp s 0)) rest sps in
    Ok (p_with_stagnation (p_with p sps (p_detached p) (p_orgs p) h2) (p_highest p) 0)
  end.

(* first loop: from the worst species upwards, take babies *)
Fixpoint steal_loop (o : options) (sps : list species) (rev_sorted : list Z) (stolen : Z) : list species * Z :=
  match rev_sorted with
  | [] => (sps, stolen)
  | id :: r =>
    if Z.geb stolen (o_babies_stolen o) then (sps, stolen) else
    match sp_find sps id with
    | None => steal_loop o sps r stolen
    | Some s =>
      if Z.gtb (sp_age s) 5 && Z.gtb (sp_exp s) 2 then
        if Z.geb (sp_exp s - 1) (o_babies_stolen o - stolen) then
          steal_loop o (sp_set sps id (fun s => sp_with_exp s (sp_exp s - (o_babies_stolen o - stolen)))) r (o_babies_stolen o)
        else
          steal_loop o (sp_set sps id (fun s => sp_with_exp s 1)) r (stolen + (sp_exp s - 1))
      else steal_loop o sps r stolen
    end
  end.

(* second loop: hand the stolen babies to the best species in blocks *)
Fixpoint give_loop (o : options) (sorted : list Z) (block_index : Z) (blocks : list Z)
         (acc : list species * list organism * Z) : @M st (list species * list organism * Z) :=
  match sorted with
  | [] => ret acc
  | id :: r =>
    let '(sps, h, stolen) := acc in
    match sp_find sps id with
    | None => fail_panic 4
    | Some s =>
      if Z.gtb (sp_age s - sp_lastimp s) (o_dropoff o) then give_loop o r block_index blocks acc
      else
        let blk := nth (Z.to_nat block_index) blocks 0 in
        let! acc' :=
           (if Z.ltb block_index 3 && Z.geb stolen blk then
              let! h1 := lift (set_champ_super h s blk) in
              ret (sp_set sps id (fun s => sp_with_exp s (sp_exp s + blk)), h1, stolen - blk)
            else if Z.geb block_index 3 then
              let! rr := r_float64 in
              if PrimFloat.ltb 0x1.999999999999ap-4%float rr then
                if Z.gtb stolen 3 then
                  let! h1 := lift (set_champ_super h s 3) in
                  ret (sp_set sps id (fun s => sp_with_exp s (sp_exp s + 3)), h1, stolen - 3)
                else
                  let! h1 := lift (set_champ_super h s stolen) in
                  ret (sp_set sps id (fun s => sp_with_exp s (sp_exp s + stolen)), h1, 0)
              else ret acc
            else ret acc) in
        let '(_, _, stolen') := acc' in
        if Z.leb stolen' 0 then ret acc' else give_loop o r (block_index + 1) blocks acc'
    end
  end.

Definition give_babies (o : options) (p : population) (sorted : list Z) : @M st population :=
  let '(sps1, stolen) := steal_loop o (p_species p) (rev sorted) 0 in
  let bs := o_babies_stolen o in
  let blocks := [Z.quot bs 5; Z.quot bs 5; Z.quot bs 10] in
  let! r := give_loop o sorted 0 blocks (sps1, p_heap p, stolen) in
  let '(sps2, h2, leftover) := r in
  if Z.gtb leftover 0 then
    match sorted with
    | [] => fail_panic 2
    | id :: _ =>
      match sp_find sps2 id with
      | None => fail_panic 4
      | Some s =>
        let! c := lift (first_org h2 s) in
        ret (p_with p (sp_set sps2 id (fun s => sp_with_exp s (sp_exp s + leftover))) (p_detached p) (p_orgs p)
                    (hset h2 (o_with_super c (o_super c + leftover))))
      end
    end
  else ret (p_with p sps2 (p_detached p) (p_orgs p) h2).

(* ---------- removeOrganism / purgeOrganisms ---------- *)
(* error 70: attempt to remove nonexistent organism *)
Definition remove_org (l : list species) (sid k : Z) : res (list species) :=
  match sp_find l sid with
  | None => GoPanic 4
  | Some s =>
    let rest := filter (fun x => negb (Z.eqb x k)) (sp_orgs s) in
    if Nat.eqb (length rest) (pred (length (sp_orgs s))) && negb (Nat.eqb (length (sp_orgs s)) 0)
    then Ok (sp_replace l (sp_with_orgs s rest)) else GoErr 70
  end.

(* the species an organism points to is in Species or detached *)
Definition remove_from_species (p : population) (x : organism) : res population :=
  match sp_find (p_species p) (o_species x) with
  | Some _ => do l <- remove_org (p_species p) (o_species x) (o_key x);
              Ok (p_with p l (p_detached p) (p_orgs p) (p_heap p))
  | None => do l <- remove_org (p_detached p) (o_species x) (o_key x);
            Ok (p_with p (p_species p) l (p_orgs p) (p_heap p))
  end.

Fixpoint purge_organisms_loop (p : population) (ks : list Z) (keep : list Z) : res population :=
  match ks with
  | [] => Ok (p_with p (p_species p) (p_detached p) (rev keep) (p_heap p))
  | k :: ks' =>
    do x <- hget (p_heap p) k;
    if o_elim x then do p1 <- remove_from_species p x; purge_organisms_loop p1 ks' keep
    else purge_organisms_loop p ks' (k :: keep)
  end.
Definition purge_organisms (p : population) : res population := purge_organisms_loop p (p_orgs p) [].

(* ---------- prepareForReproduction ---------- *)
Definition prepare (o : options) (p : population) : @M st (population * list Z * Z) :=
  let! r := lift (adjust_all o (p_heap p) (p_species p)) in
  let '(h1, sps1) := r in
  let p1 := p_with p sps1 (p_detached p) (p_orgs p) h1 in
  let! p2 := lift (purge_zero_offspring p1) in
  let sorted := sort_desc (species_lt (p_heap p2)) (p_species p2) in
  match sorted with
  | [] => fail_panic 2
  | best :: _ =>
    let! c := lift (first_org (p_heap p2) best) in
    let h3 := hset (p_heap p2) (o_with_popchamp c true) in
    let p3 := p_with_heap p2 h3 in
    let p4 := if PrimFloat.ltb (p_highest p3) (o_orig c)
              then p_with_stagnation p3 (o_orig c) 0
              else p_with_stagnation p3 (p_highest p3) (p_epochs_highest p3 + 1) in
    let ids := map sp_id sorted in
    let! p5 := (if Z.geb (p_epochs_highest p4) (o_dropoff o + 5) then lift (delta_coding o p4 ids)
                else if Z.gtb (o_babies_stolen o) 0 then give_babies o p4 ids
                else ret p4) in
    let! p6 := lift (purge_organisms p5) in
    ret (p6, ids, sp_id best)
  end.

(* ---------- Species.reproduce ---------- *)
Definition new_baby (key : Z) (g : genome) (generation : Z) : organism :=
  {| o_key := key; o_fit := 0%float; o_orig := 0%float; o_genome := g; o_species := 0; o_exp := 0%float;
     o_gen := generation; o_elim := false; o_champ := false; o_super := 0; o_popchamp := false;
     o_popchampchild := false; o_highest := 0%float; o_mutstruct := false; o_mate := false |}.

Definition baby_flags (b : organism) (mut_struct mate : bool) : organism :=
  {| o_key := o_key b; o_fit := o_fit b; o_orig := o_orig b; o_genome := o_genome b; o_species := o_species b;
     o_exp := o_exp b; o_gen := o_gen b; o_elim := o_elim b; o_champ := o_champ b; o_super := o_super b;
     o_popchamp := o_popchamp b; o_popchampchild := o_popchampchild b; o_highest := o_highest b;
     o_mutstruct := mut_struct; o_mate := mate |}.

Definition r_int31n (n : Z) : @M st Z :=
  if Z.leb n 0 then fail_panic 1 else on_tape (tape_int31n n).

(* the mutation cascade shared by the "mutate only" and the "mate then mutate" branches;
   [connect_flag_only]: in the mutate-only branch mutStructBaby = linkAdded, in the mating branch
   mutStructBaby, err = ...: the same value *)
Definition mutate_baby (o : options) (g : genome) : @M st (genome * bool) :=
  let! r1 := r_float64 in
  if PrimFloat.ltb r1 (o_mut_add_node o) then
    let! r := mutate_add_node o g in ret (fst r, true)
  else
    let! r2 := r_float64 in
    if PrimFloat.ltb r2 (o_mut_add_link o) then
      let! r := mutate_add_link o g in ret (fst r, true)
    else
      let! r3 := r_float64 in
      let! gs := (if PrimFloat.ltb r3 (o_mut_connect_sensors o) then mutate_connect_sensors g else ret (g, false)) in
      let '(g1, structural) := gs in
      if structural then ret (g1, true)
      else let! r := mutate_all_nonstructural o g1 in ret (fst r, false).

(* the dad of an interspecies mating: up to five draws for a species other than s *)
Fixpoint pick_other_species (tries : nat) (self : Z) (sorted : list Z) (cur : Z) : @M st Z :=
  match tries with
  | O => ret cur
  | S k =>
    if negb (Z.eqb cur self) then ret cur else
    let! r := r_float64 in
    let mult := PrimFloat.div r 4%float in
    let i := f_trunc_Z (ffloor (PrimFloat.mul mult (f_of_Z (zlen sorted)))) in
    let! id := lift (idx sorted i) in
    pick_other_species k self sorted id
  end.

Record rstate := { r_heap : list organism; r_key : Z; r_babies : list Z; r_clone_done : bool }.

Definition one_baby (o : options) (generation : Z) (all_species : list species) (sorted : list Z)
           (s : species) (count : Z) (rs : rstate) : @M st rstate :=
  let h := r_heap rs in
  let pool := zlen (sp_orgs s) in
  let! champ := lift (first_org h s) in
  let finish (h : list organism) (b : organism) (clone_done : bool) : @M st rstate :=
      ret {| r_heap := hset h b; r_key := r_key rs + 1; r_babies := r_babies rs ++ [o_key b]; r_clone_done := clone_done |} in
  if Z.gtb (o_super champ) 0 then
    let! g0 := lift (duplicate (o_genome champ) count) in
    let! gm :=
       (if Z.gtb (o_super champ) 1 then
          let! r := r_float64 in
          if PrimFloat.ltb r 0x1.999999999999ap-1%float || PrimFloat.eqb (o_mut_add_link o) 0%float then
            let! x := mutate_link_weights (o_weight_mut_power o) 1%float true g0 in ret (fst x, false)
          else
            let! x := mutate_add_link o g0 in ret (fst x, true)
        else ret (g0, false)) in
    let '(g1, mut_struct) := gm in
    let b := new_baby (r_key rs) g1 generation in
    let b := if Z.eqb (o_super champ) 1 && o_popchamp champ
             then {| o_key := o_key b; o_fit := o_fit b; o_orig := o_orig b; o_genome := o_genome b;
                     o_species := o_species b; o_exp := o_exp b; o_gen := o_gen b; o_elim := o_elim b;
                     o_champ := o_champ b; o_super := o_super b; o_popchamp := o_popchamp b;
                     o_popchampchild := true; o_highest := o_orig champ; o_mutstruct := false; o_mate := false |}
             else b in
    let h1 := hset h (o_with_super champ (o_super champ - 1)) in
    finish h1 (baby_flags b mut_struct false) (r_clone_done rs)
  else if negb (r_clone_done rs) && Z.gtb (sp_exp s) 5 then
    let! g0 := lift (duplicate (o_genome champ) count) in
    finish h (new_baby (r_key rs) g0 generation) true
  else
    let! r := r_float64 in
    if PrimFloat.ltb r (o_mutate_only o) || Z.eqb pool 1 then
      let! k := r_int31n pool in
      let! mk := lift (idx (sp_orgs s) k) in
      let! mom := lift (hget h mk) in
      let! g0 := lift (duplicate (o_genome mom) count) in
      let! gm := mutate_baby o g0 in
      finish h (baby_flags (new_baby (r_key rs) (fst gm) generation) (snd gm) false) (r_clone_done rs)
    else
      let! k := r_int31n pool in
      let! mk := lift (idx (sp_orgs s) k) in
      let! mom := lift (hget h mk) in
      let! r2 := r_float64 in
      let! dad :=
         (if PrimFloat.ltb (o_interspecies o) r2 then
            let! k2 := r_int31n pool in
            let! dk := lift (idx (sp_orgs s) k2) in
            lift (hget h dk)
          else
            let! sid := pick_other_species 5 (sp_id s) sorted (sp_id s) in
            match sp_find all_species sid with
            | None => fail_panic 4
            | Some rs' => lift (first_org h rs')
            end) in
      let! r3 := r_float64 in
      let! child :=
         (if PrimFloat.ltb r3 (o_mate_multi o) then
            mate_multipoint (o_genome mom) (o_genome dad) count (o_orig mom) (o_orig dad)
          else
            let! r4 := r_float64 in
            if PrimFloat.ltb r4 (PrimFloat.div (o_mate_multi_avg o) (PrimFloat.add (o_mate_multi_avg o) (o_mate_single o))) then
              mate_multipoint_avg (o_genome mom) (o_genome dad) count (o_orig mom) (o_orig dad)
            else mate_singlepoint (o_genome mom) (o_genome dad) count) in
      let! r5 := r_float64 in
      let! gm :=
         (if PrimFloat.ltb (o_mate_only o) r5 || Z.eqb (gid (o_genome dad)) (gid (o_genome mom))
             || PrimFloat.eqb (genome_compat o (o_genome dad) (o_genome mom)) 0%float
          then mutate_baby o child else ret (child, false)) in
      finish h (baby_flags (new_baby (r_key rs) (fst gm) generation) (snd gm) true) (r_clone_done rs)
  .

Fixpoint reproduce_loop (n : nat) (o : options) (generation : Z) (all_species : list species) (sorted : list Z)
         (s : species) (count : Z) (rs : rstate) : @M st rstate :=
  match n with
  | O => ret rs
  | S k => let! rs' := one_baby o generation all_species sorted s count rs in
           reproduce_loop k o generation all_species sorted s (count + 1) rs'
  end.

(* error 71: attempt to reproduce out of empty species *)
Definition reproduce_species (o : options) (generation : Z) (all_species : list species) (sorted : list Z)
           (s : species) (h : list organism) (key : Z) : @M st (list organism * Z * list Z) :=
  if Z.gtb (sp_exp s) 0 && Nat.eqb (length (sp_orgs s)) 0 then fail_err 71 else
  match sp_orgs s with
  | [] => fail_panic 2                      (* theChamp := s.Organisms[0] *)
  | _ =>
    let! rs := reproduce_loop (Z.to_nat (sp_exp s)) o generation all_species sorted s 0
                              {| r_heap := h; r_key := key; r_babies := []; r_clone_done := false |} in
    ret (r_heap rs, r_key rs, r_babies rs)
  end.

(* ---------- Population.speciate ---------- *)
(* error 72: no organisms to speciate; 73: compatibility threshold is zero *)
Fixpoint best_species (o : options) (h : list organism) (baby : organism) (l : list species)
         (best : option Z) (best_val : float) : res (option Z) :=
  match l with
  | [] => Ok best
  | s :: l' =>
    match sp_orgs s with
    | [] => best_species o h baby l' best best_val
    | k :: _ =>
      do rep <- hget h k;
      let c := genome_compat o (o_genome baby) (o_genome rep) in
      if PrimFloat.ltb c (o_compat_thresh o) && PrimFloat.ltb c best_val
      then best_species o h baby l' (Some (sp_id s)) c
      else best_species o h baby l' best best_val
    end
  end.

Definition max_float64 : float := 0x1.fffffffffffffp+1023%float.

Definition new_species (id : Z) (k : Z) : species :=
  {| sp_id := id; sp_age := 1; sp_maxfit := 0%float; sp_exp := 0; sp_novel := true; sp_orgs := [k]; sp_lastimp := 0 |}.

Definition speciate_one (o : options) (p : population) (k : Z) : res population :=
  do baby <- hget (p_heap p) k;
  let found_new :=
      let id := p_last_species p + 1 in
      {| p_species := p_species p ++ [new_species id k]; p_detached := p_detached p; p_orgs := p_orgs p;
         p_heap := hset (p_heap p) (o_with_species baby id);
         p_last_species := id; p_highest := p_highest p; p_epochs_highest := p_epochs_highest p;
         p_next_key := p_next_key p |} in
  match p_species p with
  | [] => Ok found_new
  | sps =>
    if PrimFloat.eqb (o_compat_thresh o) 0%float then GoErr 73 else
    do b <- best_species o (p_heap p) baby sps None max_float64;
    match b with
    | Some id =>
      Ok (p_with p (sp_set sps id (fun s => sp_with_orgs s (sp_orgs s ++ [k]))) (p_detached p) (p_orgs p)
                 (hset (p_heap p) (o_with_species baby id)))
    | None => Ok found_new
    end
  end.

Fixpoint speciate_loop (o : options) (p : population) (ks : list Z) : res population :=
  match ks with
  | [] => Ok p
  | k :: ks' => do p1 <- speciate_one o p k; speciate_loop o p1 ks'
  end.

Definition speciate (o : options) (p : population) (ks : list Z) : res population :=
  match ks with
  | [] => GoErr 72
  | _ => speciate_loop o p ks
  end.

(* ---------- reproduce (sequential executor) ---------- *)
Fixpoint reproduce_all (o : options) (generation : Z) (all_species : list species) (sorted : list Z) (best_id : Z)
         (l : list species) (h : list organism) (key : Z) (babies : list Z) (best_rep : bool)
  : @M st (list organism * Z * list Z * bool) :=
  match l with
  | [] => ret (h, key, babies, best_rep)
  | s :: l' =>
    let! r := reproduce_species o generation all_species sorted s h key in
    let '(h1, key1, bs) := r in
    reproduce_all o generation all_species sorted best_id l' h1 key1 (babies ++ bs)
                  (best_rep || Z.eqb (sp_id s) best_id)
  end.

(* error 74: progeny size differs from the population size *)
Definition reproduce (o : options) (generation : Z) (p : population) (sorted : list Z) (x : executor)
  : @M st (population * executor) :=
  let all := p_species p ++ p_detached p in
  let! r := reproduce_all o generation all sorted (x_best_id x) (p_species p) (p_heap p) (p_next_key p) []
                          (x_best_reproduced x) in
  let '(h1, key1, babies, best_rep) := r in
  if negb (Z.eqb (zlen babies) (o_pop_size o)) then fail_err 74 else
  let p1 := {| p_species := p_species p; p_detached := p_detached p; p_orgs := p_orgs p; p_heap := h1;
               p_last_species := p_last_species p; p_highest := p_highest p;
               p_epochs_highest := p_epochs_highest p; p_next_key := key1 |} in
  let! p2 := lift (speciate o p1 babies) in
  ret (p2, {| x_best_id := x_best_id x; x_best_reproduced := best_rep |}).

(* ---------- finalizeReproduction ---------- *)
Fixpoint purge_old_loop (p : population) (ks : list Z) : res population :=
  match ks with
  | [] => Ok (p_with p (p_species p) (p_detached p) [] (p_heap p))
  | k :: ks' => do x <- hget (p_heap p) k; do p1 <- remove_from_species p x; purge_old_loop p1 ks'
  end.

(* renumber the genomes of the survivors, rebuild Population.Organisms *)
Fixpoint renumber (h : list organism) (ks : list Z) (count : Z) : res (list organism * Z) :=
  match ks with
  | [] => Ok (h, count)
  | k :: ks' => do x <- hget h k;
                renumber (hset h (o_with_genome x (with_id (o_genome x) count))) ks' (count + 1)
  end.

Fixpoint purge_or_age (l : list species) (h : list organism) (count : Z) (orgs : list Z)
  : res (list species * list organism * list Z) :=
  match l with
  | [] => Ok ([], h, orgs)
  | s :: l' =>
    match sp_orgs s with
    | [] => purge_or_age l' h count orgs
    | ks =>
      let s1 := if sp_novel s then sp_with_age s (sp_age s) false else sp_with_age s (sp_age s + 1) false in
      do r <- renumber h ks count;
      let '(h1, count1) := r in
      do r2 <- purge_or_age l' h1 count1 (orgs ++ ks);
      let '(l2, h2, orgs2) := r2 in Ok (s1 :: l2, h2, orgs2)
    end
  end.

(* error 75: best species died without offspring *)
Definition finalize (p : population) (x : executor) : @M st population :=
  let! p1 := lift (purge_old_loop p (p_orgs p)) in
  let! r := lift (purge_or_age (p_species p1) (p_heap p1) 0 []) in
  let '(sps, h, orgs) := r in
  (* organisms that are no longer referenced are garbage: drop them from the heap; detached species too *)
  let live := filter (fun x => existsb (Z.eqb (o_key x)) orgs) h in
  let p2 := p_with p1 sps [] orgs live in
  fun s =>
    let e := s_env s in
    let s' := {| s_tape := s_tape s; s_env := {| innovs := []; next_innov := next_innov e; next_node := next_node e |} |} in
    if negb (existsb (fun sp => Z.eqb (sp_id sp) (x_best_id x)) sps) && negb (x_best_reproduced x)
    then GoErr 75 else Ok (p2, s').

(* ---------- SequentialPopulationEpochExecutor.NextEpoch ---------- *)
Definition next_epoch (o : options) (generation : Z) (p : population) (x : executor)
  : @M st (population * executor) :=
  let! r := prepare o p in
  let '(p1, sorted, best_id) := r in
  let x1 := {| x_best_id := best_id; x_best_reproduced := x_best_reproduced x |} in
  let! r2 := reproduce o generation p1 sorted x1 in
  let '(p2, x2) := r2 in
  let! p3 := finalize p2 x2 in
  ret (p3, x2).

(* ---------- NewPopulation / Population.spawn ---------- *)
Definition empty_population : population :=
  {| p_species := []; p_detached := []; p_orgs := []; p_heap := []; p_last_species := 0;
     p_highest := 0%float; p_epochs_highest := 0; p_next_key := 0 |}.

Fixpoint spawn_loop (n : nat) (g : genome) (count : Z) (acc : list organism) : @M st (list organism) :=
  match n with
  | O => ret acc
  | S k =>
    let! d := lift (duplicate g count) in
    let! r := mutate_link_weights 1%float 1%float true d in
    spawn_loop k g (count + 1) (acc ++ [new_baby count (fst r) 1])
  end.

Definition e_set_counters (ni nn : Z) : @M st unit :=
  fun s => Ok (tt, {| s_tape := s_tape s;
                      s_env := {| innovs := innovs (s_env s); next_innov := ni; next_node := nn |} |}).

(* error 76: wrong population size *)
Definition new_population (o : options) (g : genome) : @M st population :=
  if Z.leb (o_pop_size o) 0 then fail_err 76 else
  let! orgs := spawn_loop (Z.to_nat (o_pop_size o)) g 0 [] in
  let! last_node := lift (last_node_id g) in
  let! next_inn := lift (next_gene_innov g) in
  exec e_set_counters (next_inn - 1) (last_node + 1) ;;
  let p := {| p_species := []; p_detached := []; p_orgs := map o_key orgs; p_heap := orgs; p_last_species := 0;
              p_highest := 0%float; p_epochs_highest := 0; p_next_key := o_pop_size o |} in
  lift (speciate o p (map o_key orgs)).

(* the evaluator's effect: fitness values in Population.Organisms order *)
Fixpoint set_fitness (h : list organism) (ks : list Z) (fs : list float) : res (list organism) :=
  match ks, fs with
  | k :: ks', f :: fs' => do x <- hget h k; set_fitness (hset h (o_with_fit x f)) ks' fs'
  | _, _ => Ok h
  end.
