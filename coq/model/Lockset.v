(* C16 -- data-race freedom of the parallel epoch executor: definitions only (proofs in proofs/Lockset*.v).

   Part A: a small trace model of the Go memory model fragment the executor uses
           (sync.Mutex, sync/atomic, go statements, WaitGroup.Wait as join): events, lock semantics,
           happens-before, data race, and the lockset discipline per memory location.
   Part B: the static access table emitted by `neatverif translate locktable` (gen/LockTable.v)
           and the boolean discipline check [table_disciplined] evaluated on it.

   Nothing here is specific to goNEAT except the names in Part B. *)
From Coq Require Import List Arith Bool String.
Import ListNotations.

(* ------------------------------------------------------------------------------------------- *)
(* Part A: traces                                                                              *)
(* ------------------------------------------------------------------------------------------- *)

Definition tid := nat.     (* goroutine *)
Definition mutex := nat.
Definition loc := nat.     (* one memory location: one field of one object, one slice element, ... *)

Inductive op : Type :=
| Acq (m : mutex)          (* m.Lock() returned *)
| Rel (m : mutex)          (* m.Unlock() *)
| Rd (x : loc)             (* plain read *)
| Wr (x : loc)             (* plain write *)
| AtomicRMW (x : loc)      (* atomic.Add / Store / Swap / CompareAndSwap *)
| AtomicLd (x : loc)       (* atomic.Load *)
| Fork (t : tid)           (* go statement starting goroutine t *)
| Join (t : tid).          (* return of WaitGroup.Wait for goroutine t (after its Done) *)

Record event := Ev { thr : tid; act : op }.

(* a trace is one global interleaving; positions are indices into it *)
Definition trace := list event.
Definition at_pos (tr : trace) (i : nat) (e : event) : Prop := nth_error tr i = Some e.

(* ---- lock semantics ---- *)

(* thread t holds mutex m just before position i: its latest own Lock/Unlock of m before i is a Lock *)
Definition holds (tr : trace) (i : nat) (t : tid) (m : mutex) : Prop :=
  exists a, a < i /\ at_pos tr a (Ev t (Acq m)) /\
            forall k, a < k < i -> ~ at_pos tr k (Ev t (Rel m)).

(* a mutex is acquired only while nobody holds it, and released only by its holder *)
Definition wf_locks (tr : trace) : Prop :=
  (forall i t m, at_pos tr i (Ev t (Acq m)) -> forall u, ~ holds tr i u m) /\
  (forall i t m, at_pos tr i (Ev t (Rel m)) -> holds tr i t m).

(* ---- accesses ---- *)
Definition accesses_loc (o : op) (x : loc) : Prop := o = Rd x \/ o = Wr x \/ o = AtomicRMW x \/ o = AtomicLd x.
Definition writes_loc (o : op) (x : loc) : Prop := o = Wr x \/ o = AtomicRMW x.
Definition atomic_op (o : op) : Prop := exists x, o = AtomicRMW x \/ o = AtomicLd x.

(* ---- happens-before: least transitive relation containing the edges below.
        Every edge goes forward in the trace (i < j).  The fork edge is stated towards every later
        event of the child, which together with program order is the same as "towards its first
        event"; likewise for join.  The atomic edge is the conservative one of the Go memory model
        (an atomic write is synchronised before later atomics on the same location that observe it);
        fewer edges make the race-freedom theorem stronger, and the theorem does not use this edge. *)
Inductive hb1 (tr : trace) : nat -> nat -> Prop :=
| hb_po : forall i j e1 e2, i < j -> at_pos tr i e1 -> at_pos tr j e2 -> thr e1 = thr e2 -> hb1 tr i j
| hb_rel_acq : forall i j t u m, i < j -> at_pos tr i (Ev t (Rel m)) -> at_pos tr j (Ev u (Acq m)) -> hb1 tr i j
| hb_fork : forall i j t e, i < j -> at_pos tr i (Ev t (Fork (thr e))) -> at_pos tr j e -> hb1 tr i j
| hb_join : forall i j t e, i < j -> at_pos tr i e -> at_pos tr j (Ev t (Join (thr e))) -> hb1 tr i j
| hb_atomic : forall i j t e x, i < j -> at_pos tr i (Ev t (AtomicRMW x)) -> at_pos tr j e ->
                                (act e = AtomicRMW x \/ act e = AtomicLd x) -> hb1 tr i j.

Inductive hb (tr : trace) : nat -> nat -> Prop :=
| hb_step : forall i j, hb1 tr i j -> hb tr i j
| hb_trans : forall i j k, hb tr i j -> hb tr j k -> hb tr i k.

(* ---- data race (Go memory model): two accesses to one location by different goroutines, at
        least one of them a write, not both atomic, unordered by happens-before ---- *)
Definition race (tr : trace) (i j : nat) : Prop :=
  exists e1 e2 x,
    i <> j /\ at_pos tr i e1 /\ at_pos tr j e2 /\ thr e1 <> thr e2 /\
    accesses_loc (act e1) x /\ accesses_loc (act e2) x /\
    (writes_loc (act e1) x \/ writes_loc (act e2) x) /\
    ~ (atomic_op (act e1) /\ atomic_op (act e2)) /\
    ~ hb tr i j /\ ~ hb tr j i.

Definition race_free (tr : trace) : Prop := forall i j, ~ race tr i j.

(* ---- the lockset discipline for location x over a set of positions P (the parallel region):
        (a) every access is atomic, or (b) no access writes, or (c) one mutex is held at every
        access, or (d) one goroutine makes every access (thread-local / freshly allocated /
        owner-confined) ---- *)
Definition disciplined (tr : trace) (P : nat -> Prop) (x : loc) : Prop :=
  (forall i e, P i -> at_pos tr i e -> accesses_loc (act e) x -> atomic_op (act e)) \/
  (forall i e, P i -> at_pos tr i e -> accesses_loc (act e) x -> ~ writes_loc (act e) x) \/
  (exists m, forall i e, P i -> at_pos tr i e -> accesses_loc (act e) x -> holds tr i (thr e) m) \/
  (exists t, forall i e, P i -> at_pos tr i e -> accesses_loc (act e) x -> thr e = t).

(* ---- fork/join structure of the executor: goroutine [main] starts every other goroutine inside
        positions lo..hi and waits for all of them before hi: every event of another goroutine lies
        between its Fork (at or after lo) and its Join (at or before hi) ---- *)
Definition fork_join (tr : trace) (main : tid) (lo hi : nat) : Prop :=
  forall k e, at_pos tr k e -> thr e <> main ->
    (exists f, lo <= f /\ f < k /\ at_pos tr f (Ev main (Fork (thr e)))) /\
    (exists j, k < j /\ j <= hi /\ at_pos tr j (Ev main (Join (thr e)))).

Definition region (lo hi : nat) : nat -> Prop := fun i => lo <= i /\ i <= hi.

(* ---- executable counterparts (used for the non-vacuity examples) ---- *)
Definition op_eqb (a b : op) : bool :=
  match a, b with
  | Acq m, Acq n | Rel m, Rel n | Rd m, Rd n | Wr m, Wr n
  | AtomicRMW m, AtomicRMW n | AtomicLd m, AtomicLd n | Fork m, Fork n | Join m, Join n => Nat.eqb m n
  | _, _ => false
  end.
Definition event_eqb (a b : event) : bool := Nat.eqb (thr a) (thr b) && op_eqb (act a) (act b).

Fixpoint holdsb (tr : trace) (i : nat) (t : tid) (m : mutex) : bool :=
  match i with
  | O => false
  | S k => match nth_error tr k with
           | Some e => if event_eqb e (Ev t (Acq m)) then true
                       else if event_eqb e (Ev t (Rel m)) then false
                       else holdsb tr k t m
           | None => holdsb tr k t m
           end
  end.

Definition wf_locksb (tr : trace) : bool :=
  forallb (fun i => match nth_error tr i with
                    | Some (Ev t (Acq m)) => forallb (fun u => negb (holdsb tr i u m)) (map thr tr)
                    | Some (Ev t (Rel m)) => holdsb tr i t m
                    | _ => true
                    end) (seq 0 (List.length tr)).

Definition op_loc (o : op) : option loc :=
  match o with Rd x | Wr x | AtomicRMW x | AtomicLd x => Some x | _ => None end.
Definition op_atomicb (o : op) : bool := match o with AtomicRMW _ | AtomicLd _ => true | _ => false end.
Definition op_writeb (o : op) : bool := match o with Wr _ | AtomicRMW _ => true | _ => false end.

(* positions lo..hi at which x is accessed *)
Definition accs_in (tr : trace) (lo hi : nat) (x : loc) : list (nat * event) :=
  filter (fun p => match op_loc (act (snd p)) with Some y => Nat.eqb y x | None => false end)
         (filter (fun p => Nat.leb lo (fst p) && Nat.leb (fst p) hi) (combine (seq 0 (List.length tr)) tr)).

Definition mutexes_of (tr : trace) : list mutex :=
  flat_map (fun e => match act e with Acq m => [m] | _ => [] end) tr.

Definition disciplinedb (tr : trace) (lo hi : nat) (x : loc) : bool :=
  let l := accs_in tr lo hi x in
  forallb (fun p => op_atomicb (act (snd p))) l
  || forallb (fun p => negb (op_writeb (act (snd p)))) l
  || existsb (fun m => forallb (fun p => holdsb tr (fst p) (thr (snd p)) m) l) (mutexes_of tr)
  || match l with
     | [] => true
     | p :: _ => forallb (fun q => Nat.eqb (thr (snd q)) (thr (snd p))) l
     end.

Definition locs_of (tr : trace) : list loc :=
  flat_map (fun e => match op_loc (act e) with Some x => [x] | None => [] end) tr.

Definition fork_joinb (tr : trace) (main : tid) (lo hi : nat) : bool :=
  forallb (fun p =>
             let k := fst p in let e := snd p in
             Nat.eqb (thr e) main
             || (existsb (fun f => Nat.leb lo f && Nat.ltb f k &&
                                   match nth_error tr f with Some e' => event_eqb e' (Ev main (Fork (thr e))) | None => false end)
                         (seq 0 (List.length tr))
                 && existsb (fun j => Nat.ltb k j && Nat.leb j hi &&
                                      match nth_error tr j with Some e' => event_eqb e' (Ev main (Join (thr e))) | None => false end)
                            (seq 0 (List.length tr))))
          (combine (seq 0 (List.length tr)) tr).

(* ------------------------------------------------------------------------------------------- *)
(* Part B: the static access table                                                             *)
(* ------------------------------------------------------------------------------------------- *)

Inductive rw := R | W.

(* how the access is protected where it occurs in the source *)
Inductive prot :=
| PMutex     (* between Population.mutex.Lock() and its Unlock / deferred Unlock, same base object *)
| PAtomic    (* through sync/atomic *)
| PNone      (* plain access to an object that may be shared between goroutines *)
| PLocal.    (* plain access to an object allocated by the accessing goroutine (escape rule in gen/LockTable.v) *)

Record access := mkAccess {
  a_fun : string;      (* function containing the access, "Recv.name" *)
  a_kind : string;     (* object kind: Population / Species / Organism / element kinds "[]*Organism" ... *)
  a_field : string;
  a_rw : rw;
  a_prot : prot;
  a_base : string;     (* source text of the expression the field is selected from *)
  a_pos : string       (* file:line, for messages only *)
}.

(* a hand-justified exception: accesses of function [x_fun] to field [x_field] of kind [x_kind]
   through the variable [x_base] touch an object that only the accessing goroutine touches *)
Record exception := mkException { x_fun : string; x_kind : string; x_field : string; x_base : string }.

Definition rw_eqb (a b : rw) : bool := match a, b with R, R | W, W => true | _, _ => false end.
Definition prot_eqb (a b : prot) : bool :=
  match a, b with PMutex, PMutex | PAtomic, PAtomic | PNone, PNone | PLocal, PLocal => true | _, _ => false end.

Definition same_field (a b : access) : bool :=
  String.eqb (a_kind a) (a_kind b) && String.eqb (a_field a) (a_field b).

Definition excepted (xs : list exception) (a : access) : bool :=
  prot_eqb (a_prot a) PNone &&
  existsb (fun x => String.eqb (x_fun x) (a_fun a) && String.eqb (x_kind x) (a_kind a) &&
                    String.eqb (x_field x) (a_field a) && String.eqb (x_base x) (a_base a)) xs.

(* accesses that may touch an object another goroutine can reach *)
Definition is_shared (a : access) : bool := negb (prot_eqb (a_prot a) PLocal).

(* one field obeys the discipline when its possibly-shared accesses are all under the mutex, or all
   atomic, or all reads, or all covered by an exception *)
Definition field_ok (xs : list exception) (T : list access) (a : access) : bool :=
  let S := filter (fun b => same_field a b && is_shared b) T in
  forallb (fun b => prot_eqb (a_prot b) PMutex) S
  || forallb (fun b => prot_eqb (a_prot b) PAtomic) S
  || forallb (fun b => rw_eqb (a_rw b) R) S
  || forallb (excepted xs) S.

Definition table_disciplined (xs : list exception) (T : list access) : bool :=
  forallb (field_ok xs T) T.

(* the entries of fields that violate the discipline (for messages) *)
Definition table_offenders (xs : list exception) (T : list access) : list access :=
  filter (fun a => negb (field_ok xs T a)) T.
