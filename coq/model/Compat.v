(* Model of neat/genetics/genome_compatibility.go (C07): compatibility, compatLinear, compatFast.

   A genome is abstracted to its gene list [list (Z * F)] = (InnovationNum, MutationNum) in the
   order of Genome.Genes; nothing else of a genome is read by the three functions.  The definitions
   are polymorphic in a number structure [num F] and are instantiated with primitive floats
   (bit-exact differential runs against Go) and with R (the theorems).

   Division: Go's float division never panics, but 0/0 is where a NaN would come from.  The model's
   division [ndiv_guarded] is guarded: a zero denominator gives the visible value [DivByZero]
   instead of a number, and proofs/CompatSpec.v shows that it is never returned. *)
From NeatModel Require Import Res F64.
From Coq Require Import Reals.

Record num (F : Type) : Type := {
  nzero : F;                 (* 0.0 *)
  nunit : F;                  (* 1.0 *)
  nadd : F -> F -> F;
  nsub : F -> F -> F;
  nmul : F -> F -> F;
  ndiv : F -> F -> F;
  nabs : F -> F;             (* math.Abs *)
  nltb : F -> F -> bool;     (* < *)
  nis_zero : F -> bool;      (* == 0 (true for -0.0 as well) *)
  nof_Z : Z -> F             (* float64(int) *)
}.
Arguments nzero {F}. Arguments nunit {F}. Arguments nadd {F}. Arguments nsub {F}. Arguments nmul {F}.
Arguments ndiv {F}. Arguments nabs {F}. Arguments nltb {F}. Arguments nis_zero {F}. Arguments nof_Z {F}.

(* the value the guarded division returns on a zero denominator *)
Definition DivByZero {A} : res A := GoPanic 700.

Section Compat.
  Variable F : Type.
  Variable N : num F.

  Definition gene : Type := (Z * F)%type.          (* (InnovationNum, MutationNum) *)
  Definition innov (g : gene) : Z := fst g.
  Definition mutnum (g : gene) : F := snd g.

  Local Notation "a +. b" := (nadd N a b) (at level 50, left associativity).
  Local Notation "a *. b" := (nmul N a b) (at level 40, left associativity).

  Definition ndiv_guarded (a b : F) : res F :=
    if nis_zero N b then DivByZero else Ok (ndiv N a b).

  (* ---------------- compatLinear ---------------- *)

  (* loop state: numDisjoint, numExcess, mutDiffTotal, numMatching (all float64 in the Go code) *)
  Record lin_state := { ls_disjoint : F; ls_excess : F; ls_mutdiff : F; ls_matching : F }.

  (* for i1, i2 := 0, 0; i1 < size1 || i2 < size2; { ... }
     l1, l2 are g.Genes[i1:], og.Genes[i2:] *)
  Fixpoint lin_walk (l1 : list gene) : list gene -> lin_state -> lin_state :=
    fix inner (l2 : list gene) (st : lin_state) {struct l2} : lin_state :=
      match l1, l2 with
      | [], [] => st
      | [], _ :: l2' =>
        (* i1 >= size1: numExcess += 1.0; i2++ *)
        inner l2' {| ls_disjoint := ls_disjoint st; ls_excess := ls_excess st +. nunit N;
                     ls_mutdiff := ls_mutdiff st; ls_matching := ls_matching st |}
      | _ :: l1', [] =>
        (* i2 >= size2: numExcess += 1.0; i1++ *)
        lin_walk l1' [] {| ls_disjoint := ls_disjoint st; ls_excess := ls_excess st +. nunit N;
                           ls_mutdiff := ls_mutdiff st; ls_matching := ls_matching st |}
      | g1 :: l1', g2 :: l2' =>
        if Z.eqb (innov g1) (innov g2) then
          (* numMatching += 1.0; mutDiffTotal += |m1 - m2|; i1++; i2++ *)
          lin_walk l1' l2' {| ls_disjoint := ls_disjoint st; ls_excess := ls_excess st;
                              ls_mutdiff := ls_mutdiff st +. nabs N (nsub N (mutnum g1) (mutnum g2));
                              ls_matching := ls_matching st +. nunit N |}
        else if Z.ltb (innov g1) (innov g2) then
          (* i1++; numDisjoint += 1.0 *)
          lin_walk l1' l2 {| ls_disjoint := ls_disjoint st +. nunit N; ls_excess := ls_excess st;
                             ls_mutdiff := ls_mutdiff st; ls_matching := ls_matching st |}
        else
          (* p2innov < p1innov (the only case left for integers): i2++; numDisjoint += 1.0 *)
          inner l2' {| ls_disjoint := ls_disjoint st +. nunit N; ls_excess := ls_excess st;
                       ls_mutdiff := ls_mutdiff st; ls_matching := ls_matching st |}
      end.

  Definition lin_init : lin_state :=
    {| ls_disjoint := nzero N; ls_excess := nzero N; ls_mutdiff := nzero N; ls_matching := nzero N |}.

  (* comp := DisjointCoeff*numDisjoint + ExcessCoeff*numExcess
     if numMatching > 0 { comp += MutdiffCoeff * (mutDiffTotal / numMatching) } *)
  Definition compat_linear (dc ec mc : F) (l1 l2 : list gene) : res F :=
    let st := lin_walk l1 l2 lin_init in
    let comp := dc *. ls_disjoint st +. ec *. ls_excess st in
    if nltb N (nzero N) (ls_matching st) then
      do q <- ndiv_guarded (ls_mutdiff st) (ls_matching st);
      Ok (comp +. mc *. q)
    else Ok comp.

  (* ---------------- compatFast ---------------- *)

  (* loop state: excessGenesSwitch, numMatching (ints), compatibility, mutDiff (float64) *)
  Record fast_state := { fs_switch : Z; fs_matching : Z; fs_compat : F; fs_mutdiff : F }.

  (* The Go loop walks both gene slices from the last index down; r1, r2 are the parts not yet
     visited, most recent first: r1 = reverse(g.Genes[0..list1Idx]), r2 likewise.  The two exit
     tests at the bottom of the Go loop body (list1Idx < 0, then list2Idx < 0) are the first two
     match arms here: the loop is only entered with both lists non-empty, so testing at the top of
     the next iteration is the same test on the same indices, in the same order. *)
  Fixpoint fast_walk (dc ec : F) (r1 : list gene) : list gene -> fast_state -> fast_state :=
    fix inner (r2 : list gene) (st : fast_state) {struct r2} : fast_state :=
      match r1, r2 with
      | [], _ =>
        (* list1Idx < 0: compatibility += float64(list2Idx+1) * DisjointCoeff; break *)
        {| fs_switch := fs_switch st; fs_matching := fs_matching st;
           fs_compat := fs_compat st +. nof_Z N (Z.of_nat (length r2)) *. dc; fs_mutdiff := fs_mutdiff st |}
      | _ :: _, [] =>
        (* list2Idx < 0: compatibility += float64(list1Idx+1) * DisjointCoeff; break *)
        {| fs_switch := fs_switch st; fs_matching := fs_matching st;
           fs_compat := fs_compat st +. nof_Z N (Z.of_nat (length r1)) *. dc; fs_mutdiff := fs_mutdiff st |}
      | g1 :: r1', g2 :: r2' =>
        let sw := fs_switch st in
        if Z.gtb (innov g2) (innov g1) then
          let st' :=
            if Z.eqb sw 3 then        (* no more excess genes: disjoint *)
              {| fs_switch := sw; fs_matching := fs_matching st;
                 fs_compat := fs_compat st +. dc; fs_mutdiff := fs_mutdiff st |}
            else if Z.eqb sw 2 then   (* another excess gene on genome 2 *)
              {| fs_switch := sw; fs_matching := fs_matching st;
                 fs_compat := fs_compat st +. ec; fs_mutdiff := fs_mutdiff st |}
            else if Z.eqb sw 1 then   (* first non-excess gene *)
              {| fs_switch := 3; fs_matching := fs_matching st;
                 fs_compat := fs_compat st +. dc; fs_mutdiff := fs_mutdiff st |}
            else                      (* first gene is excess, on genome 2 *)
              {| fs_switch := 2; fs_matching := fs_matching st;
                 fs_compat := fs_compat st +. ec; fs_mutdiff := fs_mutdiff st |} in
          (* list2Idx-- *)
          inner r2' st'
        else if Z.eqb (innov g1) (innov g2) then
          (* excessGenesSwitch = 3; mutDiff += |m1 - m2|; numMatching++; list1Idx--; list2Idx-- *)
          fast_walk dc ec r1' r2'
            {| fs_switch := 3; fs_matching := fs_matching st + 1; fs_compat := fs_compat st;
               fs_mutdiff := fs_mutdiff st +. nabs N (nsub N (mutnum g1) (mutnum g2)) |}
        else
          let st' :=
            if Z.eqb sw 3 then        (* disjoint *)
              {| fs_switch := sw; fs_matching := fs_matching st;
                 fs_compat := fs_compat st +. dc; fs_mutdiff := fs_mutdiff st |}
            else if Z.eqb sw 1 then   (* another excess gene on genome 1 *)
              {| fs_switch := sw; fs_matching := fs_matching st;
                 fs_compat := fs_compat st +. ec; fs_mutdiff := fs_mutdiff st |}
            else if Z.eqb sw 2 then   (* first non-excess gene *)
              {| fs_switch := 3; fs_matching := fs_matching st;
                 fs_compat := fs_compat st +. dc; fs_mutdiff := fs_mutdiff st |}
            else                      (* first gene is excess, on genome 1 *)
              {| fs_switch := 1; fs_matching := fs_matching st;
                 fs_compat := fs_compat st +. ec; fs_mutdiff := fs_mutdiff st |} in
          (* list1Idx-- *)
          fast_walk dc ec r1' r2 st'
      end.

  Definition fast_init : fast_state :=
    {| fs_switch := 0; fs_matching := 0; fs_compat := nzero N; fs_mutdiff := nzero N |}.

  Definition compat_fast (dc ec mc : F) (l1 l2 : list gene) : res F :=
    match l1, l2 with
    | [], [] => Ok (nzero N)                                         (* return 0.0 *)
    | [], _ :: _ => Ok (nof_Z N (Z.of_nat (length l2)) *. ec)        (* float64(list2Count) * ExcessCoeff *)
    | _ :: _, [] => Ok (nof_Z N (Z.of_nat (length l1)) *. ec)        (* float64(list1Count) * ExcessCoeff *)
    | _ :: _, _ :: _ =>
      let st := fast_walk dc ec (rev' l1) (rev' l2) fast_init in
      if Z.ltb 0 (fs_matching st) then
        (* compatibility += mutDiff * MutdiffCoeff / float64(numMatching) *)
        do q <- ndiv_guarded (fs_mutdiff st *. mc) (nof_Z N (fs_matching st));
        Ok (fs_compat st +. q)
      else Ok (fs_compat st)
    end.

  (* ---------------- compatibility (dispatch on opts.GenCompatMethod) ---------------- *)
  Definition compatibility (linear : bool) (dc ec mc : F) (l1 l2 : list gene) : res F :=
    if linear then compat_linear dc ec mc l1 l2 else compat_fast dc ec mc l1 l2.

End Compat.

Arguments innov {F} g. Arguments mutnum {F} g.
Arguments compat_linear {F} N dc ec mc l1 l2.
Arguments compat_fast {F} N dc ec mc l1 l2.
Arguments compatibility {F} N linear dc ec mc l1 l2.
Arguments lin_walk {F} N l1 l2 st. Arguments fast_walk {F} N dc ec r1 r2 st.
Arguments lin_init {F} N. Arguments fast_init {F} N.
Arguments ndiv_guarded {F} N a b.

(* ---------------- the two instances ---------------- *)

Definition float_num : num float := {|
  nzero := PrimFloat.zero; nunit := PrimFloat.one;
  nadd := PrimFloat.add; nsub := PrimFloat.sub; nmul := PrimFloat.mul; ndiv := PrimFloat.div;
  nabs := PrimFloat.abs; nltb := PrimFloat.ltb;
  nis_zero := fun x => PrimFloat.eqb x PrimFloat.zero;
  nof_Z := f_of_Z |}.

Definition Rltb (a b : R) : bool := if Rlt_dec a b then true else false.
Definition Ris_zero (a : R) : bool := if Req_EM_T a 0%R then true else false.

Definition R_num : num R := {|
  nzero := 0%R; nunit := 1%R;
  nadd := Rplus; nsub := Rminus; nmul := Rmult; ndiv := Rdiv;
  nabs := Rabs; nltb := Rltb; nis_zero := Ris_zero;
  nof_Z := IZR |}.

(* what a caller that expects a plain float64 sees (used by the speciation model): the guarded
   division never fails (CompatSpec.no_div_by_zero); NaN is what a 0/0 would have produced *)
Definition compat_float (linear : bool) (dc ec mc : float) (l1 l2 : list (Z * float)) : float :=
  match compatibility float_num linear dc ec mc l1 l2 with Ok v => v | _ => PrimFloat.nan end.
