(* Model of the gonum graph view of a network (neat/network/network_graph.go: Node, Nodes, From, To,
   HasEdgeBetween, Edge, WeightedEdge, Weight, HasEdgeFromTo, edgeBetween, nodeWithID) and of
   NodeCount / LinkCount / Complexity (neat/network/network.go l.379-404), as coded.      (C11)

   A returned *NNode is its id, a returned *Link is the link value (a gonum client reads From().ID(),
   To().ID() and Weight() off it); a nil interface is [None].  Iterators (iterator.NewOrderedNodes,
   graph.Empty) are the list of ids they yield, in order. *)
From NeatModel Require Import Res F64 Genome Genesis.

(* func (n *Network) nodeWithID(id int64) *NNode : first match in allNodesMIMO *)
Definition node_with_ID (n : pnet) (id : Z) : option pnode :=
  find (fun np => Z.eqb (p_id np) id) (net_all_mimo n).

(* Node: the node, or a nil interface *)
Definition gnode (n : pnet) (id : Z) : option Z :=
  match node_with_ID n id with
  | Some node => Some (p_id node)
  | None => None
  end.

(* Nodes: all of allNodesMIMO in order *)
Definition gnodes (n : pnet) : list Z := map p_id (net_all_mimo n).

(* the control nodes that have [id] among the sources of their incoming links (one entry per control node: break) *)
Fixpoint ctl_having_in (id : Z) (cns : list pnode) : list Z :=
  match cns with
  | [] => []
  | cn :: cns' =>
    if existsb (fun incoming => Z.eqb (l_in incoming) id) (p_incoming cn)
    then p_id cn :: ctl_having_in id cns' else ctl_having_in id cns'
  end.
Fixpoint ctl_having_out (id : Z) (cns : list pnode) : list Z :=
  match cns with
  | [] => []
  | cn :: cns' =>
    if existsb (fun outgoing => Z.eqb (l_out outgoing) id) (p_outgoing cn)
    then p_id cn :: ctl_having_out id cns' else ctl_having_out id cns'
  end.

(* From: graph.Empty for an unknown id; else the OutNode of every outgoing link, then the control nodes fed by it *)
Definition gfrom (n : pnet) (id : Z) : list Z :=
  match node_with_ID n id with
  | None => []
  | Some node => map l_out (p_outgoing node) ++ ctl_having_in id (net_control n)
  end.

(* To: the InNode of every incoming link, then the control nodes feeding it *)
Definition gto (n : pnet) (id : Z) : list Z :=
  match node_with_ID n id with
  | None => []
  | Some node => map l_in (p_incoming node) ++ ctl_having_out id (net_control n)
  end.

(* for _, np := range n.allNodes { if np.ID()==uid {uNode=np}; if np.ID()==vid {vNode=np}; if both found {break} } *)
Fixpoint find_uv (l : list pnode) (uid vid : Z) (uNode vNode : option pnode) : option pnode * option pnode :=
  match l with
  | [] => (uNode, vNode)
  | np :: l' =>
    let uNode' := if Z.eqb (p_id np) uid then Some np else uNode in
    let vNode' := if Z.eqb (p_id np) vid then Some np else vNode in
    match uNode', vNode' with
    | Some _, Some _ => (uNode', vNode')
    | _, _ => find_uv l' uid vid uNode' vNode'
    end
  end.

(* for _, incoming := range cn.Incoming { if incoming.InNode.ID()==oid { if !directed {return incoming}
     else { if uNode != nil {return incoming}; break } } }      [Some] = return from edgeBetween *)
Fixpoint scan_ctl_incoming (ls : list plink) (oid : Z) (directed uFound : bool) : option plink :=
  match ls with
  | [] => None
  | incoming :: ls' =>
    if Z.eqb (l_in incoming) oid then
      if negb directed then Some incoming
      else if uFound then Some incoming else None
    else scan_ctl_incoming ls' oid directed uFound
  end.
(* for _, outgoing := range cn.Outgoing { if outgoing.OutNode.ID()==oid { if !directed {return outgoing}
     else { if vNode != nil {return outgoing}; break } } } *)
Fixpoint scan_ctl_outgoing (ls : list plink) (oid : Z) (directed vFound : bool) : option plink :=
  match ls with
  | [] => None
  | outgoing :: ls' =>
    if Z.eqb (l_out outgoing) oid then
      if negb directed then Some outgoing
      else if vFound then Some outgoing else None
    else scan_ctl_outgoing ls' oid directed vFound
  end.

(* for _, cn := range n.controlNodes { if cn.ID() != cid {continue}; ... } ; return nil *)
Fixpoint scan_control (cns : list pnode) (cid oid : Z) (directed uFound vFound : bool) : option plink :=
  match cns with
  | [] => None
  | cn :: cns' =>
    if negb (Z.eqb (p_id cn) cid) then scan_control cns' cid oid directed uFound vFound
    else
      match scan_ctl_incoming (p_incoming cn) oid directed uFound with
      | Some l => Some l
      | None =>
        match scan_ctl_outgoing (p_outgoing cn) oid directed vFound with
        | Some l => Some l
        | None => scan_control cns' cid oid directed uFound vFound
        end
      end
  end.

(* func (n *Network) edgeBetween(uid, vid int64, directed bool) *Link *)
Definition edge_between (n : pnet) (uid vid : Z) (directed : bool) : option plink :=
  match find_uv (net_all n) uid vid None None with
  | (None, None) => None
  | (None, Some _) =>
    (* possibility of the control node on the incoming side: cid = uid, oid = vid *)
    scan_control (net_control n) uid vid directed false true
  | (Some _, None) =>
    (* possibility of the control node on the outgoing side: cid = vid, oid = uid *)
    scan_control (net_control n) vid uid directed true false
  | (Some uNode, Some vNode) =>
    let first :=
      if negb directed then find (fun l => Z.eqb (l_in l) vid) (p_incoming uNode)
      else find (fun l => Z.eqb (l_in l) uid) (p_incoming vNode) in
    match first with
    | Some l => Some l
    | None => find (fun l => Z.eqb (l_out l) vid) (p_outgoing uNode)
    end
  end.

Definition has_edge_between (n : pnet) (xid yid : Z) : bool :=
  match edge_between n xid yid false with Some _ => true | None => false end.
Definition gedge (n : pnet) (uid vid : Z) : option plink := edge_between n uid vid true.
Definition gweighted_edge (n : pnet) (uid vid : Z) : option plink := edge_between n uid vid true.
Definition gweight (n : pnet) (xid yid : Z) : float * bool :=
  match edge_between n xid yid true with
  | None => (0%float, false)
  | Some edge => (l_w edge, true)
  end.
Definition has_edge_from_to (n : pnet) (uid vid : Z) : bool :=
  match edge_between n uid vid true with Some _ => true | None => false end.

(* network.go *)
Definition node_count (n : pnet) : Z :=
  if Z.eqb (zlen (net_control n)) 0 then zlen (net_all n)
  else zlen (net_all n) + zlen (net_control n).

Definition link_count (n : pnet) : Z :=
  let numLinks := fold_left (fun acc node => acc + zlen (p_incoming node)) (net_all n) 0 in
  if negb (Z.eqb (zlen (net_control n)) 0) then
    fold_left (fun acc node => acc + zlen (p_incoming node) + zlen (p_outgoing node)) (net_control n) numLinks
  else numLinks.

Definition complexity (n : pnet) : Z := node_count n + link_count n.
