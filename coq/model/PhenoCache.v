(* The phenotype cache of a genome through the mutators (agent "agent-full", C11).

   Go keeps the network a genome was last expressed as in the field Genome.Phenotype:
     - Genome.Genesis(netId) builds the network and stores it there (genome.go, last lines of Genesis);
     - Genome.mutateAddLink builds it with Genesis(generation) when the field is nil (it needs the network
       for the recurrence test) and sets the field back to nil after it inserted the new gene
       (genome_mutate.go, "the phenotype built above no longer reflects this genome", fix 30a7ec9);
     - no other mutator reads or writes the field: the pointer is carried along whatever they do to the genome;
     - NewOrganism copies the field into Organism.orgPhenotype; Organism.Phenotype() builds
       Genesis(Genotype.Id) only when that copy is nil (model/Genesis.v, org_phenotype).
   The genome models of model/Genome.v do not carry the field; this file adds it as a thin layer: a pair of
   the genome and the cached network, and for every mutator of model/Mutate.v the wrapper that says what the
   call does to the field.  No proofs here (proofs/FullStatementsC11.v). *)
From NeatModel Require Import Res F64 GoRand Genome Options Insert Mutate Genesis.

Record cached := { cg_genome : genome; cg_pheno : option pnet }.

(* a genome fresh from duplicate / a crossover / a reader: no network yet *)
Definition cg_fresh (g : genome) : cached := {| cg_genome := g; cg_pheno := None |}.

(* Genome.Genesis(netId): returns the network and caches it *)
Definition cg_genesis (c : cached) (netId : Z) : res (pnet * cached) :=
  do n <- genesis (cg_genome c) netId;
  Ok (n, {| cg_genome := cg_genome c; cg_pheno := Some n |}).

(* a mutator that neither reads nor writes Genome.Phenotype *)
Definition cg_lift (m : genome -> @M st (genome * bool)) (c : cached) : @M st (cached * bool) :=
  let! r := m (cg_genome c) in
  ret ({| cg_genome := fst r; cg_pheno := cg_pheno c |}, snd r).

(* Genome.mutateAddLink(innovations, generation, opts).  "if g.Phenotype == nil { g.Genesis(generation) }":
   a failing Genesis is reported as error 53 ("genesis failed while trying to add link"); then the body
   modelled by Mutate.mutate_add_link; "if gene != nil { g.geneInsert(gene); g.Phenotype = nil }": the
   model's result flag is true exactly when a gene was inserted. *)
Definition cg_mutate_add_link (o : options) (generation : Z) (c : cached) : @M st (cached * bool) :=
  let! c1 := (match cg_pheno c with
              | Some _ => ret c
              | None => match cg_genesis c generation with
                        | Ok (_, c1) => ret c1
                        | GoErr _ => fail_err 53
                        | GoPanic k => fail_panic k
                        | OutOfTape => fun _ => OutOfTape
                        | OutOfFuel => fun _ => OutOfFuel
                        | BadOracle => fun _ => BadOracle
                        end
              end) in
  let! r := mutate_add_link o (cg_genome c1) in
  ret ({| cg_genome := fst r; cg_pheno := if snd r then None else cg_pheno c1 |}, snd r).

(* the other mutators *)
Definition cg_mutate_add_node (o : options) := cg_lift (mutate_add_node o).
Definition cg_mutate_connect_sensors := cg_lift mutate_connect_sensors.
Definition cg_mutate_link_weights (power rate : float) (gaussian : bool) := cg_lift (mutate_link_weights power rate gaussian).
Definition cg_mutate_random_trait (o : options) := cg_lift (mutate_random_trait o).
Definition cg_mutate_link_trait (times : nat) := cg_lift (mutate_link_trait times).
Definition cg_mutate_node_trait (times : nat) := cg_lift (mutate_node_trait times).
Definition cg_mutate_toggle_enable (times : nat) := cg_lift (mutate_toggle_enable times).
Definition cg_mutate_gene_reenable := cg_lift mutate_gene_reenable.
Definition cg_mutate_all_nonstructural (o : options) := cg_lift (mutate_all_nonstructural o).

(* the mutation step of Species.reproduce (Population.mutate_baby), on a cached genome *)
Definition cg_mutate_baby (o : options) (generation : Z) (c : cached) : @M st (cached * bool) :=
  let! r1 := r_float64 in
  if PrimFloat.ltb r1 (o_mut_add_node o) then
    let! r := cg_mutate_add_node o c in ret (fst r, true)
  else
    let! r2 := r_float64 in
    if PrimFloat.ltb r2 (o_mut_add_link o) then
      let! r := cg_mutate_add_link o generation c in ret (fst r, true)
    else
      let! r3 := r_float64 in
      let! gs := (if PrimFloat.ltb r3 (o_mut_connect_sensors o) then cg_mutate_connect_sensors c else ret (c, false)) in
      let '(c1, structural) := gs in
      if structural then ret (c1, true)
      else let! r := cg_mutate_all_nonstructural o c1 in ret (fst r, false).

(* NewOrganism(fitness, g, generation) copies g.Phenotype; Organism.Phenotype() on that organism *)
Definition cg_org_phenotype (c : cached) : res pnet := org_phenotype (cg_pheno c) (cg_genome c).

(* the cache is up to date: empty, or the expression of the genome as it is now (under some network id) *)
Definition cache_fresh (c : cached) : Prop :=
  match cg_pheno c with
  | None => True
  | Some n => exists netId, genesis (cg_genome c) netId = Ok n
  end.
