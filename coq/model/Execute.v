(* Model of experiment/experiment_execute.go : Experiment.Execute (C20).

   The environment is a script: one outcome per (trial, generation) describing what the
   evaluator does when called there.  The model is a line-by-line transliteration of the two
   nested loops; the trial loop recurses over the script (one list per trial, so
   [runs = length script]) and the generation loop over one trial's list
   ([gens = length os]).  The context is a boolean [cancelled]; a population is named by the
   trial that spawned it together with the number of turnovers applied to it. *)
From NeatModel Require Import Res.

(* SolvedError: the evaluator marks the generation solved and returns an error; CancelError: it cancels the
   context and returns an error.  Execute tests the error first, so both end the run like EvalError. *)
Inductive outcome := Unsolved | Solved | EvalError | Cancel | CancelSolved | SolvedError | CancelError.

Inductive event :=
| ESpawn (t : Z)                      (* genetics.NewPopulation for trial t *)
| EStart (t : Z)                      (* observer.TrialRunStarted *)
| EEval (t g pop turns : Z)           (* evaluator.GenerationEvaluate on population [pop] after [turns] turnovers *)
| ENext (t g : Z)                     (* epochExecutor.NextEpoch called *)
| EEpoch (t g : Z)                    (* observer.EpochEvaluated *)
| ERecord (t n turns : Z)             (* e.Trials[t] = trial with n generations; its population saw [turns] turnovers *)
| EFinish (t n : Z).                  (* observer.TrialRunFinished, trial has n generations *)

Inductive status := Done | ErrEval | ErrCtx.

Definition is_cancel (o : outcome) : bool :=
  match o with Cancel | CancelSolved => true | _ => false end.
Definition is_solved (o : outcome) : bool :=
  match o with Solved | CancelSolved => true | _ => false end.

Definition when (b : bool) (e : event) : list event := if b then [e] else [].

(* result of the generation loop of one trial *)
Record gres := { g_ev : list event; g_abort : option status; g_cancelled : bool; g_n : Z; g_turns : Z }.

(* for generationId := g; generationId < NumGenerations; generationId++ { ... } *)
Fixpoint gen_loop (obs : bool) (t g n turns : Z) (cancelled : bool) (os : list outcome) : gres :=
  match os with
  | [] => {| g_ev := []; g_abort := None; g_cancelled := cancelled; g_n := n; g_turns := turns |}
  | o :: os' =>
    (* select { case <-ctx.Done(): return ctx.Err() } *)
    if cancelled then
      {| g_ev := []; g_abort := Some ErrCtx; g_cancelled := cancelled; g_n := n; g_turns := turns |}
    else
      let ev_eval := EEval t g t turns in
      match o with
      | EvalError | SolvedError | CancelError =>
        {| g_ev := [ev_eval]; g_abort := Some ErrEval; g_cancelled := cancelled; g_n := n; g_turns := turns |}
      | _ =>
        let cancelled' := cancelled || is_cancel o in
        if is_solved o then
          (* no NextEpoch; append generation; notify; break *)
          {| g_ev := ev_eval :: when obs (EEpoch t g); g_abort := None;
             g_cancelled := cancelled'; g_n := n + 1; g_turns := turns |}
        else if cancelled' then
          (* NextEpoch polls the context inside Species.reproduce and returns its error *)
          {| g_ev := [ev_eval; ENext t g]; g_abort := Some ErrCtx;
             g_cancelled := cancelled'; g_n := n; g_turns := turns |}
        else
          let r := gen_loop obs t (g + 1) (n + 1) (turns + 1) cancelled' os' in
          {| g_ev := ev_eval :: ENext t g :: when obs (EEpoch t g) ++ g_ev r;
             g_abort := g_abort r; g_cancelled := g_cancelled r; g_n := g_n r; g_turns := g_turns r |}
      end
  end.

(* for run := t; run < NumRuns; run++ { ... } *)
Fixpoint trial_loop (obs : bool) (t : Z) (cancelled : bool) (script : list (list outcome))
  : list event * status :=
  match script with
  | [] => ([], Done)
  | os :: script' =>
    let r := gen_loop obs t 0 0 0 cancelled os in
    let head := ESpawn t :: when obs (EStart t) ++ g_ev r in
    match g_abort r with
    | Some st => (head, st)
    | None =>
      let '(tl, st) := trial_loop obs (t + 1) (g_cancelled r) script' in
      (head ++ ERecord t (g_n r) (g_turns r) :: when obs (EFinish t (g_n r)) ++ tl, st)
    end
  end.

Definition execute (obs : bool) (script : list (list outcome)) : list event * status :=
  trial_loop obs 0 false script.

(* ---- encodings used by the correspondence check ---- *)
Definition enc_event (e : event) : list Z :=
  match e with
  | ESpawn t => [0; t]
  | EStart t => [1; t]
  | EEval t g p k => [2; t; g; p; k]
  | ENext t g => [3; t; g]
  | EEpoch t g => [4; t; g]
  | ERecord t n k => [5; t; n; k]
  | EFinish t n => [6; t; n]
  end.

Definition enc_status (s : status) : Z :=
  match s with Done => 0 | ErrEval => 1 | ErrCtx => 2 end.

Definition outcome_of_Z (z : Z) : outcome :=
  match z with 1 => Solved | 2 => EvalError | 3 => Cancel | 4 => CancelSolved | 5 => SolvedError | 6 => CancelError
  | _ => Unsolved end.

(* The implementation cannot be observed calling NewPopulation or NextEpoch directly (both
   are created inside Execute); their effect is visible in the identity and turnover count
   of the population handed to the evaluator, which EEval and ERecord carry. *)
Definition observable (e : event) : bool :=
  match e with ESpawn _ | ENext _ _ => false | _ => true end.

Definition observed_trace (obs : bool) (script : list (list Z)) : list (list Z) * Z :=
  let '(tr, st) := execute obs (map (map outcome_of_Z) script) in
  (map enc_event (filter observable tr), enc_status st).
