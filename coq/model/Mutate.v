(* The mutators of neat/genetics/genome_mutate.go and Trait.Mutate, in program order of random
   draws.  All run in the state monad over [st] (tape + innovation environment). *)
From NeatModel Require Import Res F64 GoRand Genome Options Insert.

Definition half : float := 0x1p-1%float.

Fixpoint mapM {S A B} (f : A -> @M S B) (l : list A) : @M S (list B) :=
  match l with
  | [] => ret []
  | x :: l' => let! y := f x in let! ys := mapM f l' in ret (y :: ys)
  end.

(* ---------- Trait.Mutate ---------- *)
Definition mutate_param (power prob : float) (p : float) : @M st float :=
  let! r := r_float64 in
  if PrimFloat.ltb prob r then
    let! sg := r_randsign in
    let! f := r_float64 in
    let p' := PrimFloat.add p (PrimFloat.mul (PrimFloat.mul sg f) power) in
    ret (if PrimFloat.ltb p' 0%float then 0%float else p')
  else ret p.

Definition trait_mutate (power prob : float) (t : trait) : @M st trait :=
  let! ps := mapM (mutate_param power prob) (t_params t) in
  ret {| t_id := t_id t; t_params := ps |}.

(* ---------- mutateRandomTrait (error 40: no traits) ---------- *)
Definition mutate_random_trait (o : options) (g : genome) : @M st (genome * bool) :=
  match traits g with
  | [] => fail_err 40
  | ts =>
    let! k := r_intn (zlen ts) in
    let! t := lift (idx ts k) in
    let! t' := trait_mutate (o_trait_mut_power o) (o_trait_param_mut_prob o) t in
    ret (with_traits g (set_nth ts (Z.to_nat k) t'), true)
  end.

(* ---------- mutateLinkTrait / mutateNodeTrait (error 41 / 42) ---------- *)
Fixpoint mutate_link_trait_loop (times : nat) (g : genome) : @M st genome :=
  match times with
  | O => ret g
  | S n =>
    let! tn := r_intn (zlen (traits g)) in
    let! gn := r_intn (zlen (genes g)) in
    let! t := lift (idx (traits g) tn) in
    let! x := lift (idx (genes g) gn) in
    mutate_link_trait_loop n (with_genes g (set_nth (genes g) (Z.to_nat gn) (set_gtrait (Some (t_id t)) x)))
  end.
Definition mutate_link_trait (times : nat) (g : genome) : @M st (genome * bool) :=
  match traits g, genes g with
  | [], _ | _, [] => fail_err 41
  | _, _ => let! g' := mutate_link_trait_loop times g in ret (g', true)
  end.

Fixpoint mutate_node_trait_loop (times : nat) (g : genome) : @M st genome :=
  match times with
  | O => ret g
  | S n =>
    let! tn := r_intn (zlen (traits g)) in
    let! nn := r_intn (zlen (nodes g)) in
    let! t := lift (idx (traits g) tn) in
    let! x := lift (idx (nodes g) nn) in
    mutate_node_trait_loop n (with_nodes g (set_nth (nodes g) (Z.to_nat nn) (set_ntrait (Some (t_id t)) x)))
  end.
Definition mutate_node_trait (times : nat) (g : genome) : @M st (genome * bool) :=
  match traits g, nodes g with
  | [], _ | _, [] => fail_err 42
  | _, _ => let! g' := mutate_node_trait_loop times g in ret (g', true)
  end.

(* ---------- mutateLinkWeights (error 43: no genes); mutator: true = gaussian, false = cold gaussian ---------- *)
Definition mutate_one_weight (power rate : float) (gaussian severe : bool) (count end_part num : float) (x : gene)
  : @M st gene :=
  let! gp_cgp :=
     (if severe then ret (0x1.3333333333333p-2%float, 0x1.999999999999ap-4%float)       (* 0.3, 0.1 *)
      else if PrimFloat.leb 10%float count && PrimFloat.ltb end_part num
           then ret (half, 0x1.3333333333333p-2%float)                                   (* 0.5, 0.3 *)
           else
             let! r := r_float64 in
             let gp := PrimFloat.sub 1%float rate in
             if PrimFloat.ltb half r then ret (gp, PrimFloat.sub gp 0x1.999999999999ap-4%float)
             else ret (gp, gp)) in
  let '(gp, cgp) := gp_cgp in
  let! sg := r_randsign in
  let! f := r_float64 in
  let random := PrimFloat.mul (PrimFloat.mul sg f) power in
  if gaussian then
    let! choice := r_float64 in
    if PrimFloat.ltb gp choice then ret (set_w (PrimFloat.add (g_w x) random) x)
    else if PrimFloat.ltb cgp choice then ret (set_w random x)
    else ret (set_w (g_w x) x)
  else ret (set_w random x).

Fixpoint mutate_weights_loop (power rate : float) (gaussian severe : bool) (count end_part : float)
         (num : float) (l : list gene) : @M st (list gene) :=
  match l with
  | [] => ret []
  | x :: l' =>
    let! x' := mutate_one_weight power rate gaussian severe count end_part num x in
    let! r := mutate_weights_loop power rate gaussian severe count end_part (PrimFloat.add num 1%float) l' in
    ret (x' :: r)
  end.

Definition mutate_link_weights (power rate : float) (gaussian : bool) (g : genome) : @M st (genome * bool) :=
  match genes g with
  | [] => fail_err 43
  | gs =>
    let! r := r_float64 in
    let severe := PrimFloat.ltb half r in
    let count := f_of_Z (zlen gs) in
    let end_part := PrimFloat.mul count 0x1.999999999999ap-1%float in   (* 0.8 *)
    let! gs' := mutate_weights_loop power rate gaussian severe count end_part 0%float gs in
    ret (with_genes g gs', true)
  end.

(* ---------- mutateToggleEnable (error 44), mutateGeneReEnable (error 45) ---------- *)
Fixpoint toggle_loop (times : nat) (g : genome) : @M st genome :=
  match times with
  | O => ret g
  | S n =>
    let! gn := r_intn (zlen (genes g)) in
    let! x := lift (idx (genes g) gn) in
    let g' :=
        if g_en x &&
           existsb (fun c => Z.eqb (g_in c) (g_in x) && g_en c && negb (Z.eqb (g_innov c) (g_innov x))) (genes g)
        then with_genes g (set_nth (genes g) (Z.to_nat gn) (set_en false x))
        else g in
    toggle_loop n g'
  end.
Definition mutate_toggle_enable (times : nat) (g : genome) : @M st (genome * bool) :=
  match genes g with
  | [] => fail_err 44
  | _ => let! g' := toggle_loop times g in ret (g', true)
  end.

Fixpoint reenable_first (l : list gene) : list gene :=
  match l with
  | [] => []
  | x :: l' => if g_en x then x :: reenable_first l' else set_en true x :: l'
  end.
Definition mutate_gene_reenable (g : genome) : @M st (genome * bool) :=
  match genes g with
  | [] => fail_err 45
  | gs => ret (with_genes g (reenable_first gs), true)
  end.

(* ---------- mutateAllNonstructural ---------- *)
Definition step_if (p : float) (op : genome -> @M st (genome * bool)) (gb : genome * bool) : @M st (genome * bool) :=
  let! r := r_float64 in
  if PrimFloat.ltb r p then op (fst gb) else ret gb.

Definition mutate_all_nonstructural (o : options) (g : genome) : @M st (genome * bool) :=
  let! a := step_if (o_mut_random_trait o) (mutate_random_trait o) (g, false) in
  let! b := step_if (o_mut_link_trait o) (mutate_link_trait 1) a in
  let! c := step_if (o_mut_node_trait o) (mutate_node_trait 1) b in
  let! d := step_if (o_mut_link_weights o) (mutate_link_weights (o_weight_mut_power o) 1%float true) c in
  let! e := step_if (o_mut_toggle o) (mutate_toggle_enable 1) d in
  step_if (o_mut_reenable o) mutate_gene_reenable e.

(* ---------- shared: gene constructors ---------- *)
Definition mk_gene (tr : option Z) (w : float) (i o : Z) (rc : bool) (innov : Z) (mut : float) : gene :=
  {| g_in := i; g_out := o; g_rec := rc; g_w := w; g_trait := tr; g_innov := innov; g_mut := mut; g_en := true |}.

(* g.Traits[k] as a reference held by a new gene or node: panics when k is out of range *)
Definition trait_at (g : genome) (k : Z) : res (option Z) :=
  do t <- idx (traits g) k; Ok (Some (t_id t)).

(* ---------- mutateConnectSensors (error 46: no genes) ---------- *)
Fixpoint find_link_innov (l : list innovation) (i o : Z) (rc : bool) : option innovation :=
  match l with
  | [] => None
  | x :: l' => if Z.eqb (i_type x) 2 && Z.eqb (i_in x) i && Z.eqb (i_out x) o && Bool.eqb (i_rec x) rc
               then Some x else find_link_innov l' i o rc
  end.

Definition link_innovation (i o num : Z) (w : float) (tn : Z) (rc : bool) : innovation :=
  {| i_type := 2; i_in := i; i_out := o; i_num := num; i_num2 := 0; i_w := w; i_trait := tn;
     i_node := 0; i_old := 0; i_rec := rc |}.

(* one output of the connect-sensors loop; result: (genome, linkAdded, early-return?) *)
Definition connect_one (sensor : Z) (acc : genome * bool * bool) (out : node) : @M st (genome * bool * bool) :=
  let '(g, added, stop) := acc in
  if stop then ret acc else
  if existsb (fun x => Z.eqb (g_in x) sensor && Z.eqb (g_out x) (n_id out)) (genes g) then ret acc else
  let! inns := e_innovs in
  match find_link_innov inns sensor (n_id out) false with
  | Some inn =>
    let! tr := lift (trait_at g (i_trait inn)) in
    let x := mk_gene tr (i_w inn) sensor (n_id out) false (i_num inn) 0%float in
    if have_gene g x then ret (g, added, true)            (* return false, nil *)
    else ret (with_genes g (gene_insert (genes g) x), true, false)
  | None =>
    let! tn := r_intn (zlen (traits g)) in
    let! sg := r_randsign in
    let! f := r_float64 in
    let w := PrimFloat.mul (PrimFloat.mul sg f) 10%float in
    let! num := e_next_innov in
    let! tr := lift (trait_at g tn) in
    let x := mk_gene tr w sensor (n_id out) false num w in
    exec e_store (link_innovation sensor (n_id out) num w tn false) ;;
    ret (with_genes g (gene_insert (genes g) x), true, false)
  end.

Fixpoint foldM {S A B} (f : B -> A -> @M S B) (l : list A) (b : B) : @M S B :=
  match l with
  | [] => ret b
  | x :: l' => let! b' := f b x in foldM f l' b'
  end.

Definition mutate_connect_sensors (g : genome) : @M st (genome * bool) :=
  match genes g with
  | [] => fail_err 46
  | _ =>
    let sensors := filter is_sensor (nodes g) in
    let outputs := filter (fun n => negb (is_sensor n)) (nodes g) in
    let disconnected :=
        filter (fun s => negb (existsb (fun x => Z.eqb (g_in x) (n_id s)) (genes g))) sensors in
    match disconnected with
    | [] => ret (g, false)
    | _ =>
      let! k := r_intn (zlen disconnected) in
      let! s := lift (idx disconnected k) in
      let! r := foldM (connect_one (n_id s)) outputs (g, false, false) in
      let '(g', added, stop) := r in
      ret (g', if stop then false else added)
    end
  end.

(* ---------- phenotype structure needed by add-link: Network.IsRecurrent ---------- *)
(* incoming links of a node in the expressed network: one per enabled gene ending there, in gene order *)
Definition incoming (g : genome) (id : Z) : list (Z * bool) :=
  map (fun x => (g_in x, g_rec x)) (filter (fun x => g_en x && Z.eqb (g_out x) id) (genes g)).

Fixpoint is_recurrent (fuel : nat) (g : genome) (inN outN count thresh : Z) : bool * Z :=
  match fuel with
  | O => (false, count)
  | S f =>
    let count := count + 1 in
    if Z.gtb count thresh then (false, count)
    else if Z.eqb inN outN then (true, count)
    else
      (fix loop (ls : list (Z * bool)) (count : Z) : bool * Z :=
         match ls with
         | [] => (false, count)
         | (src, rc) :: ls' =>
           if rc then loop ls' count
           else let '(r, c) := is_recurrent f g src outN count thresh in
                if r then (true, c) else loop ls' c
         end) (incoming g inN) count
  end.

(* Genesis can fail: error 50 no genes, 51 no outputs *)
Definition genesis_check (g : genome) : res unit :=
  match genes g with
  | [] => GoErr 50
  | _ => if existsb (fun n => Z.eqb (n_type n) OUTPUT) (nodes g) then Ok tt else GoErr 51
  end.

(* ---------- mutateAddLink ---------- *)
(* for nodeNum1 == nodeNum2 { nodeNum1 = Intn(n); nodeNum2 = first + Intn(n-first) } *)
Fixpoint pick_distinct (fuel : nat) (n first : Z) : @M st (Z * Z) :=
  match fuel with
  | O => fun _ => OutOfTape
  | S f =>
    let! a := r_intn n in
    let! b0 := r_intn (n - first) in
    let b := first + b0 in
    if Z.eqb a b then pick_distinct f n first else ret (a, b)
  end.

Definition tape_len : @M st nat := fun s => Ok (length (s_tape s), s).

Definition pick_pair (do_recur : bool) (n first : Z) : @M st (Z * Z) :=
  let! fuel := tape_len in
  if do_recur then
    let! r := r_float64 in
    if PrimFloat.ltb half r then
      let! a0 := r_intn (n - first) in
      ret (first + a0, first + a0)
    else pick_distinct fuel n first
  else pick_distinct fuel n first.

(* the try loop; result: Some (node1, node2) when an open link was found *)
Fixpoint add_link_tries (tries : nat) (do_recur : bool) (g : genome) (n first : Z)
         (last_pair : option (node * node)) : @M st (option (node * node) * bool) :=
  match tries with
  | O => ret (last_pair, false)
  | S k =>
    let! ab := pick_pair do_recur n first in
    let '(a, b) := ab in
    let! n1 := lift (idx (nodes g) a) in
    let! n2 := lift (idx (nodes g) b) in
    let exists_ :=
        if is_sensor n2 then true
        else existsb (fun x => Z.eqb (g_in x) (n_id n1) && Z.eqb (g_out x) (n_id n2) && Bool.eqb (g_rec x) do_recur)
                     (genes g) in
    if exists_ then add_link_tries k do_recur g n first (Some (n1, n2))
    else
      let thresh := n * n in
      let '(recur_flag, _) := is_recurrent (S (Z.to_nat thresh)) g (n_id n1) (n_id n2) 0 thresh in
      if Bool.eqb recur_flag do_recur then ret (Some (n1, n2), true)
      else add_link_tries k do_recur g n first (Some (n1, n2))
  end.

(* error 52: wrong gene created (self loop without recurrence); 53: genesis failed *)
Definition mutate_add_link (o : options) (g : genome) : @M st (genome * bool) :=
  match genesis_check g with
  | GoErr _ => fail_err 53
  | _ =>
    let n := zlen (nodes g) in
    let! r := r_float64 in
    let do_recur := PrimFloat.ltb r (o_recur_only o) in
    (* firstNonSensor counts the leading run of sensors only *)
    let first := (fix lead (l : list node) : Z :=
                    match l with [] => 0 | x :: l' => if is_sensor x then 1 + lead l' else 0 end) (nodes g) in
    let! pr := add_link_tries (Z.to_nat (o_newlink_tries o)) do_recur g n first None in
    match pr with
    | (Some (n1, n2), true) =>
      let! inns := e_innovs in
      match find_link_innov inns (n_id n1) (n_id n2) do_recur with
      | Some inn =>
        let! tr := lift (trait_at g (i_trait inn)) in
        let x := mk_gene tr (i_w inn) (n_id n1) (n_id n2) do_recur (i_num inn) 0%float in
        if have_gene g x then ret (g, false)
        else if Z.eqb (g_in x) (g_out x) && negb do_recur then fail_err 52
        else ret (with_genes g (gene_insert (genes g) x), true)
      | None =>
        let! tn := r_intn (zlen (traits g)) in
        let! sg := r_randsign in
        let! f := r_float64 in
        let w := PrimFloat.mul (PrimFloat.mul sg f) 10%float in
        let! num := e_next_innov in
        let! tr := lift (trait_at g tn) in
        let x := mk_gene tr w (n_id n1) (n_id n2) do_recur num w in
        exec e_store (link_innovation (n_id n1) (n_id n2) num w tn do_recur) ;;
        if Z.eqb (g_in x) (g_out x) && negb do_recur then fail_err 52
        else ret (with_genes g (gene_insert (genes g) x), true)
      end
    | (_, found) => ret (g, found)
    end
  end.

(* ---------- mutateAddNode ---------- *)
Definition f32_03 : float := 0x1.333334p-2%float.   (* float32(0.3) *)

Definition in_is_bias (g : genome) (x : gene) : res bool :=
  match node_with_id (g_in x) (nodes g) with
  | Some n => Ok (Z.eqb (n_type n) BIAS)
  | None => GoPanic 3
  end.

(* len(genes) < 15: first enabled non-bias gene that also passes rand.Float32() >= 0.3 *)
Fixpoint pick_gene_small (g : genome) (l : list gene) (i : nat) : @M st (option nat) :=
  match l with
  | [] => ret None
  | x :: l' =>
    if g_en x then
      let! bias := lift (in_is_bias g x) in
      if bias then pick_gene_small g l' (S i)
      else
        let! r := r_float32 in
        if PrimFloat.leb f32_03 r then ret (Some i) else pick_gene_small g l' (S i)
    else pick_gene_small g l' (S i)
  end.

(* otherwise up to 20 random tries *)
Fixpoint pick_gene_big (tries : nat) (g : genome) : @M st (option nat) :=
  match tries with
  | O => ret None
  | S k =>
    let! gn := r_intn (zlen (genes g)) in
    let! x := lift (idx (genes g) gn) in
    let! bias := (if g_en x then lift (in_is_bias g x) else ret true) in
    if g_en x && negb bias then ret (Some (Z.to_nat gn)) else pick_gene_big k g
  end.

Fixpoint find_node_innov (l : list innovation) (i o old : Z) : option innovation :=
  match l with
  | [] => None
  | x :: l' => if Z.eqb (i_type x) 1 && Z.eqb (i_in x) i && Z.eqb (i_out x) o && Z.eqb (i_old x) old
               then Some x else find_node_innov l' i o old
  end.

Definition SIGMOID_STEEPENED : Z := 4.

Definition mutate_add_node (o : options) (g : genome) : @M st (genome * bool) :=
  match genes g with
  | [] => ret (g, false)
  | gs =>
    let! pick := (if Z.ltb (zlen gs) 15 then pick_gene_small g gs O else pick_gene_big 20 g) in
    match pick with
    | None => ret (g, false)
    | Some k =>
      let! x := lift (nth_res gs k) in
      (* gene.IsEnabled = false *)
      let g1 := with_genes g (set_nth gs k (set_en false x)) in
      let! inns := e_innovs in
      match find_node_innov inns (g_in x) (g_out x) (g_innov x) with
      | Some inn =>
        let! tr0 := lift (trait_at g1 0) in
        let nd := {| n_id := i_node inn; n_type := HIDDEN; n_act := SIGMOID_STEEPENED; n_trait := tr0 |} in
        let x1 := mk_gene (g_trait x) 1%float (g_in x) (n_id nd) (g_rec x) (i_num inn) 0%float in
        let x2 := mk_gene (g_trait x) (g_w x) (n_id nd) (g_out x) false (i_num2 inn) 0%float in
        if have_node g1 (n_id nd) then ret (g1, false)
        else
          let gs1 := gene_insert (gene_insert (genes g1) x1) x2 in
          ret (with_nodes (with_genes g1 gs1) (node_insert (nodes g1) nd), true)
      | None =>
        let! nid := e_next_node in
        let! tr0 := lift (trait_at g1 0) in
        let! act := on_tape (tape_random_activation o) in
        let nd := {| n_id := nid; n_type := HIDDEN; n_act := act; n_trait := tr0 |} in
        let! num1 := e_next_innov in
        let x1 := mk_gene (g_trait x) 1%float (g_in x) nid (g_rec x) num1 0%float in
        let! num2 := e_next_innov in
        let x2 := mk_gene (g_trait x) (g_w x) nid (g_out x) false num2 0%float in
        exec e_store {| i_type := 1; i_in := g_in x; i_out := g_out x; i_num := num1; i_num2 := num2;
                        i_w := 0%float; i_trait := 0; i_node := nid; i_old := g_innov x; i_rec := false |} ;;
        let gs1 := gene_insert (gene_insert (genes g1) x1) x2 in
        ret (with_nodes (with_genes g1 gs1) (node_insert (nodes g1) nd), true)
      end
    end
  end.
