(* Model of experiment/floats.go (type Floats) and of the gonum v0.14.0 routines it wraps (C19):
     floats.Min/MinIdx, floats.Max/MaxIdx, floats.Sum (= internal/asm/f64.Sum, the amd64 SSE2
     assembly), stat.Mean, stat.MeanVariance / meanUnnormalisedVarianceSumWeights (weights = nil),
     stat.Variance, stat.StdDev, stat.Quantile + empiricalQuantile (weights = nil), sort.Float64s.

   Everything is written once, polymorphic in a number structure [num F]; this file also gives
   the executable binary64 instance [fnum].  The instance over the reals lives in
   proofs/StatsSpec.v.  Every place where gonum panics is a visible [GoPanic code]:
     1  floats: zero length in MinIdx / MaxIdx         2  slice index out of range
     3  stat: percentile out of bounds                 4  stat: zero length slice
     5  x data are not sorted                          6  panic("impossible") in empiricalQuantile *)
From NeatModel Require Import Res F64.
From Coq Require Import List ZArith Bool Floats.
Import ListNotations.
Open Scope Z_scope.

Record num (F : Type) : Type := {
  n_zero : F;                    (* +0 *)
  n_one : F;
  n_add : F -> F -> F;
  n_sub : F -> F -> F;
  n_mul : F -> F -> F;
  n_div : F -> F -> F;
  n_sqrt : F -> F;               (* math.Sqrt *)
  n_ofZ : Z -> F;                (* float64(int) *)
  n_frac : Z -> Z -> F;          (* the literal m/d (only used for the dyadic 0.25, 0.5, 0.75) *)
  n_ltb : F -> F -> bool;        (* x < y *)
  n_leb : F -> F -> bool;        (* x <= y *)
  n_eqb : F -> F -> bool;        (* x == y *)
  n_isnan : F -> bool;           (* math.IsNaN *)
  n_nan : F                      (* math.NaN() *)
}.
Arguments n_zero {F}. Arguments n_one {F}. Arguments n_add {F}. Arguments n_sub {F}.
Arguments n_mul {F}. Arguments n_div {F}. Arguments n_sqrt {F}. Arguments n_ofZ {F}.
Arguments n_frac {F}. Arguments n_ltb {F}. Arguments n_leb {F}. Arguments n_eqb {F}.
Arguments n_isnan {F}. Arguments n_nan {F}.

Definition panic_zero_length : Z := 1.
Definition panic_index : Z := 2.
Definition panic_percentile : Z := 3.
Definition panic_stat_zero_length : Z := 4.
Definition panic_not_sorted : Z := 5.
Definition panic_impossible : Z := 6.

Section Stats.
Context {F : Type} (N : num F).

Local Notation zero := (n_zero N).
Local Notation one := (n_one N).
Local Notation add := (n_add N).
Local Notation sub := (n_sub N).
Local Notation mul := (n_mul N).
Local Notation div := (n_div N).
Local Notation ltb := (n_ltb N).
Local Notation leb := (n_leb N).
Local Notation isnan := (n_isnan N).
Local Notation nan := (n_nan N).

Definition len (s : list F) : Z := Z.of_nat (length s).

(* s[i] *)
Fixpoint index (s : list F) (i : Z) : res F :=
  match s with
  | [] => GoPanic panic_index
  | v :: s' => if i =? 0 then Ok v else if i <? 0 then GoPanic panic_index else index s' (i - 1)
  end.

(* ---- floats.MinIdx / floats.Min ----
     min := math.NaN(); var ind int
     for i, v := range s { if math.IsNaN(v) {continue}; if v < min || math.IsNaN(min) { min = v; ind = i } } *)
Fixpoint min_loop (s : list F) (i : Z) (mn : F) (ind : Z) : Z :=
  match s with
  | [] => ind
  | v :: s' =>
    if isnan v then min_loop s' (i + 1) mn ind
    else if ltb v mn || isnan mn then min_loop s' (i + 1) v i
    else min_loop s' (i + 1) mn ind
  end.

Definition min_idx (s : list F) : res Z :=
  match s with
  | [] => GoPanic panic_zero_length
  | _ => Ok (min_loop s 0 nan 0)
  end.

Definition fl_min (s : list F) : res F := do i <- min_idx s; index s i.

(* ---- floats.MaxIdx / floats.Max ---- same with v > max *)
Fixpoint max_loop (s : list F) (i : Z) (mx : F) (ind : Z) : Z :=
  match s with
  | [] => ind
  | v :: s' =>
    if isnan v then max_loop s' (i + 1) mx ind
    else if ltb mx v || isnan mx then max_loop s' (i + 1) v i
    else max_loop s' (i + 1) mx ind
  end.

Definition max_idx (s : list F) : res Z :=
  match s with
  | [] => GoPanic panic_zero_length
  | _ => Ok (max_loop s 0 nan 0)
  end.

Definition fl_max (s : list F) : res F := do i <- max_idx s; index s i.

(* ---- floats.Sum = f64.Sum, sum_amd64.s ----
   Four 2-lane SSE accumulators SUM, SUM_1, SUM_2, SUM_3.  If the slice does not start on a
   16-byte boundary its first element is added to the low lane of SUM first ([aligned] is that
   fact about the address; it is an input of the model because the float result depends on it).
   The unrolled 16-wide loop followed by the 8-wide tail adds the next eight elements pairwise
   into the four accumulators floor(n/8) times in all; then SUM += SUM_3, SUM_1 += SUM_2, the
   4-tail, SUM += SUM_1, the 2-tail, the horizontal add, and the 1-tail. *)
Definition add2 (s : F * F) (l : list F) : (F * F) * list F :=   (* ADDPD (mem), reg *)
  match l with
  | a :: b :: l' => ((add (fst s) a, add (snd s) b), l')
  | _ => (s, l)
  end.

Definition padd (s t : F * F) : F * F := (add (fst s) (fst t), add (snd s) (snd t)).   (* ADDPD reg, reg *)

Definition acc4 : Type := ((F * F) * (F * F) * (F * F) * (F * F))%type.

Definition add8 (st : acc4) (l : list F) : acc4 * list F :=
  let '(s0, s1, s2, s3) := st in
  let '(s0, l) := add2 s0 l in
  let '(s1, l) := add2 s1 l in
  let '(s2, l) := add2 s2 l in
  let '(s3, l) := add2 s3 l in
  ((s0, s1, s2, s3), l).

Fixpoint blocks8 (k : nat) (st : acc4) (l : list F) : acc4 * list F :=
  match k with
  | O => (st, l)
  | S k' => let '(st', l') := add8 st l in blocks8 k' st' l'
  end.

Definition sum_body (s0 : F * F) (l : list F) : F :=
  let n := len l in
  let z2 := (zero, zero) in
  let '((s0, s1, s2, s3), l) := blocks8 (Z.to_nat (n / 8)) (s0, z2, z2, z2) l in
  let s0 := padd s0 s3 in
  let s1 := padd s1 s2 in
  let '(s0, s1, l) :=
    if Z.testbit n 2 then
      let '(s0, l) := add2 s0 l in let '(s1, l) := add2 s1 l in (s0, s1, l)
    else (s0, s1, l) in
  let s0 := padd s0 s1 in
  let '(s0, l) := if Z.testbit n 1 then add2 s0 l else (s0, l) in
  let sum := add (fst s0) (snd s0) in                      (* HADDPD *)
  match l with
  | v :: _ => if Z.testbit n 0 then add sum v else sum     (* ADDSD *)
  | [] => sum
  end.

Definition sum_asm (aligned : bool) (x : list F) : F :=
  match x with
  | [] => zero
  | x0 :: rest =>
    if aligned then sum_body (zero, zero) x
    else
      match rest with
      | [] => add zero x0
      | _ => sum_body (add zero x0, zero) rest
      end
  end.

(* ---- stat.Mean(x, nil) = floats.Sum(x) / float64(len(x)) ---- *)
Definition st_mean (aligned : bool) (x : list F) : F := div (sum_asm aligned x) (n_ofZ N (len x)).

(* ---- stat.meanUnnormalisedVarianceSumWeights(x, nil), stat.MeanVariance ----
     for _, v := range x { d := v - mean; ss += d * d; compensation += d }
     unnormalisedVariance = ss - compensation*compensation/float64(len(x))
     variance = unnormalisedVariance / (float64(len(x)) - 1) *)
Fixpoint mv_loop (x : list F) (mean ss comp : F) : F * F :=
  match x with
  | [] => (ss, comp)
  | v :: x' => let d := sub v mean in mv_loop x' mean (add ss (mul d d)) (add comp d)
  end.

Definition st_mean_variance (aligned : bool) (x : list F) : F * F :=
  let mean := st_mean aligned x in
  let '(ss, comp) := mv_loop x mean zero zero in
  let n := n_ofZ N (len x) in
  let unv := sub ss (div (mul comp comp) n) in
  (mean, div unv (sub n one)).

Definition st_variance (aligned : bool) (x : list F) : F := snd (st_mean_variance aligned x).
Definition st_stddev (aligned : bool) (x : list F) : F := n_sqrt N (st_variance aligned x).

(* ---- sort.Float64s: any sort under  less x y = (isNaN(x) && !isNaN(y)) || x < y ;
        modelled as a stable insertion sort ---- *)
Definition less (x y : F) : bool := (isnan x && negb (isnan y)) || ltb x y.

Fixpoint insert (x : F) (l : list F) : list F :=
  match l with
  | [] => [x]
  | y :: l' => if less x y then x :: l else y :: insert x l'
  end.

Definition isort (l : list F) : list F := fold_left (fun acc x => insert x acc) l [].

(* sort.Float64sAreSorted: for i := n-1; i > 0; i-- { if less(x[i], x[i-1]) { return false } } *)
Fixpoint are_sorted (l : list F) : bool :=
  match l with
  | a :: (b :: _) as l' => negb (less b a) && are_sorted l'
  | _ => true
  end.

Definition has_nan (l : list F) : bool := existsb isnan l.

(* ---- stat.empiricalQuantile(p, x, nil, sumWeights) ----
     fidx := p * sumWeights; for i := range x { cumsum++; if cumsum >= fidx { return x[i] } }; panic("impossible") *)
Fixpoint emp_loop (x : list F) (cumsum fidx : F) : res F :=
  match x with
  | [] => GoPanic panic_impossible
  | v :: x' => let c := add cumsum one in if leb fidx c then Ok v else emp_loop x' c fidx
  end.

(* ---- stat.Quantile(p, stat.Empirical, x, nil) ---- *)
Definition st_quantile (p : F) (x : list F) : res F :=
  if negb (leb zero p && leb p one) then GoPanic panic_percentile
  else
    match x with
    | [] => GoPanic panic_stat_zero_length
    | _ =>
      if has_nan x then Ok nan
      else if negb (are_sorted x) then GoPanic panic_not_sorted
      else emp_loop x zero (mul p (n_ofZ N (len x)))
    end.

(* ================= experiment.Floats ================= *)

Definition F_min (x : list F) : res F := match x with [] => Ok nan | _ => fl_min x end.
Definition F_max (x : list F) : res F := match x with [] => Ok nan | _ => fl_max x end.
Definition F_sum (aligned : bool) (x : list F) : F := sum_asm aligned x.
Definition F_mean (aligned : bool) (x : list F) : F :=
  match x with [] => nan | _ => st_mean aligned x end.
Definition F_mean_variance (aligned : bool) (x : list F) : F * F :=
  match x with [] => (nan, nan) | _ => st_mean_variance aligned x end.
Definition F_variance (aligned : bool) (x : list F) : F :=
  match x with [] => nan | _ => st_variance aligned x end.
Definition F_stddev (aligned : bool) (x : list F) : F :=
  match x with [] => nan | _ => st_stddev aligned x end.

(* x.sorted(): copy, sort.Float64s *)
Definition F_sorted (x : list F) : list F := isort x.

Definition F_quantile (p : F) (x : list F) : res F :=
  match x with [] => Ok nan | _ => st_quantile p (F_sorted x) end.
Definition F_median (x : list F) : res F := F_quantile (n_frac N 1 2) x.
Definition F_q25 (x : list F) : res F := F_quantile (n_frac N 1 4) x.
Definition F_q75 (x : list F) : res F := F_quantile (n_frac N 3 4) x.

(* the code before fix 8399ba2 (kept for the mutation witness in the proofs): no sorting *)
Definition F_median_unsorted (x : list F) : res F :=
  match x with [] => Ok nan | _ => st_quantile (n_frac N 1 2) x end.

End Stats.

(* ================= the binary64 instance ================= *)

(* float64(int): round to nearest even, any integer *)
Definition f64_ofZ (z : Z) : float := SF2Prim (SpecFloat.binary_normalize 53 1024 z 0 false).

Definition fnum : num float := {|
  n_zero := PrimFloat.zero;
  n_one := PrimFloat.one;
  n_add := PrimFloat.add;
  n_sub := PrimFloat.sub;
  n_mul := PrimFloat.mul;
  n_div := PrimFloat.div;
  n_sqrt := PrimFloat.sqrt;
  n_ofZ := f64_ofZ;
  n_frac := fun m d => PrimFloat.div (f64_ofZ m) (f64_ofZ d);
  n_ltb := PrimFloat.ltb;
  n_leb := PrimFloat.leb;
  n_eqb := PrimFloat.eqb;
  n_isnan := PrimFloat.is_nan;
  n_nan := PrimFloat.nan
|}.

(* result comparison helpers used by the correspondence *)
Definition res_feqb (eq : float -> float -> bool) (a b : res float) : bool :=
  match a, b with
  | Ok x, Ok y => eq x y
  | GoPanic c, GoPanic d => Z.eqb c d
  | _, _ => false
  end.
