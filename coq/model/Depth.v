(* Model of neat/network/nnode.go : NNode.Depth and neat/network/network.go :
   Network.MaxActivationDepth / MaxActivationDepthWithCap (C14).

   A network is its node list (id, NeuronType), the id lists behind n.inputs and n.Outputs, the
   link list (InNode.Id, OutNode.Id) in creation order and len(n.controlNodes).  Node pointers are
   ids (DESIGN 3.1); node.Incoming is the sub-list of links that end in the node, in link order.
   The per-node flag [visited] is the list of marked ids; it is threaded through the recursion AND
   RETURNED, on the success and on the error path, so what a query leaves behind is a value.
   A Go result (int, error) is (value, derr); [res] only adds the model artefacts: OutOfFuel
   (recursion fuel) and BadOracle (an id that names no node: not a representation of a Go network). *)
From NeatModel Require Import Res.

(* NodeNeuronType: HiddenNeuron = 0, InputNeuron = 1, OutputNeuron = 2, BiasNeuron = 3 *)
Inductive ntype := HiddenN | InputN | OutputN | BiasN.

Definition ntype_of_Z (z : Z) : ntype :=
  match z with 1 => InputN | 2 => OutputN | 3 => BiasN | _ => HiddenN end.

(* func (n *NNode) IsSensor() bool *)
Definition is_sensor (t : ntype) : bool :=
  match t with InputN | BiasN => true | _ => false end.

Record net := {
  n_nodes : list (Z * ntype);    (* n.allNodes *)
  n_inputs : list Z;             (* n.inputs *)
  n_outputs : list Z;            (* n.Outputs *)
  n_links : list (Z * Z);        (* (l.InNode, l.OutNode) *)
  n_control : Z                  (* len(n.controlNodes) *)
}.

(* error values of the two functions *)
Inductive derr := NoErr | ErrDepthExceeded (* ErrMaximalNetDepthExceeded *) | ErrModular.

Definition derr_code (e : derr) : Z :=
  match e with NoErr => 0 | ErrDepthExceeded => 1 | ErrModular => 2 end.

(* (returned int, returned error, visited marks afterwards) *)
Definition dres : Type := Z * derr * list Z.

Fixpoint type_of (ns : list (Z * ntype)) (id : Z) : option ntype :=
  match ns with
  | [] => None
  | (i, t) :: ns' => if i =? id then Some t else type_of ns' id
  end.

(* ids of l.InNode for l in node.Incoming *)
Definition incoming (g : net) (id : Z) : list Z :=
  map fst (filter (fun l => snd l =? id) (n_links g)).

Fixpoint mem (x : Z) (l : list Z) : bool :=
  match l with
  | [] => false
  | y :: l' => (x =? y) || mem x l'
  end.

(* n.visited = false *)
Definition unmark (id : Z) (vis : list Z) : list Z :=
  filter (fun x => negb (x =? id)) vis.

(* for _, l := range n.Incoming { ... }   [rec i vis] is l.InNode.Depth(d+1, maxDepthCap) *)
Fixpoint depth_loop (rec : Z -> list Z -> res dres) (self : Z)
         (ins : list Z) (mx : Z) (vis : list Z) : res dres :=
  match ins with
  | [] => Ok (mx, NoErr, unmark self vis)                  (* n.visited = false; return max, nil *)
  | i :: ins' =>
    if mem i vis then depth_loop rec self ins' mx vis      (* if l.InNode.visited { continue } *)
    else
      match rec i vis with
      | Ok (c, NoErr, vis') =>                             (* else if curDepth > max { max = curDepth } *)
        depth_loop rec self ins' (if mx <? c then c else mx) vis'
      | Ok (c, e, vis') => Ok (c, e, unmark self vis')     (* n.visited = false; return curDepth, err *)
      | r => r
      end
  end.

(* func (n *NNode) Depth(d int, maxDepthCap int) (int, error) *)
Fixpoint depth (g : net) (fuel : nat) (cap : Z) (id d : Z) (vis : list Z) : res dres :=
  match fuel with
  | O => OutOfFuel
  | S f =>
    if (0 <? cap) && (cap <? d) then Ok (cap, ErrDepthExceeded, vis)  (* return maxDepthCap, Err... *)
    else
      match type_of (n_nodes g) id with
      | None => BadOracle
      | Some t =>
        if is_sensor t then Ok (d, NoErr, vis)                        (* return d, nil *)
        else                                                          (* n.visited = true; max := d *)
          depth_loop (fun i v => depth g f cap i (d + 1) v) id (incoming g id) d (id :: vis)
      end
  end.

(* for _, node := range n.Outputs { ... } *)
Fixpoint out_loop (rec : Z -> list Z -> res dres) (outs : list Z) (mx : Z) (vis : list Z) : res dres :=
  match outs with
  | [] => Ok (mx, NoErr, vis)                              (* return maxDepth, nil *)
  | o :: outs' =>
    match rec o vis with
    | Ok (c, NoErr, vis') => out_loop rec outs' (if mx <? c then c else mx) vis'
    | Ok (c, e, vis') => Ok (c, e, vis')                   (* return currDepth, err *)
    | r => r
    end
  end.

(* recursion fuel, computed from the input: |nodes| + 1 *)
Definition depth_fuel (g : net) : nat := S (length (n_nodes g)).

Definition len {A} (l : list A) : Z := Z.of_nat (length l).

(* func (n *Network) MaxActivationDepthWithCap(maxDepthCap int) (int, error) *)
Definition max_depth_cap (g : net) (cap : Z) (vis : list Z) : res dres :=
  if 0 <? n_control g then Ok (-1, ErrModular, vis)
  else if (len (n_nodes g) =? len (n_inputs g) + len (n_outputs g)) && (n_control g =? 0)
       then Ok (1, NoErr, vis)                             (* just one layer depth *)
       else out_loop (fun o v => depth g (depth_fuel g) cap o 0 v) (n_outputs g) 0 vis.

(* func (n *Network) MaxActivationDepth() (int, error); the modular branch (gonum all-paths) is
   outside C14 and not modelled *)
Definition max_depth (g : net) (vis : list Z) : res dres :=
  if n_control g =? 0 then max_depth_cap g 0 vis else BadOracle.

(* ---- correspondence interface ---- *)

(* the marks a harness sees: ids of nodes whose flag is set, in allNodes order *)
Definition marks_of (g : net) (vis : list Z) : list Z :=
  filter (fun id => mem id vis) (map fst (n_nodes g)).

(* a query: (kind, cap); kind 0 = MaxActivationDepth(), 1 = MaxActivationDepthWithCap(cap) *)
Definition run_query (g : net) (q : Z * Z) (vis : list Z) : res dres :=
  match fst q with
  | 0 => max_depth g vis
  | _ => max_depth_cap g (snd q) vis
  end.

(* queries one after the other on the same network object: (value, error code, marks) of each *)
Fixpoint run_queries (g : net) (qs : list (Z * Z)) (vis : list Z) : res (list (Z * Z * list Z)) :=
  match qs with
  | [] => Ok []
  | q :: qs' =>
    match run_query g q vis with
    | Ok (r, e, vis') =>
      match run_queries g qs' vis' with
      | Ok l => Ok ((r, derr_code e, marks_of g vis') :: l)
      | GoErr c => GoErr c | GoPanic c => GoPanic c
      | OutOfTape => OutOfTape | OutOfFuel => OutOfFuel | BadOracle => BadOracle
      end
    | GoErr c => GoErr c | GoPanic c => GoPanic c
    | OutOfTape => OutOfTape | OutOfFuel => OutOfFuel | BadOracle => BadOracle
    end
  end.

Definition mk_net (nodes : list (Z * Z)) (ins outs : list Z) (links : list (Z * Z)) (control : Z) : net :=
  {| n_nodes := map (fun p => (fst p, ntype_of_Z (snd p))) nodes;
     n_inputs := ins; n_outputs := outs; n_links := links; n_control := control |}.
