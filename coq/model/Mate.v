(* The three crossovers of neat/genetics/genome_reproduce.go.  The "add the chosen gene to the
   child" tail, textually identical in the three Go functions, is one shared definition. *)
From NeatModel Require Import Res F64 GoRand Genome Options Insert Mutate.

(* error 60: trait parameter count mismatch, 61: trait count mismatch, 99: modular genomes are outside the model *)
Definition trait_avg (a b : trait) : res trait :=
  if negb (Nat.eqb (length (t_params a)) (length (t_params b))) then GoErr 60 else
  Ok {| t_id := t_id a;
        t_params := map (fun pq => PrimFloat.div (PrimFloat.add (fst pq) (snd pq)) 2%float)
                        (combine (t_params a) (t_params b)) |}.

Fixpoint mate_traits (ta tb : list trait) : res (list trait) :=
  match ta, tb with
  | [], _ => Ok []
  | a :: ta', b :: tb' => do t <- trait_avg a b; do ts <- mate_traits ta' tb'; Ok (t :: ts)
  | _ :: _, [] => GoPanic 2
  end.

(* newTraits[ x.Trait.Id - g.Traits[0].Id ], or newTraits[0] for a nil trait *)
Definition child_trait (g : genome) (new_traits : list trait) (t : option Z) : res (option Z) :=
  do k <- match t with
          | None => Ok 0
          | Some id => do t0 <- idx (traits g) 0; Ok (id - t_id t0)
          end;
  do tr <- idx new_traits k;
  Ok (Some (t_id tr)).

(* a chosen gene together with the node objects its link points to *)
Record cgene := { cg : gene; cg_inn : node; cg_outn : node }.

Definition resolve (owner : genome) (x : gene) : res cgene :=
  match node_with_id (g_in x) (nodes owner), node_with_id (g_out x) (nodes owner) with
  | Some a, Some b => Ok {| cg := x; cg_inn := a; cg_outn := b |}
  | _, _ => GoPanic 3
  end.

Definition child_node (g : genome) (new_traits : list trait) (ns : list node) (n : node) : res (list node) :=
  match node_with_id (n_id n) ns with
  | Some _ => Ok ns
  | None =>
    do tr <- child_trait g new_traits (n_trait n);
    Ok (node_insert ns {| n_id := n_id n; n_type := n_type n; n_act := n_act n; n_trait := tr |})
  end.

(* the shared tail: conflict check, node creation, gene copy *)
Definition add_chosen (g : genome) (new_traits : list trait) (acc : list node * list gene)
           (c : cgene) (disable : bool) : res (list node * list gene) :=
  let '(ns, gs) := acc in
  if existsb (fun y => same_link y (cg c)) gs then Ok acc else
  do ns1 <- child_node g new_traits ns (cg_inn c);
  do ns2 <- child_node g new_traits ns1 (cg_outn c);
  do tr <- child_trait g new_traits (g_trait (cg c));
  let x := cg c in
  let y := {| g_in := n_id (cg_inn c); g_out := n_id (cg_outn c); g_rec := g_rec x; g_w := g_w x; g_trait := tr;
              g_innov := g_innov x; g_mut := g_mut x; g_en := if disable then false else g_en x |} in
  Ok (ns2, gs ++ [y]).

(* sensors and outputs of the second parent, copied first *)
Fixpoint io_nodes_of (g : genome) (new_traits : list trait) (l : list node) (acc : list node) : res (list node) :=
  match l with
  | [] => Ok acc
  | n :: l' =>
    if is_io n then
      do tr <- child_trait g new_traits (n_trait n);
      io_nodes_of g new_traits l' (node_insert acc {| n_id := n_id n; n_type := n_type n; n_act := n_act n; n_trait := tr |})
    else io_nodes_of g new_traits l' acc
  end.

Definition p1_better (f1 f2 : float) (g og : genome) : bool :=
  PrimFloat.ltb f2 f1 || (PrimFloat.eqb f1 f2 && Nat.ltb (length (genes g)) (length (genes og))).

(* !p1gene.IsEnabled || !p2gene.IsEnabled && rand.Float64() < 0.75 *)
Definition disable_draw (x1 x2 : gene) : @M st bool :=
  if negb (g_en x1) then ret true
  else if negb (g_en x2) then let! r := r_float64 in ret (PrimFloat.ltb r 0x1.8p-1%float)
  else ret false.

Definition pick_gt_half {A} (a b : A) : @M st A :=
  let! r := r_float64 in ret (if PrimFloat.ltb half r then a else b).

(* the averaged gene of the two averaging methods; draws in program order *)
Definition avg_gene (g og : genome) (x1 x2 : gene) : @M st cgene :=
  let! tr := pick_gt_half (g_trait x1) (g_trait x2) in
  let w := PrimFloat.div (PrimFloat.add (g_w x1) (g_w x2)) 2%float in
  let! c1 := lift (resolve g x1) in
  let! c2 := lift (resolve og x2) in
  let! inn := pick_gt_half (cg_inn c1) (cg_inn c2) in
  let! outn := pick_gt_half (cg_outn c1) (cg_outn c2) in
  let! rc := pick_gt_half (g_rec x1) (g_rec x2) in
  let mut := PrimFloat.div (PrimFloat.add (g_mut x1) (g_mut x2)) 2%float in
  let! dis := disable_draw x1 x2 in
  ret {| cg := {| g_in := n_id inn; g_out := n_id outn; g_rec := rc; g_w := w; g_trait := tr;
                  g_innov := g_innov x1; g_mut := mut; g_en := negb dis |};
         cg_inn := inn; cg_outn := outn |}.

(* ---------- mateMultipoint / mateMultipointAvg ---------- *)
Fixpoint multipoint_loop (fuel : nat) (avg : bool) (g og : genome) (nt : list trait) (p1b : bool)
         (l1 l2 : list gene) (acc : list node * list gene) : @M st (list node * list gene) :=
  match fuel with
  | O => fun _ => OutOfFuel
  | S f =>
    match l1, l2 with
    | [], [] => ret acc
    | [], x2 :: l2' =>
      let! acc' := (if p1b then ret acc else let! c := lift (resolve og x2) in lift (add_chosen g nt acc c false)) in
      multipoint_loop f avg g og nt p1b [] l2' acc'
    | x1 :: l1', [] =>
      let! acc' := (if negb p1b then ret acc else let! c := lift (resolve g x1) in lift (add_chosen g nt acc c false)) in
      multipoint_loop f avg g og nt p1b l1' [] acc'
    | x1 :: l1', x2 :: l2' =>
      if Z.eqb (g_innov x1) (g_innov x2) then
        let! acc' :=
           (if avg then
              let! c := avg_gene g og x1 x2 in lift (add_chosen g nt acc c false)
            else
              let! r := r_float64 in
              let! c := (if PrimFloat.ltb r half then lift (resolve g x1) else lift (resolve og x2)) in
              let! dis := disable_draw x1 x2 in
              lift (add_chosen g nt acc c dis)) in
        multipoint_loop f avg g og nt p1b l1' l2' acc'
      else if Z.ltb (g_innov x1) (g_innov x2) then
        let! acc' := (if negb p1b then ret acc else let! c := lift (resolve g x1) in lift (add_chosen g nt acc c false)) in
        multipoint_loop f avg g og nt p1b l1' l2 acc'
      else
        let! acc' := (if p1b then ret acc else let! c := lift (resolve og x2) in lift (add_chosen g nt acc c false)) in
        multipoint_loop f avg g og nt p1b l1 l2' acc'
    end
  end.

Definition mate_multipoint_gen (avg : bool) (g og : genome) (id : Z) (f1 f2 : float) : @M st genome :=
  if negb (Nat.eqb (length (traits g)) (length (traits og))) then fail_err 61 else
  match modules g, modules og with
  | [], [] =>
    let! nt := lift (mate_traits (traits g) (traits og)) in
    let! ns0 := lift (io_nodes_of g nt (nodes og) []) in
    let p1b := p1_better f1 f2 g og in
    let! r := multipoint_loop (S (length (genes g) + length (genes og))) avg g og nt p1b (genes g) (genes og) (ns0, []) in
    ret {| gid := id; traits := nt; nodes := fst r; genes := snd r; modules := [] |}
  | _, _ => fail_err 99
  end.

Definition mate_multipoint := mate_multipoint_gen false.
Definition mate_multipoint_avg := mate_multipoint_gen true.

(* ---------- mateSinglePoint ---------- *)
(* [a] owns p1genes (the shorter list), [b] owns p2genes; the loop runs while p2genes remain.
   [chosen_set] models `chosenGene != nil` *)
Fixpoint singlepoint_loop (fuel : nat) (g : genome) (a b : genome) (nt : list trait) (cross : Z)
         (l1 l2 : list gene) (counter : Z) (chosen_set : bool) (acc : list node * list gene)
  : @M st (list node * list gene) :=
  match fuel with
  | O => fun _ => OutOfFuel
  | S f =>
    match l2 with
    | [] => ret acc
    | x2 :: l2' =>
      match l1 with
      | [] =>
        let! c := lift (resolve b x2) in
        let! acc' := lift (add_chosen g nt acc c false) in
        singlepoint_loop f g a b nt cross [] l2' counter true acc'
      | x1 :: l1' =>
        if Z.eqb (g_innov x1) (g_innov x2) then
          let! c := (if Z.ltb counter cross then lift (resolve a x1)
                     else if Z.gtb counter cross then lift (resolve b x2)
                     else avg_gene a b x1 x2) in
          let! acc' := lift (add_chosen g nt acc c false) in
          singlepoint_loop f g a b nt cross l1' l2' (counter + 1) true acc'
        else if Z.ltb (g_innov x1) (g_innov x2) then
          if Z.ltb counter cross then
            let! c := lift (resolve a x1) in
            let! acc' := lift (add_chosen g nt acc c false) in
            singlepoint_loop f g a b nt cross l1' l2 (counter + 1) true acc'
          else
            let! c := lift (resolve b x2) in
            let! acc' := lift (add_chosen g nt acc c false) in
            singlepoint_loop f g a b nt cross l1 l2' counter true acc'
        else
          (* i2++; skip = true; and `if chosenGene == nil { break }` *)
          if chosen_set then singlepoint_loop f g a b nt cross l1 l2' counter true acc
          else ret acc
      end
    end
  end.

Definition mate_singlepoint (g og : genome) (id : Z) : @M st genome :=
  if negb (Nat.eqb (length (traits g)) (length (traits og))) then fail_err 61 else
  match modules g, modules og with
  | [], [] =>
    let! nt := lift (mate_traits (traits g) (traits og)) in
    let! ns0 := lift (io_nodes_of g nt (nodes og) []) in
    let s1 := length (genes g) in
    let s2 := length (genes og) in
    let '(a, b) := if Nat.ltb s1 s2 then (g, og) else (og, g) in
    let! cross := r_intn (zlen (genes a)) in
    let! r := singlepoint_loop (S (s1 + s2)) g a b nt cross (genes a) (genes b) 0 false (ns0, []) in
    ret {| gid := id; traits := nt; nodes := fst r; genes := snd r; modules := [] |}
  | _, _ => fail_err 99
  end.
