(* C18 -- model of neat/math/activations.go (and the name tables of neat/network/common.go).

   Executable transliteration, no proofs here.
   * Every scalar activation is written over primitive binary64 floats with the SAME operation
     order as the Go source.  Calls into Go's math library (Exp, Tanh, Sin, Pow) cannot be computed
     by Coq; they are an explicit effect: a function is a [comp]utation that either is [Done] or
     [Call]s a library function on an argument and continues with its result.  The correspondence
     check interprets calls with the (function, argument bits) -> result bits table the harness
     observed on the running Go code ([run_tbl], a missing entry is [BadOracle]); the theorems
     interpret them with an arbitrary function [L] subject to section hypotheses ([run]).
   * The closed forms "as documented" are given a second time over R ([*_R]).
   * The factory is the four Go maps, filled by replaying the Register/RegisterModule calls that the
     translator extracted from the current source (gen/ActRegistry.v), with Go's map-overwrite
     semantics; the lookups return [GoErr] exactly where the Go code returns an error. *)
From Coq Require Import ZArith List String Bool Floats Reals.
From NeatModel Require Import Res F64 ActRegistry.
Import ListNotations.
Open Scope Z_scope.

(* ------------------------------------------------------------------------------------------ *)
(* libm as an effect                                                                           *)
(* ------------------------------------------------------------------------------------------ *)

Inductive libm_fn := LExp | LTanh | LSin | LPow.

Definition libm_id (f : libm_fn) : Z :=
  match f with LExp => 1 | LTanh => 2 | LSin => 3 | LPow => 4 end.

(* [Call fn a b k]: fn(a) for the unary functions (b is +0 and ignored), math.Pow(a, b) for LPow *)
Inductive comp :=
| Done (v : float)
| Call (fn : libm_fn) (a b : float) (k : float -> comp).

Fixpoint run (L : libm_fn -> float -> float -> float) (c : comp) : float :=
  match c with
  | Done v => v
  | Call fn a b k => run L (k (L fn a b))
  end.

(* one observed library call: (function id, first argument, second argument, result) *)
Definition libm_entry := (Z * float * float * float)%type.

Fixpoint tbl_lookup (t : list libm_entry) (fn : Z) (a b : float) : option float :=
  match t with
  | [] => None
  | (fn', a', b', r) :: t' =>
    if Z.eqb fn fn' && feqb_exact a a' && feqb_exact b b' then Some r else tbl_lookup t' fn a b
  end.

Fixpoint run_tbl (t : list libm_entry) (c : comp) : res float :=
  match c with
  | Done v => Ok v
  | Call fn a b k =>
    match tbl_lookup t (libm_id fn) a b with
    | Some r => run_tbl t (k r)
    | None => BadOracle
    end
  end.

(* ------------------------------------------------------------------------------------------ *)
(* scalar activations over binary64, as coded                                                  *)
(* ------------------------------------------------------------------------------------------ *)
Section FloatFunctions.
Open Scope float_scope.

(* the decimal constants of the source, as the binary64 values the Go compiler rounds them to *)
Definition c_4_924273 : float := 0x1.3b2749f0e4da1p+2.   (* 4.924273  *)
Definition c_2_4621365 : float := 0x1.3b2749f0e4da1p+1.  (* 2.4621365 *)
Definition c_0_9 : float := 0x1.ccccccccccccdp-1.        (* 0.9 *)
Definition c_2_5 : float := 0x1.4p+1.                    (* 2.5 *)
Definition c_one32nd : float := 0x1p-5.                  (* 0.03125 *)
Definition c_half : float := 0x1p-1.                     (* 0.5 *)
Definition c_max_float64 : float := 0x1.fffffffffffffp+1023.
Definition c_1e300 : float := 0x1.7e43c8800759cp+996.

(* math.Signbit *)
Definition f_signbit (x : float) : bool :=
  match Prim2SF x with
  | S754_zero s => s
  | S754_infinity s => s
  | S754_finite s _ _ => s
  | S754_nan => false
  end.

Definition f_is_pinf (x : float) : bool :=
  match Prim2SF x with S754_infinity false => true | _ => false end.
Definition f_is_ninf (x : float) : bool :=
  match Prim2SF x with S754_infinity true => true | _ => false end.

(* 1 / (1 + math.Exp(-input)) *)
Definition plainSigmoid (x : float) : comp :=
  Call LExp (- x) 0 (fun e => Done (1 / (1 + e))).
(* 1 / (1 + math.Exp(-0.5*input)) *)
Definition reducedSigmoid (x : float) : comp :=
  Call LExp ((- c_half) * x) 0 (fun e => Done (1 / (1 + e))).
(* 1.0 / (1.0 + math.Exp(-4.924273*input)) *)
Definition steepenedSigmoid (x : float) : comp :=
  Call LExp ((- c_4_924273) * x) 0 (fun e => Done (1 / (1 + e))).
(* (2.0 / (1.0 + math.Exp(-4.924273*input))) - 1.0 *)
Definition bipolarSigmoid (x : float) : comp :=
  Call LExp ((- c_4_924273) * x) 0 (fun e => Done ((2 / (1 + e)) - 1)).

(* squashing range [-4, 4] *)
Definition approximationSigmoid (x : float) : comp :=
  let four := 4 in let one32nd := c_one32nd in
  Done (if x <? -4 then 0
        else if x <? 0 then (x + four) * (x + four) * one32nd
        else if x <? 4 then 1 - (x - four) * (x - four) * one32nd
        else 1).
(* squashing range [-1, 1] *)
Definition approximationSteepenedSigmoid (x : float) : comp :=
  let one := 1 in let oneHalf := c_half in
  Done (if x <? -1 then 0
        else if x <? 0 then (x + one) * (x + one) * oneHalf
        else if x <? 1 then 1 - (x - one) * (x - one) * oneHalf
        else 1).
(* 0.5 + (input/(1.0+math.Abs(input)))*0.5 *)
Definition inverseAbsoluteSigmoid (x : float) : comp :=
  Done (c_half + (x / (1 + abs x)) * c_half).

(* 1.0 / (1.0 + math.Exp(-input-2.4621365)) *)
Definition leftShiftedSigmoid (x : float) : comp :=
  Call LExp ((- x) - c_2_4621365) 0 (fun e => Done (1 / (1 + e))).
(* 1.0 / (1.0 + math.Exp(-(4.924273*input + 2.4621365))) *)
Definition leftShiftedSteepenedSigmoid (x : float) : comp :=
  Call LExp (- (c_4_924273 * x + c_2_4621365)) 0 (fun e => Done (1 / (1 + e))).
(* 1.0 / (1.0 + math.Exp(-(4.924273*input - 2.4621365))) *)
Definition rightShiftedSteepenedSigmoid (x : float) : comp :=
  Call LExp (- (c_4_924273 * x - c_2_4621365)) 0 (fun e => Done (1 / (1 + e))).

(* math.Tanh(0.9 * input) *)
Definition hyperbolicTangent (x : float) : comp :=
  Call LTanh (c_0_9 * x) 0 (fun t => Done t).
(* 2.0*math.Exp(-math.Pow(input*2.5, 2.0)) - 1.0 *)
Definition bipolarGaussian (x : float) : comp :=
  Call LPow (x * c_2_5) 2 (fun p => Call LExp (- p) 0 (fun e => Done (2 * e - 1))).
(* math.Exp(-math.Pow(input, 2.0)) *)
Definition gaussian (x : float) : comp :=
  Call LPow x 2 (fun p => Call LExp (- p) 0 (fun e => Done e)).
(* math.Abs(input) *)
Definition absoluteLinear (x : float) : comp := Done (abs x).
Definition clippedLinear (x : float) : comp :=
  Done (if x <? -1 then -1 else if 1 <? x then 1 else x).
Definition linear (x : float) : comp := Done x.
Definition nullFunctor (x : float) : comp := Done 0.
(* IsNaN(input) || input == 0.0 -> 0; Signbit -> -1; else 1 *)
Definition signFunction (x : float) : comp :=
  Done (if is_nan x || (x =? 0) then 0 else if f_signbit x then -1 else 1).
(* math.Sin(2.0 * input) *)
Definition sineFunction (x : float) : comp :=
  Call LSin (2 * x) 0 (fun s => Done s).
(* input < 0 ? 0 : 1 *)
Definition stepFunction (x : float) : comp := Done (if x <? 0 then 0 else 1).

(* math.Max / math.Min (pure-Go reference semantics; the amd64 assembly implements the same table) *)
Definition go_max (x y : float) : float :=
  if f_is_pinf x || f_is_pinf y then infinity
  else if is_nan x || is_nan y then nan
  else if (x =? 0) && (x =? y) then (if f_signbit x then y else x)
  else if y <? x then x else y.
Definition go_min (x y : float) : float :=
  if f_is_ninf x || f_is_ninf y then neg_infinity
  else if is_nan x || is_nan y then nan
  else if (x =? 0) && (x =? y) then (if f_signbit x then x else y)
  else if x <? y then x else y.

(* module activations: one output *)
Definition multiplyModule (inputs : list float) : list float :=
  [fold_left (fun ret v => ret * v) inputs 1].
Definition maxModule (inputs : list float) : list float :=
  [fold_left (fun maxVal v => go_max maxVal v) inputs neg_infinity].
Definition minModule (inputs : list float) : list float :=
  [fold_left (fun minVal v => go_min minVal v) inputs c_max_float64].

End FloatFunctions.

(* the Go func variables the model knows, by identifier *)
Open Scope string_scope.
Definition scalar_by_name (fname : string) : option (float -> comp) :=
  if String.eqb fname "plainSigmoid" then Some plainSigmoid
  else if String.eqb fname "reducedSigmoid" then Some reducedSigmoid
  else if String.eqb fname "steepenedSigmoid" then Some steepenedSigmoid
  else if String.eqb fname "bipolarSigmoid" then Some bipolarSigmoid
  else if String.eqb fname "approximationSigmoid" then Some approximationSigmoid
  else if String.eqb fname "approximationSteepenedSigmoid" then Some approximationSteepenedSigmoid
  else if String.eqb fname "inverseAbsoluteSigmoid" then Some inverseAbsoluteSigmoid
  else if String.eqb fname "leftShiftedSigmoid" then Some leftShiftedSigmoid
  else if String.eqb fname "leftShiftedSteepenedSigmoid" then Some leftShiftedSteepenedSigmoid
  else if String.eqb fname "rightShiftedSteepenedSigmoid" then Some rightShiftedSteepenedSigmoid
  else if String.eqb fname "hyperbolicTangent" then Some hyperbolicTangent
  else if String.eqb fname "bipolarGaussian" then Some bipolarGaussian
  else if String.eqb fname "gaussian" then Some gaussian
  else if String.eqb fname "linear" then Some linear
  else if String.eqb fname "absoluteLinear" then Some absoluteLinear
  else if String.eqb fname "clippedLinear" then Some clippedLinear
  else if String.eqb fname "nullFunctor" then Some nullFunctor
  else if String.eqb fname "signFunction" then Some signFunction
  else if String.eqb fname "sineFunction" then Some sineFunction
  else if String.eqb fname "stepFunction" then Some stepFunction
  else None.

Definition module_by_name (fname : string) : option (list float -> list float) :=
  if String.eqb fname "multiplyModule" then Some multiplyModule
  else if String.eqb fname "maxModule" then Some maxModule
  else if String.eqb fname "minModule" then Some minModule
  else None.

(* the binding the property expects: type code -> Go function *)
Definition expected_bindings : list (Z * string) := [
  (1, "plainSigmoid"); (2, "reducedSigmoid"); (3, "bipolarSigmoid"); (4, "steepenedSigmoid");
  (5, "approximationSigmoid"); (6, "approximationSteepenedSigmoid"); (7, "inverseAbsoluteSigmoid");
  (8, "leftShiftedSigmoid"); (9, "leftShiftedSteepenedSigmoid"); (10, "rightShiftedSteepenedSigmoid");
  (11, "hyperbolicTangent"); (12, "bipolarGaussian"); (13, "gaussian"); (14, "linear");
  (15, "absoluteLinear"); (16, "clippedLinear"); (17, "nullFunctor"); (18, "signFunction");
  (19, "sineFunction"); (20, "stepFunction") ].
Definition expected_module_bindings : list (Z * string) := [
  (21, "multiplyModule"); (22, "maxModule"); (23, "minModule") ].
(* and the expected names: every activation is registered under the identifier of its type constant *)
Definition expected_names : list (Z * string) := [
  (1, "SigmoidPlainActivation"); (2, "SigmoidReducedActivation"); (3, "SigmoidBipolarActivation");
  (4, "SigmoidSteepenedActivation"); (5, "SigmoidApproximationActivation");
  (6, "SigmoidSteepenedApproximationActivation"); (7, "SigmoidInverseAbsoluteActivation");
  (8, "SigmoidLeftShiftedActivation"); (9, "SigmoidLeftShiftedSteepenedActivation");
  (10, "SigmoidRightShiftedSteepenedActivation"); (11, "TanhActivation"); (12, "GaussianBipolarActivation");
  (13, "GaussianActivation"); (14, "LinearActivation"); (15, "LinearAbsActivation");
  (16, "LinearClippedActivation"); (17, "NullActivation"); (18, "SignActivation"); (19, "SineActivation");
  (20, "StepActivation"); (21, "MultiplyModuleActivation"); (22, "MaxModuleActivation");
  (23, "MinModuleActivation") ].

(* ------------------------------------------------------------------------------------------ *)
(* the factory: four Go maps filled by Register / RegisterModule                               *)
(* ------------------------------------------------------------------------------------------ *)

(* Go map assignment m[k] = v on an association list: overwrite in place, else append *)
Fixpoint map_set {K V} (eqb : K -> K -> bool) (m : list (K * V)) (k : K) (v : V) : list (K * V) :=
  match m with
  | [] => [(k, v)]
  | (k', v') :: m' => if eqb k k' then (k, v) :: m' else (k', v') :: map_set eqb m' k v
  end.
Fixpoint map_get {K V} (eqb : K -> K -> bool) (m : list (K * V)) (k : K) : option V :=
  match m with
  | [] => None
  | (k', v') :: m' => if eqb k k' then Some v' else map_get eqb m' k
  end.

Record factory := {
  fa_activators : list (Z * string);        (* type -> Go scalar function *)
  fa_module_activators : list (Z * string); (* type -> Go module function *)
  fa_forward : list (Z * string);           (* type -> name *)
  fa_inverse : list (string * Z)            (* name -> type *)
}.

Definition empty_factory : factory :=
  {| fa_activators := []; fa_module_activators := []; fa_forward := []; fa_inverse := [] |}.

Definition register (a : factory) (aType : Z) (aFunc fName : string) : factory :=
  {| fa_activators := map_set Z.eqb (fa_activators a) aType aFunc;
     fa_module_activators := fa_module_activators a;
     fa_forward := map_set Z.eqb (fa_forward a) aType fName;
     fa_inverse := map_set String.eqb (fa_inverse a) fName aType |}.

Definition register_module (a : factory) (aType : Z) (aFunc fName : string) : factory :=
  {| fa_activators := fa_activators a;
     fa_module_activators := map_set Z.eqb (fa_module_activators a) aType aFunc;
     fa_forward := map_set Z.eqb (fa_forward a) aType fName;
     fa_inverse := map_set String.eqb (fa_inverse a) fName aType |}.

Definition apply_call (a : factory) (c : bool * Z * string * string) : factory :=
  let '(is_module, aType, aFunc, fName) := c in
  if is_module then register_module a aType aFunc fName else register a aType aFunc fName.

(* NewNodeActivatorsFactory, from the registration calls found in the current source *)
Definition new_factory_from (calls : list (bool * Z * string * string)) : factory :=
  fold_left apply_call calls empty_factory.
Definition node_activators : factory := new_factory_from act_calls.

(* error codes of the lookups *)
Definition err_unknown_activation_type : Z := 1.
Definition err_unknown_module_type : Z := 2.
Definition err_unsupported_name : Z := 3.
Definition err_unsupported_type : Z := 4.

(* ActivateByType: the computation to run, or the Go error *)
Definition activate_by_type (a : factory) (input : float) (aType : Z) : res comp :=
  match map_get Z.eqb (fa_activators a) aType with
  | Some fname =>
    match scalar_by_name fname with
    | Some fn => Ok (fn input)
    | None => BadOracle   (* a Go function the model has no transliteration of *)
    end
  | None => GoErr err_unknown_activation_type
  end.

Definition activate_module_by_type (a : factory) (inputs : list float) (aType : Z) : res (list float) :=
  match map_get Z.eqb (fa_module_activators a) aType with
  | Some fname =>
    match module_by_name fname with
    | Some fn => Ok (fn inputs)
    | None => BadOracle
    end
  | None => GoErr err_unknown_module_type
  end.

Definition activation_type_from_name (a : factory) (name : string) : res Z :=
  match map_get String.eqb (fa_inverse a) name with
  | Some t => Ok t
  | None => GoErr err_unsupported_name
  end.

Definition activation_name_from_type (a : factory) (aType : Z) : res string :=
  match map_get Z.eqb (fa_forward a) aType with
  | Some n => Ok n
  | None => GoErr err_unsupported_type
  end.

(* all values of a Go byte *)
Definition all_bytes : list Z := map Z.of_nat (seq 0 256).

(* ------------------------------------------------------------------------------------------ *)
(* neat/network/common.go: node / neuron type names                                            *)
(* ------------------------------------------------------------------------------------------ *)
Definition node_type_name (t : Z) : string :=
  if Z.eqb t 0 then "NEURON" else if Z.eqb t 1 then "SENSOR" else "UNKNOWN NODE TYPE".

Definition neuron_type_name (t : Z) : string :=
  if Z.eqb t 0 then "HIDN" else if Z.eqb t 1 then "INPT" else if Z.eqb t 2 then "OUTP"
  else if Z.eqb t 3 then "BIAS" else "UNKNOWN NEURON TYPE".

Definition err_unknown_neuron_name : Z := 5.
Definition neuron_type_by_name (name : string) : res Z :=
  if String.eqb name "HIDN" then Ok 0
  else if String.eqb name "INPT" then Ok 1
  else if String.eqb name "OUTP" then Ok 2
  else if String.eqb name "BIAS" then Ok 3
  else GoErr err_unknown_neuron_name.
Close Scope string_scope.

(* ------------------------------------------------------------------------------------------ *)
(* the closed forms over R, as documented                                                      *)
(* ------------------------------------------------------------------------------------------ *)
Section RealFunctions.
Open Scope R_scope.

(* the decimal constants as written in the source (the documented closed forms) *)
Definition k_steep : R := 4.924273.
Definition k_shift : R := 2.4621365.

Definition sigmoid_R (k c x : R) : R := 1 / (1 + exp (- (k * x + c))).

Definition plainSigmoid_R (x : R) : R := 1 / (1 + exp (- x)).
Definition reducedSigmoid_R (x : R) : R := 1 / (1 + exp (- 0.5 * x)).
Definition steepenedSigmoid_R (x : R) : R := 1 / (1 + exp (- k_steep * x)).
Definition bipolarSigmoid_R (x : R) : R := 2 / (1 + exp (- k_steep * x)) - 1.
Definition approximationSigmoid_R (x : R) : R :=
  if Rlt_dec x (-4) then 0
  else if Rlt_dec x 0 then (x + 4) * (x + 4) * 0.03125
  else if Rlt_dec x 4 then 1 - (x - 4) * (x - 4) * 0.03125
  else 1.
Definition approximationSteepenedSigmoid_R (x : R) : R :=
  if Rlt_dec x (-1) then 0
  else if Rlt_dec x 0 then (x + 1) * (x + 1) * 0.5
  else if Rlt_dec x 1 then 1 - (x - 1) * (x - 1) * 0.5
  else 1.
Definition inverseAbsoluteSigmoid_R (x : R) : R := 0.5 + (x / (1 + Rabs x)) * 0.5.
Definition leftShiftedSigmoid_R (x : R) : R := 1 / (1 + exp (- x - k_shift)).
Definition leftShiftedSteepenedSigmoid_R (x : R) : R := 1 / (1 + exp (- (k_steep * x + k_shift))).
Definition rightShiftedSteepenedSigmoid_R (x : R) : R := 1 / (1 + exp (- (k_steep * x - k_shift))).
Definition hyperbolicTangent_R (x : R) : R := tanh (0.9 * x).
Definition bipolarGaussian_R (x : R) : R := 2 * exp (- ((x * 2.5) * (x * 2.5))) - 1.
Definition gaussian_R (x : R) : R := exp (- (x * x)).
Definition absoluteLinear_R (x : R) : R := Rabs x.
Definition clippedLinear_R (x : R) : R :=
  if Rlt_dec x (-1) then -1 else if Rlt_dec 1 x then 1 else x.
Definition linear_R (x : R) : R := x.
Definition nullFunctor_R (x : R) : R := 0.
Definition signFunction_R (x : R) : R :=
  if Req_EM_T x 0 then 0 else if Rlt_dec x 0 then -1 else 1.
Definition sineFunction_R (x : R) : R := sin (2 * x).
Definition stepFunction_R (x : R) : R := if Rlt_dec x 0 then 0 else 1.

Definition multiplyModule_R (l : list R) : R := fold_left Rmult l 1.

End RealFunctions.
