(* What Population.purgeZeroOffspringSpecies can see of a population (neat/genetics/population.go), as the
   translator `quotaprep` presents it to the translated code (gen/QuotaPrep.v): organisms and species are structs
   behind pointers (GoHeap), of which the function reads and writes the fields below only; Population.Organisms and
   Population.Species are slices of pointers.  Executable definitions only. *)
From Coq Require Import Floats.
From NeatModel Require Import Res GoSlice GoHeap.

(* Organism: Fitness, ExpectedOffspring *)
Record qorg := { qo_Fitness : float; qo_ExpectedOffspring : float }.
Definition qo_set_ExpectedOffspring (o : qorg) (e : float) : qorg :=
  {| qo_Fitness := qo_Fitness o; qo_ExpectedOffspring := e |}.

(* Species: Organisms (pointers to its members, in order), ExpectedOffspring *)
Record qspecies := { qs_Organisms : list Z; qs_ExpectedOffspring : Z }.
Definition qs_set_ExpectedOffspring (s : qspecies) (e : Z) : qspecies :=
  {| qs_Organisms := qs_Organisms s; qs_ExpectedOffspring := e |}.

Record qpop := {
  qp_organisms : gheap qorg;      (* the Organism structs *)
  qp_species : gheap qspecies;    (* the Species structs *)
  qp_Organisms : list Z;          (* Population.Organisms *)
  qp_Species : list Z }.          (* Population.Species *)

(* what Species.countOffspring reads (harness/c09_translate.go: the ExpectedOffspring of s.Organisms, in order) *)
Definition qs_member_expected (oh : gheap qorg) (s : qspecies) : res (list float) :=
  go_for (qs_Organisms s) (fun acc k => do o <- gh_get oh k; Ok (acc ++ [qo_ExpectedOffspring o])) [].
