(* Genome model (neat/genetics/genome.go, gene.go, mimo_gene.go, neat/trait.go, network/nnode.go).
   Pointers to nodes and traits inside genes and nodes are their ids (DESIGN.md 3.1). *)
From NeatModel Require Import Res F64 GoRand.

(* NodeNeuronType *)
Definition HIDDEN : Z := 0.
Definition INPUT : Z := 1.
Definition OUTPUT : Z := 2.
Definition BIAS : Z := 3.

Record trait := { t_id : Z; t_params : list float }.

Record node := { n_id : Z; n_type : Z; n_act : Z; n_trait : option Z }.

Record gene := { g_in : Z; g_out : Z; g_rec : bool; g_w : float; g_trait : option Z;
                 g_innov : Z; g_mut : float; g_en : bool }.

(* a MIMO control gene: control node + its incoming (source id, weight) and outgoing (target id, weight) links *)
Record mimo := { m_node : node; m_innov : Z; m_mut : float; m_en : bool;
                 m_ins : list (Z * float); m_outs : list (Z * float) }.

Record genome := { gid : Z; traits : list trait; nodes : list node; genes : list gene; modules : list mimo }.

Definition is_sensor (n : node) : bool := Z.eqb (n_type n) INPUT || Z.eqb (n_type n) BIAS.
Definition is_io (n : node) : bool := is_sensor n || Z.eqb (n_type n) OUTPUT.

Definition set_en (b : bool) (g : gene) : gene :=
  {| g_in := g_in g; g_out := g_out g; g_rec := g_rec g; g_w := g_w g; g_trait := g_trait g;
     g_innov := g_innov g; g_mut := g_mut g; g_en := b |}.
Definition set_w (w : float) (g : gene) : gene :=
  {| g_in := g_in g; g_out := g_out g; g_rec := g_rec g; g_w := w; g_trait := g_trait g;
     g_innov := g_innov g; g_mut := w; g_en := g_en g |}.
Definition set_gtrait (t : option Z) (g : gene) : gene :=
  {| g_in := g_in g; g_out := g_out g; g_rec := g_rec g; g_w := g_w g; g_trait := t;
     g_innov := g_innov g; g_mut := g_mut g; g_en := g_en g |}.
Definition set_ntrait (t : option Z) (n : node) : node :=
  {| n_id := n_id n; n_type := n_type n; n_act := n_act n; n_trait := t |}.

Definition with_genes (g : genome) (gs : list gene) : genome :=
  {| gid := gid g; traits := traits g; nodes := nodes g; genes := gs; modules := modules g |}.
Definition with_nodes (g : genome) (ns : list node) : genome :=
  {| gid := gid g; traits := traits g; nodes := ns; genes := genes g; modules := modules g |}.
Definition with_traits (g : genome) (ts : list trait) : genome :=
  {| gid := gid g; traits := ts; nodes := nodes g; genes := genes g; modules := modules g |}.
Definition with_id (g : genome) (i : Z) : genome :=
  {| gid := i; traits := traits g; nodes := nodes g; genes := genes g; modules := modules g |}.

(* Genome.NodeWithId (nodeByIdMap: last writer wins is irrelevant for unique ids; first match here) *)
Fixpoint node_with_id (id : Z) (ns : list node) : option node :=
  match ns with
  | [] => None
  | n :: ns' => if Z.eqb (n_id n) id then Some n else node_with_id id ns'
  end.
Definition have_node (g : genome) (id : Z) : bool :=
  match node_with_id id (nodes g) with Some _ => true | None => false end.

(* TraitWithId: id 0 never resolves *)
Fixpoint trait_with_id (id : Z) (ts : list trait) : option trait :=
  match ts with
  | [] => None
  | t :: ts' => if Z.eqb (t_id t) id then Some t else trait_with_id id ts'
  end.
Definition trait_ref (id : Z) (ts : list trait) : option Z :=
  if Z.eqb id 0 then None else
  match trait_with_id id ts with Some t => Some (t_id t) | None => None end.

(* Link.IsEqualGenetically *)
Definition same_link (a b : gene) : bool :=
  Z.eqb (g_in a) (g_in b) && Z.eqb (g_out a) (g_out b) && Bool.eqb (g_rec a) (g_rec b).

(* slice indexing with Go's panic *)
Fixpoint nth_res {A} (l : list A) (i : nat) : res A :=
  match l, i with
  | [], _ => GoPanic 2
  | x :: _, O => Ok x
  | _ :: l', S i' => nth_res l' i'
  end.
Definition idx {A} (l : list A) (i : Z) : res A :=
  if Z.ltb i 0 then GoPanic 2 else nth_res l (Z.to_nat i).

Fixpoint set_nth {A} (l : list A) (i : nat) (x : A) : list A :=
  match l, i with
  | [], _ => []
  | _ :: l', O => x :: l'
  | y :: l', S i' => y :: set_nth l' i' x
  end.

Definition zlen {A} (l : list A) : Z := Z.of_nat (length l).

(* getLastNodeId / getNextGeneInnovNum *)
Definition last_node_id (g : genome) : res Z :=
  match nodes g with
  | [] => GoErr 10
  | _ =>
    let id := n_id (last (nodes g) {| n_id := 0; n_type := 0; n_act := 0; n_trait := None |}) in
    Ok (fold_left (fun acc m => if Z.gtb (n_id (m_node m)) acc then n_id (m_node m) else acc) (modules g) id)
  end.

Definition dummy_gene : gene :=
  {| g_in := 0; g_out := 0; g_rec := false; g_w := 0; g_trait := None; g_innov := 0; g_mut := 0; g_en := true |}.

Definition next_gene_innov (g : genome) : res Z :=
  match genes g with
  | [] => GoErr 11
  | _ =>
    let inn := g_innov (last (genes g) dummy_gene) in
    let inn := match modules g with
               | [] => inn
               | ms => let c := m_innov (last ms {| m_node := {| n_id := 0; n_type := 0; n_act := 0; n_trait := None |};
                                                    m_innov := 0; m_mut := 0; m_en := true; m_ins := []; m_outs := [] |}) in
                       if Z.gtb c inn then c else inn
               end in
    Ok (inn + 1)
  end.

(* Genome.haveGene *)
Definition have_gene (g : genome) (x : gene) : bool :=
  match next_gene_innov g with
  | Ok inn => if Z.geb (g_innov x) inn then false else existsb (fun y => same_link y x) (genes g)
  | _ => (* getNextGeneInnovNum failed: inn = -1, so x.innov >= -1 holds for every number the code issues *)
    false
  end.

(* ---- innovation environment (Population as InnovationsObserver / NodeIdGenerator) ---- *)
Record innovation := { i_type : Z (* 1 new node, 2 new link *); i_in : Z; i_out : Z; i_num : Z; i_num2 : Z;
                       i_w : float; i_trait : Z; i_node : Z; i_old : Z; i_rec : bool }.

Record ienv := { innovs : list innovation; next_innov : Z; next_node : Z }.

(* state of the randomised operators *)
Record st := { s_tape : tape; s_env : ienv }.

Definition on_tape {A} (f : tape -> res (A * tape)) : @M st A :=
  fun s => match f (s_tape s) with
           | Ok (a, t') => Ok (a, {| s_tape := t'; s_env := s_env s |})
           | GoErr c => GoErr c | GoPanic c => GoPanic c
           | OutOfTape => OutOfTape | OutOfFuel => OutOfFuel | BadOracle => BadOracle
           end.

Definition r_float64 : @M st float := on_tape tape_float64.
Definition r_float32 : @M st float := on_tape tape_float32.
Definition r_intn (n : Z) : @M st Z := on_tape (tape_intn n).
Definition r_randsign : @M st float := on_tape tape_randsign.

(* atomic.AddInt64(&nextInnovNum, 1) returns the new value; same for node ids *)
Definition e_next_innov : @M st Z :=
  fun s => let e := s_env s in
           let v := next_innov e + 1 in
           Ok (v, {| s_tape := s_tape s; s_env := {| innovs := innovs e; next_innov := v; next_node := next_node e |} |}).
Definition e_next_node : @M st Z :=
  fun s => let e := s_env s in
           let v := next_node e + 1 in
           Ok (v, {| s_tape := s_tape s; s_env := {| innovs := innovs e; next_innov := next_innov e; next_node := v |} |}).
Definition e_store (i : innovation) : @M st unit :=
  fun s => let e := s_env s in
           Ok (tt, {| s_tape := s_tape s;
                      s_env := {| innovs := innovs e ++ [i]; next_innov := next_innov e; next_node := next_node e |} |}).
Definition e_innovs : @M st (list innovation) := fun s => Ok (innovs (s_env s), s).

(* ---- boolean equalities used by the correspondence (exact floats) ---- *)
Definition oz_eqb := option_eqb Z.eqb.
Definition trait_eqb (a b : trait) : bool := Z.eqb (t_id a) (t_id b) && list_eqb feqb_exact (t_params a) (t_params b).
Definition node_eqb (a b : node) : bool :=
  Z.eqb (n_id a) (n_id b) && Z.eqb (n_type a) (n_type b) && Z.eqb (n_act a) (n_act b) && oz_eqb (n_trait a) (n_trait b).
Definition gene_eqb (a b : gene) : bool :=
  Z.eqb (g_in a) (g_in b) && Z.eqb (g_out a) (g_out b) && Bool.eqb (g_rec a) (g_rec b) && feqb_exact (g_w a) (g_w b)
  && oz_eqb (g_trait a) (g_trait b) && Z.eqb (g_innov a) (g_innov b) && feqb_exact (g_mut a) (g_mut b)
  && Bool.eqb (g_en a) (g_en b).
Definition zf_eqb (a b : Z * float) : bool := Z.eqb (fst a) (fst b) && feqb_exact (snd a) (snd b).
Definition mimo_eqb (a b : mimo) : bool :=
  node_eqb (m_node a) (m_node b) && Z.eqb (m_innov a) (m_innov b) && feqb_exact (m_mut a) (m_mut b)
  && Bool.eqb (m_en a) (m_en b) && list_eqb zf_eqb (m_ins a) (m_ins b) && list_eqb zf_eqb (m_outs a) (m_outs b).
Definition genome_eqb (a b : genome) : bool :=
  Z.eqb (gid a) (gid b) && list_eqb trait_eqb (traits a) (traits b) && list_eqb node_eqb (nodes a) (nodes b)
  && list_eqb gene_eqb (genes a) (genes b) && list_eqb mimo_eqb (modules a) (modules b).
Definition innovation_eqb (a b : innovation) : bool :=
  Z.eqb (i_type a) (i_type b) && Z.eqb (i_in a) (i_in b) && Z.eqb (i_out a) (i_out b) && Z.eqb (i_num a) (i_num b)
  && Z.eqb (i_num2 a) (i_num2 b) && feqb_exact (i_w a) (i_w b) && Z.eqb (i_trait a) (i_trait b)
  && Z.eqb (i_node a) (i_node b) && Z.eqb (i_old a) (i_old b) && Bool.eqb (i_rec a) (i_rec b).
Definition ienv_eqb (a b : ienv) : bool :=
  list_eqb innovation_eqb (innovs a) (innovs b) && Z.eqb (next_innov a) (next_innov b) && Z.eqb (next_node a) (next_node b).
