(* Genome.duplicate (neat/genetics/genome.go:499-610) *)
From NeatModel Require Import Res F64 Genome.

(* TraitWithId(assocTrait.Id, traitsDup) applied to an optional reference *)
Definition remap_trait (t : option Z) (ts : list trait) : option Z :=
  match t with Some id => trait_ref id ts | None => None end.

Definition dup_node (ts : list trait) (n : node) : node :=
  {| n_id := n_id n; n_type := n_type n; n_act := n_act n; n_trait := remap_trait (n_trait n) ts |}.

(* error 30: incoming node not found; 31: outgoing node not found *)
Definition dup_gene (ts : list trait) (ns : list node) (g : gene) : res gene :=
  match node_with_id (g_in g) ns with
  | None => GoErr 30
  | Some _ =>
    match node_with_id (g_out g) ns with
    | None => GoErr 31
    | Some _ =>
      (* NewGeneCopy: weight, recurrent flag, innovation, mutation number and enabled flag of the source *)
      Ok {| g_in := g_in g; g_out := g_out g; g_rec := g_rec g; g_w := g_w g;
            g_trait := remap_trait (g_trait g) ts;
            g_innov := g_innov g; g_mut := g_mut g; g_en := g_en g |}
    end
  end.

Fixpoint map_res {A B} (f : A -> res B) (l : list A) : res (list B) :=
  match l with
  | [] => Ok []
  | x :: l' => do y <- f x; do ys <- map_res f l'; Ok (y :: ys)
  end.

(* error 32 / 33: control node input / output not found *)
Definition dup_module (ts : list trait) (ns : list node) (m : mimo) : res mimo :=
  if negb (forallb (fun l => have_node {| gid := 0; traits := []; nodes := ns; genes := []; modules := [] |} (fst l)) (m_ins m))
  then GoErr 32
  else if negb (forallb (fun l => have_node {| gid := 0; traits := []; nodes := ns; genes := []; modules := [] |} (fst l)) (m_outs m))
  then GoErr 33
  else Ok {| m_node := dup_node ts (m_node m); m_innov := m_innov m; m_mut := m_mut m; m_en := m_en m;
             m_ins := m_ins m; m_outs := m_outs m |}.

Definition duplicate (g : genome) (new_id : Z) : res genome :=
  let ts := traits g in   (* NewTraitCopy: same id, same parameters *)
  let ns := map (dup_node ts) (nodes g) in
  do gs <- map_res (dup_gene ts ns) (genes g);
  do ms <- map_res (dup_module ts ns) (modules g);
  Ok {| gid := new_id; traits := ts; nodes := ns; genes := gs; modules := ms |}.
