(* Model of Genome.Genesis (neat/genetics/genome.go l.399-496) and of the network value it builds
   (neat/network/network.go NewNetwork / NewModularNetwork, nnode.go NewNNodeCopy, link.go NewLink /
   NewLinkWithTrait).                                                                    (C11)

   Conventions (DESIGN.md 3.1).
   * Node pointers are node ids.  A link holds the ids of its two end nodes; the network's [inputs]
     and [Outputs] slices are lists of ids.  Genesis finds the network node of a gene endpoint through
     the pointer [gene.Link.InNode.PhenotypeAnalogue]; here it is "the first node of allList with that
     id", which is the same node whenever the genome's node ids are unique and the endpoint is one of
     the genome's own nodes (the well-formedness hypotheses of the theorems).
   * An endpoint of an enabled gene that is not a genome node has no network node: Go then
     dereferences a nil (or stale) PhenotypeAnalogue; the model returns [GoPanic PanicNilNode].  A
     module input/output that is not a genome node makes Go build a link with a nil end node, which
     every later graph query dereferences; the model is stricter and returns [GoPanic PanicNilModuleIO]
     at once.  Both are excluded by hypothesis in the theorems.
   * Per-node state other than the link lists (activation values, counters, Params copied from traits) is
     not part of the structure C11 talks about and is omitted; [Link.Params] likewise (DESIGN 3.6). *)
From NeatModel Require Import Res F64 Genome.

Record plink := { l_in : Z; l_out : Z; l_w : float; l_rec : bool; l_trait : option Z }.

Record pnode := { p_id : Z; p_type : Z; p_act : Z; p_trait : option Z;
                  p_incoming : list plink; p_outgoing : list plink }.

(* network.Network: inputs, Outputs, allNodes, controlNodes, allNodesMIMO *)
Record pnet := { net_id : Z; net_inputs : list Z; net_outputs : list Z;
                 net_all : list pnode; net_control : list pnode; net_all_mimo : list pnode }.

Definition ErrNoGenes : Z := 1.
Definition ErrNoOutputs : Z := 2.
Definition PanicNilNode : Z := 1.
Definition PanicNilModuleIO : Z := 3.

(* network.NewNNodeCopy(n, n.Trait): id, neuron type, activation type, trait; empty link lists *)
Definition new_pnode_copy (n : node) : pnode :=
  {| p_id := n_id n; p_type := n_type n; p_act := n_act n; p_trait := n_trait n;
     p_incoming := []; p_outgoing := [] |}.

(* for _, n := range g.Nodes { newNode = NewNNodeCopy(n); inList/outList by role; allList = append(allList, newNode) } *)
Fixpoint gen_nodes (ns : list node) (inL outL : list Z) (allL : list pnode) : list Z * list Z * list pnode :=
  match ns with
  | [] => (inL, outL, allL)
  | n :: ns' =>
    let newNode := new_pnode_copy n in
    let inL' := if Z.eqb (n_type n) INPUT || Z.eqb (n_type n) BIAS then inL ++ [n_id n] else inL in
    let outL' := if Z.eqb (n_type n) INPUT || Z.eqb (n_type n) BIAS then outL
                 else if Z.eqb (n_type n) OUTPUT then outL ++ [n_id n] else outL in
    gen_nodes ns' inL' outL' (allL ++ [newNode])
  end.

Definition add_incoming (l : plink) (n : pnode) : pnode :=
  {| p_id := p_id n; p_type := p_type n; p_act := p_act n; p_trait := p_trait n;
     p_incoming := p_incoming n ++ [l]; p_outgoing := p_outgoing n |}.
Definition add_outgoing (l : plink) (n : pnode) : pnode :=
  {| p_id := p_id n; p_type := p_type n; p_act := p_act n; p_trait := p_trait n;
     p_incoming := p_incoming n; p_outgoing := p_outgoing n ++ [l] |}.

(* update through the pointer: the (first) node with this id; None when there is none (nil pointer) *)
Fixpoint upd_node (id : Z) (f : pnode -> pnode) (l : list pnode) : option (list pnode) :=
  match l with
  | [] => None
  | n :: l' => if Z.eqb (p_id n) id then Some (f n :: l')
               else match upd_node id f l' with Some r => Some (n :: r) | None => None end
  end.

Definition has_pnode (id : Z) (l : list pnode) : bool := existsb (fun n => Z.eqb (p_id n) id) l.

(* for _, gn := range g.Genes { if gn.IsEnabled { newLink = NewLinkWithTrait(...);
     outNode.Incoming = append(outNode.Incoming, newLink); inNode.Outgoing = append(inNode.Outgoing, newLink) } } *)
Fixpoint gen_links (gs : list gene) (allL : list pnode) : res (list pnode) :=
  match gs with
  | [] => Ok allL
  | gn :: gs' =>
    if g_en gn then
      let newLink := {| l_in := g_in gn; l_out := g_out gn; l_w := g_w gn; l_rec := g_rec gn; l_trait := g_trait gn |} in
      match upd_node (g_out gn) (add_incoming newLink) allL with
      | None => GoPanic PanicNilNode
      | Some all1 =>
        match upd_node (g_in gn) (add_outgoing newLink) all1 with
        | None => GoPanic PanicNilNode
        | Some all2 => gen_links gs' all2
        end
      end
    else gen_links gs' allL
  end.

(* connect inputs: for _, l := range cg.ControlNode.Incoming { newLink = NewLink(l.ConnectionWeight, inNode, newCopyNode, false);
     newCopyNode.Incoming = append(newCopyNode.Incoming, newLink) } *)
Fixpoint ctl_connect_inputs (ins : list (Z * float)) (allL : list pnode) (cn : pnode) : res pnode :=
  match ins with
  | [] => Ok cn
  | (src, w) :: ins' =>
    if has_pnode src allL then
      ctl_connect_inputs ins' allL
        (add_incoming {| l_in := src; l_out := p_id cn; l_w := w; l_rec := false; l_trait := None |} cn)
    else GoPanic PanicNilModuleIO
  end.

(* connect outputs: newLink = NewLink(l.ConnectionWeight, newCopyNode, outNode, false); only outgoing from control node *)
Fixpoint ctl_connect_outputs (outs : list (Z * float)) (allL : list pnode) (cn : pnode) : res pnode :=
  match outs with
  | [] => Ok cn
  | (dst, w) :: outs' =>
    if has_pnode dst allL then
      ctl_connect_outputs outs' allL
        (add_outgoing {| l_in := p_id cn; l_out := dst; l_w := w; l_rec := false; l_trait := None |} cn)
    else GoPanic PanicNilModuleIO
  end.

(* for _, cg := range g.ControlGenes { if cg.IsEnabled { ...; cNodes = append(cNodes, newCopyNode) } } *)
Fixpoint gen_control (ms : list mimo) (allL : list pnode) (cNodes : list pnode) : res (list pnode) :=
  match ms with
  | [] => Ok cNodes
  | cg :: ms' =>
    if m_en cg then
      do c1 <- ctl_connect_inputs (m_ins cg) allL (new_pnode_copy (m_node cg));
      do c2 <- ctl_connect_outputs (m_outs cg) allL c1;
      gen_control ms' allL (cNodes ++ [c2])
    else gen_control ms' allL cNodes
  end.

(* network.NewNetwork / NewModularNetwork *)
Definition new_network (inL outL : list Z) (allL : list pnode) (netId : Z) : pnet :=
  {| net_id := netId; net_inputs := inL; net_outputs := outL; net_all := allL;
     net_control := []; net_all_mimo := allL |}.
Definition new_modular_network (inL outL : list Z) (allL control : list pnode) (netId : Z) : pnet :=
  let n := new_network inL outL allL netId in
  {| net_id := net_id n; net_inputs := net_inputs n; net_outputs := net_outputs n; net_all := net_all n;
     net_control := control; net_all_mimo := net_all_mimo n ++ control |}.

(* func (g *Genome) Genesis(netId int): the network, or an error *)
Definition genesis (g : genome) (netId : Z) : res pnet :=
  let '(inList, outList, allList) := gen_nodes (nodes g) [] [] [] in
  match genes g with
  | [] => GoErr ErrNoGenes
  | _ =>
    match outList with
    | [] => GoErr ErrNoOutputs
    | _ =>
      do allList' <- gen_links (genes g) allList;
      match modules g with
      | [] => Ok (new_network inList outList allList' netId)
      | _ =>
        do cNodes <- gen_control (modules g) allList' [];
        Ok (new_modular_network inList outList allList' cNodes netId)
      end
    end
  end.

(* ---------- the organism's phenotype cache (neat/genetics/organism.go) ---------- *)
(* Phenotype(): if o.orgPhenotype == nil { build it from the genotype }; return the cache *)
Definition org_phenotype (cache : option pnet) (g : genome) : res pnet :=
  match cache with
  | Some n => Ok n
  | None => genesis g (gid g)
  end.
(* UpdatePhenotype(): always rebuilds *)
Definition org_update_phenotype (g : genome) : res pnet := genesis g (gid g).

(* ---------- boolean equalities for the correspondence ---------- *)
Definition plink_eqb (a b : plink) : bool :=
  Z.eqb (l_in a) (l_in b) && Z.eqb (l_out a) (l_out b) && feqb_exact (l_w a) (l_w b)
  && Bool.eqb (l_rec a) (l_rec b) && oz_eqb (l_trait a) (l_trait b).
Definition pnode_eqb (a b : pnode) : bool :=
  Z.eqb (p_id a) (p_id b) && Z.eqb (p_type a) (p_type b) && Z.eqb (p_act a) (p_act b)
  && oz_eqb (p_trait a) (p_trait b)
  && list_eqb plink_eqb (p_incoming a) (p_incoming b) && list_eqb plink_eqb (p_outgoing a) (p_outgoing b).
Definition pnet_eqb (a b : pnet) : bool :=
  Z.eqb (net_id a) (net_id b) && list_eqb Z.eqb (net_inputs a) (net_inputs b)
  && list_eqb Z.eqb (net_outputs a) (net_outputs b) && list_eqb pnode_eqb (net_all a) (net_all b)
  && list_eqb pnode_eqb (net_control a) (net_control b) && list_eqb pnode_eqb (net_all_mimo a) (net_all_mimo b).
