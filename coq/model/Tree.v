(* Value trees for the encodings that go through third-party libraries (C15).

   YAML genome: neat/genetics/genome_writer.go (yamlGenomeWriter) builds a tree of maps, lists and
   scalars and hands it to yaml.v3; genome_reader.go (yamlGenomeReader) decodes into
   map[string]interface{} and consumes that tree with type assertions and spf13/cast conversions.
   The library is outside the model: it is the function [yaml_lib] on trees, the identity except for
   the one re-typing that matters: a float64 whose shortest 'g' lexeme is an integer lexeme ("3", "-0")
   comes back as an int.  Which floats those are is the parameter [il] ("integer lexeme of");
   [il_g] is the executable instance used by the correspondence.

   Gob experiment: experiment/experiment.go, trial.go, generation.go Encode/Decode write and read a flat
   sequence of typed values; the gob library is the identity on such sequences and refuses to decode a
   value into a variable of another kind. *)
From Coq Require Import String.
From NeatModel Require Import Res F64 Genome Plain.
Open Scope string_scope.
Open Scope list_scope.

Inductive tree :=
| VNil
| VInt (z : Z)
| VFloat (f : float)
| VBool (b : bool)
| VStr (s : string)
| VList (l : list tree)
| VMap (m : list (string * tree)).

Fixpoint lookup (k : string) (m : list (string * tree)) : tree :=
  match m with
  | [] => VNil                                         (* a missing key reads as nil *)
  | (k', v) :: m' => if String.eqb k' k then v else lookup k m'
  end.

(* ---------- the YAML library as a function on trees ---------- *)

Fixpoint yaml_lib (il : float -> option Z) (t : tree) : tree :=
  match t with
  | VFloat f => match il f with Some z => VInt z | None => VFloat f end
  | VList l => VList (map (yaml_lib il) l)
  | VMap m => VMap (map (fun kv => (fst kv, yaml_lib il (snd kv))) m)
  | _ => t
  end.

(* strconv 'g' with shortest precision prints an integral value below 10^6 without point or exponent *)
Definition il_g (f : float) : option Z :=
  if PrimFloat.ltb (PrimFloat.abs f) 0x1.e848p+19 then
    let z := f_trunc_Z f in
    if PrimFloat.eqb (f_of_Z z) f then Some z else None
  else None.

(* what a float looks like after the library *)
Definition lib_float (il : float -> option Z) (f : float) : float :=
  match il f with Some z => f_of_Z z | None => f end.

(* ---------- spf13/cast and type assertions ---------- *)

(* x.(int): panics unless the dynamic type is int *)
Definition as_int (t : tree) : res Z := match t with VInt z => Ok z | _ => GoPanic 3 end.
Definition as_str (t : tree) : res string := match t with VStr s => Ok s | _ => GoPanic 3 end.
Definition as_list (t : tree) : res (list tree) := match t with VList l => Ok l | _ => GoPanic 3 end.
Definition as_map (t : tree) : res (list (string * tree)) := match t with VMap m => Ok m | _ => GoPanic 3 end.

(* cast.ToIntE / ToInt64E: nil is 0, a float is converted with int(f) (spf13/cast v1.5.1 caste.go:
   "case float64: return int(s), nil": truncation toward zero; out of range - NaN, +-Inf, |f| >= 2^63 -
   math.MinInt64 on amd64, F64.f_trunc_Z), a bool is 0/1; a string would be parsed (not modelled: error) *)
Definition to_int (t : tree) : res Z :=
  match t with
  | VNil => Ok 0
  | VInt z => Ok z
  | VFloat f => Ok (f_trunc_Z f)
  | VBool b => Ok (if b then 1 else 0)
  | _ => GoErr 101
  end.

Definition to_float (t : tree) : res float :=
  match t with
  | VNil => Ok 0%float
  | VInt z => Ok (f_of_Z z)
  | VFloat f => Ok f
  | VBool b => Ok (if b then 1%float else 0%float)
  | _ => GoErr 102
  end.

Definition to_bool (t : tree) : res bool :=
  match t with
  | VNil => Ok false
  | VBool b => Ok b
  | VInt z => Ok (negb (Z.eqb z 0))
  | VFloat f => Ok (negb (PrimFloat.eqb f 0%float))
  | _ => GoErr 103
  end.

(* cast.ToSliceE *)
Definition to_slice (t : tree) : res (list tree) := match t with VList l => Ok l | _ => GoErr 104 end.

(* ---------- YAML writer: yamlGenomeWriter.WriteGenome ---------- *)

Definition neuron_type_name (ty : Z) : string :=
  if Z.eqb ty HIDDEN then "HIDN" else if Z.eqb ty INPUT then "INPT" else if Z.eqb ty OUTPUT then "OUTP"
  else if Z.eqb ty BIAS then "BIAS" else "UNKNOWN NEURON TYPE".

Definition neuron_type_by_name (s : string) : res Z :=
  if String.eqb s "HIDN" then Ok HIDDEN else if String.eqb s "INPT" then Ok INPUT
  else if String.eqb s "OUTP" then Ok OUTPUT else if String.eqb s "BIAS" then Ok BIAS else GoErr 110.

Definition y_trait (t : trait) : tree :=
  VMap [("id", VInt (t_id t)); ("params", VList (map VFloat (t_params t)))].

Definition y_node (reg : registry) (n : node) : res tree :=
  match reg_name reg (n_act n) with
  | Some a => Ok (VMap [("id", VInt (n_id n)); ("trait_id", VInt (oz_id (n_trait n)));
                        ("type", VStr (neuron_type_name (n_type n))); ("activation", VStr a)])
  | None => GoErr 20
  end.

Definition y_gene (x : gene) : tree :=
  VMap [("trait_id", VInt (oz_id (g_trait x))); ("src_id", VInt (g_in x)); ("tgt_id", VInt (g_out x));
        ("innov_num", VInt (g_innov x)); ("weight", VFloat (g_w x)); ("mut_num", VFloat (g_mut x));
        ("recurrent", VBool (g_rec x)); ("enabled", VBool (g_en x))].

(* encodeModuleLink(id, order): the link weight is not written *)
Fixpoint y_links (i : Z) (l : list (Z * float)) : list tree :=
  match l with
  | [] => []
  | (id, _) :: l' => VMap [("id", VInt id); ("order", VInt i)] :: y_links (i + 1) l'
  end.

(* encodeControlGene: the control node's neuron type is not written *)
Definition y_module (reg : registry) (m : mimo) : res tree :=
  match reg_name reg (n_act (m_node m)) with
  | Some a => Ok (VMap [("id", VInt (n_id (m_node m))); ("trait_id", VInt (oz_id (n_trait (m_node m))));
                        ("innov_num", VInt (m_innov m)); ("mut_num", VFloat (m_mut m)); ("enabled", VBool (m_en m));
                        ("activation", VStr a); ("inputs", VList (y_links 0 (m_ins m)));
                        ("outputs", VList (y_links 0 (m_outs m)))])
  | None => GoErr 20
  end.

Definition y_genome (reg : registry) (g : genome) : res tree :=
  do ns <- map_res (y_node reg) (nodes g);
  do ms <- map_res (y_module reg) (modules g);
  Ok (VMap [("genome",
             VMap ([("id", VInt (gid g)); ("traits", VList (map y_trait (traits g))); ("nodes", VList ns);
                    ("genes", VList (map y_gene (genes g)))]
                   ++ match modules g with [] => [] | _ => [("modules", VList ms)] end))]).

(* ---------- YAML reader: yamlGenomeReader.Read ---------- *)

Record ygenome := { y_core : rgenome; y_modules : list mimo }.

(* for i, p := range params { nt.Params[i], err = cast.ToFloat64E(p) }: nt.Params has 8 slots, zero initially *)
Fixpoint fill_params (slots : nat) (ps : list tree) : res (list float) :=
  match ps with
  | [] => Ok (repeat 0%float slots)
  | p :: ps' =>
    match slots with
    | O => GoPanic 2                                   (* index out of range [8] with length 8 *)
    | S k => do f <- to_float p; do fs <- fill_params k ps'; Ok (f :: fs)
    end
  end.

(* readTrait *)
Definition yr_trait (t : tree) : res trait :=
  do conf <- as_map t;
  do id <- as_int (lookup "id" conf);
  let ps := match lookup "params" conf with VList l => l | _ => [] end in   (* cast.ToSlice: empty on failure *)
  do fs <- fill_params NUM_TRAIT_PARAMS ps;
  Ok {| t_id := id; t_params := fs |}.

(* readNNode *)
Definition yr_node (reg : registry) (ts : list trait) (t : tree) : res node :=
  do conf <- as_map t;
  do id <- as_int (lookup "id" conf);
  do tid <- as_int (lookup "trait_id" conf);
  do tyname <- as_str (lookup "type" conf);
  do ty <- neuron_type_by_name tyname;
  do aname <- as_str (lookup "activation" conf);
  match reg_code reg aname with
  | Some a => Ok {| n_id := id; n_type := ty; n_act := a; n_trait := trait_ref tid ts |}
  | None => GoErr 45
  end.

(* readGene *)
Definition yr_gene (ts : list trait) (ns : list node) (t : tree) : res rgene :=
  do conf <- as_map t;
  do tid <- as_int (lookup "trait_id" conf);
  do i <- as_int (lookup "src_id" conf);
  do o <- as_int (lookup "tgt_id" conf);
  do innov <- to_int (lookup "innov_num" conf);
  do w <- to_float (lookup "weight" conf);
  do mut <- to_float (lookup "mut_num" conf);
  do rc <- to_bool (lookup "recurrent" conf);
  do en <- to_bool (lookup "enabled" conf);
  Ok {| rg_in := last_node_ref i ns; rg_out := last_node_ref o ns; rg_rec := rc; rg_w := w;
        rg_trait := trait_ref tid ts; rg_innov := innov; rg_mut := mut; rg_en := en |}.

(* genetics.NodeWithId (after the repair of D19 id 0 resolves like any other id; the name is kept) *)
Definition node_with_id_nz (id : Z) (ns : list node) : option node := node_with_id id ns.

(* the input / output link loops of readMIMOControlGene: every link gets weight 1.0 *)
Fixpoint yr_links (ns : list node) (l : list tree) : res (list (Z * float)) :=
  match l with
  | [] => Ok []
  | t :: l' =>
    do n <- as_map t;
    do id <- to_int (lookup "id" n);
    match node_with_id_nz id ns with
    | Some nd => do rest <- yr_links ns l'; Ok ((n_id nd, 1%float) :: rest)
    | None => GoErr 120
    end
  end.

(* readMIMOControlGene *)
Definition yr_module (reg : registry) (ts : list trait) (ns : list node) (t : tree) : res mimo :=
  do conf <- as_map t;
  do id <- as_int (lookup "id" conf);
  do aname <- as_str (lookup "activation" conf);
  match reg_code reg aname with
  | None => GoErr 45
  | Some a =>
    do tid <- as_int (lookup "trait_id" conf);
    do innov <- to_int (lookup "innov_num" conf);
    do mut <- to_float (lookup "mut_num" conf);
    do en <- to_bool (lookup "enabled" conf);
    do ins <- to_slice (lookup "inputs" conf);
    do ins' <- yr_links ns ins;
    do outs <- to_slice (lookup "outputs" conf);
    do outs' <- yr_links ns outs;
    Ok {| m_node := {| n_id := id; n_type := HIDDEN; n_act := a; n_trait := trait_ref tid ts |};
          m_innov := innov; m_mut := mut; m_en := en; m_ins := ins'; m_outs := outs' |}
  end.

Fixpoint yr_traits (acc : list trait) (l : list tree) : res (list trait) :=
  match l with
  | [] => Ok acc
  | t :: l' =>
    do tr <- yr_trait t;
    match trait_ref (t_id tr) acc with
    | Some _ => GoErr 34
    | None => yr_traits (acc ++ [tr]) l'
    end
  end.

Fixpoint yr_nodes (reg : registry) (ts : list trait) (acc : list node) (l : list tree) : res (list node) :=
  match l with
  | [] => Ok acc
  | t :: l' =>
    do n <- yr_node reg ts t;
    if have_id (n_id n) acc then GoErr 46 else yr_nodes reg ts (acc ++ [n]) l'
  end.

Fixpoint yr_genes (ts : list trait) (ns : list node) (l : list tree) : res (list rgene) :=
  match l with
  | [] => Ok []
  | t :: l' => do x <- yr_gene ts ns t; do xs <- yr_genes ts ns l'; Ok (x :: xs)
  end.

(* the control node id must not be a node id (other control genes are not consulted) *)
Fixpoint yr_modules (reg : registry) (ts : list trait) (ns : list node) (l : list tree) : res (list mimo) :=
  match l with
  | [] => Ok []
  | t :: l' =>
    do m <- yr_module reg ts ns t;
    if have_id (n_id (m_node m)) ns then GoErr 47
    else do ms <- yr_modules reg ts ns l'; Ok (m :: ms)
  end.

Definition y_read (reg : registry) (t : tree) : res ygenome :=
  do top <- match t with VMap m => Ok m | _ => GoErr 100 end;          (* dec.Decode(&m) into a map *)
  do gm <- match lookup "genome" top with VMap m => Ok m | _ => GoErr 130 end;
  do id <- to_int (lookup "id" gm);
  do tl <- as_list (lookup "traits" gm);
  do ts <- yr_traits [] tl;
  do nl <- as_list (lookup "nodes" gm);
  do ns <- yr_nodes reg ts [] nl;
  do gl <- as_list (lookup "genes" gm);
  do gs <- yr_genes ts ns gl;
  do ms <- match lookup "modules" gm with
           | VNil => Ok []
           | m => do ml <- as_list m; yr_modules reg ts ns ml
           end;
  Ok {| y_core := {| rg_id := id; rg_traits := ts; rg_nodes := ns; rg_genes := gs |}; y_modules := ms |}.

(* ---------- what the YAML format does to a genome ---------- *)

Definition pad_params (il : float -> option Z) (ps : list float) : list float :=
  map (lib_float il) ps ++ repeat 0%float (NUM_TRAIT_PARAMS - length ps).

Definition ynorm_trait (il : float -> option Z) (t : trait) : trait :=
  {| t_id := t_id t; t_params := pad_params il (t_params t) |}.

Definition ynorm_gene (il : float -> option Z) (ts : list trait) (ns : list node) (x : gene) : rgene :=
  {| rg_in := node_ref (g_in x) ns; rg_out := node_ref (g_out x) ns; rg_rec := g_rec x; rg_w := lib_float il (g_w x);
     rg_trait := trait_ref (oz_id (g_trait x)) ts; rg_innov := g_innov x; rg_mut := lib_float il (g_mut x); rg_en := g_en x |}.

Definition ynorm_module (il : float -> option Z) (ts : list trait) (m : mimo) : mimo :=
  {| m_node := {| n_id := n_id (m_node m); n_type := HIDDEN; n_act := n_act (m_node m);
                  n_trait := trait_ref (oz_id (n_trait (m_node m))) ts |};
     m_innov := m_innov m; m_mut := lib_float il (m_mut m); m_en := m_en m;
     m_ins := map (fun p => (fst p, 1%float)) (m_ins m); m_outs := map (fun p => (fst p, 1%float)) (m_outs m) |}.

(* fewer than eight trait parameters are padded with zeros; floats pass through the library; dangling or
   zero trait references and dangling gene endpoints become nil; module links lose their weights (1.0),
   control nodes their neuron type (hidden) *)
Definition ynorm_genome (il : float -> option Z) (g : genome) : ygenome :=
  {| y_core := {| rg_id := gid g; rg_traits := map (ynorm_trait il) (traits g);
                  rg_nodes := map (norm_node (traits g)) (nodes g);
                  rg_genes := map (ynorm_gene il (traits g) (nodes g)) (genes g) |};
     y_modules := map (ynorm_module il (traits g)) (modules g) |}.

(* ---------- gob: experiment / trial / generation ---------- *)

Inductive gval :=
| GInt (z : Z)                 (* int, int64, time.Duration *)
| GFloat (f : float)
| GBool (b : bool)
| GStr (s : string)
| GTime (t : Z)                (* time.Time through its GobEncode: an instant *)
| GFloats (l : list float)     (* experiment.Floats *)
| GBytes (ls : list line).     (* []byte holding a plain genome text: its token lines *)

Record champion := { c_fit : float; c_winner : bool; c_gen : Z; c_offspring : float; c_error : float; c_genome : genome }.
Record rchampion := { rc_fit : float; rc_winner : bool; rc_gen : Z; rc_offspring : float; rc_error : float; rc_genome : rgenome }.

Record generation (C : Type) := {
  gn_id : Z; gn_executed : Z; gn_solved : bool; gn_fitness : list float; gn_age : list float;
  gn_complexity : list float; gn_diversity : Z; gn_evals : Z; gn_nodes : Z; gn_genes : Z;
  gn_duration : Z; gn_trial : Z; gn_champion : C }.
Arguments gn_id {C}. Arguments gn_executed {C}. Arguments gn_solved {C}. Arguments gn_fitness {C}.
Arguments gn_age {C}. Arguments gn_complexity {C}. Arguments gn_diversity {C}. Arguments gn_evals {C}.
Arguments gn_nodes {C}. Arguments gn_genes {C}. Arguments gn_duration {C}. Arguments gn_trial {C}.
Arguments gn_champion {C}.

Record trial (C : Type) := { tr_id : Z; tr_gens : list (generation C) }.
Arguments tr_id {C}. Arguments tr_gens {C}.
Record experiment (C : Type) := { ex_id : Z; ex_name : string; ex_trials : list (trial C) }.
Arguments ex_id {C}. Arguments ex_name {C}. Arguments ex_trials {C}.

(* encodeOrganism (the genotype is present) *)
Definition enc_champion (reg : registry) (c : champion) : res (list gval) :=
  do ls <- write_genome reg (c_genome c);
  Ok [GFloat (c_fit c); GBool (c_winner c); GInt (c_gen c); GFloat (c_offspring c); GFloat (c_error c);
      GInt (gid (c_genome c)); GBytes ls].

(* Generation.Encode: twelve values, then the champion only when there is one *)
Definition enc_generation (reg : registry) (g : generation (option champion)) : res (list gval) :=
  do ch <- match gn_champion g with Some c => enc_champion reg c | None => Ok [] end;
  Ok ([GInt (gn_id g); GTime (gn_executed g); GBool (gn_solved g); GFloats (gn_fitness g); GFloats (gn_age g);
       GFloats (gn_complexity g); GInt (gn_diversity g); GInt (gn_evals g); GInt (gn_nodes g); GInt (gn_genes g);
       GInt (gn_duration g); GInt (gn_trial g)] ++ ch).

Definition enc_trial (reg : registry) (t : trial (option champion)) : res (list gval) :=
  do gs <- concat_res (map (enc_generation reg) (tr_gens t));
  Ok (GInt (tr_id t) :: GInt (zlen (tr_gens t)) :: gs).

Definition enc_experiment (reg : registry) (e : experiment (option champion)) : res (list gval) :=
  do ts <- concat_res (map (enc_trial reg) (ex_trials e));
  Ok (GInt (ex_id e) :: GStr (ex_name e) :: GInt (zlen (ex_trials e)) :: ts).

(* dec.Decode(&x): the next value, which must be of x's kind *)
Definition D (A : Type) := list gval -> res (A * list gval).

Definition d_int : D Z := fun s => match s with GInt z :: s' => Ok (z, s') | _ => GoErr 201 end.
Definition d_float : D float := fun s => match s with GFloat f :: s' => Ok (f, s') | _ => GoErr 202 end.
Definition d_bool : D bool := fun s => match s with GBool b :: s' => Ok (b, s') | _ => GoErr 203 end.
Definition d_str : D string := fun s => match s with GStr x :: s' => Ok (x, s') | _ => GoErr 204 end.
Definition d_time : D Z := fun s => match s with GTime t :: s' => Ok (t, s') | _ => GoErr 205 end.
Definition d_floats : D (list float) := fun s => match s with GFloats l :: s' => Ok (l, s') | _ => GoErr 206 end.
Definition d_bytes : D (list line) := fun s => match s with GBytes l :: s' => Ok (l, s') | _ => GoErr 207 end.

Definition dbind {A B} (d : D A) (k : A -> D B) : D B :=
  fun s => match d s with Ok (a, s') => k a s' | GoErr c => GoErr c | GoPanic c => GoPanic c
                        | OutOfTape => OutOfTape | OutOfFuel => OutOfFuel | BadOracle => BadOracle end.
Definition dret {A} (a : A) : D A := fun s => Ok (a, s).
Notation "'dd' x <- d ; k" := (dbind d (fun x => k)) (at level 200, x pattern, d at level 100, k at level 200, right associativity).

(* decodeOrganism *)
Definition dec_champion (reg : registry) : D rchampion :=
  dd fit <- d_float; dd win <- d_bool; dd gen <- d_int; dd off <- d_float; dd err <- d_float;
  dd id <- d_int; dd data <- d_bytes;
  fun s => match read_genome_id reg data id with
           | Ok g => Ok ({| rc_fit := fit; rc_winner := win; rc_gen := gen; rc_offspring := off; rc_error := err; rc_genome := g |}, s)
           | GoErr c => GoErr c | GoPanic c => GoPanic c
           | OutOfTape => OutOfTape | OutOfFuel => OutOfFuel | BadOracle => BadOracle
           end.

(* Generation.Decode: twelve values, then ALWAYS a champion.  The field order of Decode differs from the
   struct but matches Encode. *)
Definition dec_generation (reg : registry) : D (generation rchampion) :=
  dd id <- d_int; dd ex <- d_time; dd so <- d_bool; dd fi <- d_floats; dd ag <- d_floats; dd co <- d_floats;
  dd di <- d_int; dd ev <- d_int; dd no <- d_int; dd ge <- d_int; dd du <- d_int; dd tr <- d_int;
  dd ch <- dec_champion reg;
  dret {| gn_id := id; gn_executed := ex; gn_solved := so; gn_fitness := fi; gn_age := ag; gn_complexity := co;
          gn_diversity := di; gn_evals := ev; gn_nodes := no; gn_genes := ge; gn_duration := du; gn_trial := tr;
          gn_champion := ch |}.

Fixpoint dec_n {A} (d : D A) (n : nat) : D (list A) :=
  match n with
  | O => dret []
  | S k => dd a <- d; dd l <- dec_n d k; dret (a :: l)
  end.

(* make([]T, n) panics for a negative n *)
Definition dec_count {A} (d : D A) (n : Z) : D (list A) :=
  if Z.ltb n 0 then (fun _ => GoPanic 4) else dec_n d (Z.to_nat n).

Definition dec_trial (reg : registry) : D (trial rchampion) :=
  dd id <- d_int; dd n <- d_int; dd gs <- dec_count (dec_generation reg) n;
  dret {| tr_id := id; tr_gens := gs |}.

Definition dec_experiment (reg : registry) : D (experiment rchampion) :=
  dd id <- d_int; dd name <- d_str; dd n <- d_int; dd ts <- dec_count (dec_trial reg) n;
  dret {| ex_id := id; ex_name := name; ex_trials := ts |}.

(* ---------- boolean equalities for the correspondence ---------- *)

Definition ygenome_eqb (a b : ygenome) : bool :=
  rgenome_eqb (y_core a) (y_core b) && list_eqb mimo_eqb (y_modules a) (y_modules b).

(* maps are unordered: same number of bindings, and every binding of [a] is found in [b] *)
Fixpoint tree_eqb (a b : tree) : bool :=
  match a, b with
  | VNil, VNil => true
  | VInt x, VInt y => Z.eqb x y
  | VFloat x, VFloat y => feqb_exact x y
  | VBool x, VBool y => Bool.eqb x y
  | VStr x, VStr y => String.eqb x y
  | VList la, VList lb =>
    (fix go (la lb : list tree) : bool :=
       match la, lb with
       | [], [] => true
       | x :: la', y :: lb' => tree_eqb x y && go la' lb'
       | _, _ => false
       end) la lb
  | VMap ma, VMap mb =>
    Nat.eqb (length ma) (length mb) &&
    (fix go (ma : list (string * tree)) : bool :=
       match ma with
       | [] => true
       | (k, v) :: ma' => tree_eqb v (lookup k mb) && go ma'
       end) ma
  | _, _ => false
  end.

Definition rchampion_eqb (a b : rchampion) : bool :=
  feqb_exact (rc_fit a) (rc_fit b) && Bool.eqb (rc_winner a) (rc_winner b) && Z.eqb (rc_gen a) (rc_gen b)
  && feqb_exact (rc_offspring a) (rc_offspring b) && feqb_exact (rc_error a) (rc_error b)
  && rgenome_eqb (rc_genome a) (rc_genome b).

Definition generation_eqb (a b : generation rchampion) : bool :=
  Z.eqb (gn_id a) (gn_id b) && Z.eqb (gn_executed a) (gn_executed b) && Bool.eqb (gn_solved a) (gn_solved b)
  && list_eqb feqb_exact (gn_fitness a) (gn_fitness b) && list_eqb feqb_exact (gn_age a) (gn_age b)
  && list_eqb feqb_exact (gn_complexity a) (gn_complexity b) && Z.eqb (gn_diversity a) (gn_diversity b)
  && Z.eqb (gn_evals a) (gn_evals b) && Z.eqb (gn_nodes a) (gn_nodes b) && Z.eqb (gn_genes a) (gn_genes b)
  && Z.eqb (gn_duration a) (gn_duration b) && Z.eqb (gn_trial a) (gn_trial b)
  && rchampion_eqb (gn_champion a) (gn_champion b).

Definition trial_eqb (a b : trial rchampion) : bool :=
  Z.eqb (tr_id a) (tr_id b) && list_eqb generation_eqb (tr_gens a) (tr_gens b).

Definition experiment_eqb (a b : experiment rchampion) : bool :=
  Z.eqb (ex_id a) (ex_id b) && String.eqb (ex_name a) (ex_name b) && list_eqb trial_eqb (ex_trials a) (ex_trials b).
