(* Model of the fast-solver model file: neat/network/fast_network_model_io.go                      (C15)
     WriteModel = newFastModularNetworkSolverData + json.Encoder.Encode
     ReadFMNSModel = json.Decoder.Decode + NewFastModularNetworkSolver (fast_network.go) + Id / Name.

   * [fsolver] is the Go object FastModularNetworkSolver as far as it is described statically: Id, Name, the
     four stored counts (sensorNeuronCount is always biasNeuronCount + inputNeuronCount: the constructor is the
     only place that sets the unexported fields), activationFunctions, biasList, connections (all four fields of
     FastNetworkLink, Signal included although no solver step reads it) and modules.  Counts and indices are
     Go ints, here Z: a model file may hold negative ones.  The arrays the constructor derives from these
     (adjacency lists / matrix, signal arrays) are functions of them (Fast.v: radj, adj_w, fast_init).
   * [doc] is the JSON document as a typed value: exactly the fields of fastModularNetworkSolverData with their
     JSON types.  Activation types are NAMES there (NodeActivator.MarshalText / UnmarshalText through
     NodeActivators.ActivationNameFromType / ActivationTypeFromName: the parameters [name_of] / [type_of]);
     an element of "connections" may be null; "modules" may be absent (omitempty).  null and [] are not
     distinguished for the three arrays; numbers are carried as values (their text form is encoding/json's
     business: trusted, and checked bit for bit by the harness).
   * [finite]: json refuses NaN and the infinities (UnsupportedValueError).
   * Every error and panic of the two functions is explicit:
       write: unregistered activation type (MarshalText error), non-finite float; in the order Encode meets them;
       read:  unknown activation name (UnmarshalText error => Decode error); then the constructor's panics:
              make([]float64, total) with total < 0, neuronSignals[i] = 1 for i < bias with bias > total,
              a null connection, a connection index outside [0, total).
     Counts that are merely inconsistent with each other or with the array lengths (len(acts) <> total,
     bias + in + out > total, ...) are NOT refused by the real reader, so they are not refused here: the solver is
     returned as described, and [solver_fits] (below) says when it is one Fast.v speaks about. *)
From Coq Require Import String.
From NeatModel Require Import Res Net Fast.
Open Scope Z_scope.

Definition ErrFmnsActType : Z := 301.   (* write: json.MarshalerError <- "unsupported activation type" *)
Definition ErrFmnsFloat : Z := 302.     (* write: json.UnsupportedValueError (NaN, +Inf, -Inf) *)
Definition ErrFmnsActName : Z := 303.   (* read: "unsupported activation function name" out of Decode *)
Definition PanicMakeslice : Z := 2.     (* makeslice: len out of range *)
Definition PanicNil : Z := 3.           (* nil pointer dereference *)

Section FmnsModel.
Variable F : Type.
Variable finite : F -> bool.
Variable name_of : Z -> res string.     (* NodeActivators.ActivationNameFromType *)
Variable type_of : string -> res Z.     (* NodeActivators.ActivationTypeFromName *)

(* FastNetworkLink: SourceIndex, TargetIndex, Weight, Signal *)
Record slink := mkSlink { sl_src : Z; sl_tgt : Z; sl_w : F; sl_sig : F }.
(* FastControlNode: ActivationType, InputIndexes, OutputIndexes *)
Record smodule := mkSmodule { sm_act : Z; sm_ins : list Z; sm_outs : list Z }.

Record fsolver := mkFsolver {
  s_id : Z; s_name : string;
  s_bias : Z; s_in : Z; s_out : Z; s_total : Z;
  s_acts : list Z; s_biases : list F; s_conns : list slink; s_modules : list smodule }.

(* fastControlNodeData *)
Record dmodule := mkDmodule { dm_act : string; dm_ins : list Z; dm_outs : list Z }.

(* fastModularNetworkSolverData, in field order *)
Record doc := mkDoc {
  d_id : Z;                          (* "id" *)
  d_name : string;                   (* "name" *)
  d_in : Z;                          (* "input_neuron_count" *)
  d_sensor : Z;                      (* "sensor_neuron_count" *)
  d_out : Z;                         (* "output_neuron_count" *)
  d_bias : Z;                        (* "bias_neuron_count" *)
  d_total : Z;                       (* "total_neuron_count" *)
  d_acts : list string;              (* "activation_functions" *)
  d_biases : list F;                 (* "bias_list" *)
  d_conns : list (option slink);     (* "connections": objects source_index, target_index, weight, signal; or null *)
  d_modules : option (list dmodule)  (* "modules,omitempty" *)
}.

(* a lookup that fails is reported under the codec's own error code; the model artefacts pass through *)
Definition as_err {A} (code : Z) (r : res A) : res A :=
  match r with GoErr _ => GoErr code | _ => r end.

(* ---------- WriteModel ---------- *)

(* MarshalText of every element, in order; the first error ends Encode *)
Fixpoint names_of (l : list Z) : res (list string) :=
  match l with
  | [] => Ok []
  | c :: rest =>
    do n <- as_err ErrFmnsActType (name_of c);
    do ns <- names_of rest;
    Ok (n :: ns)
  end.

Definition floats_ok (l : list F) : res unit :=
  if forallb finite l then Ok tt else GoErr ErrFmnsFloat.

(* the loop `for _, v := range n.modules { data.Modules = append(...) }` followed by their encoding *)
Fixpoint write_modules (l : list smodule) : res (list dmodule) :=
  match l with
  | [] => Ok []
  | m :: rest =>
    do n <- as_err ErrFmnsActType (name_of (sm_act m));
    do ms <- write_modules rest;
    Ok (mkDmodule n (sm_ins m) (sm_outs m) :: ms)
  end.

Definition link_floats (c : slink) : list F := [sl_w c; sl_sig c].

Definition fmns_write (s : fsolver) : res doc :=
  do acts <- names_of (s_acts s);                              (* activation_functions *)
  do _ <- floats_ok (s_biases s);                              (* bias_list *)
  do _ <- floats_ok (flat_map link_floats (s_conns s));        (* connections: weight, signal *)
  do mods <- write_modules (s_modules s);                      (* modules *)
  Ok (mkDoc (s_id s) (s_name s) (s_in s) (s_bias s + s_in s) (s_out s) (s_bias s) (s_total s)
            acts (s_biases s) (map Some (s_conns s))
            (match mods with [] => None | _ => Some mods end)).

(* ---------- ReadFMNSModel ---------- *)

(* UnmarshalText of every element *)
Fixpoint types_of (l : list string) : res (list Z) :=
  match l with
  | [] => Ok []
  | n :: rest =>
    do c <- as_err ErrFmnsActName (type_of n);
    do cs <- types_of rest;
    Ok (c :: cs)
  end.

Fixpoint read_modules (l : list dmodule) : res (list smodule) :=
  match l with
  | [] => Ok []
  | m :: rest =>
    do c <- as_err ErrFmnsActName (type_of (dm_act m));
    do ms <- read_modules rest;
    Ok (mkSmodule c (dm_ins m) (dm_outs m) :: ms)
  end.

(* the constructor's loop over the connections: connections[i].SourceIndex (nil pointer), then
   reverseAdjacentList[crt] (searched for crs: parallel connections share one entry), adjacentList[crs],
   adjacentMatrix[crs][crt] (index out of range whichever of the two indices is outside) *)
Definition idx_ok (t i : Z) : bool := (0 <=? i) && (i <? t).

Fixpoint conns_of (t : Z) (l : list (option slink)) : res (list slink) :=
  match l with
  | [] => Ok []
  | None :: _ => GoPanic PanicNil
  | Some c :: rest =>
    if idx_ok t (sl_src c) && idx_ok t (sl_tgt c)
    then do cs <- conns_of t rest; Ok (c :: cs)
    else GoPanic PanicIndex
  end.

(* NewFastModularNetworkSolver: what it refuses by panicking, and the object it returns otherwise *)
Definition new_solver (b i o t : Z) (acts : list Z) (conns : list (option slink)) (biases : list F)
           (mods : list smodule) : res fsolver :=
  if t <? 0 then GoPanic PanicMakeslice                          (* make([]float64, totalNeuronCount) *)
  else if t <? b then GoPanic PanicIndex                         (* fmm.neuronSignals[i] = 1.0, i < biasNeuronCount *)
  else
    do cs <- conns_of t conns;
    Ok (mkFsolver 0 EmptyString b i o t acts biases cs mods).

Definition with_id_name (s : fsolver) (id : Z) (name : string) : fsolver :=
  mkFsolver id name (s_bias s) (s_in s) (s_out s) (s_total s) (s_acts s) (s_biases s) (s_conns s) (s_modules s).

Definition fmns_read (d : doc) : res fsolver :=
  do acts <- types_of (d_acts d);                                              (* Decode *)
  do mods <- read_modules (match d_modules d with Some l => l | None => [] end);
  do s <- new_solver (d_bias d) (d_in d) (d_out d) (d_total d) acts (d_conns d) (d_biases d) mods;
  Ok (with_id_name s (d_id d) (d_name d)).

(* ---------- the solver of Fast.v inside the Go object, and back ---------- *)

(* the static description the solver steps of Fast.v read *)
Definition fnet_of (s : fsolver) : fnet F :=
  mkFnet (Z.to_nat (s_bias s)) (Z.to_nat (s_in s)) (Z.to_nat (s_out s)) (Z.to_nat (s_total s))
         (s_acts s)
         (map (fun c => mkFlink (Z.to_nat (sl_src c)) (Z.to_nat (sl_tgt c)) (sl_w c)) (s_conns s))
         (s_biases s).

(* Network.FastNetworkSolver: `conn := FastNetworkLink{SourceIndex, TargetIndex, Weight}` leaves Signal zero;
   solver.Id = n.Id; solver.Name = n.Name; no control nodes (Fast.v does not model them) *)
Definition solver_of (id : Z) (name : string) (zero : F) (fn : fnet F) : fsolver :=
  mkFsolver id name (Z.of_nat (f_bias fn)) (Z.of_nat (f_in fn)) (Z.of_nat (f_out fn)) (Z.of_nat (f_total fn))
            (f_acts fn) (f_biases fn)
            (map (fun c => mkSlink (Z.of_nat (fl_src c)) (Z.of_nat (fl_tgt c)) (fl_w c) zero) (f_conns fn))
            [].

(* what the constructor accepts (it returns instead of panicking) *)
Definition solver_built (s : fsolver) : bool :=
  (0 <=? s_total s) && (s_bias s <=? s_total s)
  && forallb (fun c => idx_ok (s_total s) (sl_src c) && idx_ok (s_total s) (sl_tgt c)) (s_conns s).

(* ... and when the object is one of the solvers Fast.v describes (its [new_fast] check): no modules, non-negative
   counts that fit, one activation type and one bias per neuron *)
Definition solver_fits (s : fsolver) : bool :=
  solver_built s
  && (0 <=? s_bias s) && (0 <=? s_in s) && (0 <=? s_out s)
  && (s_bias s + s_in s + s_out s <=? s_total s)
  && (Z.of_nat (length (s_acts s)) =? s_total s) && (Z.of_nat (length (s_biases s)) =? s_total s)
  && match s_modules s with [] => true | _ => false end.

End FmnsModel.

Arguments mkSlink {F}. Arguments sl_src {F}. Arguments sl_tgt {F}. Arguments sl_w {F}. Arguments sl_sig {F}.
Arguments mkFsolver {F}. Arguments s_id {F}. Arguments s_name {F}. Arguments s_bias {F}. Arguments s_in {F}.
Arguments s_out {F}. Arguments s_total {F}. Arguments s_acts {F}. Arguments s_biases {F}. Arguments s_conns {F}.
Arguments s_modules {F}.
Arguments mkDoc {F}. Arguments d_id {F}. Arguments d_name {F}. Arguments d_in {F}. Arguments d_sensor {F}.
Arguments d_out {F}. Arguments d_bias {F}. Arguments d_total {F}. Arguments d_acts {F}. Arguments d_biases {F}.
Arguments d_conns {F}. Arguments d_modules {F}.
Arguments floats_ok {F}.
Arguments link_floats {F}.
Arguments fmns_write {F}.
Arguments conns_of {F}.
Arguments new_solver {F}.
Arguments with_id_name {F}.
Arguments fmns_read {F}.
Arguments fnet_of {F}.
Arguments solver_of {F}.
Arguments solver_built {F}.
Arguments solver_fits {F}.
