(* Plain-text codec of genomes, organisms and populations at TOKEN level (C15).

   Anchors: neat/genetics/genome_writer.go (plainGenomeWriter), genome_reader.go (plainGenomeReader,
   readPlainTrait, readPlainNetworkNode, readPlainConnectionGene), genome.go (ReadGenome / Genome.Write),
   organism.go (MarshalBinary / UnmarshalBinary), population_io.go (ReadPopulation, Population.Write).

   A text is a list of lines, a line is the list of its space-separated fields ([strings.Split line " "],
   empty fields kept).  A field is a typed token: the lexeme of an integer, of a float, of a boolean, or
   any other word.  Number formatting and parsing (fmt %d %g %t, strconv) are NOT modelled: the token
   carries the value, so printing is the identity on values and parsing is a projection.  What is
   modelled is the structure: which fields are written, in which order, on which line, and how the
   readers reassemble them, including every error return.

   Pointers are ids (DESIGN 3.1).  The plain reader can produce a gene whose endpoint pointer is nil
   (an id that names no node is NOT an error there), so the reader's result type [rgenome] has
   optional endpoints; [resolve] is the partial map back to [genome]. *)
From Coq Require Import String.
From NeatModel Require Import Res F64 Genome.
Open Scope string_scope.
Open Scope list_scope.

Inductive token :=
| TInt (z : Z)          (* canonical decimal integer lexeme *)
| TFloat (f : float)    (* any other lexeme strconv.ParseFloat accepts *)
| TBool (b : bool)      (* "true" / "false" *)
| TWord (s : string).   (* anything else, the empty field included *)

Definition line := list token.

(* the activation registry: (code, name) pairs (math.NodeActivators forward map) *)
Definition registry := list (Z * string).

Fixpoint reg_name (reg : registry) (code : Z) : option string :=
  match reg with
  | [] => None
  | (c, s) :: reg' => if Z.eqb c code then Some s else reg_name reg' code
  end.

Fixpoint reg_code (reg : registry) (name : string) : option Z :=
  match reg with
  | [] => None
  | (c, s) :: reg' => if String.eqb s name then Some c else reg_code reg' name
  end.

(* ------------------------------------------------------------------ *)
(* writer: plainGenomeWriter.WriteGenome                               *)

Definition oz_id (o : option Z) : Z := match o with Some t => t | None => 0 end.

(* writeTrait: "%d " then the parameters separated by single spaces; with no parameter the line
   ends in the space after the id, i.e. in one empty field *)
Definition trait_line (t : trait) : line :=
  TWord "trait" :: TInt (t_id t) ::
  match t_params t with [] => [TWord ""] | ps => map TFloat ps end.

(* NNode.NodeType(): SensorNode = 1 for input/bias neurons, NeuronNode = 0 otherwise *)
Definition node_kind (n : node) : Z := if is_sensor n then 1 else 0.

(* writeNetworkNode: "%d %d %d %d %s"; fails when the activation type has no registered name *)
Definition node_line (reg : registry) (n : node) : res line :=
  match reg_name reg (n_act n) with
  | Some s => Ok [TWord "node"; TInt (n_id n); TInt (oz_id (n_trait n)); TInt (node_kind n); TInt (n_type n); TWord s]
  | None => GoErr 20
  end.

(* writeConnectionGene: "%d %d %d %g %t %d %g %t" *)
Definition gene_line (x : gene) : line :=
  [TWord "gene"; TInt (oz_id (g_trait x)); TInt (g_in x); TInt (g_out x); TFloat (g_w x); TBool (g_rec x);
   TInt (g_innov x); TFloat (g_mut x); TBool (g_en x)].

Fixpoint map_res {A B} (f : A -> res B) (l : list A) : res (list B) :=
  match l with
  | [] => Ok []
  | a :: l' => do b <- f a; do bs <- map_res f l'; Ok (b :: bs)
  end.

Definition start_line (id : Z) : line := [TWord "genomestart"; TInt id].
Definition end_line (id : Z) : line := [TWord "genomeend"; TInt id].

(* control genes (modules) are not written at all by the plain writer *)
Definition write_genome (reg : registry) (g : genome) : res (list line) :=
  do nls <- map_res (node_line reg) (nodes g);
  Ok (start_line (gid g) :: map trait_line (traits g) ++ nls ++ map gene_line (genes g) ++ [end_line (gid g)]).

(* ------------------------------------------------------------------ *)
(* reader: plainGenomeReader.Read                                      *)

Record rgene := { rg_in : option Z; rg_out : option Z; rg_rec : bool; rg_w : float; rg_trait : option Z;
                  rg_innov : Z; rg_mut : float; rg_en : bool }.

Record rgenome := { rg_id : Z; rg_traits : list trait; rg_nodes : list node; rg_genes : list rgene }.

Definition tok_int (t : token) : option Z := match t with TInt z => Some z | _ => None end.
(* %g accepts an integer lexeme as well *)
Definition tok_float (t : token) : option float :=
  match t with TFloat f => Some f | TInt z => Some (f_of_Z z) | _ => None end.
Definition tok_bool (t : token) : option bool := match t with TBool b => Some b | _ => None end.

(* for i := 0; i < n; i++ { Fscanf(r, "%g ", &nt.Params[i]) } : n floats, anything after them is not looked at *)
Fixpoint take_floats (n : nat) (l : line) : res (list float) :=
  match n with
  | O => Ok []
  | S n' =>
    match l with
    | [] => GoErr 32
    | t :: l' =>
      match tok_float t with
      | Some f => do fs <- take_floats n' l'; Ok (f :: fs)
      | None => GoErr 33
      end
    end
  end.

Definition NUM_TRAIT_PARAMS : nat := 8.

(* readPlainTrait *)
Definition read_trait (rest : line) : res trait :=
  match rest with
  | [] => GoErr 31
  | t0 :: ps =>
    match tok_int t0 with
    | None => GoErr 31
    | Some id => do fs <- take_floats NUM_TRAIT_PARAMS ps; Ok {| t_id := id; t_params := fs |}
    end
  end.

Definition fits_bits (bits : Z) (z : Z) : bool := Z.leb (- 2 ^ (bits - 1)) z && Z.ltb z (2 ^ (bits - 1)).

(* strconv.ParseInt(s, 10, bits) on a field *)
Definition parse_int_bits (bits : Z) (t : token) : option Z :=
  match tok_int t with
  | Some z => if fits_bits bits z then Some z else None
  | None => None
  end.

(* network.NodeNeuronType(neuronType): conversion of an int64 to a byte-sized type *)
Definition byte_of (z : Z) : Z := Z.modulo z 256.

Definition SIGMOID_STEEPENED : Z := 4.   (* default of network.NewNetworkNode *)

(* readPlainNetworkNode: fields id, trait id, (node kind: ignored), neuron type, [activation name];
   the activation is only looked at when there are exactly five fields *)
Definition read_node (reg : registry) (ts : list trait) (parts : line) : res node :=
  match parts with
  | p0 :: p1 :: _ :: p3 :: more =>
    match parse_int_bits 32 p0 with
    | None => GoErr 42
    | Some id =>
      match parse_int_bits 32 p1 with
      | None => GoErr 43
      | Some tid =>
        match parse_int_bits 8 p3 with
        | None => GoErr 44
        | Some ty =>
          match more with
          | [TWord s] =>
            match reg_code reg s with
            | Some a => Ok {| n_id := id; n_type := byte_of ty; n_act := a; n_trait := trait_ref tid ts |}
            | None => GoErr 45
            end
          | [_] => GoErr 45     (* the lexeme of a number or boolean is not a registered name *)
          | _ => Ok {| n_id := id; n_type := byte_of ty; n_act := SIGMOID_STEEPENED; n_trait := trait_ref tid ts |}
          end
        end
      end
    end
  | _ => GoErr 41
  end.

(* for _, np := range nodes { if np.Id == id { found = np } }  -- no break: the last match wins *)
Definition last_node_ref (id : Z) (ns : list node) : option Z :=
  fold_left (fun acc n => if Z.eqb (n_id n) id then Some (n_id n) else acc) ns None.

(* readPlainConnectionGene: "%d %d %d %g %t %d %g %t " ; unknown node ids give nil endpoints, not an error *)
Definition read_gene (ts : list trait) (ns : list node) (rest : line) : res rgene :=
  match rest with
  | t1 :: t2 :: t3 :: t4 :: t5 :: t6 :: t7 :: t8 :: _ =>
    match tok_int t1, tok_int t2, tok_int t3, tok_float t4, tok_bool t5, tok_int t6, tok_float t7, tok_bool t8 with
    | Some tid, Some i, Some o, Some w, Some rc, Some innov, Some mut, Some en =>
      Ok {| rg_in := last_node_ref i ns; rg_out := last_node_ref o ns; rg_rec := rc; rg_w := w;
            rg_trait := trait_ref tid ts; rg_innov := innov; rg_mut := mut; rg_en := en |}
    | _, _, _, _, _, _, _, _ => GoErr 52
    end
  | _ => GoErr 51
  end.

Definition rg_with_traits (g : rgenome) (ts : list trait) : rgenome :=
  {| rg_id := rg_id g; rg_traits := ts; rg_nodes := rg_nodes g; rg_genes := rg_genes g |}.
Definition rg_with_nodes (g : rgenome) (ns : list node) : rgenome :=
  {| rg_id := rg_id g; rg_traits := rg_traits g; rg_nodes := ns; rg_genes := rg_genes g |}.
Definition rg_with_genes (g : rgenome) (gs : list rgene) : rgenome :=
  {| rg_id := rg_id g; rg_traits := rg_traits g; rg_nodes := rg_nodes g; rg_genes := gs |}.
Definition rg_with_id (g : rgenome) (i : Z) : rgenome :=
  {| rg_id := i; rg_traits := rg_traits g; rg_nodes := rg_nodes g; rg_genes := rg_genes g |}.

Definition have_id (id : Z) (ns : list node) : bool :=
  match node_with_id id ns with Some _ => true | None => false end.

(* one iteration of the scanner loop of plainGenomeReader.Read *)
Definition read_line (reg : registry) (st : rgenome) (l : line) : res rgenome :=
  match l with
  | [] | [_] => GoErr 1                 (* strings.SplitN(line, " ", 2) gives fewer than two parts *)
  | TWord tag :: rest =>
    if String.eqb tag "trait" then
      do t <- read_trait rest;
      match trait_ref (t_id t) (rg_traits st) with
      | Some _ => GoErr 34               (* trait ID is not unique (id 0 never collides) *)
      | None => Ok (rg_with_traits st (rg_traits st ++ [t]))
      end
    else if String.eqb tag "node" then
      do n <- read_node reg (rg_traits st) rest;
      if have_id (n_id n) (rg_nodes st) then GoErr 46
      else Ok (rg_with_nodes st (rg_nodes st ++ [n]))
    else if String.eqb tag "gene" then
      do x <- read_gene (rg_traits st) (rg_nodes st) rest;
      Ok (rg_with_genes st (rg_genes st ++ [x]))
    else if String.eqb tag "genomeend" then
      match rest with
      | t0 :: _ => match tok_int t0 with Some id => Ok (rg_with_id st id) | None => GoErr 61 end
      | [] => GoErr 61
      end
    else Ok st                            (* "genomestart", "/*" and every unknown tag: skipped *)
  | _ :: _ => Ok st
  end.

Fixpoint read_lines (reg : registry) (st : rgenome) (ls : list line) : res rgenome :=
  match ls with
  | [] => Ok st
  | l :: ls' => do st' <- read_line reg st l; read_lines reg st' ls'
  end.

Definition empty_rgenome : rgenome := {| rg_id := 0; rg_traits := []; rg_nodes := []; rg_genes := [] |}.

(* GenomeReader.Read with the plain encoding: consumes the whole stream *)
Definition read_genome (reg : registry) (ls : list line) : res rgenome := read_lines reg empty_rgenome ls.

(* genetics.ReadGenome(ir, id): the id argument overrides the one on the genomeend line *)
Definition read_genome_id (reg : registry) (ls : list line) (id : Z) : res rgenome :=
  do g <- read_genome reg ls; Ok (rg_with_id g id).

(* ------------------------------------------------------------------ *)
(* what the format does to a genome                                    *)

Definition node_ref (id : Z) (ns : list node) : option Z := if have_id id ns then Some id else None.

Definition norm_trait (t : trait) : trait := {| t_id := t_id t; t_params := firstn NUM_TRAIT_PARAMS (t_params t) |}.
Definition norm_node (ts : list trait) (n : node) : node :=
  {| n_id := n_id n; n_type := n_type n; n_act := n_act n; n_trait := trait_ref (oz_id (n_trait n)) ts |}.
Definition norm_gene (ts : list trait) (ns : list node) (x : gene) : rgene :=
  {| rg_in := node_ref (g_in x) ns; rg_out := node_ref (g_out x) ns; rg_rec := g_rec x; rg_w := g_w x;
     rg_trait := trait_ref (oz_id (g_trait x)) ts; rg_innov := g_innov x; rg_mut := g_mut x; rg_en := g_en x |}.

(* modules dropped; trait parameters beyond the eighth dropped; a trait reference that is 0 or names no
   trait becomes nil; a gene endpoint that names no node becomes nil *)
Definition norm_genome (g : genome) : rgenome :=
  {| rg_id := gid g; rg_traits := map norm_trait (traits g);
     rg_nodes := map (norm_node (traits g)) (nodes g);
     rg_genes := map (norm_gene (traits g) (nodes g)) (genes g) |}.

Definition resolve_gene (x : rgene) : option gene :=
  match rg_in x, rg_out x with
  | Some i, Some o => Some {| g_in := i; g_out := o; g_rec := rg_rec x; g_w := rg_w x; g_trait := rg_trait x;
                              g_innov := rg_innov x; g_mut := rg_mut x; g_en := rg_en x |}
  | _, _ => None
  end.

Fixpoint map_opt {A B} (f : A -> option B) (l : list A) : option (list B) :=
  match l with
  | [] => Some []
  | a :: l' => match f a, map_opt f l' with Some b, Some bs => Some (b :: bs) | _, _ => None end
  end.

(* back to a genome when no endpoint is nil *)
Definition resolve (r : rgenome) : option genome :=
  match map_opt resolve_gene (rg_genes r) with
  | Some gs => Some {| gid := rg_id r; traits := rg_traits r; nodes := rg_nodes r; genes := gs; modules := [] |}
  | None => None
  end.

Definition strip_modules (g : genome) : genome :=
  {| gid := gid g; traits := traits g; nodes := nodes g; genes := genes g; modules := [] |}.

(* ------------------------------------------------------------------ *)
(* organism: MarshalBinary / UnmarshalBinary                           *)

Record organism := { o_fit : float; o_gen : Z; o_high : float; o_champ_child : bool; o_genome : genome }.
Record rorganism := { ro_fit : float; ro_gen : Z; ro_high : float; ro_champ_child : bool; ro_genome : rgenome }.

(* fmt.Fprintln(&buf, o.Fitness, o.Generation, o.highestFitness, o.isPopulationChampionChild, o.Genotype.Id) *)
Definition org_header (o : organism) : line :=
  [TFloat (o_fit o); TInt (o_gen o); TFloat (o_high o); TBool (o_champ_child o); TInt (gid (o_genome o))].

Definition write_organism (reg : registry) (o : organism) : res (list line) :=
  do ls <- write_genome reg (o_genome o); Ok (org_header o :: ls).

(* fmt.Fscanln(b, &o.Fitness, &o.Generation, &o.highestFitness, &o.isPopulationChampionChild, &genotypeId):
   exactly five fields on the first line, then ReadGenome(b, genotypeId) on the rest *)
Definition read_organism (reg : registry) (ls : list line) : res rorganism :=
  match ls with
  | [] => GoErr 71
  | [t1; t2; t3; t4; t5] :: rest =>
    match tok_float t1, tok_int t2, tok_float t3, tok_bool t4, tok_int t5 with
    | Some fit, Some gen, Some high, Some cc, Some id =>
      do g <- read_genome_id reg rest id;
      Ok {| ro_fit := fit; ro_gen := gen; ro_high := high; ro_champ_child := cc; ro_genome := g |}
    | _, _, _, _, _ => GoErr 73
    end
  | _ :: _ => GoErr 72
  end.

Definition norm_organism (o : organism) : rorganism :=
  {| ro_fit := o_fit o; ro_gen := o_gen o; ro_high := o_high o; ro_champ_child := o_champ_child o;
     ro_genome := norm_genome (o_genome o) |}.

(* ------------------------------------------------------------------ *)
(* population: Population.Write / ReadPopulation                       *)

Fixpoint concat_res {A} (l : list (res (list A))) : res (list A) :=
  match l with
  | [] => Ok []
  | r :: l' => do a <- r; do b <- concat_res l'; Ok (a ++ b)
  end.

(* Population.Write: the genomes one after another *)
Definition write_population (reg : registry) (gs : list genome) : res (list line) :=
  concat_res (map (write_genome reg) gs).

(* reader state: outBuff (nil or the lines buffered for the current genome), idCheck, the organisms'
   genomes read so far, nextNodeId, nextInnovNum *)
Record pstate := { p_buf : option (list line); p_idcheck : Z; p_orgs : list rgenome;
                   p_next_node : Z; p_next_innov : Z }.

Definition p_set_buf (st : pstate) (b : option (list line)) : pstate :=
  {| p_buf := b; p_idcheck := p_idcheck st; p_orgs := p_orgs st; p_next_node := p_next_node st;
     p_next_innov := p_next_innov st |}.

(* Genome.getLastNodeId / getNextGeneInnovNum on a genome without modules *)
Definition r_last_node_id (g : rgenome) : res Z :=
  match rg_nodes g with
  | [] => GoErr 10
  | n :: ns => Ok (n_id (last ns n))
  end.
Definition dummy_rgene : rgene :=
  {| rg_in := None; rg_out := None; rg_rec := false; rg_w := 0; rg_trait := None; rg_innov := 0; rg_mut := 0; rg_en := true |}.
Definition r_next_innov (g : rgenome) : res Z :=
  match rg_genes g with
  | [] => GoErr 11
  | x :: xs => Ok (rg_innov (last xs x) + 1)
  end.

(* the "genomeend" case: close the buffer, read the genome, book-keep the counters *)
Definition pop_finish (reg : registry) (st : pstate) : res pstate :=
  match p_buf st with
  | None => GoPanic 1                       (* fmt.Fprintf on a nil *bytes.Buffer *)
  | Some b =>
    do g <- read_genome_id reg (b ++ [end_line (p_idcheck st)]) (p_idcheck st);
    do lastn <- r_last_node_id g;
    let nn := if Z.ltb (p_next_node st) lastn then lastn + 1 else p_next_node st in
    do ni <- r_next_innov g;
    let ninn := if Z.ltb (p_next_innov st) ni then ni else p_next_innov st in
    Ok {| p_buf := None; p_idcheck := -1; p_orgs := p_orgs st ++ [g]; p_next_node := nn; p_next_innov := ninn |}
  end.

(* the default case: fmt.Fprintln(outBuff, line) *)
Definition pop_buffer (st : pstate) (l : line) : res pstate :=
  match p_buf st with
  | None => GoPanic 1                       (* nil *bytes.Buffer *)
  | Some b => Ok (p_set_buf st (Some (b ++ [l])))
  end.

Definition read_pop_line (reg : registry) (st : pstate) (l : line) : res pstate :=
  match l with
  | [] | [_] => GoErr 1
  | TWord tag :: rest =>
    if String.eqb tag "genomestart" then
      (* buffer := "genomestart <rest>\n"; idCheck, err = strconv.Atoi(rest) *)
      match rest with
      | [TInt z] => Ok {| p_buf := Some [l]; p_idcheck := z; p_orgs := p_orgs st;
                          p_next_node := p_next_node st; p_next_innov := p_next_innov st |}
      | _ => GoErr 81
      end
    else if String.eqb tag "genomeend" then pop_finish reg st
    else if String.eqb tag "/*" then Ok st
    else pop_buffer st l
  | _ :: _ => pop_buffer st l
  end.

Fixpoint read_pop_lines (reg : registry) (st : pstate) (ls : list line) : res pstate :=
  match ls with
  | [] => Ok st
  | l :: ls' => do st' <- read_pop_line reg st l; read_pop_lines reg st' ls'
  end.

Definition pop_init : pstate := {| p_buf := None; p_idcheck := 0; p_orgs := []; p_next_node := 0; p_next_innov := 0 |}.

(* the genomes of pop.Organisms in order, nextNodeId, nextInnovNum.  The closing pop.speciate fails when
   there is no organism at all; what it does otherwise (with a non-zero compatibility threshold) is C08's subject *)
Definition read_population (reg : registry) (ls : list line) : res (list rgenome * Z * Z) :=
  do st <- read_pop_lines reg pop_init ls;
  match p_orgs st with
  | [] => GoErr 90
  | _ => Ok (p_orgs st, p_next_node st, p_next_innov st)
  end.

(* ------------------------------------------------------------------ *)
(* boolean equalities for the correspondence (exact floats)            *)

Definition token_eqb (a b : token) : bool :=
  match a, b with
  | TInt x, TInt y => Z.eqb x y
  | TFloat x, TFloat y => feqb_exact x y
  | TBool x, TBool y => Bool.eqb x y
  | TWord x, TWord y => String.eqb x y
  | _, _ => false
  end.

(* the model writer says "float f here"; %g may have produced an integer-looking lexeme for it *)
Definition token_agree (model go : token) : bool :=
  token_eqb model go ||
  match model, go with
  | TFloat f, TInt z => feqb_exact f (f_of_Z z)
  | _, _ => false
  end.

Definition lines_agree (m g : list line) : bool := list_eqb (list_eqb token_agree) m g.

Definition rgene_eqb (a b : rgene) : bool :=
  oz_eqb (rg_in a) (rg_in b) && oz_eqb (rg_out a) (rg_out b) && Bool.eqb (rg_rec a) (rg_rec b)
  && feqb_exact (rg_w a) (rg_w b) && oz_eqb (rg_trait a) (rg_trait b) && Z.eqb (rg_innov a) (rg_innov b)
  && feqb_exact (rg_mut a) (rg_mut b) && Bool.eqb (rg_en a) (rg_en b).

Definition rgenome_eqb (a b : rgenome) : bool :=
  Z.eqb (rg_id a) (rg_id b) && list_eqb trait_eqb (rg_traits a) (rg_traits b)
  && list_eqb node_eqb (rg_nodes a) (rg_nodes b) && list_eqb rgene_eqb (rg_genes a) (rg_genes b).

Definition rorganism_eqb (a b : rorganism) : bool :=
  feqb_exact (ro_fit a) (ro_fit b) && Z.eqb (ro_gen a) (ro_gen b) && feqb_exact (ro_high a) (ro_high b)
  && Bool.eqb (ro_champ_child a) (ro_champ_child b) && rgenome_eqb (ro_genome a) (ro_genome b).
