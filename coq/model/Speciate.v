(* Model of Population.speciate (neat/genetics/population.go) and createFirstSpecies
   (neat/genetics/species.go) for C08.

   An organism is a key and its genome; a species is its id and its member list in order (the
   first member is the representative that firstOrganism() returns; a species may be empty and is
   then skipped by the scan, as compOrg == nil is in Go); a population is its species list in
   order, LastSpecies, and the back pointers Organism.Species written by speciate (key, species id;
   latest last).  Species pointers of the Go code are positions in Population.Species.

   The distance function [compat : G -> G -> F], the order [ltb] on distances, the threshold
   and the initial best value (math.MaxFloat64) are parameters, so everything proved about this
   model holds for any distance; model/Compat.v provides the one of the library.

   Not modelled: the ctx.Done() poll at the top of each iteration (no cancellation) and the
   "options not found in context" error (the harness always supplies options). *)
From NeatModel Require Import Res.

Section Speciate.
  Variables F G : Type.
  Variable ltb : F -> F -> bool.          (* < on float64 *)
  Variable is_zero : F -> bool.           (* opts.CompatThreshold == 0 *)
  Variable maxv : F.                      (* math.MaxFloat64 *)
  Variable compat : G -> G -> F.          (* currOrg.Genotype.compatibility(compOrg.Genotype, opts) *)
  Variable thr : F.                       (* opts.CompatThreshold *)

  Record organism := { o_key : Z; o_genome : G }.
  Record species := { sp_id : Z; sp_orgs : list organism }.
  Record population := { p_species : list species; p_last : Z; p_assign : list (Z * Z) }.

  (* Species.firstOrganism *)
  Definition first_organism (s : species) : option organism := hd_error (sp_orgs s).

  (* Species.addOrganism *)
  Definition add_organism (s : species) (o : organism) : species :=
    {| sp_id := sp_id s; sp_orgs := sp_orgs s ++ [o] |}.

  (* createFirstSpecies: pop.LastSpecies++; NewSpeciesNovel(pop.LastSpecies, true); append to
     pop.Species; species.addOrganism(baby); baby.Species = species *)
  Definition create_first_species (p : population) (o : organism) : population :=
    let id := p_last p + 1 in
    {| p_species := p_species p ++ [add_organism {| sp_id := id; sp_orgs := [] |} o];
       p_last := id;
       p_assign := p_assign p ++ [(o_key o, id)] |}.

  (* for _, currSpecies := range p.Species { ... }: i is the position of the head of ss in
     p.Species, best = bestCompatible (nil = None), bestv = bestCompatValue *)
  Fixpoint scan (o : organism) (ss : list species) (i : nat) (best : option (nat * species)) (bestv : F)
    : option (nat * species) * F :=
    match ss with
    | [] => (best, bestv)
    | s :: ss' =>
      match first_organism s with
      | None => scan o ss' (S i) best bestv                       (* compOrg == nil *)
      | Some r =>
        let c := compat (o_genome o) (o_genome r) in
        if ltb c thr && ltb c bestv                              (* currCompat < thr && currCompat < bestCompatValue *)
        then scan o ss' (S i) (Some (i, s)) c
        else scan o ss' (S i) best bestv
      end
    end.

  (* bestCompatible.addOrganism(currOrg) on the species at position i *)
  Fixpoint add_at (i : nat) (o : organism) (ss : list species) : list species :=
    match ss, i with
    | [], _ => []
    | s :: ss', O => add_organism s o :: ss'
    | s :: ss', S i' => s :: add_at i' o ss'
    end.

  Definition err_no_organisms : Z := 1.      (* "no organisms to speciate from" *)
  Definition err_zero_threshold : Z := 2.    (* "compatibility threshold is set to ZERO ..." *)

  (* one iteration of the loop over the batch *)
  Definition place (p : population) (o : organism) : population * res unit :=
    match p_species p with
    | [] => (create_first_species p o, Ok tt)                     (* len(p.Species) == 0 *)
    | _ :: _ =>
      if is_zero thr then (p, GoErr err_zero_threshold)
      else
        match fst (scan o (p_species p) 0 None maxv) with
        | Some (i, s) =>
          ({| p_species := add_at i o (p_species p); p_last := p_last p;
              p_assign := p_assign p ++ [(o_key o, sp_id s)] |}, Ok tt)
        | None => (create_first_species p o, Ok tt)
        end
    end.

  (* for _, currOrg := range organisms { ... }; an error returns at once and leaves the
     population as it is at that moment *)
  Fixpoint speciate_loop (p : population) (batch : list organism) : population * res unit :=
    match batch with
    | [] => (p, Ok tt)
    | o :: rest =>
      match place p o with
      | (p', Ok _) => speciate_loop p' rest
      | (p', e) => (p', e)
      end
    end.

  Definition speciate (p : population) (batch : list organism) : population * res unit :=
    match batch with
    | [] => (p, GoErr err_no_organisms)                           (* len(organisms) == 0 *)
    | _ :: _ => speciate_loop p batch
    end.

End Speciate.

Arguments o_key {G} o. Arguments o_genome {G} o.
Arguments Build_organism {G} o_key o_genome.
Arguments sp_id {G} s. Arguments sp_orgs {G} s. Arguments Build_species {G} sp_id sp_orgs.
Arguments p_species {G} p. Arguments p_last {G} p. Arguments p_assign {G} p.
Arguments Build_population {G} p_species p_last p_assign.
Arguments first_organism {G} s. Arguments add_organism {G} s o.
Arguments create_first_species {G} p o.
Arguments scan {F G} ltb compat thr o ss i best bestv.
Arguments add_at {G} i o ss.
Arguments place {F G} ltb is_zero maxv compat thr p o.
Arguments speciate_loop {F G} ltb is_zero maxv compat thr p batch.
Arguments speciate {F G} ltb is_zero maxv compat thr p batch.
