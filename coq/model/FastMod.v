(* Fast network solver WITH modules: neat/network/fast_network.go (forwardStep incl. the loop
   `for _, module := range s.modules`, ForwardSteps, RecursiveSteps' refusal of modules, Relax, Flush,
   LoadSensors, ReadOutputs) and the translation of control nodes in Network.FastNetworkSolver (network.go).
   Extension of model/Fast.v: the static description gets the module list; the mutable state is Fast.v's
   [fstate] unchanged (modules have no state of their own).                                  (C12, C13, C15)

   * A module (FastControlNode) is its ActivationType and its InputIndexes / OutputIndexes (indices into the
     neuron arrays, here nat; the model file may hold negative ones: model/Fmns.v keeps them as Z and
     [Fmns] solvers are mapped into this model only when every index is a valid natural number).
   * [mact] is NodeActivators.ActivateModuleByType (see NetMod.v).
   * forwardStep's module loop, as coded:
       inputs[i] = neuronSignalsBeingProcessed[inIndex]          index out of range -> panic, nothing written
       ActivateModuleByType error                                -> `return false, err` (signals not committed)
       for i, outIndex := range OutputIndexes { beingProcessed[outIndex] = outputs[i] }
                                                                  -> PANICS (index out of range) as soon as i
                                                                     reaches len(outputs) or outIndex is out of
                                                                     range; the earlier outputs are already written
     (the standard solver returns an error for len(outputs) <> len(Outgoing) instead; with fewer Outgoing
     links than outputs the fast solver just drops the surplus).  Confirmed on the running code.
     Note that a module reads beingProcessed, NOT neuronSignals: for an index below sensorNeuronCount that
     array is never assigned by the activation loop, so a module input that is a sensor reads 0 (or what
     connections into sensors accumulated there) instead of the sensor's value.
   * Flush is Fast.fast_flush: neuronSignals from biasNeuronCount on and the WHOLE scratch array are cleared (a module
     may write the scratch slot of a bias neuron and another one read it).
   * RecursiveSteps returns an error as soon as there is one module, before touching anything.
   * [fast_of_net_mod]: Fast.fast_of_net on the ordinary nodes, then the control-node loop of
     FastNetworkSolver: every Incoming.InNode / Outgoing.OutNode is looked up in neuronLookup; a failed
     lookup is an error.  In the Go code that loop runs before NewFastModularNetworkSolver; the constructor
     cannot panic once the lists were processed (its checks in [new_fast] are implied), so taking
     [fast_of_net]'s result first does not reorder any observable failure. *)
From NeatModel Require Import Res Net Fast NetMod.
From Coq Require Import Arith.
Open Scope Z_scope.

Definition ErrFastRecursiveModules : Z := 14.  (* "recursive activation can not be used for network with defined modules" *)
Definition ErrLookupModuleIn : Z := 15.        (* "failed to lookup for input neuron with id: %d at control neuron: %d" *)
Definition ErrLookupModuleOut : Z := 16.       (* "failed to lookup for output neuron with id: %d at control neuron: %d" *)

Section FastModModel.
Variable F : Type.
Variable NF : num F.
Variable act : Z -> F -> res F.
Variable mact : Z -> list F -> res (list F).

(* FastControlNode: ActivationType, InputIndexes, OutputIndexes *)
Record fmodule := mkFmod { fmd_act : Z; fmd_ins : list nat; fmd_outs : list nat }.

(* FastModularNetworkSolver, static part *)
Record fmnet := mkFmnet { fx_net : fnet F; fx_mods : list fmodule }.

(* ---------- Network.FastNetworkSolver ---------- *)
(* neuronLookup after the four processList calls (the same calls as in Fast.fast_of_net) *)
Definition net_lookup (n : net F) : res (list (nat * nat)) :=
  let total := nnodes n in
  match process_list n total 0 (positions_with n is_bias) (repeat 0 total) [] with
  | Ok (i1, a1, k1) =>
  match process_list n total i1 (positions_with n is_input) a1 k1 with
  | Ok (i2, a2, k2) =>
  match process_list n total i2 (outputs n) a2 k2 with
  | Ok (i3, a3, k3) =>
  match process_list n total i3 (positions_with n is_hidden) a3 k3 with
  | Ok (_, _, k4) => Ok k4
  | e => res_cast e (GoPanic 0) end
  | e => res_cast e (GoPanic 0) end
  | e => res_cast e (GoPanic 0) end
  | e => res_cast e (GoPanic 0) end.

(* `for j, in := range cn.Incoming { if inIndex, ok := neuronLookup[in.InNode.Id]; ok {...} else { return nil, err } }` *)
Fixpoint lookup_all (lookup : list (nat * nat)) (code : Z) (ps : list nat) : res (list nat) :=
  match ps with
  | [] => Ok []
  | p :: rest =>
    match find_idx lookup p with
    | Some i => match lookup_all lookup code rest with Ok is => Ok (i :: is) | e => e end
    | None => GoErr code
    end
  end.

Fixpoint mods_of (lookup : list (nat * nat)) (cs : list cnode) : res (list fmodule) :=
  match cs with
  | [] => Ok []
  | c :: rest =>
    match lookup_all lookup ErrLookupModuleIn (cn_in c) with
    | Ok ins =>
      match lookup_all lookup ErrLookupModuleOut (cn_out c) with
      | Ok outs =>
        match mods_of lookup rest with
        | Ok ms => Ok (mkFmod (cn_act c) ins outs :: ms)
        | e => e
        end
      | e => res_cast e (GoPanic 0)
      end
    | e => res_cast e (GoPanic 0)
    end
  end.

Definition fast_of_net_mod (n : mnet F) : res fmnet :=
  match fast_of_net NF (m_net n) with
  | Ok fn =>
    match net_lookup (m_net n) with
    | Ok k =>
      match mods_of k (m_ctrl n) with
      | Ok ms => Ok (mkFmnet fn ms)
      | e => res_cast e (GoPanic 0)
      end
    | e => res_cast e (GoPanic 0)
    end
  | e => res_cast e (GoPanic 0)
  end.

(* ---------- forwardStep ---------- *)
(* `for i, outIndex := range module.OutputIndexes { s.neuronSignalsBeingProcessed[outIndex] = outputs[i] }` *)
Fixpoint write_outs (s : fstate F) (outs : list F) (tgts : list nat) {struct tgts} : fstate F * res bool :=
  match tgts with
  | [] => (s, Ok true)
  | o :: tgts' =>
    match outs with
    | v :: outs' =>
      if (o <? length (fs_bp s))%nat then write_outs (set_bp s o v) outs' tgts' else (s, GoPanic PanicIndex)
    | [] => (s, GoPanic PanicIndex)
    end
  end.

Definition module_step (s : fstate F) (m : fmodule) : fstate F * res bool :=
  if forallb (fun i => i <? length (fs_bp s))%nat (fmd_ins m) then
    match mact (fmd_act m) (map (bpF NF s) (fmd_ins m)) with
    | Ok outs => write_outs s outs (fmd_outs m)
    | e => (s, res_cast e (Ok true))
    end
  else (s, GoPanic PanicIndex).

Fixpoint modules_loop (ms : list fmodule) (s : fstate F) : fstate F * res bool :=
  match ms with
  | [] => (s, Ok true)
  | m :: rest =>
    match module_step s m with
    | (s', Ok _) => modules_loop rest s'
    | (s', e) => (s', e)
    end
  end.

Definition mforward_step (fx : fmnet) (delta : F) (s : fstate F) : fstate F * res bool :=
  let fn := fx_net fx in
  let s1 := fold_left (conn_step NF) (f_conns fn) s in
  match fs_activate NF act fn (neuron_range fn) s1 with
  | (s2, Ok _) =>
    match modules_loop (fx_mods fx) s2 with
    | (s3, Ok _) =>
      if fleb NF delta (fzero NF) then (fs_commit NF (neuron_range fn) s3, Ok true)
      else let '(s4, r) := fs_commit_delta NF delta (neuron_range fn) true s3 in (s4, Ok r)
    | (s3, e) => (s3, e)
    end
  | (s2, e) => (s2, e)
  end.

(* ForwardSteps *)
Fixpoint mff_loop (fx : fmnet) (iters : nat) (last : bool) (s : fstate F) : fstate F * res bool :=
  match iters with
  | O => (s, Ok last)
  | S it =>
    match mforward_step fx (fzero NF) s with
    | (s', Ok r) => mff_loop fx it r s'
    | (s', e) => (s', e)
    end
  end.

Definition mfast_forward (fx : fmnet) (steps : Z) (s : fstate F) : fstate F * res bool :=
  mff_loop fx (Z.to_nat steps) false s.

(* Relax *)
Fixpoint mrelax_loop (fx : fmnet) (iters : nat) (delta : F) (last : bool) (s : fstate F) : fstate F * res bool :=
  match iters with
  | O => (s, Ok last)
  | S it =>
    match mforward_step fx delta s with
    | (s', Ok true) => (s', Ok true)
    | (s', Ok false) => mrelax_loop fx it delta false s'
    | (s', e) => (s', e)
    end
  end.

Definition mfast_relax (fx : fmnet) (maxSteps : Z) (delta : F) (s : fstate F) : fstate F * res bool :=
  mrelax_loop fx (Z.to_nat maxSteps) delta false s.

(* RecursiveSteps: `if len(s.modules) > 0 { return false, errors.New(...) }` *)
Definition mfast_recursive (fx : fmnet) (s : fstate F) : fstate F * res bool :=
  match fx_mods fx with
  | [] => fast_recursive NF act (fx_net fx) s
  | _ :: _ => (s, GoErr ErrFastRecursiveModules)
  end.

Definition mfast_init (fx : fmnet) : fstate F := fast_init NF (fx_net fx).
Definition mfast_outputs (fx : fmnet) (s : fstate F) : list F := fast_outputs NF (fx_net fx) s.

Definition mfast_step (fx : fmnet) (s : fstate F) (o : op F) : fstate F * res bool :=
  match o with
  | OLoad x => fast_load NF (fx_net fx) x s
  | OForward k => mfast_forward fx k s
  | ORecursive => mfast_recursive fx s
  | ORelax ms d => mfast_relax fx ms d s
  | OFlush => fast_flush NF (fx_net fx) s
  end.

Definition mfast_run (fx : fmnet) (s : fstate F) (h : list (op F)) : fstate F :=
  fold_left (fun s o => fst (mfast_step fx s o)) h s.

Fixpoint mfast_trace (fx : fmnet) (s : fstate F) (h : list (op F)) : list (res bool * list F) :=
  match h with
  | [] => []
  | o :: h' =>
    let '(s', r) := mfast_step fx s o in
    (r, mfast_outputs fx s') :: mfast_trace fx s' h'
  end.

End FastModModel.

Arguments mkFmnet {F}. Arguments fx_net {F}. Arguments fx_mods {F}.
Arguments net_lookup {F}.
Arguments fast_of_net_mod {F}.
Arguments write_outs {F}.
Arguments module_step {F}.
Arguments modules_loop {F}.
Arguments mforward_step {F}.
Arguments mff_loop {F}.
Arguments mfast_forward {F}.
Arguments mrelax_loop {F}.
Arguments mfast_relax {F}.
Arguments mfast_recursive {F}.
Arguments mfast_init {F}.
Arguments mfast_outputs {F}.
Arguments mfast_step {F}.
Arguments mfast_run {F}.
Arguments mfast_trace {F}.
