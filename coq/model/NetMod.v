(* Standard network solver WITH control nodes (modules): neat/network/network.go (ActivateSteps incl. the loop
   `for _, cn := range n.controlNodes`, ForwardSteps, RecursiveSteps, Relax, Flush, LoadSensors, ReadOutputs,
   MaxActivationDepthWithCap's refusal of modular networks), neat/network/common.go (ActivateModule).
   Extension of model/Net.v: everything about ordinary nodes is Net.v's (imported, not copied); this file adds
   Network.controlNodes and what the solver does with them.                                   (C12, C13, C15)

   Conventions (see Net.v for the rest).
   * A control node is described by its ActivationType and the POSITIONS (in Network.allNodes) of the InNodes of
     its Incoming links and of the OutNodes of its Outgoing links, in link order.  This is what Genome.Genesis
     builds (control links always end in nodes of the genome, i.e. of allNodes) and what NewModularNetwork is
     meant for.  Control nodes linked to other control nodes, or ordinary nodes with an Incoming link FROM a
     control node, cannot be written down here.  Link weights of control links, the control node's Trait and
     Params are not represented: no solver reads them (the three module activators ignore auxParams).
   * The only mutable field of a control node any solver writes is isActive ([ms_con], one flag per control
     node); nothing reads it back except NNode.String / PrintDebug.  Network.Flush does not visit control nodes.
   * [mact : Z -> list F -> res (list F)] is NodeActivators.ActivateModuleByType: [GoErr ErrUnknownModuleActivation]
     for a type without a registered module activator.  The result may have any length (the three registered
     activators return one value); ActivateModule RETURNS AN ERROR (no panic) when that length differs from the
     number of Outgoing links, before any node is touched.
   * Error / panic behaviour was read from the code and confirmed on the running code (harness/c13_mod.go):
       unknown module type              -> error out of ActivateSteps / ForwardSteps (nodes of the pass stay activated)
       len(outputs) <> len(Outgoing)    -> error, likewise
       RecursiveSteps on a network with >= 1 control node -> error "unsupported for modular networks"
     Inputs of a module are never checked for length: every registered activator accepts any number. *)
From NeatModel Require Import Res Net.
From Coq Require Import Arith.
Open Scope Z_scope.

Definition ErrUnknownModuleActivation : Z := 11.   (* "unknown module activation type: %d" *)
Definition ErrModuleOutputs : Z := 12.             (* "number of output parameters [%d] returned by module activator doesn't match ..." *)
Definition ErrModularUnsupported : Z := 13.        (* MaxActivationDepthWithCap: "unsupported for modular networks" *)

Section NetModModel.
Variable F : Type.
Variable NF : num F.
Variable act : Z -> F -> res F.
Variable mact : Z -> list F -> res (list F).

(* ActivationType, positions of Incoming[i].InNode, positions of Outgoing[i].OutNode *)
Record cnode := mkCnode { cn_act : Z; cn_in : list nat; cn_out : list nat }.

(* Network with controlNodes *)
Record mnet := mkMnet { m_net : net F; m_ctrl : list cnode }.

Definition mnet_ok (n : mnet) : bool :=
  net_ok (m_net n)
  && forallb (fun c => forallb (fun i => i <? nnodes (m_net n))%nat (cn_in c)
                       && forallb (fun i => i <? nnodes (m_net n))%nat (cn_out c)) (m_ctrl n).

(* mutable state: the ordinary nodes (Net.v) and isActive of every control node *)
Record mstate := mkMS { ms_s : sstate F; ms_con : list bool }.

Definition mstd_init (n : mnet) : mstate :=
  mkMS (std_init NF (m_net n)) (repeat false (length (m_ctrl n))).

Definition set_con (st : mstate) (k : nat) (b : bool) : mstate := mkMS (ms_s st) (upd k b (ms_con st)).
Definition with_s (st : mstate) (s : sstate F) : mstate := mkMS s (ms_con st).

(* ----- common.go ActivateModule ----- *)
(* `for i, out := range outputs { module.Outgoing[i].OutNode.setActivation(out); ...isActive = true }`
   (lengths already known to be equal) *)
Fixpoint set_outs (s : sstate F) (outs : list F) (tgts : list nat) : sstate F :=
  match outs, tgts with
  | v :: outs', o :: tgts' => set_outs (set_on (set_activation NF s o v) o) outs' tgts'
  | _, _ => s
  end.

Definition activate_module (s : sstate F) (c : cnode) : sstate F * res bool :=
  let inputs := map (active_out NF s) (cn_in c) in                (* v.InNode.GetActiveOut() *)
  match mact (cn_act c) inputs with
  | Ok outs =>
    if (length outs =? length (cn_out c))%nat then (set_outs s outs (cn_out c), Ok true)
    else (s, GoErr ErrModuleOutputs)
  | e => (s, res_cast e (Ok true))
  end.

(* ----- ActivateSteps, third inner loop:
     for _, cn := range n.controlNodes { cn.isActive = false; err := ActivateModule(cn, ...); if err != nil { return false, err }; cn.isActive = true } *)
Fixpoint ctrl_loop (cs : list cnode) (k : nat) (st : mstate) : mstate * res bool :=
  match cs with
  | [] => (st, Ok true)
  | c :: rest =>
    let st1 := set_con st k false in
    match activate_module (ms_s st1) c with
    | (s', Ok _) => ctrl_loop rest (S k) (set_con (with_s st1 s') k true)
    | (s', e) => (with_s st1 s', e)
    end
  end.

(* one pass of the body of the `for n.OutputIsOff() || !oneTime` loop: the two loops of Net.v, then the control nodes *)
Definition msweep (n : mnet) (st : mstate) : mstate * res bool :=
  match sweep NF act (m_net n) (ms_s st) with
  | (s', Ok _) => ctrl_loop (m_ctrl n) 0 (with_s st s')
  | (s', e) => (with_s st s', e)
  end.

Fixpoint mactivate_loop (n : mnet) (fuel : nat) (maxSteps abortCount : Z) (oneTime : bool) (st : mstate)
  : mstate * res bool :=
  match fuel with
  | O => (st, OutOfFuel)
  | S f =>
    if output_is_off (m_net n) (ms_s st) || negb oneTime then
      if abortCount >=? maxSteps then (st, GoErr ErrNetExceededMaxActivationAttempts)
      else
        match msweep n st with
        | (st', Ok _) => mactivate_loop n f maxSteps (abortCount + 1) true st'
        | (st', e) => (st', e)
        end
    else (st, Ok true)
  end.

(* Network.ActivateSteps *)
Definition mactivate_steps (n : mnet) (maxSteps : Z) (st : mstate) : mstate * res bool :=
  if maxSteps =? 0 then (st, GoErr ErrZeroActivationStepsRequested)
  else mactivate_loop n (S (Z.to_nat maxSteps)) maxSteps 0 false st.

Fixpoint mforward_loop (n : mnet) (iters : nat) (steps : Z) (last : bool) (st : mstate) : mstate * res bool :=
  match iters with
  | O => (st, Ok last)
  | S it =>
    match mactivate_steps n steps st with
    | (st', Ok r) => mforward_loop n it steps r st'
    | (st', e) => (st', e)
    end
  end.

(* Network.ForwardSteps *)
Definition mstd_forward (n : mnet) (steps : Z) (st : mstate) : mstate * res bool :=
  if steps =? 0 then (st, GoErr ErrZeroActivationStepsRequested)
  else mforward_loop n (Z.to_nat steps) steps false st.

(* Network.RecursiveSteps: MaxActivationDepthWithCap(0) refuses networks with control nodes *)
Definition mstd_recursive (n : mnet) (st : mstate) : mstate * res bool :=
  match m_ctrl n with
  | [] =>
    match max_depth (m_net n) with
    | Ok d => mstd_forward n d st
    | e => (st, res_cast e (Ok false))
    end
  | _ :: _ => (st, GoErr ErrModularUnsupported)
  end.

Definition mstd_relax (n : mnet) (maxSteps : Z) (delta : F) (st : mstate) : mstate * res bool :=
  (st, GoErr ErrRelaxNotImplemented).

(* Network.LoadSensors, Flush (both loop over inputs / allNodes only), ReadOutputs *)
Definition mstd_load (n : mnet) (x : list F) (st : mstate) : mstate * res bool :=
  let '(s', r) := std_load NF (m_net n) x (ms_s st) in (with_s st s', r).

Definition mstd_flush (n : mnet) (st : mstate) : mstate * res bool :=
  let '(s', r) := std_flush NF (m_net n) (ms_s st) in (with_s st s', r).

Definition mstd_outputs (n : mnet) (st : mstate) : list F := std_outputs NF (m_net n) (ms_s st).

Definition mstd_step (n : mnet) (st : mstate) (o : op F) : mstate * res bool :=
  match o with
  | OLoad x => mstd_load n x st
  | OForward k => mstd_forward n k st
  | ORecursive => mstd_recursive n st
  | ORelax ms d => mstd_relax n ms d st
  | OFlush => mstd_flush n st
  end.

Definition mstd_run (n : mnet) (st : mstate) (h : list (op F)) : mstate :=
  fold_left (fun st o => fst (mstd_step n st o)) h st.

(* what a client sees: the result of every operation and ReadOutputs() after it *)
Fixpoint mstd_trace (n : mnet) (st : mstate) (h : list (op F)) : list (res bool * list F) :=
  match h with
  | [] => []
  | o :: h' =>
    let '(st', r) := mstd_step n st o in
    (r, mstd_outputs n st') :: mstd_trace n st' h'
  end.

(* ---------- Network's own entry points beyond the Solver interface: Activate() = ActivateSteps(20), ActivateSteps(k) ---------- *)
Inductive nop :=
| NOp (o : op F)                 (* an operation of the Solver interface *)
| NActivate (maxSteps : Z).      (* Network.ActivateSteps(maxSteps); Network.Activate() is NActivate 20 *)

Definition mstd_nstep (n : mnet) (st : mstate) (o : nop) : mstate * res bool :=
  match o with
  | NOp o => mstd_step n st o
  | NActivate k => mactivate_steps n k st
  end.

Definition mstd_nrun (n : mnet) (st : mstate) (h : list nop) : mstate :=
  fold_left (fun st o => fst (mstd_nstep n st o)) h st.

Fixpoint mstd_ntrace (n : mnet) (st : mstate) (h : list nop) : list (res bool * list F) :=
  match h with
  | [] => []
  | o :: h' =>
    let '(st', r) := mstd_nstep n st o in
    (r, mstd_outputs n st') :: mstd_ntrace n st' h'
  end.

End NetModModel.

Arguments mkMnet {F}. Arguments m_net {F}. Arguments m_ctrl {F}.
Arguments mkMS {F}. Arguments ms_s {F}. Arguments ms_con {F}.
Arguments mnet_ok {F}.
Arguments mstd_init {F}.
Arguments set_con {F}.
Arguments with_s {F}.
Arguments set_outs {F}.
Arguments activate_module {F}.
Arguments ctrl_loop {F}.
Arguments msweep {F}.
Arguments mactivate_loop {F}.
Arguments mactivate_steps {F}.
Arguments mforward_loop {F}.
Arguments mstd_forward {F}.
Arguments mstd_recursive {F}.
Arguments mstd_relax {F}.
Arguments mstd_load {F}.
Arguments mstd_flush {F}.
Arguments mstd_outputs {F}.
Arguments mstd_step {F}.
Arguments mstd_run {F}.
Arguments mstd_trace {F}.
Arguments NOp {F}. Arguments NActivate {F}.
Arguments mstd_nstep {F}.
Arguments mstd_nrun {F}.
Arguments mstd_ntrace {F}.
