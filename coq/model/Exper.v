(* Model of the aggregate accessors of experiment/experiment.go, trial.go, generation.go (C19).

   An experiment is the list of its trials, a trial the list of its recorded generations (plus the
   cached *WinnerGeneration), a generation the record of its recorded fields.  A champion organism
   is projected to what the accessors read from it: fitness, the unexported highestFitness
   (tie-break of Organisms.Less), the age of its species (nil species = None) and the value
   organismComplexity returns for it (phenotype nodes + links, math.MaxInt when the phenotype
   cannot be built).  Durations are nanosecond counts.

   sort.Sort(sort.Reverse(orgs)) in BestOrganism is not modelled as an algorithm: the index of
   the element that ends up first is an oracle argument that the model checks (no element is
   strictly greater under Organisms.Less), [BadOracle] otherwise; dereferencing a nil champion
   is [GoPanic 7].  Polymorphic in the number structure of Stats.v. *)
From NeatModel Require Import Res F64 Stats.
From Coq Require Import List ZArith Bool Floats.
Import ListNotations.
Open Scope Z_scope.

Definition max_int : Z := 9223372036854775807.     (* math.MaxInt on a 64-bit platform *)
Definition empty_duration : Z := -1.               (* EmptyDuration *)
Definition panic_nil : Z := 7.                     (* nil pointer dereference *)

Section Exper.
Context {F : Type} (N : num F).

Local Notation zero := (n_zero N).
Local Notation ofZ := (n_ofZ N).

Record organism : Type := {
  o_fitness : F;
  o_hfit : F;                 (* highestFitness *)
  o_age : option Z;           (* Species.Age, None when Species == nil *)
  o_cplx : Z                  (* organismComplexity(org) *)
}.

Record generation : Type := {
  g_solved : bool;
  g_champ : option organism;  (* None = nil *)
  g_fitness : list F;
  g_age : list F;
  g_complexity : list F;
  g_diversity : Z;
  g_wnodes : Z;
  g_wgenes : Z;
  g_wevals : Z;
  g_duration : Z
}.

Record trial : Type := {
  t_gens : list generation;
  t_winner : option generation;   (* *WinnerGeneration: nil or a copy of a generation *)
  t_duration : Z
}.

Definition experiment : Type := list trial.

(* ================= generation.go ================= *)

(* Generation.Average: the three Floats.Mean; the series are owned by the caller, the model takes
   them 16-byte aligned (the correspondence harness allocates them so) *)
Definition g_average (g : generation) : F * F * F :=
  (F_mean N true (g_fitness g), F_mean N true (g_age g), F_mean N true (g_complexity g)).

(* Generation.FillPopulationStatistics: a population is projected to its species in order, a
   species to its age and its organisms in their order before the call.  The in-place
   sort.Sort(sort.Reverse(Organisms)) followed by Organisms[0] is an oracle-checked choice as in
   BestOrganism below (position [k] in the order before the call).
     maxFitness := float64(math.MinInt64)
     for i, sp := range pop.Species { Age[i] = float64(sp.Age); sort; Complexity[i] = float64(complexity(sp.Organisms[0]));
       Fitness[i] = sp.Organisms[0].Fitness
       if !g.Solved { if sp.Organisms[0].Fitness > maxFitness { maxFitness = ...; g.Champion = sp.Organisms[0] } } } *)
Record species : Type := { s_age : Z; s_orgs : list organism }.

Definition org_less (a b : organism) : bool :=   (* genetics.Organisms.Less(i, j) on the projections *)
  if n_ltb N (o_fitness a) (o_fitness b) then true
  else if n_eqb N (o_fitness a) (o_fitness b) then n_ltb N (o_hfit a) (o_hfit b)
  else false.

Definition species_best (s : species) (k : Z) : res organism :=
  match s_orgs s with
  | [] => GoPanic panic_index                      (* Organisms[0] of an empty species *)
  | [o] => Ok o
  | os =>
    match nth_error os (Z.to_nat k) with
    | Some o => if (0 <=? k) && forallb (fun o' => negb (org_less o o')) os then Ok o else BadOracle
    | None => BadOracle
    end
  end.

Definition min_int64 : Z := -9223372036854775808.

Fixpoint fill_loop (solved : bool) (ss : list species) (ks : list Z) (maxf : F) (champ : option organism)
  : res (list F * list F * list F * option organism) :=
  match ss with
  | [] => Ok ([], [], [], champ)
  | s :: ss' =>
    do b <- species_best s (match ks with k :: _ => k | [] => 0 end);
    let '(maxf', champ') :=
      if solved then (maxf, champ)
      else if n_ltb N maxf (o_fitness b) then (o_fitness b, Some b) else (maxf, champ) in
    do r <- fill_loop solved ss' (tl ks) maxf' champ';
    let '(ages, cplx, fits, c) := r in
    Ok (ofZ (s_age s) :: ages, ofZ (o_cplx b) :: cplx, o_fitness b :: fits, c)
  end.

(* result: Diversity, Age, Complexity, Fitness, Champion; [champ0] is g.Champion before the call *)
Definition g_fill (solved : bool) (champ0 : option organism) (ss : list species) (ks : list Z)
  : res (Z * (list F * list F * list F * option organism)) :=
  do r <- fill_loop solved ss ks (ofZ min_int64) champ0; Ok (Z.of_nat (length ss), r).

(* Generation.ChampionComplexity *)
Definition g_champion_complexity (g : generation) : Z :=
  match g_champ g with None => max_int | Some o => o_cplx o end.

(* ================= trial.go ================= *)

(* Trial.AvgEpochDuration: Go's integer division truncates toward zero *)
Fixpoint sum_durations (gs : list generation) (total : Z) : Z :=
  match gs with [] => total | g :: gs' => sum_durations gs' (total + g_duration g) end.

Definition t_avg_epoch_duration (t : trial) : Z :=
  let total := sum_durations (t_gens t) 0 in
  if 0 <? len (t_gens t) then Z.quot total (len (t_gens t)) else empty_duration.

(* Trial.Solved: for _, e := range t.Generations { if e.Solved { return true } }; return false *)
Fixpoint gens_solved (gs : list generation) : bool :=
  match gs with [] => false | g :: gs' => if g_solved g then true else gens_solved gs' end.
Definition t_solved (t : trial) : bool := gens_solved (t_gens t).

(* Trial.ChampionsFitness: x[i] stays 0 for a nil champion *)
Fixpoint champions_fitness_loop (gs : list generation) : list F :=
  match gs with
  | [] => []
  | g :: gs' =>
    (match g_champ g with Some o => o_fitness o | None => zero end) :: champions_fitness_loop gs'
  end.
Definition t_champions_fitness (t : trial) : list F := champions_fitness_loop (t_gens t).

(* Trial.ChampionSpeciesAges *)
Fixpoint champion_ages_loop (gs : list generation) : list F :=
  match gs with
  | [] => []
  | g :: gs' =>
    (match g_champ g with
     | Some o => match o_age o with Some a => ofZ a | None => zero end
     | None => zero
     end) :: champion_ages_loop gs'
  end.
Definition t_champion_species_ages (t : trial) : list F := champion_ages_loop (t_gens t).

(* Trial.ChampionsComplexities: if c := e.ChampionComplexity(); c != math.MaxInt { x[i] = float64(c) } *)
Fixpoint champions_cplx_loop (gs : list generation) : list F :=
  match gs with
  | [] => []
  | g :: gs' =>
    let c := g_champion_complexity g in
    (if c =? max_int then zero else ofZ c) :: champions_cplx_loop gs'
  end.
Definition t_champions_complexities (t : trial) : list F := champions_cplx_loop (t_gens t).

(* Trial.Diversity *)
Fixpoint diversity_loop (gs : list generation) : list F :=
  match gs with [] => [] | g :: gs' => ofZ (g_diversity g) :: diversity_loop gs' end.
Definition t_diversity (t : trial) : list F := diversity_loop (t_gens t).

(* Trial.Average *)
Fixpoint average_loop (gs : list generation) : list F * list F * list F :=
  match gs with
  | [] => ([], [], [])
  | g :: gs' =>
    let '(f, a, c) := g_average g in
    let '(fs, az, cs) := average_loop gs' in
    (f :: fs, a :: az, c :: cs)
  end.
Definition t_average (t : trial) : list F * list F * list F := average_loop (t_gens t).

(* Trial.WinnerStatistics: (nodes, genes, evals, diversity) and the value of the cache afterwards *)
Definition winner_tuple (g : generation) : Z * Z * Z * Z :=
  (g_wnodes g, g_wgenes g, g_wevals g, g_diversity g).

Fixpoint first_solved (gs : list generation) : option generation :=
  match gs with [] => None | g :: gs' => if g_solved g then Some g else first_solved gs' end.

Definition t_winner_statistics (t : trial) : (Z * Z * Z * Z) * option generation :=
  match t_winner t with
  | Some w => (winner_tuple w, Some w)
  | None =>
    if 0 <? len (t_gens t) then
      match first_solved (t_gens t) with
      | Some g => (winner_tuple g, Some g)
      | None => ((0, 0, 0, 0), None)
      end
    else ((-1, -1, -1, -1), None)
  end.

(* sort.Sort(sort.Reverse(orgs)); orgs[0]  with the index of the winner as checked oracle *)
Fixpoint all_some {A} (l : list (option A)) : option (list A) :=
  match l with
  | [] => Some []
  | None :: _ => None
  | Some a :: l' => match all_some l' with Some r => Some (a :: r) | None => None end
  end.

Definition sort_first (orgs : list (option organism)) (k : Z) : res (option organism) :=
  match orgs with
  | [o] => Ok o                                   (* nothing is compared *)
  | _ =>
    match all_some orgs with
    | None => GoPanic panic_nil                     (* Less dereferences a nil *Organism *)
    | Some os =>
      match nth_error os (Z.to_nat k) with
      | Some o =>
        if (0 <=? k) && forallb (fun o' => negb (org_less o o')) os then Ok (Some o) else BadOracle
      | None => BadOracle
      end
    end
  end.

(* Trial.BestOrganism(onlySolvers): None = (nil, false); Some o = (o, true), o possibly nil *)
Fixpoint collect_champs (only : bool) (gs : list generation) : list (option organism) :=
  match gs with
  | [] => []
  | g :: gs' =>
    if negb only then g_champ g :: collect_champs only gs'
    else if g_solved g then g_champ g :: collect_champs only gs'
    else collect_champs only gs'
  end.

Definition t_best_organism (only : bool) (t : trial) (k : Z) : res (option (option organism)) :=
  match collect_champs only (t_gens t) with
  | [] => Ok None
  | orgs => do o <- sort_first orgs k; Ok (Some o)
  end.

(* ================= experiment.go ================= *)

(* Experiment.AvgTrialDuration *)
Fixpoint sum_trial_durations (e : experiment) (total : Z) : Z :=
  match e with [] => total | t :: e' => sum_trial_durations e' (total + t_duration t) end.
Definition e_avg_trial_duration (e : experiment) : Z :=
  if 0 <? Z.of_nat (length e) then Z.quot (sum_trial_durations e 0) (Z.of_nat (length e))
  else empty_duration.

(* Experiment.AvgEpochDuration *)
Fixpoint sum_epoch_durations (e : experiment) (total : Z) : Z :=
  match e with [] => total | t :: e' => sum_epoch_durations e' (total + t_avg_epoch_duration t) end.
Definition e_avg_epoch_duration (e : experiment) : Z :=
  if 0 <? Z.of_nat (length e) then Z.quot (sum_epoch_durations e 0) (Z.of_nat (length e))
  else empty_duration.

(* Experiment.AvgGenerationsPerTrial: total := 0.0; total += float64(len(t.Generations)) *)
Fixpoint sum_gens (e : experiment) (total : F) : F :=
  match e with [] => total | t :: e' => sum_gens e' (n_add N total (ofZ (len (t_gens t)))) end.
Definition e_avg_generations_per_trial (e : experiment) : F :=
  if 0 <? Z.of_nat (length e) then n_div N (sum_gens e zero) (ofZ (Z.of_nat (length e)))
  else zero.

(* Experiment.Solved *)
Fixpoint e_solved (e : experiment) : bool :=
  match e with [] => false | t :: e' => if t_solved t then true else e_solved e' end.

(* Experiment.TrialsSolved *)
Fixpoint trials_solved_loop (e : experiment) (count : Z) : Z :=
  match e with
  | [] => count
  | t :: e' => trials_solved_loop e' (if t_solved t then count + 1 else count)
  end.
Definition e_trials_solved (e : experiment) : Z := trials_solved_loop e 0.

(* Experiment.SuccessRate *)
Definition e_success_rate (e : experiment) : F :=
  let solved := ofZ (e_trials_solved e) in
  if 0 <? Z.of_nat (length e) then n_div N solved (ofZ (Z.of_nat (length e))) else zero.

(* Experiment.EpochsPerTrial *)
Fixpoint e_epochs_per_trial (e : experiment) : list F :=
  match e with [] => [] | t :: e' => ofZ (len (t_gens t)) :: e_epochs_per_trial e' end.

(* Experiment.AvgDiversity: x[i] = t.Diversity().Mean(); the slice is allocated inside, its
   alignment is not observable; its elements are integers so the sum is exact either way *)
Fixpoint e_avg_diversity (e : experiment) : list F :=
  match e with [] => [] | t :: e' => F_mean N true (t_diversity t) :: e_avg_diversity e' end.

(* Experiment.BestFitness / BestSpeciesAge / BestComplexity: one sort oracle per trial *)
Fixpoint best_loop (f : option organism -> res F) (e : experiment) (ks : list Z) : res (list F) :=
  match e with
  | [] => Ok []
  | t :: e' =>
    let k := match ks with k :: _ => k | [] => 0 end in
    do b <- t_best_organism false t k;
    do x <- match b with Some o => f o | None => Ok zero end;
    do r <- best_loop f e' (tl ks);
    Ok (x :: r)
  end.

Definition e_best_fitness (e : experiment) (ks : list Z) : res (list F) :=
  best_loop (fun o => match o with Some o => Ok (o_fitness o) | None => GoPanic panic_nil end) e ks.

Definition e_best_species_age (e : experiment) (ks : list Z) : res (list F) :=
  best_loop (fun o => match o with
                      | Some o => Ok (match o_age o with Some a => ofZ a | None => zero end)
                      | None => GoPanic panic_nil
                      end) e ks.

(* organismComplexity(nil) = math.MaxInt *)
Definition e_best_complexity (e : experiment) (ks : list Z) : res (list F) :=
  best_loop (fun o => match o with Some o => Ok (ofZ (o_cplx o)) | None => Ok (ofZ max_int) end) e ks.

(* Experiment.BestOrganism(onlySolvers): the best organism and the index of its trial
   (org.Flag = i); [ks] the per-trial oracles, [k] the oracle of the final sort *)
Fixpoint collect_best (only : bool) (e : experiment) (i : Z) (ks : list Z)
  : res (list (organism * Z)) :=
  match e with
  | [] => Ok []
  | t :: e' =>
    let k := match ks with k :: _ => k | [] => 0 end in
    do b <- t_best_organism only t k;
    match b with
    | Some None => GoPanic panic_nil                (* org.Flag = i on a nil organism *)
    | Some (Some o) => do r <- collect_best only e' (i + 1) (tl ks); Ok ((o, i) :: r)
    | None => collect_best only e' (i + 1) (tl ks)
    end
  end.

Definition e_best_organism (only : bool) (e : experiment) (ks : list Z) (k : Z)
  : res (option (organism * Z)) :=
  do orgs <- collect_best only e 0 ks;
  match orgs with
  | [] => Ok None
  | _ =>
    match nth_error orgs (Z.to_nat k) with
    | Some (o, i) =>
      if (0 <=? k) && forallb (fun oi => negb (org_less o (fst oi))) orgs then Ok (Some (o, i))
      else BadOracle
    | None => BadOracle
    end
  end.

(* Experiment.AvgWinnerStatistics *)
Fixpoint winner_totals (e : experiment) (acc : Z * Z * Z * Z * Z) : Z * Z * Z * Z * Z :=
  match e with
  | [] => acc
  | t :: e' =>
    if t_solved t then
      let '(nodes, genes, evals, diversity) := fst (t_winner_statistics t) in
      let '(tn, tg, te, td, count) := acc in
      winner_totals e' (tn + nodes, tg + genes, te + evals, td + diversity, count + 1)
    else winner_totals e' acc
  end.

Definition e_avg_winner_statistics (e : experiment) : F * F * F * F :=
  let '(tn, tg, te, td, count) := winner_totals e (0, 0, 0, 0, 0) in
  if count =? 0 then (ofZ (-1), ofZ (-1), ofZ (-1), ofZ (-1))
  else (n_div N (ofZ tn) (ofZ count), n_div N (ofZ tg) (ofZ count),
        n_div N (ofZ te) (ofZ count), n_div N (ofZ td) (ofZ count)).

End Exper.

Arguments o_fitness {F}. Arguments o_hfit {F}. Arguments o_age {F}. Arguments o_cplx {F}.
Arguments g_solved {F}. Arguments g_champ {F}. Arguments g_fitness {F}. Arguments g_age {F}.
Arguments g_complexity {F}. Arguments g_diversity {F}. Arguments g_wnodes {F}. Arguments g_wgenes {F}.
Arguments g_wevals {F}. Arguments g_duration {F}.
Arguments t_gens {F}. Arguments t_winner {F}. Arguments t_duration {F}.
Arguments s_age {F}. Arguments s_orgs {F}.
