(* Random construction: newGenomeRand (neat/genetics/genome.go) and NewPopulationRandom
   (neat/genetics/population.go), in program order of the draws on the global source.

   newGenomeRand(newId, in, out, n, maxHidden, recurrent, linkProb, opts):
     1. the connection matrix cm of (in+out+maxHidden)^2 booleans, each [rand.Float64() < linkProb];
     2. the dummy trait (id 1, eight zero parameters);
     3. input nodes 1..in (the last one is the bias; NullActivation), hidden nodes in+1..in+n with
        opts.RandomNodeActivationType() each (a draw only with >= 2 registered activators), output nodes
        firstOutput..totalNodes (default activation SigmoidSteepened);
     4. the col/row double loop over the matrix; a gene for cell [count] carries innovation number
        [count], weight RandSign()*Float64() (drawn in this order), mutation number = weight.
   Go [int] arithmetic is modelled in Z (no wrap-around at 2^63); Population.nextNodeId is an int32
   in Go and a Z here (as in Population.new_population). *)
From NeatModel Require Import Compat.
From NeatModel Require Import Res F64 GoRand Genome Options Mutate Population.

Definition NULL_ACTIVATION : Z := 17.              (* neat/math: NullActivation *)
Definition SIGMOID_STEEPENED : Z := 4.             (* neat/math: SigmoidSteepenedActivation, NewNetworkNode's default *)

(* the integers a, a+1, ..., a+m-1: the values of a Go loop variable *)
Fixpoint for_seq (a : Z) (m : nat) : list Z :=
  match m with
  | O => []
  | S m' => a :: for_seq (a + 1) m'
  end.
(* for i := a; i <= b; i++ *)
Definition for_range (a b : Z) : list Z := for_seq a (Z.to_nat (b - a + 1)).

(* for count := 0; count < matrixDim; count++ { cm[count] = rand.Float64() < linkProb } *)
Fixpoint draw_matrix (k : nat) (link_prob : float) : @M st (list bool) :=
  match k with
  | O => ret []
  | S k' =>
    let! f := r_float64 in
    let! r := draw_matrix k' link_prob in
    ret (PrimFloat.ltb f link_prob :: r)
  end.

(* neat.NewTrait(); Id = 1; Params = make([]float64, NumTraitParams) *)
Definition rand_trait : trait :=
  {| t_id := 1; t_params := [0%float; 0%float; 0%float; 0%float; 0%float; 0%float; 0%float; 0%float] |}.

(* network.NewSensorNode(i, i == in); Trait = newTrait *)
Definition rand_sensor (in_ i : Z) : node :=
  {| n_id := i; n_type := (if Z.eqb i in_ then BIAS else INPUT); n_act := NULL_ACTIVATION; n_trait := Some (t_id rand_trait) |}.

(* network.NewNNode(i, HiddenNeuron); ActivationType = opts.RandomNodeActivationType() (error => return) *)
Definition rand_hidden (o : options) (i : Z) : @M st node :=
  let! a := on_tape (tape_random_activation o) in
  ret {| n_id := i; n_type := HIDDEN; n_act := a; n_trait := Some (t_id rand_trait) |}.

(* network.NewNNode(i, OutputNeuron) *)
Definition rand_output (i : Z) : node :=
  {| n_id := i; n_type := OUTPUT; n_act := SIGMOID_STEEPENED; n_trait := Some (t_id rand_trait) |}.

(* for i := 0; i < len(gnome.Nodes) && (inNode == nil || outNode == nil); i++ {
     if nodeId == row { inNode = Nodes[i] }; if nodeId == col { outNode = Nodes[i] } } *)
Fixpoint find_nodes (ns : list node) (row col : Z) (inn outn : option node) : option node * option node :=
  match ns with
  | [] => (inn, outn)
  | x :: ns' =>
    match inn, outn with
    | Some _, Some _ => (inn, outn)
    | _, _ =>
      find_nodes ns' row col (if Z.eqb (n_id x) row then Some x else inn)
                             (if Z.eqb (n_id x) col then Some x else outn)
    end
  end.

(* the body of the inner loop for one matrix cell; [acc] is gnome.Genes.
   GoPanic 4: NewLinkWithTrait would be handed a nil node (never happens: see RandGenomeSpec.find_nodes_found) *)
Definition rand_cell (ns : list node) (in_ max_node first_output : Z) (recurrent : bool) (cm : list bool)
           (col row count : Z) (acc : list gene) : @M st (list gene) :=
  let! c := lift (idx cm count) in
  if c && Z.gtb col in_ &&
     (Z.leb col max_node || Z.geb col first_output) &&
     (Z.leb row max_node || Z.geb row first_output)
  then
    (* col > row: flagRecurrent = false; else flagRecurrent = true and the gene is made only if [recurrent] *)
    let flag_recurrent := negb (Z.gtb col row) in
    let create_gene := Z.gtb col row || recurrent in
    if create_gene then
      match find_nodes ns row col None None with
      | (Some a, Some b) =>
        let! sg := r_randsign in
        let! f := r_float64 in
        let weight := PrimFloat.mul sg f in
        ret (acc ++ [{| g_in := n_id a; g_out := n_id b; g_rec := flag_recurrent; g_w := weight;
                        g_trait := Some (t_id rand_trait); g_innov := count; g_mut := weight; g_en := true |}])
      | _ => fail_panic 4
      end
    else ret acc
  else ret acc.

(* for row := 1; row <= totalNodes; row++ { ...; count++ }: [k] iterations left *)
Fixpoint rand_row_loop (k : nat) (ns : list node) (in_ max_node first_output : Z) (recurrent : bool) (cm : list bool)
         (col row count : Z) (acc : list gene) : @M st (list gene * Z) :=
  match k with
  | O => ret (acc, count)
  | S k' =>
    let! acc' := rand_cell ns in_ max_node first_output recurrent cm col row count acc in
    rand_row_loop k' ns in_ max_node first_output recurrent cm col (row + 1) (count + 1) acc'
  end.

(* for col := 1; col <= totalNodes; col++ *)
Fixpoint rand_col_loop (k : nat) (total : Z) (ns : list node) (in_ max_node first_output : Z) (recurrent : bool)
         (cm : list bool) (col count : Z) (acc : list gene) : @M st (list gene) :=
  match k with
  | O => ret acc
  | S k' =>
    let! r := rand_row_loop (Z.to_nat total) ns in_ max_node first_output recurrent cm col 1 count acc in
    let '(acc', count') := r in
    rand_col_loop k' total ns in_ max_node first_output recurrent cm (col + 1) count' acc'
  end.

Definition new_genome_rand (o : options) (new_id in_ out n max_hidden : Z) (recurrent : bool) (link_prob : float)
  : @M st genome :=
  let total_nodes := in_ + out + max_hidden in
  let matrix_dim := total_nodes * total_nodes in
  let max_node := in_ + n in
  let first_output := total_nodes - out + 1 in
  let! cm := draw_matrix (Z.to_nat matrix_dim) link_prob in
  let inputs := map (rand_sensor in_) (for_range 1 in_) in
  let! hidden := mapM (rand_hidden o) (for_range (in_ + 1) (in_ + n)) in
  let outputs := map rand_output (for_range first_output total_nodes) in
  let ns := inputs ++ hidden ++ outputs in
  let! gs := rand_col_loop (Z.to_nat total_nodes) total_nodes ns in_ max_node first_output recurrent cm 1 0 [] in
  ret {| gid := new_id; traits := [rand_trait]; nodes := ns; genes := gs; modules := [] |}.

(* NewPopulationRandom: for count := 0; count < PopSize; count++ {
     gen := newGenomeRand(count, in, out, rand.Intn(maxHidden), maxHidden, recurrent, linkProb, opts)   -- Intn is drawn first
     org := NewOrganism(0.0, gen, 1) } *)
Fixpoint rand_orgs_loop (k : nat) (o : options) (in_ out max_hidden : Z) (recurrent : bool) (link_prob : float)
         (count : Z) (acc : list organism) : @M st (list organism) :=
  match k with
  | O => ret acc
  | S k' =>
    let! n := r_intn max_hidden in
    let! g := new_genome_rand o count in_ out n max_hidden recurrent link_prob in
    rand_orgs_loop k' o in_ out max_hidden recurrent link_prob (count + 1) (acc ++ [new_baby count g 1])
  end.

(* error 76: wrong population size.  nextNodeId = in+out+maxHidden+1, nextInnovNum = (in+out+maxHidden)^2+1 *)
Definition new_population_random (o : options) (in_ out max_hidden : Z) (recurrent : bool) (link_prob : float)
  : @M st population :=
  if Z.leb (o_pop_size o) 0 then fail_err 76 else
  let! orgs := rand_orgs_loop (Z.to_nat (o_pop_size o)) o in_ out max_hidden recurrent link_prob 0 [] in
  let total := in_ + out + max_hidden in
  exec e_set_counters (total * total + 1) (total + 1) ;;
  let p := {| p_species := []; p_detached := []; p_orgs := map o_key orgs; p_heap := orgs; p_last_species := 0;
              p_highest := 0%float; p_epochs_highest := 0; p_next_key := o_pop_size o |} in
  lift (speciate o p (map o_key orgs)).
