(* Model of the fast network solver: neat/network/fast_network.go (NewFastModularNetworkSolver,
   ForwardSteps/forwardStep, RecursiveSteps/recursiveActivateNode, Relax, Flush, LoadSensors,
   ReadOutputs) and of its construction from a Network: network.go Network.FastNetworkSolver,
   processList, processIncomingConnections.                                          (C12, C13)

   * Node pointers are positions in allNodes (as in Net.v); the map neuronLookup id -> index
     becomes an association list position -> index in which a later entry shadows an earlier one
     (Go map assignment).  Node ids are assumed pairwise distinct.
   * reverseAdjacentList[t] and adjacentMatrix[s][t], which the constructor fills by one loop over
     the connections, are given per entry as the same loop restricted to that entry: the sources of
     the connections into t in order of FIRST occurrence (a source that reverseAdjacentList[t]
     already holds is not appended again), and the weights of the connections s -> t: the first one
     is assigned, every later (parallel) one is added to the entry, in order (0 if none).
   * Modules (control nodes) are not modelled: FastModularNetworkSolver.modules is empty.
   * [new_fast] refuses (GoPanic) parameter sets whose indices are out of range; the real
     constructor or the first sweep would panic on those.  Solvers built by FastNetworkSolver
     from a network never are. *)
From NeatModel Require Import Res Net.
From Coq Require Import Arith.
Open Scope Z_scope.

Section FastModel.
Variable F : Type.
Variable NF : num F.
Variable act : Z -> F -> res F.

Record flink := mkFlink { fl_src : nat; fl_tgt : nat; fl_w : F }.   (* SourceIndex, TargetIndex, Weight *)

Record fnet := mkFnet {
  f_bias : nat;            (* biasNeuronCount *)
  f_in : nat;              (* inputNeuronCount *)
  f_out : nat;             (* outputNeuronCount *)
  f_total : nat;           (* totalNeuronCount *)
  f_acts : list Z;         (* activationFunctions *)
  f_conns : list flink;    (* connections *)
  f_biases : list F        (* biasList *)
}.

Definition f_sensor (fn : fnet) : nat := (f_bias fn + f_in fn)%nat.   (* sensorNeuronCount *)

(* ---------- Network.FastNetworkSolver ---------- *)
Definition positions_with (n : net F) (p : role -> bool) : list nat :=
  filter (fun i => p (role_at n i)) (seq 0 (nnodes n)).

Fixpoint find_idx (lookup : list (nat * nat)) (p : nat) : option nat :=
  match lookup with
  | [] => None
  | (q, i) :: rest => if (q =? p)%nat then Some i else find_idx rest p
  end.

(* processList: activations[startIndex] = ne.ActivationType; neuronLookup[ne.Id] = startIndex; startIndex++ *)
Fixpoint process_list (n : net F) (total : nat) (start : nat) (l : list nat) (acts : list Z)
         (lookup : list (nat * nat)) : res (nat * list Z * list (nat * nat)) :=
  match l with
  | [] => Ok (start, acts, lookup)
  | p :: rest =>
    if (start <? total)%nat
    then process_list n total (S start) rest (upd start (nd_act (node_at n p)) acts) ((p, start) :: lookup)
    else GoPanic PanicIndex
  end.

(* inner loop of processIncomingConnections over ne.Incoming *)
Fixpoint proc_links (n : net F) (lookup : list (nat * nat)) (tgt : nat) (ls : list (link F))
         (biases : list F) (conns : list flink) : res (list F * list flink) :=
  match ls with
  | [] => Ok (biases, conns)
  | l :: rest =>
    match find_idx lookup (l_src l) with
    | Some src =>
      if is_bias (role_at n (l_src l))
      then proc_links n lookup tgt rest (upd tgt (fadd NF (getF NF biases tgt) (l_w l)) biases) conns
      else proc_links n lookup tgt rest biases (conns ++ [mkFlink src tgt (l_w l)])
    | None => GoErr ErrLookupSource
    end
  end.

(* processIncomingConnections (the three calls share [biases]; the results are appended) *)
Fixpoint proc_incoming (n : net F) (lookup : list (nat * nat)) (nl : list nat)
         (biases : list F) (conns : list flink) : res (list F * list flink) :=
  match nl with
  | [] => Ok (biases, conns)
  | p :: rest =>
    match find_idx lookup p with
    | Some tgt =>
      match proc_links n lookup tgt (nd_in (node_at n p)) biases conns with
      | Ok (b', c') => proc_incoming n lookup rest b' c'
      | e => e
      end
    | None => GoErr ErrLookupTarget
    end
  end.

(* NewFastModularNetworkSolver: range checks only (see header) *)
Definition new_fast (b i o t : nat) (acts : list Z) (conns : list flink) (biases : list F) : res fnet :=
  if ((b + i + o <=? t) && (length acts =? t) && (length biases =? t)
      && forallb (fun c => (fl_src c <? t) && (fl_tgt c <? t)) conns)%nat
  then Ok (mkFnet b i o t acts conns biases)
  else GoPanic PanicIndex.

Definition fast_of_net (n : net F) : res fnet :=
  let total := nnodes n in
  let biasL := positions_with n is_bias in
  let inL := positions_with n is_input in
  let hidL := positions_with n is_hidden in
  match process_list n total 0 biasL (repeat 0 total) [] with
  | Ok (i1, a1, k1) =>
  match process_list n total i1 inL a1 k1 with
  | Ok (i2, a2, k2) =>
  match process_list n total i2 (outputs n) a2 k2 with
  | Ok (i3, a3, k3) =>
  match process_list n total i3 hidL a3 k3 with
  | Ok (_, a4, k4) =>
  match proc_incoming n k4 inL (repeat (fzero NF) total) [] with
  | Ok (b1, c1) =>
  match proc_incoming n k4 hidL b1 c1 with
  | Ok (b2, c2) =>
  match proc_incoming n k4 (outputs n) b2 c2 with
  | Ok (b3, c3) => new_fast (length biasL) (length inL) (length (outputs n)) total a4 c3 b3
  | e => res_cast e (GoPanic 0) end
  | e => res_cast e (GoPanic 0) end
  | e => res_cast e (GoPanic 0) end
  | e => res_cast e (GoPanic 0) end
  | e => res_cast e (GoPanic 0) end
  | e => res_cast e (GoPanic 0) end
  | e => res_cast e (GoPanic 0) end.

(* reverseAdjacentList[t] and adjacentMatrix[s][t]; the constructor's loop body is
     if containsIndex(reverseAdjacentList[crt], crs) { adjacentMatrix[crs][crt] += Weight; continue }
     adjacentList[crs] = append(.., crt); reverseAdjacentList[crt] = append(.., crs); adjacentMatrix[crs][crt] = Weight *)
Definition contains_index (l : list nat) (i : nat) : bool := existsb (fun v => (v =? i)%nat) l.

(* one iteration as seen by reverseAdjacentList[t] *)
Definition radj_step (t : nat) (acc : list nat) (c : flink) : list nat :=
  if (fl_tgt c =? t)%nat then (if contains_index acc (fl_src c) then acc else acc ++ [fl_src c]) else acc.
Definition radj (fn : fnet) (t : nat) : list nat := fold_left (radj_step t) (f_conns fn) [].

(* one iteration as seen by adjacentMatrix[s][t]; the flag says whether reverseAdjacentList[t] holds s already,
   that is whether a connection s -> t came before (the list gets s exactly at the first one) *)
Definition adj_step (s t : nat) (st : bool * F) (c : flink) : bool * F :=
  if ((fl_src c =? s) && (fl_tgt c =? t))%nat
  then (true, if fst st then fadd NF (snd st) (fl_w c) else fl_w c)
  else st.
Definition adj_w (fn : fnet) (s t : nat) : F :=
  snd (fold_left (adj_step s t) (f_conns fn) (false, fzero NF)).

(* ---------- mutable state: neuronSignals, neuronSignalsBeingProcessed, activated, inActivation,
   lastActivation ---------- *)
Record fstate := mkFS {
  fs_sig : list F; fs_bp : list F; fs_done : list bool; fs_inact : list bool; fs_last : list F }.

Definition fast_init (fn : fnet) : fstate :=
  let t := f_total fn in
  mkFS (repeat (fone NF) (f_bias fn) ++ repeat (fzero NF) (t - f_bias fn)) (repeat (fzero NF) t)
       (repeat false t) (repeat false t) (repeat (fzero NF) t).

Definition set_sig (s : fstate) (i : nat) (v : F) : fstate :=
  mkFS (upd i v (fs_sig s)) (fs_bp s) (fs_done s) (fs_inact s) (fs_last s).
Definition set_bp (s : fstate) (i : nat) (v : F) : fstate :=
  mkFS (fs_sig s) (upd i v (fs_bp s)) (fs_done s) (fs_inact s) (fs_last s).
Definition set_done (s : fstate) (i : nat) (v : bool) : fstate :=
  mkFS (fs_sig s) (fs_bp s) (upd i v (fs_done s)) (fs_inact s) (fs_last s).
Definition set_inact (s : fstate) (i : nat) (v : bool) : fstate :=
  mkFS (fs_sig s) (fs_bp s) (fs_done s) (upd i v (fs_inact s)) (fs_last s).
Definition set_last (s : fstate) (i : nat) (v : F) : fstate :=
  mkFS (fs_sig s) (fs_bp s) (fs_done s) (fs_inact s) (upd i v (fs_last s)).

Definition sigF (s : fstate) (i : nat) : F := getF NF (fs_sig s) i.
Definition bpF (s : fstate) (i : nat) : F := getF NF (fs_bp s) i.

(* ----- forwardStep ----- *)
(* beingProcessed[conn.TargetIndex] += signals[conn.SourceIndex] * conn.Weight *)
Definition conn_step (s : fstate) (c : flink) : fstate :=
  set_bp s (fl_tgt c) (fadd NF (bpF s (fl_tgt c)) (fmul NF (sigF s (fl_src c)) (fl_w c))).

Definition neuron_range (fn : fnet) : list nat := seq (f_sensor fn) (f_total fn - f_sensor fn).

(* activation loop; on error ActivateByType hands back -Inf, which is stored before returning *)
Fixpoint fs_activate (fn : fnet) (is : list nat) (s : fstate) : fstate * res bool :=
  match is with
  | [] => (s, Ok true)
  | i :: rest =>
    let signal := bpF s i in
    let signal := if (0 <? f_bias fn)%nat then fadd NF signal (getF NF (f_biases fn) i) else signal in
    match act (nth i (f_acts fn) 0) signal with
    | Ok v => fs_activate fn rest (set_bp s i v)
    | e => (set_bp s i (fneginf NF), res_cast e (Ok true))
    end
  end.

(* maxAllowedSignalDelta <= 0 : copy and clear *)
Definition commit_one (s : fstate) (i : nat) : fstate :=
  set_bp (set_sig s i (bpF s i)) i (fzero NF).

Fixpoint fs_commit (is : list nat) (s : fstate) : fstate :=
  match is with
  | [] => s
  | i :: rest => fs_commit rest (commit_one s i)
  end.

(* otherwise: isRelaxed = isRelaxed && !(|signals[i] - beingProcessed[i]| > delta); copy and clear *)
Fixpoint fs_commit_delta (delta : F) (is : list nat) (relaxed : bool) (s : fstate) : fstate * bool :=
  match is with
  | [] => (s, relaxed)
  | i :: rest =>
    let relaxed' := relaxed && negb (fltb NF delta (fabs_ NF (fsub NF (sigF s i) (bpF s i)))) in
    fs_commit_delta delta rest relaxed' (commit_one s i)
  end.

Definition forward_step (fn : fnet) (delta : F) (s : fstate) : fstate * res bool :=
  let s1 := fold_left conn_step (f_conns fn) s in
  match fs_activate fn (neuron_range fn) s1 with
  | (s2, Ok _) =>
    if fleb NF delta (fzero NF) then (fs_commit (neuron_range fn) s2, Ok true)
    else let '(s3, r) := fs_commit_delta delta (neuron_range fn) true s2 in (s3, Ok r)
  | (s2, e) => (s2, e)
  end.

(* ForwardSteps: `for i := 0; i < steps; i++ { res, err = s.forwardStep(0) ... }; return res, nil` *)
Fixpoint ff_loop (fn : fnet) (iters : nat) (last : bool) (s : fstate) : fstate * res bool :=
  match iters with
  | O => (s, Ok last)
  | S it =>
    match forward_step fn (fzero NF) s with
    | (s', Ok r) => ff_loop fn it r s'
    | (s', e) => (s', e)
    end
  end.

Definition fast_forward (fn : fnet) (steps : Z) (s : fstate) : fstate * res bool :=
  ff_loop fn (Z.to_nat steps) false s.

(* Relax *)
Fixpoint relax_loop (fn : fnet) (iters : nat) (delta : F) (last : bool) (s : fstate) : fstate * res bool :=
  match iters with
  | O => (s, Ok last)
  | S it =>
    match forward_step fn delta s with
    | (s', Ok true) => (s', Ok true)
    | (s', Ok false) => relax_loop fn it delta false s'
    | (s', e) => (s', e)
    end
  end.

Definition fast_relax (fn : fnet) (maxSteps : Z) (delta : F) (s : fstate) : fstate * res bool :=
  relax_loop fn (Z.to_nat maxSteps) delta false s.

(* ----- RecursiveSteps ----- *)
Definition rec_init_one (fn : fnet) (s : fstate) (i : nat) : fstate :=
  let s1 := set_inact (set_done s i (i <? f_sensor fn)%nat) i false in
  if (f_sensor fn <=? i)%nat then set_last s1 i (sigF s1 i) else s1.

Definition rec_init (fn : fnet) (s : fstate) : fstate :=
  fold_left (rec_init_one fn) (seq 0 (f_total fn)) s.

(* the loop over reverseAdjacentList[currentNode]; [call] is the recursive invocation *)
Fixpoint rec_loop (fn : fnet) (call : fstate -> nat -> fstate * res bool) (cur : nat) (adjs : list nat)
         (s : fstate) : fstate * res bool :=
  match adjs with
  | [] => (s, Ok true)
  | a :: rest =>
    if getB (fs_inact s) a then
      rec_loop fn call cur rest
        (set_bp s cur (fadd NF (bpF s cur) (fmul NF (getF NF (fs_last s) a) (adj_w fn a cur))))
    else
      let '(s1, r) := if negb (getB (fs_done s) a) then call s a else (s, Ok true) in
      match r with
      | Ok true =>
        rec_loop fn call cur rest
          (set_bp s1 cur (fadd NF (bpF s1 cur) (fmul NF (sigF s1 a) (adj_w fn a cur))))
      | Ok false => (s1, GoErr ErrRecursiveActivateFailed)
      | e => (s1, e)
      end
  end.

(* recursiveActivateNode; the nesting depth is at most the number of neurons (every nested call marks
   a new node inActivation), [fuel] bounds it *)
Fixpoint rec_node (fn : fnet) (fuel : nat) (s : fstate) (cur : nat) : fstate * res bool :=
  match fuel with
  | O => (s, OutOfFuel)
  | S f =>
    if getB (fs_done s) cur then (set_inact s cur false, Ok true)
    else
      let s1 := set_bp (set_inact s cur true) cur (fzero NF) in
      match rec_loop fn (rec_node fn f) cur (radj fn cur) s1 with
      | (s2, Ok _) =>
        let s3 := if (0 <? f_bias fn)%nat
                  then set_bp s2 cur (fadd NF (bpF s2 cur) (getF NF (f_biases fn) cur)) else s2 in
        let s4 := set_inact (set_done s3 cur true) cur false in
        (* the activation is stored and the scratch sum cleared (a following forward step starts from zero) *)
        match act (nth cur (f_acts fn) 0) (bpF s4 cur) with
        | Ok v => (set_bp (set_sig s4 cur v) cur (fzero NF), Ok true)
        | e => (set_bp (set_sig s4 cur (fneginf NF)) cur (fzero NF), res_cast e (Ok true))
        end
      | (s2, e) => (s2, e)
      end
  end.

Fixpoint rec_outputs (fn : fnet) (is : list nat) (last : bool) (s : fstate) : fstate * res bool :=
  match is with
  | [] => (s, Ok last)
  | i :: rest =>
    match rec_node fn (S (f_total fn)) s (f_sensor fn + i)%nat with
    | (s', Ok true) => rec_outputs fn rest true s'
    | (s', Ok false) => (s', GoErr ErrRecursiveActivateFailed)
    | (s', e) => (s', e)
    end
  end.

Definition fast_recursive (fn : fnet) (s : fstate) : fstate * res bool :=
  rec_outputs fn (seq 0 (f_out fn)) false (rec_init fn s).

(* ----- LoadSensors, ReadOutputs, Flush ----- *)
Definition fast_load (fn : fnet) (x : list F) (s : fstate) : fstate * res bool :=
  if (length x =? f_in fn)%nat then
    (fold_left (fun s i => set_sig s (f_bias fn + i)%nat (getF NF x i)) (seq 0 (f_in fn)) s, Ok true)
  else (s, GoErr ErrNetUnsupportedSensorsArraySize).

Definition fast_outputs (fn : fnet) (s : fstate) : list F := map (sigF s) (seq (f_sensor fn) (f_out fn)).

(* Flush: `for i := biasNeuronCount; i < totalNeuronCount; i++ { neuronSignals[i] = 0 }`, then
   `for i := range neuronSignalsBeingProcessed { neuronSignalsBeingProcessed[i] = 0 }`: the scratch buffer holds no
   constants and is cleared completely, the bias slots included (a module may have written one) *)
Definition flush_sig_one (s : fstate) (i : nat) : fstate := set_sig s i (fzero NF).
Definition flush_bp_one (s : fstate) (i : nat) : fstate := set_bp s i (fzero NF).

Definition fast_flush (fn : fnet) (s : fstate) : fstate * res bool :=
  let s1 := fold_left flush_sig_one (seq (f_bias fn) (f_total fn - f_bias fn)) s in
  (fold_left flush_bp_one (seq 0 (length (fs_bp s1))) s1, Ok true).

Definition fast_step (fn : fnet) (s : fstate) (o : op F) : fstate * res bool :=
  match o with
  | OLoad x => fast_load fn x s
  | OForward k => fast_forward fn k s
  | ORecursive => fast_recursive fn s
  | ORelax ms d => fast_relax fn ms d s
  | OFlush => fast_flush fn s
  end.

Definition fast_run (fn : fnet) (s : fstate) (h : list (op F)) : fstate :=
  fold_left (fun s o => fst (fast_step fn s o)) h s.

Fixpoint fast_trace (fn : fnet) (s : fstate) (h : list (op F)) : list (res bool * list F) :=
  match h with
  | [] => []
  | o :: h' =>
    let '(s', r) := fast_step fn s o in
    (r, fast_outputs fn s') :: fast_trace fn s' h'
  end.

End FastModel.

Arguments mkFlink {F}. Arguments fl_src {F}. Arguments fl_tgt {F}. Arguments fl_w {F}.
Arguments mkFnet {F}. Arguments f_bias {F}. Arguments f_in {F}. Arguments f_out {F}. Arguments f_total {F}.
Arguments f_acts {F}. Arguments f_conns {F}. Arguments f_biases {F}. Arguments f_sensor {F}.
Arguments mkFS {F}. Arguments fs_sig {F}. Arguments fs_bp {F}. Arguments fs_done {F}. Arguments fs_inact {F}.
Arguments fs_last {F}.
Arguments positions_with {F}.
Arguments process_list {F}.
Arguments proc_links {F}.
Arguments proc_incoming {F}.
Arguments new_fast {F}.
Arguments fast_of_net {F}.
Arguments radj_step {F}.
Arguments radj {F}.
Arguments adj_step {F}.
Arguments adj_w {F}.
Arguments fast_init {F}.
Arguments set_sig {F}.
Arguments set_bp {F}.
Arguments set_done {F}.
Arguments set_inact {F}.
Arguments set_last {F}.
Arguments sigF {F}.
Arguments bpF {F}.
Arguments conn_step {F}.
Arguments neuron_range {F}.
Arguments fs_activate {F}.
Arguments commit_one {F}.
Arguments fs_commit {F}.
Arguments fs_commit_delta {F}.
Arguments forward_step {F}.
Arguments ff_loop {F}.
Arguments fast_forward {F}.
Arguments relax_loop {F}.
Arguments fast_relax {F}.
Arguments rec_init_one {F}.
Arguments rec_init {F}.
Arguments rec_loop {F}.
Arguments rec_node {F}.
Arguments rec_outputs {F}.
Arguments fast_recursive {F}.
Arguments fast_load {F}.
Arguments fast_outputs {F}.
Arguments flush_sig_one {F}.
Arguments flush_bp_one {F}.
Arguments fast_flush {F}.
Arguments fast_step {F}.
Arguments fast_run {F}.
Arguments fast_trace {F}.
