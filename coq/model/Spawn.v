(* the per-organism part of Population.spawn (neat/genetics/population.go:147-160):
   duplicate the start genome under the organism's index, then perturb all weights *)
From NeatModel Require Import Res F64 GoRand Genome Options Dup Mutate.

Definition spawn_genome (g : genome) (count : Z) : @M st genome :=
  let! d := lift (duplicate g count) in
  let! r := mutate_link_weights 1%float 1%float true d in
  ret (fst r).
