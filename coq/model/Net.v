(* Model of the standard network solver: neat/network/network.go (LoadSensors, ActivateSteps,
   OutputIsOff, ForwardSteps, RecursiveSteps, Relax, Flush, ReadOutputs, MaxActivationDepthWithCap)
   and neat/network/nnode.go (SensorLoad, setActivation, saveActivations, GetActiveOut,
   GetActiveOutTd, Flushback, FlushbackCheck, Depth), common.go (ActivateNode).      (C12, C13)

   Conventions.
   * Node pointers become POSITIONS in Network.allNodes (DESIGN 3.1): [inputs], [outputs] and the
     source of a link are positions.  A network whose lists mention a node that is not in allNodes
     cannot be written down; [net_ok] says that every position is in range.
   * The per-node mutable fields are kept as parallel lists (one list per field).
   * Everything is polymorphic in a number structure [num F] and in the activation
     [act : code -> F -> res F] ([GoErr] = "unknown neuron activation type", [BadOracle] = the
     correspondence table has no entry).
   * Not modelled: control nodes / modules (Network.controlNodes is empty), the [visited] mark of
     NNode (with cap 0, [Depth] has no error path and always restores it, so it is false between any
     two operations), Link.IsRecurrent (no solver reads it), int32 overflow of ActivationsCount. *)
From NeatModel Require Import Res.
From Coq Require Import Arith.
Open Scope Z_scope.

(* ---------- numbers ---------- *)
Record num (F : Type) : Type := mkNum {
  fzero : F; fone : F; fneginf : F;
  fadd : F -> F -> F; fsub : F -> F -> F; fmul : F -> F -> F; fabs_ : F -> F;
  fltb : F -> F -> bool;   (* x < y *)
  fleb : F -> F -> bool    (* x <= y *)
}.
Arguments fzero {F}. Arguments fone {F}. Arguments fneginf {F}. Arguments fadd {F}. Arguments fsub {F}.
Arguments fmul {F}. Arguments fabs_ {F}. Arguments fltb {F}. Arguments fleb {F}.

(* ---------- arrays as lists ---------- *)
Fixpoint upd {A} (i : nat) (v : A) (l : list A) {struct l} : list A :=
  match l with
  | [] => []
  | x :: t => match i with O => v :: t | S i' => x :: upd i' v t end
  end.

(* error / panic codes *)
Definition ErrNetExceededMaxActivationAttempts : Z := 1.
Definition ErrNetUnsupportedSensorsArraySize : Z := 2.
Definition ErrZeroActivationStepsRequested : Z := 4.
Definition ErrUnknownActivation : Z := 5.
Definition ErrRelaxNotImplemented : Z := 6.
Definition ErrRecursiveActivateFailed : Z := 7.
Definition ErrLookupTarget : Z := 8.
Definition ErrLookupSource : Z := 9.
Definition ErrFlushCheck : Z := 10.
Definition PanicIndex : Z := 1.

Definition res_cast {A B} (r : res A) (dflt : res B) : res B :=
  match r with
  | Ok _ => dflt
  | GoErr c => GoErr c
  | GoPanic c => GoPanic c
  | OutOfTape => OutOfTape
  | OutOfFuel => OutOfFuel
  | BadOracle => BadOracle
  end.

(* ---------- static structure ---------- *)
Inductive role := Hidden | Input | Output | Bias.     (* HiddenNeuron=0 InputNeuron=1 OutputNeuron=2 BiasNeuron=3 *)

Definition role_of_Z (z : Z) : role :=
  match z with 1 => Input | 2 => Output | 3 => Bias | _ => Hidden end.

Definition is_sensor (r : role) : bool := match r with Input | Bias => true | _ => false end.
Definition is_neuron (r : role) : bool := match r with Hidden | Output => true | _ => false end.
Definition is_bias (r : role) : bool := match r with Bias => true | _ => false end.
Definition is_input (r : role) : bool := match r with Input => true | _ => false end.
Definition is_hidden (r : role) : bool := match r with Hidden => true | _ => false end.
Definition is_output (r : role) : bool := match r with Output => true | _ => false end.

Section NetModel.
Variable F : Type.
Variable NF : num F.
Variable act : Z -> F -> res F.

Record link := mkLink { l_src : nat; l_w : F; l_td : bool }.               (* InNode, ConnectionWeight, IsTimeDelayed *)
Record node := mkNode { nd_role : role; nd_act : Z; nd_in : list link }.  (* NeuronType, ActivationType, Incoming *)
Record net := mkNet { nodes : list node; inputs : list nat; outputs : list nat }.

Definition dummy_node : node := mkNode Hidden 0 [].
Definition node_at (n : net) (i : nat) : node := nth i (nodes n) dummy_node.
Definition role_at (n : net) (i : nat) : role := nd_role (node_at n i).
Definition nnodes (n : net) : nat := length (nodes n).

Definition net_ok (n : net) : bool :=
  forallb (fun nd => forallb (fun l => l_src l <? nnodes n)%nat (nd_in nd)) (nodes n)
  && forallb (fun i => i <? nnodes n)%nat (inputs n)
  && forallb (fun i => i <? nnodes n)%nat (outputs n).

(* ---------- mutable state: Activation, ActivationsCount, ActivationSum, lastActivation,
   lastActivation2, isActive of every node ---------- *)
Record sstate := mkS {
  s_act : list F; s_cnt : list Z; s_sum : list F; s_l1 : list F; s_l2 : list F; s_on : list bool }.

Definition getF (l : list F) (i : nat) : F := nth i l (fzero NF).
Definition getZ (l : list Z) (i : nat) : Z := nth i l 0.
Definition getB (l : list bool) (i : nat) : bool := nth i l false.

Definition std_init (n : net) : sstate :=
  let k := nnodes n in
  mkS (repeat (fzero NF) k) (repeat 0 k) (repeat (fzero NF) k) (repeat (fzero NF) k) (repeat (fzero NF) k)
      (repeat false k).

(* NNode.GetActiveOut / GetActiveOutTd *)
Definition active_out (s : sstate) (i : nat) : F :=
  if 0 <? getZ (s_cnt s) i then getF (s_act s) i else fzero NF.
Definition active_out_td (s : sstate) (i : nat) : F :=
  if 1 <? getZ (s_cnt s) i then getF (s_l1 s) i else fzero NF.

(* NNode.saveActivations *)
Definition save_activations (s : sstate) (i : nat) : sstate :=
  let l2' := upd i (getF (s_l1 s) i) (s_l2 s) in
  let l1' := upd i (getF (s_act s) i) (s_l1 s) in
  mkS (s_act s) (s_cnt s) (s_sum s) l1' l2' (s_on s).

(* NNode.setActivation: save; Activation = v; ActivationsCount++ *)
Definition set_activation (s : sstate) (i : nat) (v : F) : sstate :=
  let s1 := save_activations s i in
  mkS (upd i v (s_act s1)) (upd i (getZ (s_cnt s1) i + 1) (s_cnt s1)) (s_sum s1) (s_l1 s1) (s_l2 s1) (s_on s1).

(* NNode.SensorLoad: only sensors; save; ActivationsCount++; Activation = load *)
Definition sensor_load (n : net) (s : sstate) (i : nat) (v : F) : sstate :=
  if is_sensor (role_at n i) then set_activation s i v else s.

(* Network.LoadSensors, branch len(sensors) == len(n.inputs): every sensor takes the next value *)
Fixpoint load_full (n : net) (ins : list nat) (sensors : list F) (counter : nat) (s : sstate)
  : sstate * res bool :=
  match ins with
  | [] => (s, Ok true)
  | i :: rest =>
    if is_sensor (role_at n i) then
      match nth_error sensors counter with
      | Some v => load_full n rest sensors (S counter) (sensor_load n s i v)
      | None => (s, GoPanic PanicIndex)
      end
    else load_full n rest sensors counter s
  end.

(* other branch: InputNeuron nodes take the next value, every other node SensorLoad(1.0) *)
Fixpoint load_short (n : net) (ins : list nat) (sensors : list F) (counter : nat) (s : sstate)
  : sstate * res bool :=
  match ins with
  | [] => (s, Ok true)
  | i :: rest =>
    if is_input (role_at n i) then
      match nth_error sensors counter with
      | Some v => load_short n rest sensors (S counter) (sensor_load n s i v)
      | None => (s, GoPanic PanicIndex)
      end
    else load_short n rest sensors counter (sensor_load n s i (fone NF))
  end.

Definition std_load (n : net) (sensors : list F) (s : sstate) : sstate * res bool :=
  if (length sensors =? length (inputs n))%nat
  then load_full n (inputs n) sensors 0 s
  else load_short n (inputs n) sensors 0 s.

(* Network.ReadOutputs *)
Definition std_outputs (n : net) (s : sstate) : list F := map (getF (s_act s)) (outputs n).

(* Network.OutputIsOff *)
Definition output_is_off (n : net) (s : sstate) : bool :=
  existsb (fun o => getZ (s_cnt s) o =? 0) (outputs n).

(* ----- ActivateSteps, first inner loop: sums and the in-place isActive wave ----- *)
Definition set_on (s : sstate) (i : nat) : sstate :=
  mkS (s_act s) (s_cnt s) (s_sum s) (s_l1 s) (s_l2 s) (upd i true (s_on s)).
Definition set_sum (s : sstate) (i : nat) (v : F) : sstate :=
  mkS (s_act s) (s_cnt s) (upd i v (s_sum s)) (s_l1 s) (s_l2 s) (s_on s).
Definition add_sum (s : sstate) (i : nat) (a : F) : sstate :=
  set_sum s i (fadd NF (getF (s_sum s) i) a).

(* body of `for _, link := range np.Incoming` for the node at position i *)
Definition link_step (n : net) (i : nat) (s : sstate) (l : link) : sstate :=
  if negb (l_td l) then
    let addAmount := fmul NF (l_w l) (active_out s (l_src l)) in
    let s1 := if getB (s_on s) (l_src l) || is_sensor (role_at n (l_src l)) then set_on s i else s in
    add_sum s1 i addAmount
  else
    add_sum s i (fmul NF (l_w l) (active_out_td s (l_src l))).

(* body of the first `for _, np := range n.allNodes` *)
Definition sum_node (n : net) (s : sstate) (i : nat) : sstate :=
  if is_neuron (role_at n i)
  then fold_left (link_step n i) (nd_in (node_at n i)) (set_sum s i (fzero NF))
  else s.

Definition phase1 (n : net) (s : sstate) : sstate :=
  fold_left (sum_node n) (seq 0 (nnodes n)) s.

(* ----- second inner loop: ActivateNode on every active neuron; an activation error aborts ----- *)
Definition activate_node (n : net) (s : sstate) (i : nat) : sstate * res bool :=
  match act (nd_act (node_at n i)) (getF (s_sum s) i) with
  | Ok v => (set_activation s i v, Ok true)
  | e => (s, res_cast e (Ok true))
  end.

Fixpoint phase2 (n : net) (is : list nat) (s : sstate) : sstate * res bool :=
  match is with
  | [] => (s, Ok true)
  | i :: rest =>
    if is_neuron (role_at n i) && getB (s_on s) i then
      match activate_node n s i with
      | (s', Ok _) => phase2 n rest s'
      | (s', e) => (s', e)
      end
    else phase2 n rest s
  end.

(* one pass of the body of the `for n.OutputIsOff() || !oneTime` loop *)
Definition sweep (n : net) (s : sstate) : sstate * res bool :=
  phase2 n (seq 0 (nnodes n)) (phase1 n s).

(* the loop itself; abortCount increases by one per pass and the loop leaves with an error as soon as
   abortCount >= maxSteps, so max(maxSteps,0)+1 units of fuel always suffice *)
Fixpoint activate_loop (n : net) (fuel : nat) (maxSteps abortCount : Z) (oneTime : bool) (s : sstate)
  : sstate * res bool :=
  match fuel with
  | O => (s, OutOfFuel)
  | S f =>
    if output_is_off n s || negb oneTime then
      if abortCount >=? maxSteps then (s, GoErr ErrNetExceededMaxActivationAttempts)
      else
        match sweep n s with
        | (s', Ok _) => activate_loop n f maxSteps (abortCount + 1) true s'
        | (s', e) => (s', e)
        end
    else (s, Ok true)
  end.

(* Network.ActivateSteps *)
Definition activate_steps (n : net) (maxSteps : Z) (s : sstate) : sstate * res bool :=
  if maxSteps =? 0 then (s, GoErr ErrZeroActivationStepsRequested)
  else activate_loop n (S (Z.to_nat maxSteps)) maxSteps 0 false s.

(* Network.ForwardSteps: `for i := 0; i < steps; i++ { res, err = n.ActivateSteps(steps) ... }` *)
Fixpoint forward_loop (n : net) (iters : nat) (steps : Z) (last : bool) (s : sstate) : sstate * res bool :=
  match iters with
  | O => (s, Ok last)
  | S it =>
    match activate_steps n steps s with
    | (s', Ok r) => forward_loop n it steps r s'
    | (s', e) => (s', e)
    end
  end.

Definition std_forward (n : net) (steps : Z) (s : sstate) : sstate * res bool :=
  if steps =? 0 then (s, GoErr ErrZeroActivationStepsRequested)
  else forward_loop n (Z.to_nat steps) steps false s.

(* ----- NNode.Depth(d, 0) and Network.MaxActivationDepthWithCap(0) -----
   [visited] is the set of nodes whose mark is currently set (the recursion path) *)
Fixpoint depth_f (n : net) (fuel : nat) (visited : list nat) (i : nat) (d : Z) : res Z :=
  match fuel with
  | O => OutOfFuel
  | S f =>
    if is_sensor (role_at n i) then Ok d
    else
      let visited' := i :: visited in
      (fix loop (ls : list link) (mx : Z) : res Z :=
         match ls with
         | [] => Ok mx
         | l :: rest =>
           if existsb (Nat.eqb (l_src l)) visited' then loop rest mx
           else
             match depth_f n f visited' (l_src l) (d + 1) with
             | Ok c => loop rest (if c >? mx then c else mx)
             | e => e
             end
         end) (nd_in (node_at n i)) d
  end.

Definition max_depth (n : net) : res Z :=
  if (nnodes n =? length (inputs n) + length (outputs n))%nat then Ok 1
  else
    (fix loop (os : list nat) (mx : Z) : res Z :=
       match os with
       | [] => Ok mx
       | o :: rest =>
         match depth_f n (S (nnodes n)) [] o 0 with
         | Ok c => loop rest (if c >? mx then c else mx)
         | e => e
         end
       end) (outputs n) 0.

(* Network.RecursiveSteps *)
Definition std_recursive (n : net) (s : sstate) : sstate * res bool :=
  match max_depth n with
  | Ok d => std_forward n d s
  | e => (s, res_cast e (Ok false))
  end.

(* Network.Relax *)
Definition std_relax (n : net) (maxSteps : Z) (delta : F) (s : sstate) : sstate * res bool :=
  (s, GoErr ErrRelaxNotImplemented).

(* NNode.Flushback (visited not modelled) and FlushbackCheck *)
Definition flushback (s : sstate) (i : nat) : sstate :=
  mkS (upd i (fzero NF) (s_act s)) (upd i 0 (s_cnt s)) (s_sum s) (upd i (fzero NF) (s_l1 s))
      (upd i (fzero NF) (s_l2 s)) (upd i false (s_on s)).

Definition flush_check_fails (s : sstate) (i : nat) : bool :=
  (0 <? getZ (s_cnt s) i) || fltb NF (fzero NF) (getF (s_act s) i)
  || fltb NF (fzero NF) (getF (s_l1 s) i) || fltb NF (fzero NF) (getF (s_l2 s) i).

(* Network.Flush *)
Fixpoint flush_loop (is : list nat) (s : sstate) : sstate * res bool :=
  match is with
  | [] => (s, Ok true)
  | i :: rest =>
    let s1 := flushback s i in
    if flush_check_fails s1 i then (s1, GoErr ErrFlushCheck) else flush_loop rest s1
  end.

Definition std_flush (n : net) (s : sstate) : sstate * res bool := flush_loop (seq 0 (nnodes n)) s.

(* ---------- operations of the Solver interface ---------- *)
Inductive op :=
| OLoad (x : list F)
| OForward (k : Z)
| ORecursive
| ORelax (maxSteps : Z) (delta : F)
| OFlush.

Definition std_step (n : net) (s : sstate) (o : op) : sstate * res bool :=
  match o with
  | OLoad x => std_load n x s
  | OForward k => std_forward n k s
  | ORecursive => std_recursive n s
  | ORelax ms d => std_relax n ms d s
  | OFlush => std_flush n s
  end.

(* state after a history of operations (results ignored) *)
Definition std_run (n : net) (s : sstate) (h : list op) : sstate :=
  fold_left (fun s o => fst (std_step n s o)) h s.

(* what a client sees: the result of every operation and ReadOutputs() after it *)
Fixpoint std_trace (n : net) (s : sstate) (h : list op) : list (res bool * list F) :=
  match h with
  | [] => []
  | o :: h' =>
    let '(s', r) := std_step n s o in
    (r, std_outputs n s') :: std_trace n s' h'
  end.

End NetModel.

Arguments mkLink {F}. Arguments l_src {F}. Arguments l_w {F}. Arguments l_td {F}.
Arguments mkNode {F}. Arguments nd_role {F}. Arguments nd_act {F}. Arguments nd_in {F}.
Arguments mkNet {F}. Arguments nodes {F}. Arguments inputs {F}. Arguments outputs {F}.
Arguments mkS {F}. Arguments s_act {F}. Arguments s_cnt {F}. Arguments s_sum {F}. Arguments s_l1 {F}.
Arguments s_l2 {F}. Arguments s_on {F}.
Arguments OLoad {F}. Arguments OForward {F}. Arguments ORecursive {F}. Arguments ORelax {F}. Arguments OFlush {F}.
Arguments node_at {F}. Arguments role_at {F}. Arguments nnodes {F}. Arguments net_ok {F}. Arguments dummy_node {F}.
Arguments getF {F}.
Arguments std_init {F}.
Arguments active_out {F}.
Arguments active_out_td {F}.
Arguments save_activations {F}.
Arguments set_activation {F}.
Arguments sensor_load {F}.
Arguments load_full {F}.
Arguments load_short {F}.
Arguments std_load {F}.
Arguments std_outputs {F}.
Arguments output_is_off {F}.
Arguments set_on {F}.
Arguments set_sum {F}.
Arguments add_sum {F}.
Arguments link_step {F}.
Arguments sum_node {F}.
Arguments phase1 {F}.
Arguments activate_node {F}.
Arguments phase2 {F}.
Arguments sweep {F}.
Arguments activate_loop {F}.
Arguments activate_steps {F}.
Arguments forward_loop {F}.
Arguments std_forward {F}.
Arguments depth_f {F}.
Arguments max_depth {F}.
Arguments std_recursive {F}.
Arguments std_relax {F}.
Arguments flushback {F}.
Arguments flush_check_fails {F}.
Arguments flush_loop {F}.
Arguments std_flush {F}.
Arguments std_step {F}.
Arguments std_run {F}.
Arguments std_trace {F}.
