(* neat.Options: the fields the genetic algorithms read *)
From NeatModel Require Import Res F64 GoRand.

Record options := {
  o_trait_param_mut_prob : float; o_trait_mut_power : float; o_weight_mut_power : float;
  o_disjoint : float; o_excess : float; o_mutdiff : float; o_compat_thresh : float;
  o_age_sig : float; o_survival : float;
  o_mutate_only : float; o_mut_random_trait : float; o_mut_link_trait : float; o_mut_node_trait : float;
  o_mut_link_weights : float; o_mut_toggle : float; o_mut_reenable : float;
  o_mut_add_node : float; o_mut_add_link : float; o_mut_connect_sensors : float;
  o_interspecies : float; o_mate_multi : float; o_mate_multi_avg : float; o_mate_single : float;
  o_mate_only : float; o_recur_only : float;
  o_pop_size : Z; o_dropoff : Z; o_newlink_tries : Z; o_babies_stolen : Z;
  o_compat_linear : bool;
  o_activators : list Z; o_activator_probs : list float
}.

(* neat/math.SingleRouletteThrow on a tape *)
Definition roulette_pick (probs : list float) (throw : float) : Z :=
  (fix go (l : list float) (acc : float) (i : Z) : Z :=
     match l with
     | [] => -1
     | v :: l' => let acc' := PrimFloat.add acc v in
                  if PrimFloat.leb throw acc' then i else go l' acc' (i + 1)
     end) probs 0%float 0.

Definition tape_roulette (probs : list float) (t : tape) : res (Z * tape) :=
  let total := fold_left PrimFloat.add probs 0%float in
  do ft <- tape_float64 t;
  let '(f, t') := ft in
  Ok (roulette_pick probs (PrimFloat.mul f total), t').

(* Options.RandomNodeActivationType; error codes: 20 none registered, 21 count mismatch, 22 index out of range *)
Definition tape_random_activation (o : options) (t : tape) : res (Z * tape) :=
  match o_activators o with
  | [] => GoErr 20
  | [a] => Ok (a, t)
  | acts =>
    if negb (Nat.eqb (length acts) (length (o_activator_probs o))) then GoErr 21 else
    do it <- tape_roulette (o_activator_probs o) t;
    let '(i, t') := it in
    if Z.ltb i 0 || Z.geb i (Z.of_nat (length acts)) then GoErr 22
    else Ok (nth (Z.to_nat i) acts 0, t')
  end.
