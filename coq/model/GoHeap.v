(* Pointer-keyed heaps, pointer variables and range loops, for code translated from Go source by the harness
   translators (gen/QuotaPrep.v).  Executable definitions only.

   A Go pointer to a struct is an integer key; the structs of one type live in a heap [list (key * record)].
   Reading or writing through a pointer that has no entry is Go's nil / dangling dereference: an explicit
   [GoPanic], never a default record.  A pointer VARIABLE is an [option Z] (nil = None). *)
From NeatModel Require Import Res GoSlice.

Definition gheap (A : Type) : Type := list (Z * A).

(* *p *)
Fixpoint gh_get {A : Type} (h : gheap A) (p : Z) : res A :=
  match h with
  | [] => GoPanic panic_nil_deref
  | (k, v) :: h' => if Z.eqb k p then Ok v else gh_get h' p
  end.

(* *p = v *)
Fixpoint gh_set {A : Type} (h : gheap A) (p : Z) (v : A) : res (gheap A) :=
  match h with
  | [] => GoPanic panic_nil_deref
  | (k, x) :: h' => if Z.eqb k p then Ok ((k, v) :: h') else do r <- gh_set h' p v; Ok ((k, x) :: r)
  end.

(* p.f = e, as an update of the record p points to *)
Definition gh_upd {A : Type} (h : gheap A) (p : Z) (f : A -> A) : res (gheap A) :=
  do r <- gh_get h p; gh_set h p (f r).

(* p != nil *)
Definition go_not_nil (p : option Z) : bool := match p with Some _ => true | None => false end.

(* for _, x := range l { s = f s x }: the slice is evaluated once, the body may fail *)
Fixpoint go_for {A S : Type} (l : list A) (f : S -> A -> res S) (s : S) : res S :=
  match l with
  | [] => Ok s
  | x :: l' => do s' <- f s x; go_for l' f s'
  end.
