(* The fast solver WITH modules inside the Go object of model/Fmns.v, and back.                         (C15)
   model/Fmns.v describes FastModularNetworkSolver statically, modules included ([s_modules], indices as Go ints),
   and WriteModel / ReadFMNSModel on it; model/FastMod.v gives the modules their meaning in the solver steps.
   [fmnet_of s] is the solver of FastMod.v inside the object s, [msolver_of id name 0 fx] the object
   Network.FastNetworkSolver returns for the FastMod.v solver fx (`modules[i] = &FastControlNode{InputIndexes,
   OutputIndexes, ActivationType}`; Id, Name, Signal as in Fmns.solver_of). *)
From Coq Require Import String.
From NeatModel Require Import Res Net Fast Fmns NetMod FastMod.
Open Scope Z_scope.

Definition smodule_of (m : fmodule) : smodule :=
  mkSmodule (fmd_act m) (map Z.of_nat (fmd_ins m)) (map Z.of_nat (fmd_outs m)).
Definition fmodule_of (m : smodule) : fmodule :=
  mkFmod (sm_act m) (map Z.to_nat (sm_ins m)) (map Z.to_nat (sm_outs m)).

Section FmnsModModel.
Variable F : Type.

Definition msolver_of (id : Z) (name : string) (zero : F) (fx : fmnet F) : fsolver F :=
  let s := solver_of id name zero (fx_net fx) in
  mkFsolver (s_id s) (s_name s) (s_bias s) (s_in s) (s_out s) (s_total s) (s_acts s) (s_biases s) (s_conns s)
            (map smodule_of (fx_mods fx)).

Definition fmnet_of (s : fsolver F) : fmnet F := mkFmnet (fnet_of s) (map fmodule_of (s_modules s)).

(* when the object is one of the solvers FastMod.v describes: Fmns.solver_fits without its "no modules" clause, and
   no negative module index (a negative index panics in Go on first use; Z.to_nat would map it to 0) *)
Definition msolver_fits (s : fsolver F) : bool :=
  solver_built s
  && (0 <=? s_bias s) && (0 <=? s_in s) && (0 <=? s_out s)
  && (s_bias s + s_in s + s_out s <=? s_total s)
  && (Z.of_nat (length (s_acts s)) =? s_total s) && (Z.of_nat (length (s_biases s)) =? s_total s)
  && forallb (fun m => forallb (Z.leb 0) (sm_ins m) && forallb (Z.leb 0) (sm_outs m)) (s_modules s).

End FmnsModModel.

Arguments msolver_of {F}.
Arguments fmnet_of {F}.
Arguments msolver_fits {F}.
