(* geneInsert / nodeInsert of neat/genetics/genome.go (the two Go functions are textually the
   same algorithm over different element types: one generic definition keyed by [key]) *)
From NeatModel Require Import Res Genome.

Section Insert.
  Context {A : Type} (key : A -> Z).

  (* for i := index-1; i >= 0; i-- { if k == key[i] {index = i; break} else if k > key[i] {index = i+1; break} }
     scanning the reversed list, [i] is the index of its head; falls through with the initial index *)
  Fixpoint scan_back (k : Z) (rev_l : list A) (i : nat) (init : nat) : nat :=
    match rev_l with
    | [] => init
    | y :: r =>
      if Z.eqb k (key y) then i
      else if Z.gtb k (key y) then S i
      else scan_back k r (pred i) init
    end.

  Definition insert_sorted (l : list A) (x : A) : list A :=
    match l with
    | [] => [x]
    | y0 :: _ =>
      let n := length l in
      let lastk := key (last l y0) in
      if Z.geb (key x) lastk then l ++ [x]
      else if Z.leb (key x) (key y0) then x :: l
      else
        let index := scan_back (key x) (rev l) (pred n) n in
        firstn index l ++ x :: skipn index l
    end.
End Insert.

Definition gene_insert (gs : list gene) (x : gene) : list gene := insert_sorted g_innov gs x.
Definition node_insert (ns : list node) (x : node) : list node := insert_sorted n_id ns x.
