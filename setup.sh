#!/bin/sh
# MANIFEST.setup_cmd: build the framework offline from files on disk
set -e
cd "$(dirname "$0")"
export GOFLAGS=-mod=mod GOPROXY=off GOSUMDB=off GOTOOLCHAIN=local
mkdir -p work/bin evidence coq/gen
cp /repo/go.sum harness/go.sum
(cd harness && go build -tags verif -o ../work/bin/neatverif .)
# regenerate the translated parts of the model from /repo's source
for t in $(./work/bin/neatverif list-translators 2>/dev/null); do ./work/bin/neatverif translate $t -out coq/gen; done
(cd coq && sh mkproject.sh && make -k -j16 > build.log 2>&1) || { echo "WARNING: some Coq files failed to build (the per-property checks report them):"; grep -B2 -A6 "Error" coq/build.log | head -60; }
echo "setup ok"
