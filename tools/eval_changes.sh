#!/bin/bash
# usage: tools/eval_changes.sh <out-prefix, e.g. /tmp/mut4_> <ID>...   confirms each demo and runs the property's check
P=$1; shift
for id in "$@"; do for c in 1 2; do d=${P}${id}_out/change$c; [ -d "$d" ] || continue
  echo "== $id change$c"; /verif/tools/confirm_mutant.sh "$d" 2>&1 | grep -E "DEMO|PATCH"
  /verif/tools/try_mutant.sh $id "$d/patch.diff" | grep -E "EXISTING|VIOL|EXIT" | cut -c1-160
done; done
