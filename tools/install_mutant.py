#!/usr/bin/env python3
"""usage: tools/install_mutant.py <prop> <n> <change dir> <verdict> <key/how detected>
copies a confirmed seeded change into /verif/seeded/<prop>-<n>/ with meta.json"""
import json, os, shutil, sys, re
prop, n, src, verdict, how = sys.argv[1:6]
dst = "/verif/seeded/%s-%s" % (prop, n)
shutil.rmtree(dst, ignore_errors=True)
os.makedirs(dst)
shutil.copy(os.path.join(src, "patch.diff"), dst)
shutil.copytree(os.path.join(src, "demo"), os.path.join(dst, "demo"))
notes = open(os.path.join(src, "notes.md")).read() if os.path.exists(os.path.join(src, "notes.md")) else ""
open(os.path.join(dst, "notes.md"), "w").write(notes)
files = re.findall(r"^\+\+\+ b/(\S+)", open(os.path.join(dst, "patch.diff")).read(), flags=re.M)
meta = {
    "property": prop,
    "files_changed": files,
    "source": "fresh sub-agent given only the property text and a scratch worktree of /repo",
    "needs_to_manifest": "see notes.md (written by the sub-agent)",
    "confirmed": {
        "existing_tests": "go build ./... && go test -vet=off -count=1 ./neat/... ./experiment/... pass with the change (re-run by tools/try_mutant.sh); the sub-agent also ran ./examples/... once (log in its notes)",
        "demo_on_unchanged_tree": "passes (tools/confirm_mutant.sh)",
        "demo_with_change": "fails (tools/confirm_mutant.sh)",
    },
    "check_verdict": verdict,
    "detected_by": how,
    "how_to_run": "tools/try_mutant.sh %s seeded/%s-%s/patch.diff   (or: git -C /repo apply <patch>; ./check %s; git -C /repo checkout -- .)" % (prop, prop, n, prop),
}
json.dump(meta, open(os.path.join(dst, "meta.json"), "w"), indent=1)
print("installed", dst)
