#!/usr/bin/env python3
"""regenerates the two tables of DESIGN.md section 9 (seeded changes from seeded/*/meta.json; status per property
from coq/props/<id>.v and manifest_table.json).  The tables are the lines starting with '| ' that follow the
headers '| change | files |' and '| id | theorems |'."""
import json, os, re, glob
ROOT = os.path.dirname(os.path.dirname(os.path.abspath(__file__)))
T = json.load(open(os.path.join(ROOT, "manifest_table.json")))
lines = open(os.path.join(ROOT, "DESIGN.md")).read().split("\n")

def replace_table(header_prefix, rows):
    i = next(k for k, l in enumerate(lines) if l.startswith(header_prefix))
    j = i + 2
    while j < len(lines) and lines[j].startswith("| "):
        j += 1
    lines[i + 2:j] = rows

def esc(s):
    return str(s).replace("|", "\\|").replace("\n", " ")

old = {}
i = next(k for k, l in enumerate(lines) if l.startswith("| change | files |"))
for l in lines[i + 2:]:
    if not l.startswith("| "):
        break
    c = [x.strip() for x in l.strip().strip("|").split(" | ")]
    old[c[0]] = c
rows = []
for d in sorted(glob.glob(os.path.join(ROOT, "seeded", "*-*")), key=lambda p: (os.path.basename(p).split("-")[0], int(os.path.basename(p).split("-")[1]))):
    name = os.path.basename(d)
    if name in old and len(old[name]) >= 4:
        rows.append("| " + " | ".join(old[name]) + " |")
        continue
    m = json.load(open(os.path.join(d, "meta.json")))
    rows.append("| %s | %s | %s | %s |" % (name, ", ".join(m["files_changed"]), esc(m.get("check_verdict_short", "VIOLATION")), esc(m["detected_by"])))
replace_table("| change | files |", rows)

rows = []
for pid in sorted(k for k in T if re.match(r"C\d\d$", k)):
    src = open(os.path.join(ROOT, "coq", "props", pid + ".v")).read()
    n = len(re.findall(r"^(?:Theorem|Corollary)\s", src, flags=re.M))
    rows.append("| %s | %d | %s | %s |" % (pid, n, esc(T[pid]["technique"]), esc(T[pid]["note"])))
replace_table("| id | theorems |", rows)
open(os.path.join(ROOT, "DESIGN.md"), "w").write("\n".join(lines))
print("tables regenerated")
