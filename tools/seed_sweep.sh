#!/bin/bash
# usage: tools/seed_sweep.sh <seed>...   runs every property's quick check with other seeds on a private work dir
# (evidence is restored afterwards: committed evidence comes from seed-1 runs on the clean tree); prints per
# property and seed the exit code and the keys of the failures found (known-finding keys are expected)
cd /verif
mkdir -p /tmp/sweep_ev && cp evidence/*.json /tmp/sweep_ev/
for s in "$@"; do for p in C01 C02 C03 C04 C05 C06 C07 C08 C09 C10 C11 C12 C13 C14 C15 C16 C17 C18 C19 C20; do
  out=$(VERIF_WORK=/tmp/sweep_work ./check $p --seed $s 2>&1); rc=$?
  echo "$p seed=$s rc=$rc $(echo "$out" | grep -E '^(VIOLATION|KNOWN-FINDING)' | cut -c1-90 | tr '\n' ';')"
done; done
cp /tmp/sweep_ev/*.json evidence/; rm -rf /tmp/sweep_ev /tmp/sweep_work
