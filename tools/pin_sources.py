#!/usr/bin/env python3
"""pins the library sources the models were written against: sha256 of every non-test, non-hook .go file of
/repo/neat and /repo/experiment with comments and blank lines removed.  `./check` compares the working tree with
this pin; a difference is NOT a violation, it only makes the check search harder (more seeds) for a failing input.
usage: tools/pin_sources.py            rewrite pinned_sources.json from /repo
       (the function norm_hashes is imported by check)"""
import hashlib, json, os, re, sys

def norm(text):
    # strip /* */ and // comments outside string/rune/raw-string literals, then blank lines and trailing space
    out, i, n = [], 0, len(text)
    while i < n:
        c = text[i]
        if c == '"' or c == "'":
            j = i + 1
            while j < n and text[j] != c:
                j += 2 if text[j] == "\\" else 1
            out.append(text[i:j + 1]); i = j + 1
        elif c == "`":
            j = text.find("`", i + 1); j = n - 1 if j < 0 else j
            out.append(text[i:j + 1]); i = j + 1
        elif text.startswith("//", i):
            j = text.find("\n", i); i = n if j < 0 else j
        elif text.startswith("/*", i):
            j = text.find("*/", i + 2); i = n if j < 0 else j + 2
        else:
            out.append(c); i += 1
    lines = [l.rstrip() for l in "".join(out).split("\n")]
    return "\n".join(l for l in lines if l.strip())

def norm_hashes(repo):
    res = {}
    for top in ("neat", "experiment"):
        for d, _, fs in os.walk(os.path.join(repo, top)):
            for f in fs:
                if not f.endswith(".go") or f.endswith("_test.go") or "_verif" in f:
                    continue
                p = os.path.join(d, f)
                try:
                    t = open(p, encoding="utf-8", errors="replace").read()
                except OSError:
                    continue
                res[os.path.relpath(p, repo)] = hashlib.sha256(norm(t).encode()).hexdigest()
    return res

if __name__ == "__main__":
    root = os.path.dirname(os.path.dirname(os.path.abspath(__file__)))
    h = norm_hashes("/repo")
    json.dump(h, open(os.path.join(root, "pinned_sources.json"), "w"), indent=1, sort_keys=True)
    print("pinned", len(h), "files")
