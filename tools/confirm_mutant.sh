#!/bin/sh
# usage: tools/confirm_mutant.sh <change dir containing patch.diff and demo/run.sh>
# confirms on a scratch copy of /repo: demo passes without the change, fails with it
D=$(readlink -f "$1"); M=/tmp/mutconf_$$; mkdir -p $M
rsync -a --exclude out --exclude .git --exclude contents /repo/ $M/repo/
export GOFLAGS=-mod=mod GOPROXY=off GOSUMDB=off GOTOOLCHAIN=local
cd $M/repo
( bash $D/demo/run.sh > $M/clean.log 2>&1 ) && echo "DEMO-ON-CLEAN: pass" || { echo "DEMO-ON-CLEAN: FAIL"; tail -5 $M/clean.log; }
patch -p1 -s < $D/patch.diff || echo "PATCH-DOES-NOT-APPLY"
( bash $D/demo/run.sh > $M/mut.log 2>&1 ) && echo "DEMO-ON-MUTANT: pass (unexpected)" || echo "DEMO-ON-MUTANT: fails (expected)"
cd /; rm -rf $M
