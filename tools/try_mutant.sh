#!/bin/sh
# usage: tools/try_mutant.sh <property id> <patch.diff> [tier]
# applies the patch to a private copy of /repo, runs the existing pinned tests of neat/ and experiment/
# (must still pass), then runs the property's check against that copy; prints the verdict lines.
# Evidence written during this run is restored afterwards (evidence must come from clean-tree runs).
set -u
ID=$1; PATCH=$(readlink -f "$2"); TIER=${3:-quick}
M=/tmp/mutrun_$$; mkdir -p $M
rsync -a --exclude out --exclude .git --exclude contents /repo/ $M/repo/
( cd $M/repo && patch -p1 -s < "$PATCH" ) || { echo "PATCH-DOES-NOT-APPLY"; rm -rf $M; exit 3; }
export GOFLAGS=-mod=mod GOPROXY=off GOSUMDB=off GOTOOLCHAIN=local
( cd $M/repo && go build ./... && go test -vet=off -count=1 ./neat/... ./experiment/... > $M/tests.log 2>&1 ) && echo "EXISTING-TESTS: pass" || { echo "EXISTING-TESTS: FAIL"; tail -5 $M/tests.log; }
cp /verif/evidence/$ID.json $M/evidence.bak 2>/dev/null
( cd /verif && VERIF_REPO=$M/repo VERIF_WORK=$M/work ./check $ID --tier $TIER > $M/check.log 2>&1 ); RC=$?
grep -E "^(VIOLATION|KNOWN-FINDING|FAIL|property=)" $M/check.log | cut -c1-300
echo "CHECK-EXIT: $RC"
mkdir -p /verif/work/mutant_replays && cp $M/work/replay/$ID-1.json /verif/work/mutant_replays/$ID-$(basename $(dirname "$PATCH")).json 2>/dev/null
[ -f $M/evidence.bak ] && cp $M/evidence.bak /verif/evidence/$ID.json
rm -rf $M
