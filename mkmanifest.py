#!/usr/bin/env python3
"""writes MANIFEST.json from the table below (kept as code so that it stays valid)"""
import json, os
ROOT = os.path.dirname(os.path.abspath(__file__))
props = [json.loads(l) for l in open(os.path.join(ROOT, "properties.jsonl"))]
TABLE = json.load(open(os.path.join(ROOT, "manifest_table.json")))
import subprocess
try:
    log = subprocess.run(["git", "-C", "/repo", "log", "--format=%h %s"], capture_output=True, text=True).stdout
    hook_commits = [l.split()[0] for l in log.splitlines() if l.split(" ", 1)[1].startswith("verif hooks")][::-1]
    fix_commits = [l for l in log.splitlines() if l.split(" ", 1)[1].startswith("fix:")][::-1]
except Exception:
    hook_commits, fix_commits = [], []
if hook_commits:
    TABLE["_hook_commits"] = hook_commits
checks, na = [], []
for p in props:
    pid = p["id"]
    t = TABLE.get(pid)
    if not t or t.get("not_applicable"):
        na.append({"property_id": pid, "reason": (t or {}).get("not_applicable", "check not built yet (work in progress; see DESIGN.md section 6 for the plan)")})
        continue
    checks.append({
        "property_id": pid,
        "quick_cmd": "./check %s --tier quick" % pid,
        "thorough_cmd": "./check %s --tier thorough" % pid,
        "evidence_file": "/verif/evidence/%s.json" % pid,
        "replay_cmd_template": "./check %s --replay {path}" % pid,
        "engine": "coq-model+correspondence",
        "level_claimed": {"category": "proof", "text": t["text"], "design_ref": "DESIGN.md section 6, " + pid},
        "level_note": t["note"],
        "technique": t["technique"],
    })
m = {
    "version": 1,
    "setup_cmd": "./setup.sh",
    "hooks": {
        "guard": "verif",
        "enable": "go build -tags verif (add-only files *_verif.go with //go:build verif in /repo packages)",
        "baseline_off_cmd": "cd /repo && GOFLAGS=-mod=mod go test -vet=off -count=1 -timeout 25m ./...",
        "source_commits": TABLE.get("_hook_commits", []),
        "add_only": True,
    },
    "engines": [{
        "name": "coq-model+correspondence", "path": "/verif/check",
        "serves_properties": [c["property_id"] for c in checks],
        "kind_free_text": "Rocq/Coq 8.16.1 theorems about a hand-written Gallina model (coq/), tied to /repo on every run by a Go harness (harness/, built with -tags verif from the working tree) that runs implementation and model (vm_compute inside coqc) on the same generated cases, plus a Go-side oracle of each property that searches for concrete failing inputs",
    }],
    "checks": checks,
    "not_applicable": na,
    "notes": "See DESIGN.md. known_findings.txt lists fixed defects (fix: commits in /repo: %s) and recorded findings." % "; ".join(fix_commits),
}
json.dump(m, open(os.path.join(ROOT, "MANIFEST.json"), "w"), indent=1)
print("checks:", [c["property_id"] for c in checks], "na:", len(na))
