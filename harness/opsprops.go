package main

import (
	"fmt"

	"github.com/yaricom/goNEAT/v4/neat/genetics"
)

// C01, C04, C05, C06 runners over operator histories (ops.go)

func init() {
	runners["C01"] = func(r *Run) error { return runOpsProp(r, "C01") }
	runners["C04"] = func(r *Run) error { return runOpsProp(r, "C04") }
	runners["C05"] = func(r *Run) error { return runOpsProp(r, "C05") }
	replayers["C01"] = replayOps
	replayers["C04"] = replayOps
	replayers["C05"] = replayOps
}

func runOpsProp(r *Run, prop string) error {
	quiet()
	var histories, steps int
	mateProb := 0.3
	weights := defaultMutWeights
	switch prop {
	case "C01":
		histories, steps = r.N(30, 900), 30
		r.Res.Rule = "operator histories (duplicate+mutator, or crossover of two family members) from three start genomes with a shared innovation record that is forgotten at random; every produced genome must satisfy the well-formedness statement; non-trivial = structural change or crossover; distinct by (operator, result genome)"
	case "C04":
		histories, steps, mateProb = r.N(25, 800), 30, 0.55
		r.Res.Rule = "crossovers (3 methods, all fitness orderings incl. ties) of relatives evolved from a common start genome by random operator histories (disabled genes, excess tails on either side); non-trivial = parents differ; distinct by (method, parents, child)"
	case "C05":
		histories, steps, mateProb = r.N(30, 900), 30, 0.15
		r.Res.Rule = "every mutator on genomes reached by operator histories, with empty / matching / non-matching innovation records; non-trivial = mutator reported success and changed the genome; distinct by (mutator, before, after)"
	}
	o := newOpsGen(r, prop)
	defer o.close()
	for h := 0; h < histories; h++ {
		f := newFamily(r.Rng)
		for s := 0; s < steps; s++ {
			// decide first whether this step is one the property is about, to keep case files focused
			op, operand, g2, out, b2 := o.stepFor(prop, f, s, mateProb, weights)
			if out.err != nil && out.child == nil && op.Kind == "dup" {
				continue
			}
			bad := func(key, what string) {
				in := o.lastInput
				r.Fail(Failure{Key: key, What: what, Input: in})
			}
			var before gsnap
			if op.Kind == "mate" {
				before = o.lastBefore
			} else {
				before = out.before
			}
			evalOracles(prop, op, operand, before, g2, out, bad)
			if prop == "C04" && op.Kind == "mate" && g2 != nil && !b2.eq(snap(g2)) {
				bad("mate-modified-parent", "crossover modified its second parent")
			}
			r.Hist("operator", opName(op))
			if out.err != nil {
				r.Hist("errors", opName(op)+": "+out.err.Error())
				continue
			}
			changed := !before.eq(snap(out.child))
			r.Hist("changed", fmt.Sprint(changed))
			r.Count(opName(op)+"|"+before.str()+"|"+snap(out.child).str(), op.Kind == "mate" || (out.flag && changed))
			if s%7 == 0 {
				r.Sample(map[string]interface{}{"operator": opName(op), "before_genes": before.Genes, "after_genes": snap(out.child).Genes, "flag": out.flag})
			}
			if wfGenome(out.child) == nil {
				f.members = append(f.members, out.child)
			}
		}
	}
	return nil
}

// stepFor wraps step and remembers the Go-side input of the case for failure reports
func (o *opsGen) stepFor(prop string, f *family, s int, mateProb float64, weights []int) (opSpec, *genetics.Genome, *genetics.Genome, opOutcome, gsnap) {
	op, operand, g2, out, b2 := o.stepRec(f, s, mateProb, weights, prop)
	return op, operand, g2, out, b2
}
