package main

import (
	"fmt"

	"github.com/yaricom/goNEAT/v4/neat/genetics"
)

// C01, C04, C05, C06 runners over operator histories (ops.go)

func init() {
	runners["C01"] = func(r *Run) error { return runOpsProp(r, "C01") }
	runners["C04"] = func(r *Run) error { return runOpsProp(r, "C04") }
	runners["C05"] = func(r *Run) error { return runOpsProp(r, "C05") }
	replayers["C01"] = replayOpsOrEpoch
	replayers["C04"] = replayOps
	replayers["C05"] = replayOps
}

func runOpsProp(r *Run, prop string) error {
	quiet()
	var histories, steps int
	mateProb := 0.3
	weights := defaultMutWeights
	switch prop {
	case "C01":
		histories, steps = r.N(30, 900), 30
		r.Res.Rule = "operator histories (duplicate+mutator, or crossover of two family members) from three start genomes with a shared innovation record that is forgotten at random; every produced genome must satisfy the well-formedness statement; non-trivial = structural change or crossover; distinct by (operator, result genome)"
	case "C04":
		histories, steps, mateProb = r.N(25, 800), 30, 0.55
		r.Res.Rule = "crossovers (3 methods, all fitness orderings incl. ties) of relatives evolved from a common start genome by random operator histories (disabled genes, excess tails on either side); non-trivial = parents differ; distinct by (method, parents, child)"
	case "C05":
		histories, steps, mateProb = r.N(30, 900), 30, 0.15
		r.Res.Rule = "every mutator on genomes reached by operator histories, with empty / matching / non-matching innovation records; non-trivial = mutator reported success and changed the genome; distinct by (mutator, before, after)"
	}
	o := newOpsGen(r, prop)
	defer o.close()
	if prop == "C01" {
		c01UnrelatedParents(r, o)
	}
	if prop == "C01" || prop == "C05" {
		insertFamily(r, prop)
	}
	if prop == "C04" {
		c04TraitIdLists(r)
	}
	var famsSeen []*family
	for h := 0; h < histories; h++ {
		f := newFamily(r.Rng)
		famsSeen = append(famsSeen, f)
		if prop == "C04" && len(famsSeen) == 8 {
			defer func(fs []*family) { c04Concurrent(r, fs) }(append([]*family{}, famsSeen...))
		}
		if prop == "C01" {
			// evolve the sibling lineage a little (not emitted), with its own numbering
			for s := 0; s < 8; s++ {
				_, _, _, out, _ := o.stepRec(f.sibling, s, 0, weights, "none")
				if out.err == nil && out.child != nil && wfGenome(out.child) == nil {
					f.sibling.members = append(f.sibling.members, out.child)
				}
			}
		}
		for s := 0; s < steps; s++ {
			// decide first whether this step is one the property is about, to keep case files focused
			op, operand, g2, out, b2 := o.stepFor(prop, f, s, mateProb, weights)
			if out.err != nil && out.child == nil && op.Kind == "dup" {
				continue
			}
			bad := func(key, what string) {
				in := o.lastInput
				r.Fail(Failure{Key: key, What: what, Input: in})
			}
			var before gsnap
			if op.Kind == "mate" {
				before = o.lastBefore
			} else {
				before = out.before
			}
			evalOracles(prop, op, operand, before, g2, out, bad)
			if prop == "C04" && op.Kind == "mate" && g2 != nil && !b2.eq(snap(g2)) {
				bad("mate-modified-parent", "crossover modified its second parent")
			}
			r.Hist("operator", opName(op))
			if out.err != nil {
				r.Hist("errors", opName(op)+": "+out.err.Error())
				continue
			}
			changed := !before.eq(snap(out.child))
			r.Hist("changed", fmt.Sprint(changed))
			r.Count(opName(op)+"|"+before.str()+"|"+snap(out.child).str(), op.Kind == "mate" || (out.flag && changed))
			if s%7 == 0 {
				r.Sample(map[string]interface{}{"operator": opName(op), "before_genes": before.Genes, "after_genes": snap(out.child).Genes, "flag": out.flag})
			}
			crossFamily := false
			if op.Kind == "mate" && g2 != nil && f.sibling != nil {
				for _, m := range f.sibling.members {
					if m == g2 {
						crossFamily = true
					}
				}
			}
			if wfGenome(out.child) == nil && !crossFamily {
				f.members = append(f.members, out.child)
			}
		}
		if prop == "C01" || prop == "C05" {
			reapplyFamily(r, o, f, prop)
		}
		if prop == "C01" {
			c01SwappedNumbering(r, o, f)
		}
		if prop == "C04" {
			c04TieFamily(r, o, f)
		}
	}
	if prop == "C01" {
		c01Epochs(r)
		c01RandGenomes(r)
		c01RandEpochsNoSinglePoint(r)
	}
	return nil
}

// c01Epochs: population level of C01: spawn + epoch turnovers through the public API; every genome of
// every generation must be well-formed and keep the start genome's input/bias/output nodes
func c01Epochs(r *Run) {
	cf := r.NewCaseFile(100, "Res F64 Genome Options GenomeLit EpochCases", "epoch_case")
	for i := 0; i < r.N(6, 120); i++ {
		in := newEpochInput(r, "C01", 30, 6, false)
		res := runHistory(r, in, cf, 100000+i)
		r.Count(fmt.Sprint("epoch", in.Seed), res.multi > 0 && res.structural > 0)
		r.Hist("epoch_histories_epochs_run", fmt.Sprint(res.epochsRun))
	}
	cf.Close("epoch_mismatches")
	for i := 0; i < r.N(20, 400); i++ {
		in := newEpochInput(r, "C01", 70, 25, true)
		res := runHistory(r, in, nil, 0)
		r.Count(fmt.Sprint("epoch", in.Seed), res.multi > 0 && res.structural > 0)
		r.Hist("oracle_only_epochs_run", bucket(res.epochsRun))
	}
	for i := 0; i < r.N(6, 100); i++ {
		in := newEpochInput(r, "C01", 40, 8, true)
		in.Random = true
		res := runHistory(r, in, nil, 0)
		r.Hist("random_population_epochs_run", bucket(res.epochsRun))
	}
}

// c04TieFamily: boundary family "fitness tie, equal gene counts, different disjoint genes": two siblings
// that each received one different structural mutation are mated with equal fitness in both orders
func c04TieFamily(r *Run, o *opsGen, f *family) {
	for k := 0; k < 2; k++ {
		g := f.pick(r.Rng)
		var sib [2]*genetics.Genome
		okk := true
		for i := 0; i < 2; i++ {
			c, err := genetics.VDuplicate(g, 500+i)
			if err != nil {
				okk = false
				break
			}
			out := o.apply(opSpec{Kind: "mut", Mut: 1 + r.Rng.Intn(2), Times: 1}, c, nil, f.env, f.opts, false)
			if out.err != nil || !out.flag || wfGenome(c) != nil {
				okk = false
				break
			}
			sib[i] = c
		}
		if !okk || len(sib[0].Genes) != len(sib[1].Genes) || snap(sib[0]).eq(snap(sib[1])) {
			continue
		}
		for _, pair := range [][2]int{{0, 1}, {1, 0}} {
			a, b := sib[pair[0]], sib[pair[1]]
			op := opSpec{Kind: "mate", Method: r.Rng.Intn(2), NewId: 600, F1: 1.5, F2: 1.5}
			before, b2 := snap(a), snap(b)
			out := o.apply(op, a, b, f.env, f.opts, true)
			in := o.lastInput
			bad := func(key, what string) { r.Fail(Failure{Key: key, What: what, Input: in}) }
			evalOracles("C04", op, a, before, b, out, bad)
			if !b2.eq(snap(b)) {
				bad("mate-modified-parent", "crossover modified its second parent")
			}
			r.Hist("operator", "tie-family-"+opName(op))
			if out.err == nil {
				r.Count("tie|"+before.str()+"|"+b2.str()+"|"+snap(out.child).str(), true)
			}
		}
	}
}

// stepFor wraps step and remembers the Go-side input of the case for failure reports
func (o *opsGen) stepFor(prop string, f *family, s int, mateProb float64, weights []int) (opSpec, *genetics.Genome, *genetics.Genome, opOutcome, gsnap) {
	op, operand, g2, out, b2 := o.stepRec(f, s, mateProb, weights, prop)
	return op, operand, g2, out, b2
}

// c01UnrelatedParents is the designated demonstration of a recorded finding: single-point crossover of
// two well-formed genomes without common ancestry (the shorter parent's first innovation number is the
// larger one) stops at once and returns a child without genes.
func c01UnrelatedParents(r *Run, o *opsGen) {
	a := readPlain("genomestart 1\ntrait 1 0.1 0 0 0 0 0 0 0\nnode 1 1 1 1 NullActivation\nnode 2 1 1 3 NullActivation\nnode 3 1 0 2 LinearActivation\n"+
		"gene 1 2 3 2.5 false 2 0 true\ngenomeend 1\n", 1)
	b := readPlain("genomestart 2\ntrait 1 0.1 0 0 0 0 0 0 0\nnode 1 1 1 1 NullActivation\nnode 2 1 1 3 NullActivation\nnode 3 1 0 2 LinearActivation\n"+
		"gene 1 1 3 1.5 false 1 0 true\ngene 1 2 3 2.5 false 2 0 true\ngene 1 3 3 0.5 true 3 0 true\ngenomeend 2\n", 2)
	op := opSpec{Kind: "mate", Method: 2, NewId: 9}
	out := o.apply(op, a, b, &venv{NextI: 3, NextN: 3}, baseOptions(), true)
	in := o.lastInput
	r.Count("unrelated-parents", true)
	if out.err == nil && out.child != nil {
		if e := wfGenome(out.child); e != nil {
			r.Fail(Failure{Key: "singlepoint-empty-child-unrelated-parents", What: "single-point crossover of unrelated well-formed parents produced an ill-formed genome: " + e.Error(), Input: in})
		}
	}
}

// reapplyFamily: structural mutators applied again inside one innovation window to genomes that already
// carry (or deliberately lack) the recorded innovation: exercises the haveNode / haveGene guards and the
// reuse of recorded numbers. add-node; re-enable the split gene; add-node again (several draws).
func reapplyFamily(r *Run, o *opsGen, f *family, prop string) {
	g := f.pick(r.Rng)
	run := func(op opSpec, target *genetics.Genome) opOutcome {
		out := o.apply(op, target, nil, f.env, f.opts, true)
		in := o.lastInput
		bad := func(key, what string) { r.Fail(Failure{Key: key, What: what, Input: in}) }
		evalOracles(prop, op, target, out.before, nil, out, bad)
		r.Hist("operator", "reapply-"+opName(op))
		if out.err == nil {
			r.Count("reapply|"+opName(op)+"|"+out.before.str()+"|"+snap(out.child).str(), out.flag)
		}
		return out
	}
	// in-place chain on ONE genome object (no duplicate in between, so cached lookup structures of the
	// genome are not rebuilt): add-node, re-enable everything, add-node again, ...
	if chain, err := genetics.VDuplicate(g, 740); err == nil {
		for k := 0; k < 4; k++ {
			out := run(opSpec{Kind: "mut", Mut: 2, Times: 1}, chain)
			if out.err != nil {
				break
			}
			for _, x := range chain.Genes {
				x.IsEnabled = true
			}
		}
	}
	// cross-member: the record one member leaves is met, in the same generation, by other members that carry
	// more or other structure (further hidden nodes, other links): part of the record matches, part does not
	for _, mut := range []int{0, 1, 2} { // connect_sensors, add_link, add_node
		saved := f.env.Innovs
		for k := 0; k < 3; k++ {
			m := f.pick(r.Rng)
			if c, err := genetics.VDuplicate(m, 750+k); err == nil {
				run(opSpec{Kind: "mut", Mut: mut, Times: 1}, c)
			}
		}
		_ = saved
	}
	for _, mut := range []int{2, 1} { // add_node, add_link
		c1, err := genetics.VDuplicate(g, 700)
		if err != nil {
			return
		}
		if out := run(opSpec{Kind: "mut", Mut: mut, Times: 1}, c1); out.err != nil || !out.flag || wfGenome(c1) != nil {
			continue
		}
		// siblings that lack the new structure: the record must be reused (same numbers)
		for k := 0; k < 3; k++ {
			c, err := genetics.VDuplicate(g, 710+k)
			if err == nil {
				run(opSpec{Kind: "mut", Mut: mut, Times: 1}, c)
			}
		}
		// the genome that already has it, with every gene re-enabled: the guards must refuse a second copy
		c2, err := genetics.VDuplicate(c1, 720)
		if err != nil {
			continue
		}
		for _, x := range c2.Genes {
			x.IsEnabled = true
		}
		for k := 0; k < 5; k++ {
			c, err := genetics.VDuplicate(c2, 730+k)
			if err == nil {
				run(opSpec{Kind: "mut", Mut: mut, Times: 1}, c)
			}
		}
	}
}

// c01SwappedNumbering: two lineages that evolved the same two links in opposite order carry them under
// swapped innovation numbers; both genomes are well-formed, and their crossover must still not produce
// two genes for one link.
func c01SwappedNumbering(r *Run, o *opsGen, f *family) {
	g := f.pick(r.Rng)
	n0 := len(f.start.Genes)
	if len(g.Genes) < n0+2 {
		return
	}
	b, err := genetics.VDuplicate(g, 800)
	if err != nil {
		return
	}
	i := n0 + r.Rng.Intn(len(b.Genes)-n0)
	j := n0 + r.Rng.Intn(len(b.Genes)-n0)
	if i == j {
		return
	}
	b.Genes[i].Link, b.Genes[j].Link = b.Genes[j].Link, b.Genes[i].Link
	b.Genes[i].IsEnabled, b.Genes[j].IsEnabled = b.Genes[j].IsEnabled, b.Genes[i].IsEnabled
	if wfGenome(b) != nil || wfGenome(g) != nil {
		return
	}
	for k := 0; k < 4; k++ {
		f1, f2 := fitnessPair(r.Rng)
		op := opSpec{Kind: "mate", Method: k % 3, NewId: 801 + k, F1: JF(f1), F2: JF(f2)}
		out := o.apply(op, g, b, f.env, f.opts, true)
		in := o.lastInput
		bad := func(key, what string) { r.Fail(Failure{Key: key, What: what, Input: in}) }
		evalOracles("C01", op, g, o.lastBefore, b, out, bad)
		r.Hist("operator", "swapped-numbering-"+opName(op))
		if out.err == nil {
			r.Count("swapped|"+snap(g).str()+"|"+snap(b).str()+"|"+snap(out.child).str(), true)
		}
	}
}
