package main

// Registry translator for C18: re-extracts, from the CURRENT source text of neat/math/activations.go,
//   * the `const ( ... NodeActivationType = iota + k ... )` block (constant name -> byte code), and
//   * every `af.Register(Const, funcVar, "Name")` / `af.RegisterModule(...)` call of NewNodeActivatorsFactory,
//     in source order,
// and writes them as plain Gallina data to <outDir>/ActRegistry.v. Nothing is evaluated; anything the
// translator does not understand is an error (so the check fails instead of silently dropping a line).

import (
	"bufio"
	"fmt"
	"go/ast"
	"go/parser"
	"go/token"
	"os"
	"path/filepath"
	"strconv"
	"strings"
)

func init() { translators["registry"] = c18TranslateRegistry }

type c18RegCall struct {
	Module bool
	Const  string // type constant identifier
	Code   int64
	Func   string // Go func variable bound
	Name   string // registered name
	Line   int
}

type c18Registry struct {
	Consts     []string // in declaration order
	ConstCodes map[string]int64
	Calls      []c18RegCall
	FuncVars   []string // names of package-level `var x = func(...)` activation literals, in order
}

// c18IotaExpr evaluates the tiny constant-expression language used in iota blocks: iota, int literals, + - * and parens
func c18IotaExpr(e ast.Expr, iota int64) (int64, error) {
	switch v := e.(type) {
	case *ast.Ident:
		if v.Name == "iota" {
			return iota, nil
		}
		return 0, fmt.Errorf("unsupported identifier %q in constant expression", v.Name)
	case *ast.BasicLit:
		if v.Kind != token.INT {
			return 0, fmt.Errorf("unsupported literal %s", v.Value)
		}
		return strconv.ParseInt(v.Value, 0, 64)
	case *ast.ParenExpr:
		return c18IotaExpr(v.X, iota)
	case *ast.BinaryExpr:
		a, err := c18IotaExpr(v.X, iota)
		if err != nil {
			return 0, err
		}
		b, err := c18IotaExpr(v.Y, iota)
		if err != nil {
			return 0, err
		}
		switch v.Op {
		case token.ADD:
			return a + b, nil
		case token.SUB:
			return a - b, nil
		case token.MUL:
			return a * b, nil
		case token.SHL:
			return a << uint(b), nil
		}
		return 0, fmt.Errorf("unsupported operator %s", v.Op)
	case *ast.CallExpr: // conversion NodeActivationType(expr)
		if id, ok := v.Fun.(*ast.Ident); ok && id.Name == "NodeActivationType" && len(v.Args) == 1 {
			return c18IotaExpr(v.Args[0], iota)
		}
	}
	return 0, fmt.Errorf("unsupported constant expression %T", e)
}

func c18ParseRegistry(path string) (*c18Registry, error) {
	fset := token.NewFileSet()
	file, err := parser.ParseFile(fset, path, nil, 0)
	if err != nil {
		return nil, err
	}
	reg := &c18Registry{ConstCodes: map[string]int64{}}
	for _, d := range file.Decls {
		switch decl := d.(type) {
		case *ast.GenDecl:
			if decl.Tok == token.CONST {
				// a const block belongs to the registry when its (implicitly repeated) type is NodeActivationType
				var curType string
				var curExpr ast.Expr
				for i, s := range decl.Specs {
					vs := s.(*ast.ValueSpec)
					if vs.Type != nil || len(vs.Values) > 0 {
						curType = ""
						if id, ok := vs.Type.(*ast.Ident); ok {
							curType = id.Name
						}
						curExpr = nil
						if len(vs.Values) == 1 {
							curExpr = vs.Values[0]
							if vs.Type == nil {
								if ce, ok := curExpr.(*ast.CallExpr); ok {
									if id, ok := ce.Fun.(*ast.Ident); ok {
										curType = id.Name
									}
								}
							}
						}
					}
					if curType != "NodeActivationType" {
						continue
					}
					if len(vs.Names) != 1 || curExpr == nil {
						return nil, fmt.Errorf("%s: unsupported const spec", fset.Position(vs.Pos()))
					}
					v, err := c18IotaExpr(curExpr, int64(i))
					if err != nil {
						return nil, fmt.Errorf("%s: %v", fset.Position(vs.Pos()), err)
					}
					if v < 0 || v > 255 {
						return nil, fmt.Errorf("%s: constant %s = %d does not fit NodeActivationType (byte)", fset.Position(vs.Pos()), vs.Names[0].Name, v)
					}
					reg.Consts = append(reg.Consts, vs.Names[0].Name)
					reg.ConstCodes[vs.Names[0].Name] = v
				}
			}
			if decl.Tok == token.VAR {
				for _, s := range decl.Specs {
					vs := s.(*ast.ValueSpec)
					if len(vs.Names) == 1 && len(vs.Values) == 1 {
						if _, ok := vs.Values[0].(*ast.FuncLit); ok {
							reg.FuncVars = append(reg.FuncVars, vs.Names[0].Name)
						}
					}
				}
			}
		case *ast.FuncDecl:
			if decl.Name.Name != "NewNodeActivatorsFactory" || decl.Body == nil {
				continue
			}
			var perr error
			ast.Inspect(decl.Body, func(n ast.Node) bool {
				ce, ok := n.(*ast.CallExpr)
				if !ok || perr != nil {
					return perr == nil
				}
				sel, ok := ce.Fun.(*ast.SelectorExpr)
				if !ok || (sel.Sel.Name != "Register" && sel.Sel.Name != "RegisterModule") {
					return true
				}
				pos := fset.Position(ce.Pos())
				if len(ce.Args) != 3 {
					perr = fmt.Errorf("%s: %s with %d arguments", pos, sel.Sel.Name, len(ce.Args))
					return false
				}
				c := c18RegCall{Module: sel.Sel.Name == "RegisterModule", Line: pos.Line}
				switch a := ce.Args[0].(type) {
				case *ast.Ident:
					c.Const = a.Name
				default:
					v, err := c18IotaExpr(a, 0)
					if err != nil {
						perr = fmt.Errorf("%s: type argument: %v", pos, err)
						return false
					}
					c.Const = fmt.Sprintf("#%d", v)
					c.Code = v
				}
				if id, ok := ce.Args[1].(*ast.Ident); ok {
					c.Func = id.Name
				} else {
					perr = fmt.Errorf("%s: function argument is not an identifier", pos)
					return false
				}
				if lit, ok := ce.Args[2].(*ast.BasicLit); ok && lit.Kind == token.STRING {
					s, err := strconv.Unquote(lit.Value)
					if err != nil {
						perr = fmt.Errorf("%s: %v", pos, err)
						return false
					}
					c.Name = s
				} else {
					perr = fmt.Errorf("%s: name argument is not a string literal", pos)
					return false
				}
				reg.Calls = append(reg.Calls, c)
				return true
			})
			if perr != nil {
				return nil, perr
			}
		}
	}
	for i := range reg.Calls {
		c := &reg.Calls[i]
		if strings.HasPrefix(c.Const, "#") {
			continue
		}
		v, ok := reg.ConstCodes[c.Const]
		if !ok {
			return nil, fmt.Errorf("line %d: %s is not a NodeActivationType constant", c.Line, c.Const)
		}
		c.Code = v
	}
	if len(reg.Consts) == 0 || len(reg.Calls) == 0 {
		return nil, fmt.Errorf("no NodeActivationType constants or no Register calls found in %s", path)
	}
	return reg, nil
}

func c18CoqString(s string) (string, error) {
	for _, ch := range []byte(s) {
		if ch < 32 || ch > 126 {
			return "", fmt.Errorf("name %q contains a byte outside printable ASCII", s)
		}
	}
	return "\"" + strings.ReplaceAll(s, "\"", "\"\"") + "\"", nil
}

func c18TranslateRegistry(outDir string) error {
	src := filepath.Join(repoRoot(), "neat", "math", "activations.go")
	reg, err := c18ParseRegistry(src)
	if err != nil {
		return err
	}
	if err = os.MkdirAll(outDir, 0o755); err != nil {
		return err
	}
	tmp := filepath.Join(outDir, "ActRegistry.v.tmp")
	f, err := os.Create(tmp)
	if err != nil {
		return err
	}
	w := bufio.NewWriter(f)
	fmt.Fprintf(w, "(* GENERATED by `neatverif translate registry` from neat/math/activations.go -- do not edit.\n")
	fmt.Fprintf(w, "   Plain data: the iota block of NodeActivationType and the Register/RegisterModule calls of\n")
	fmt.Fprintf(w, "   NewNodeActivatorsFactory in source order. *)\n")
	fmt.Fprintf(w, "From Coq Require Import ZArith List String.\nImport ListNotations.\nOpen Scope Z_scope.\nOpen Scope string_scope.\n\n")
	q := func(s string) string {
		r, e := c18CoqString(s)
		if e != nil && err == nil {
			err = e
		}
		return r
	}
	fmt.Fprintf(w, "(* constant identifier, byte code *)\nDefinition act_consts : list (string * Z) := [\n")
	for i, c := range reg.Consts {
		sep := ";"
		if i == len(reg.Consts)-1 {
			sep = ""
		}
		fmt.Fprintf(w, "  (%s, %d)%s\n", q(c), reg.ConstCodes[c], sep)
	}
	fmt.Fprintf(w, "].\n\n")
	emit := func(name, doc string, module bool, field func(c c18RegCall) string) {
		fmt.Fprintf(w, "(* %s *)\nDefinition %s : list (Z * string) := [\n", doc, name)
		first := true
		for _, c := range reg.Calls {
			if c.Module != module {
				continue
			}
			if !first {
				fmt.Fprintf(w, ";\n")
			}
			first = false
			fmt.Fprintf(w, "  (%d, %s)", c.Code, q(field(c)))
		}
		fmt.Fprintf(w, "\n].\n\n")
	}
	emit("act_codes", "scalar activations: (code, registered name), in registration order", false, func(c c18RegCall) string { return c.Name })
	emit("act_module_codes", "module activations: (code, registered name), in registration order", true, func(c c18RegCall) string { return c.Name })
	emit("act_bindings", "scalar activations: (code, Go func variable bound to it)", false, func(c c18RegCall) string { return c.Func })
	emit("act_module_bindings", "module activations: (code, Go func variable bound to it)", true, func(c c18RegCall) string { return c.Func })
	fmt.Fprintf(w, "(* every registration call in source order: (is module, code, Go func variable, name) *)\nDefinition act_calls : list (bool * Z * string * string) := [\n")
	for i, c := range reg.Calls {
		sep := ";"
		if i == len(reg.Calls)-1 {
			sep = ""
		}
		fmt.Fprintf(w, "  (%v, %d, %s, %s)%s\n", c.Module, c.Code, q(c.Func), q(c.Name), sep)
	}
	fmt.Fprintf(w, "].\n\n")
	fmt.Fprintf(w, "(* the type constant named in each registration call, in source order *)\nDefinition act_call_consts : list string := [")
	for i, c := range reg.Calls {
		if i > 0 {
			fmt.Fprintf(w, "; ")
		}
		fmt.Fprintf(w, "%s", q(c.Const))
	}
	fmt.Fprintf(w, "].\n")
	if err != nil {
		f.Close()
		os.Remove(tmp)
		return err
	}
	if err = w.Flush(); err != nil {
		return err
	}
	if err = f.Close(); err != nil {
		return err
	}
	// keep the timestamp when nothing changed, so make does not rebuild dependants needlessly
	dst := filepath.Join(outDir, "ActRegistry.v")
	if old, e := os.ReadFile(dst); e == nil {
		if nw, e2 := os.ReadFile(tmp); e2 == nil && string(old) == string(nw) {
			return os.Remove(tmp)
		}
	}
	return os.Rename(tmp, dst)
}
