// Command neatverif drives the real goNEAT implementation (built from /repo's current working
// tree with -tags verif) for the correspondence check and the Go-side property oracles.
//
//	neatverif cases <ID> -seed N -tier quick|thorough -out DIR
//	neatverif replay <file>
//	neatverif translate <what> -out FILE
package main

//go:debug randseednop=0

import (
	"flag"
	"fmt"
	"os"
	"runtime/debug"
	"sort"
)

// propRunner generates cases for one property, runs the implementation and the Go-side oracle
type propRunner func(r *Run) error

var runners = map[string]propRunner{}
var replayers = map[string]func(r *Run, input []byte) error{}
var translators = map[string]func(out string) error{}

func main() {
	if len(os.Args) == 2 && os.Args[1] == "list-translators" {
		names := make([]string, 0)
		for k := range translators {
			names = append(names, k)
		}
		sort.Strings(names)
		for _, n := range names {
			fmt.Println(n)
		}
		return
	}
	if len(os.Args) < 3 {
		usage()
	}
	cmd, id := os.Args[1], os.Args[2]
	fs := flag.NewFlagSet(cmd, flag.ExitOnError)
	seed := fs.Int64("seed", 1, "generator seed")
	tier := fs.String("tier", "quick", "quick|thorough")
	out := fs.String("out", ".", "output directory / file")
	_ = fs.Parse(os.Args[3:])
	switch cmd {
	case "cases":
		f, ok := runners[id]
		if !ok {
			fmt.Fprintf(os.Stderr, "no runner for %s\n", id)
			os.Exit(2)
		}
		r := newRun(id, *seed, *tier, *out)
		runGuarded := func() (err error) {
			defer func() {
				if p := recover(); p != nil {
					if pf, ok := p.(*plainReadFailure); ok {
						r.Fail(Failure{Key: "plain-genome-not-read-back", What: pf.What, Input: map[string]string{"plain_genome": pf.Text}})
						return
					}
					r.Fail(Failure{Key: "implementation-panic", What: fmt.Sprintf("the implementation (or the harness driving it) panicked: %v", p),
						Input: map[string]string{"panic": fmt.Sprint(p), "stack": string(debug.Stack())}})
				}
			}()
			return f(r)
		}
		if err := runGuarded(); err != nil {
			fmt.Fprintf(os.Stderr, "runner %s failed: %v\n", id, err)
			os.Exit(3)
		}
		if err := r.finish(); err != nil {
			fmt.Fprintf(os.Stderr, "cannot write results: %v\n", err)
			os.Exit(3)
		}
	case "replay":
		if err := replayFile(id); err != nil {
			fmt.Fprintf(os.Stderr, "replay failed: %v\n", err)
			os.Exit(3)
		}
	case "translate":
		f, ok := translators[id]
		if !ok {
			fmt.Fprintf(os.Stderr, "no translator %s\n", id)
			os.Exit(2)
		}
		if err := f(*out); err != nil {
			fmt.Fprintf(os.Stderr, "translator %s failed: %v\n", id, err)
			os.Exit(3)
		}
	case "list":
		ids := make([]string, 0)
		for k := range runners {
			ids = append(ids, k)
		}
		sort.Strings(ids)
		fmt.Println(ids)
	default:
		usage()
	}
}

func usage() {
	fmt.Fprintln(os.Stderr, "usage: neatverif cases|replay|translate <id|file|what> [-seed N] [-tier T] [-out DIR]")
	os.Exit(2)
}
