package main

import (
	"bytes"
	"encoding/json"
	"fmt"
	"math"
	"math/rand"
	"sort"
	"strings"

	"github.com/yaricom/goNEAT/v4/neat"
	"github.com/yaricom/goNEAT/v4/neat/genetics"
	neatmath "github.com/yaricom/goNEAT/v4/neat/math"
	"github.com/yaricom/goNEAT/v4/neat/network"
)

// C13 (with C12 / C15 relying on it): module (control node) semantics of both solvers.
// Networks WITH control nodes (1-3 modules, the three module activations, modules feeding modules, sensors as module
// inputs, wrong numbers of outgoing links, unregistered module types, modules writing sensors / bias nodes, ...), built
// either directly through NewModularNetwork or as the phenotype Genome.Genesis makes of a modular genome (disabled
// link genes, disabled control genes, a control node with a trait), are run through random operation sequences on the
// real Network and the real fast solver. Result, outputs and the full observable state after every operation go into
// case files for cases/ModCases.v (model/NetMod.v, model/FastMod.v). Go-side oracles, independent of Coq:
//   (b) Flush: the operations after a Flush behave exactly as on a freshly built instance (both solvers);
//   (c) model file: WriteModel / ReadFMNSModel of the fast solver restores a solver with the same static description
//       that gives the same results and outputs for the whole operation sequence;
//   (d) agreement: on feed-forward modular networks (modules fed by neurons, one outgoing link each, listed in
//       dependency order) Network.ForwardSteps(k) and the fast solver's ForwardSteps(k), k >= the depth, give the
//       outputs of a one-pass evaluation done here.
// Uses the helpers of c12.go / c13.go. All top-level identifiers are prefixed c13m.

func init() {
	// c13.go's init has run (files are initialised in name order); keep its replayer for its own inputs
	old := replayers["C13"]
	replayers["C13"] = func(r *Run, input []byte) error {
		var probe struct {
			Kind string `json:"kind"`
		}
		if json.Unmarshal(input, &probe) == nil && probe.Kind == "c13m" {
			return c13mReplay(r, input)
		}
		if old != nil {
			return old(r, input)
		}
		return replayC13(r, input)
	}
}

// ---- inputs ----

type c13mCtrl struct {
	Act   int   `json:"act"`
	In    []int `json:"in"`  // positions (in allNodes) of the InNodes of the Incoming links
	Out   []int `json:"out"` // positions of the OutNodes of the Outgoing links
	Trait bool  `json:"trait,omitempty"`
	// weights of the control links (1.0 where absent); no solver reads them
	InW  []float64 `json:"in_w,omitempty"`
	OutW []float64 `json:"out_w,omitempty"`
}

func (c c13mCtrl) inW(j int, dflt float64) float64 {
	if j < len(c.InW) {
		return c.InW[j]
	}
	return dflt
}

func (c c13mCtrl) outW(j int, dflt float64) float64 {
	if j < len(c.OutW) {
		return c.OutW[j]
	}
	return dflt
}

// operation kind beyond c12's: Network.ActivateSteps(K) (K = 20: Network.Activate()); Network only
const c13mActivate = 5

type c13mInput struct {
	Kind   string     `json:"kind"` // always "c13m"
	Family string     `json:"family"`
	Via    string     `json:"via"` // "direct": NewModularNetwork; "genesis": Genome.Genesis of a modular genome
	Net    c12Net     `json:"net"`
	Ctrl   []c13mCtrl `json:"ctrl"`
	Runs   []c12Run   `json:"runs"`
	// genesis only: extra genes that must not show up in the phenotype
	DisabledLinks int `json:"disabled_links,omitempty"`
	DisabledCtrl  int `json:"disabled_ctrl,omitempty"`
	// the agreement oracle applies (family constructed feed-forward, see c13mGenFF); X and K of the agreement runs
	Agree bool `json:"agree,omitempty"`
}

// ---- building the real objects ----

type c13mObj struct {
	net  *network.Network
	all  []*network.NNode
	ctrl []*network.NNode
}

func c13mBuildDirect(in c13mInput) c13mObj {
	n := in.Net
	all := make([]*network.NNode, len(n.Nodes))
	for i, nd := range n.Nodes {
		all[i] = network.NewNNode(i+1, network.NodeNeuronType(nd.Role))
		all[i].ActivationType = neatmath.NodeActivationType(nd.Act)
	}
	for i, nd := range n.Nodes {
		for _, l := range nd.In {
			lk := network.NewLink(l.W, all[l.Src], all[i], false)
			lk.IsTimeDelayed = l.TD
			all[i].Incoming = append(all[i].Incoming, lk)
			all[l.Src].Outgoing = append(all[l.Src].Outgoing, lk)
		}
	}
	ins := make([]*network.NNode, len(n.Inputs))
	for i, p := range n.Inputs {
		ins[i] = all[p]
	}
	outs := make([]*network.NNode, len(n.Outputs))
	for i, p := range n.Outputs {
		outs[i] = all[p]
	}
	ctrl := make([]*network.NNode, len(in.Ctrl))
	for k, c := range in.Ctrl {
		cn := network.NewNNode(len(all)+1+k, network.HiddenNeuron)
		cn.ActivationType = neatmath.NodeActivationType(c.Act)
		if c.Trait {
			cn.Trait = &neat.Trait{Id: 1, Params: []float64{0.5, 0, 0, 0, 0, 0, 0, 0}}
		}
		for j, p := range c.In {
			cn.AddIncoming(all[p], c.inW(j, 1.0))
		}
		for j, p := range c.Out {
			cn.AddOutgoing(all[p], c.outW(j, 1.0))
		}
		ctrl[k] = cn
	}
	return c13mObj{net: network.NewModularNetwork(ins, outs, all, ctrl, 1), all: all, ctrl: ctrl}
}

// c13mGenome: a modular genome whose phenotype is the described network (plus disabled genes that must not be expressed)
func c13mGenome(in c13mInput) *genetics.Genome {
	n := in.Net
	tr := &neat.Trait{Id: 1, Params: []float64{0.5, 0.25, 0, 0, 0, 0, 0, 0}}
	nodes := make([]*network.NNode, len(n.Nodes))
	for i, nd := range n.Nodes {
		nodes[i] = network.NewNNode(i+1, network.NodeNeuronType(nd.Role))
		nodes[i].ActivationType = neatmath.NodeActivationType(nd.Act)
		if i%3 == 1 {
			nodes[i].Trait = tr
		}
	}
	genes := make([]*genetics.Gene, 0)
	innov := int64(1)
	N := len(n.Nodes)
	disabled := in.DisabledLinks
	addDisabled := func(j int) {
		src, dst := (j*7+1)%N, (j*5+2)%N
		genes = append(genes, genetics.NewConnectionGene(network.NewLinkWithTrait(nil, 3.25, nodes[src], nodes[dst], false), innov, 0, false))
		innov++
	}
	for i, nd := range n.Nodes {
		if disabled > 0 && i%2 == 1 {
			addDisabled(disabled)
			disabled--
		}
		for _, l := range nd.In {
			var t *neat.Trait
			if (i+l.Src)%4 == 0 {
				t = tr
			}
			genes = append(genes, genetics.NewConnectionGene(network.NewLinkWithTrait(t, l.W, nodes[l.Src], nodes[i], (i+l.Src)%5 == 0), innov, 0, true))
			innov++
		}
	}
	for ; disabled > 0; disabled-- {
		addDisabled(disabled)
	}
	mods := make([]*genetics.MIMOControlGene, 0)
	mk := func(id int, c c13mCtrl, enabled bool) {
		cn := network.NewNNode(id, network.HiddenNeuron)
		cn.ActivationType = neatmath.NodeActivationType(c.Act)
		if c.Trait {
			cn.Trait = tr
		}
		for j, p := range c.In {
			cn.AddIncoming(nodes[p], c.inW(j, 0.75))
		}
		for j, p := range c.Out {
			cn.AddOutgoing(nodes[p], c.outW(j, 1.5))
		}
		mods = append(mods, genetics.NewMIMOGene(cn, innov, 0, enabled))
		innov++
	}
	dc := in.DisabledCtrl
	for k, c := range in.Ctrl {
		if dc > 0 && k%2 == 0 {
			// a disabled control gene over the same nodes, multiplying: expressed it would change every output
			mk(N+100+dc, c13mCtrl{Act: 21, In: c.In, Out: c.Out}, false)
			dc--
		}
		mk(N+1+k, c, true)
	}
	for ; dc > 0; dc-- {
		mk(N+100+dc, c13mCtrl{Act: 22, In: []int{0}, Out: []int{N - 1}}, false)
	}
	return genetics.NewModularGenome(1, []*neat.Trait{tr}, nodes, genes, mods)
}

func c13mBuild(in c13mInput) (obj c13mObj, err error) {
	defer func() {
		if p := recover(); p != nil {
			err = fmt.Errorf("panic while building: %v", p)
		}
	}()
	if in.Via != "genesis" {
		return c13mBuildDirect(in), nil
	}
	g := c13mGenome(in)
	net, e := g.Genesis(1)
	if e != nil {
		return obj, e
	}
	return c13mObj{net: net, all: net.BaseNodes(), ctrl: net.ControlNodes()}, nil
}

// c13mDescribe reads the structure of a real network back (positions by pointer identity); "" if it is the described one
func c13mDescribe(in c13mInput, o c13mObj) string {
	pos := map[*network.NNode]int{}
	for i, nd := range o.all {
		pos[nd] = i
	}
	if len(o.all) != len(in.Net.Nodes) {
		return fmt.Sprintf("%d base nodes, described %d", len(o.all), len(in.Net.Nodes))
	}
	for i, nd := range o.all {
		d := in.Net.Nodes[i]
		if int(nd.NeuronType) != d.Role || int(nd.ActivationType) != d.Act || len(nd.Incoming) != len(d.In) {
			return fmt.Sprintf("node %d: type %d act %d with %d incoming links, described %d %d %d", i, nd.NeuronType, nd.ActivationType, len(nd.Incoming), d.Role, d.Act, len(d.In))
		}
		for j, l := range nd.Incoming {
			p, ok := pos[l.InNode]
			if !ok || p != d.In[j].Src || math.Float64bits(l.ConnectionWeight) != math.Float64bits(d.In[j].W) || l.IsTimeDelayed != d.In[j].TD || l.OutNode != nd {
				return fmt.Sprintf("node %d link %d differs from the description", i, j)
			}
		}
	}
	if len(o.ctrl) != len(in.Ctrl) || len(o.net.ControlNodes()) != len(in.Ctrl) {
		return fmt.Sprintf("%d control nodes, described %d", len(o.ctrl), len(in.Ctrl))
	}
	for k, cn := range o.ctrl {
		d := in.Ctrl[k]
		if int(cn.ActivationType) != d.Act || len(cn.Incoming) != len(d.In) || len(cn.Outgoing) != len(d.Out) || (cn.Trait != nil) != d.Trait {
			return fmt.Sprintf("control node %d differs from the description", k)
		}
		for j, l := range cn.Incoming {
			if p, ok := pos[l.InNode]; !ok || p != d.In[j] {
				return fmt.Sprintf("control node %d input %d differs from the description", k, j)
			}
		}
		for j, l := range cn.Outgoing {
			if p, ok := pos[l.OutNode]; !ok || p != d.Out[j] {
				return fmt.Sprintf("control node %d output %d differs from the description", k, j)
			}
		}
	}
	return ""
}

// ---- running ----

func c13mErrCode(err error) int {
	s := err.Error()
	switch {
	case strings.HasPrefix(s, "unknown module activation type"):
		return 111
	case strings.HasPrefix(s, "number of output parameters"):
		return 112
	case strings.HasPrefix(s, "unsupported for modular networks"):
		return 113
	case strings.HasPrefix(s, "recursive activation can not be used"):
		return 114
	case strings.HasPrefix(s, "failed to lookup for input neuron"):
		return 115
	case strings.HasPrefix(s, "failed to lookup for output neuron"):
		return 116
	}
	return c12ErrCode(err)
}

func c13mApply(s network.Solver, o c12Op) (code int) {
	defer func() {
		if p := recover(); p != nil {
			code = 299
			if e, ok := p.(error); ok && strings.Contains(e.Error(), "index out of range") {
				code = 201
			}
		}
	}()
	var res bool
	var err error
	switch o.Kind {
	case c12Load:
		err = s.LoadSensors(o.X)
		res = true
	case c12Forward:
		res, err = s.ForwardSteps(o.K)
	case c12Recursive:
		res, err = s.RecursiveSteps()
	case c12Relax:
		res, err = s.Relax(o.K, o.Delta)
	case c12Flush:
		res, err = s.Flush()
	case c13mActivate:
		net := s.(*network.Network) // never generated for the fast solver
		if o.K == 20 {
			res, err = net.Activate()
		} else {
			res, err = net.ActivateSteps(o.K)
		}
	}
	if err != nil {
		return c13mErrCode(err)
	}
	if res {
		return 1
	}
	return 0
}

func c13mStdState(o c13mObj) string {
	n := len(o.all)
	act, sum, l1, l2 := make([]float64, n), make([]float64, n), make([]float64, n), make([]float64, n)
	cnt := make([]int64, n)
	on := make([]bool, n)
	for i, nd := range o.all {
		act[i], sum[i], cnt[i] = nd.Activation, nd.ActivationSum, int64(nd.ActivationsCount)
		on[i], l1[i], l2[i] = network.VerifNodePrivate(nd)
	}
	con := make([]bool, len(o.ctrl))
	for k, cn := range o.ctrl {
		con[k], _, _ = network.VerifNodePrivate(cn)
	}
	return "(" + List([]string{FList(act), FList(sum), FList(l1), FList(l2)}) + ", " + List([]string{ZList(cnt)}) + ", " +
		List([]string{c12BoolList(on), c12BoolList(con)}) + ")"
}

func c13mFastBuild(net *network.Network) (s network.Solver, code int) {
	defer func() {
		if p := recover(); p != nil {
			s = nil
			code = 299
			if e, ok := p.(error); ok && strings.Contains(e.Error(), "index out of range") {
				code = 201
			}
		}
	}()
	fs, err := net.FastNetworkSolver()
	if err != nil {
		return nil, c13mErrCode(err)
	}
	return fs, 1
}

// c13mExec runs one run on a fresh instance (nil if the instance cannot be built)
func c13mExec(in c13mInput, run c12Run) []c12Obs {
	o, err := c13mBuild(in)
	if err != nil {
		return nil
	}
	var s network.Solver = o.net
	if run.Solver == 1 {
		fs, _ := c13mFastBuild(o.net)
		if fs == nil {
			return nil
		}
		s = fs
	}
	return c13mRunOps(s, o, run)
}

func c13mRunOps(s network.Solver, o c13mObj, run c12Run) []c12Obs {
	obs := make([]c12Obs, 0, len(run.Ops))
	for i, op := range run.Ops {
		code := c13mApply(s, op)
		ob := c12Obs{Code: code, Outs: append([]float64{}, s.ReadOutputs()...)}
		if run.State == 2 || (run.State == 1 && i == len(run.Ops)-1) {
			if run.Solver == 0 {
				ob.State = c13mStdState(o)
			} else {
				ob.State = c12FastState(s)
			}
		}
		obs = append(obs, ob)
	}
	return obs
}

// ---- Gallina terms ----

func c13mOpTerm(o c12Op) string {
	if o.Kind == c13mActivate {
		return "NActivate " + ZI(o.K)
	}
	return "NOp (" + c12OpTerm(o) + ")"
}

func c13mCtrlTerm(cs []c13mCtrl) string {
	it := make([]string, len(cs))
	for i, c := range cs {
		it[i] = fmt.Sprintf("(%d, %s, %s)", c.Act, c12NatList(c.In), c12NatList(c.Out))
	}
	return List(it)
}

func c13mCaseTerm(id int, in c13mInput, fastCode int, fs network.Solver, runs [][]c12Obs) string {
	nodes, ins, outs := c12NetTerm(in.Net)
	tb := make([]string, len(c12TableOrder))
	for i, e := range c12TableOrder {
		tb[i] = fmt.Sprintf("(%d, %s, %s)", e[0], F(math.Float64frombits(e[1])), F(math.Float64frombits(e[2])))
	}
	st := "None"
	if fs != nil {
		static := network.VerifFastSolverStatic(fs)
		conns := make([]string, len(static.Sources))
		for i := range static.Sources {
			conns[i] = fmt.Sprintf("(%d%%nat, %d%%nat, %s)", static.Sources[i], static.Targets[i], F(static.Weights[i]))
		}
		_, mods := network.VerifFastSolverExtra(fs.(*network.FastModularNetworkSolver))
		ms := make([]string, len(mods))
		for i, m := range mods {
			ms[i] = fmt.Sprintf("(%d, %s, %s)", m.Activation, c12NatList(m.Inputs), c12NatList(m.Outputs))
		}
		st = fmt.Sprintf("(Some ((%s, %s, %s, %s), %s))", c12NatList([]int{static.Bias, static.In, static.Out, static.Total}),
			IList(static.Activations), List(conns), FList(static.Biases), List(ms))
	}
	rs := make([]string, 0, len(runs))
	for i, obs := range runs {
		if obs == nil {
			continue
		}
		ops := make([]string, len(obs))
		for j, ob := range obs {
			stt := "None"
			if ob.State != "" {
				stt = "(Some " + ob.State + ")"
			}
			ops[j] = fmt.Sprintf("(%s, %d, %s, %s)", c13mOpTerm(in.Runs[i].Ops[j]), ob.Code, FList(ob.Outs), stt)
		}
		rs = append(rs, fmt.Sprintf("(%d, %s)", in.Runs[i].Solver, List(ops)))
	}
	return fmt.Sprintf("{| mc_id := %d; mc_nodes := %s; mc_inputs := %s; mc_outputs := %s; mc_ctrl := %s; mc_table := %s; mc_fast_code := %d; mc_fast_static := %s; mc_runs := %s |}",
		id, nodes, ins, outs, c13mCtrlTerm(in.Ctrl), List(tb), fastCode, st, List(rs))
}

// ---- Go-side oracles ----

func c13mModule(act int, xs []float64) ([]float64, bool) {
	switch act {
	case 21:
		r := 1.0
		for _, v := range xs {
			r *= v
		}
		return []float64{r}, true
	case 22:
		r := math.Inf(-1)
		for _, v := range xs {
			r = math.Max(r, v)
		}
		return []float64{r}, true
	case 23:
		r := math.MaxFloat64
		for _, v := range xs {
			r = math.Min(r, v)
		}
		return []float64{r}, true
	}
	return nil, false
}

type c13mFF struct {
	ok    bool
	why   string
	depth int
}

// c13mIdeal: one-pass evaluation of a feed-forward modular network. Every node is either a sensor, the output of
// exactly one module (value: the module's function of its inputs' values) or an ordinary neuron (activation of the
// weighted sum). depth: sensors 0, ordinary neuron 1 + max over sources, module output max(1, max over module inputs).
func c13mIdeal(in c13mInput, x []float64) (outs []float64, ff c13mFF) {
	n := in.Net
	N := len(n.Nodes)
	owner := make([]int, N)
	for i := range owner {
		owner[i] = -1
	}
	for k, c := range in.Ctrl {
		if len(c.Out) != 1 {
			return nil, c13mFF{why: "module without exactly one outgoing link"}
		}
		if _, ok := c13mModule(c.Act, nil); !ok {
			return nil, c13mFF{why: "unregistered module type"}
		}
		o := c.Out[0]
		if n.Nodes[o].Role == 1 || n.Nodes[o].Role == 3 {
			return nil, c13mFF{why: "module output is a sensor"}
		}
		if owner[o] >= 0 {
			return nil, c13mFF{why: "two modules write one node"}
		}
		owner[o] = k
		for _, p := range c.In {
			if n.Nodes[p].Role == 1 || n.Nodes[p].Role == 3 {
				return nil, c13mFF{why: "module input is a sensor"}
			}
		}
	}
	// modules must be listed in dependency order: a module reading the output of another one comes later
	for k, c := range in.Ctrl {
		for _, p := range c.In {
			if owner[p] >= k {
				return nil, c13mFF{why: "modules not in dependency order"}
			}
		}
	}
	val := make([]float64, N)
	dep := make([]int, N)
	state := make([]int, N) // 0 new, 1 in progress, 2 done
	c := 0
	for i, nd := range n.Nodes {
		switch nd.Role {
		case 1:
			if c >= len(x) {
				return nil, c13mFF{why: "too few sensor values"}
			}
			val[i], state[i] = x[c], 2
			c++
		case 3:
			val[i], state[i] = 1.0, 2
		}
	}
	why := ""
	var eval func(p int) bool
	eval = func(p int) bool {
		if state[p] == 2 {
			return true
		}
		if state[p] == 1 {
			why = "cyclic"
			return false
		}
		state[p] = 1
		if k := owner[p]; k >= 0 {
			xs := make([]float64, len(in.Ctrl[k].In))
			d := 1
			for j, q := range in.Ctrl[k].In {
				if !eval(q) {
					return false
				}
				xs[j] = val[q]
				if dep[q] > d {
					d = dep[q]
				}
			}
			r, _ := c13mModule(in.Ctrl[k].Act, xs)
			val[p], dep[p] = r[0], d
		} else {
			nd := n.Nodes[p]
			if nd.Act < 1 || nd.Act > 20 {
				why = "unregistered activation"
				return false
			}
			if len(nd.In) == 0 {
				why = "neuron without incoming link"
				return false
			}
			s, d := 0.0, 0
			seen := map[int]bool{}
			for _, l := range nd.In {
				if l.TD {
					why = "time-delayed link"
					return false
				}
				if seen[l.Src] {
					why = "parallel links"
					return false
				}
				seen[l.Src] = true
				if !eval(l.Src) {
					return false
				}
				s += l.W * val[l.Src]
				if dep[l.Src] > d {
					d = dep[l.Src]
				}
			}
			val[p], _ = c12Orig.ActivateByType(s, nil, neatmath.NodeActivationType(nd.Act))
			dep[p] = d + 1
		}
		state[p] = 2
		return true
	}
	for p := range n.Nodes {
		if !eval(p) {
			return nil, c13mFF{why: why}
		}
	}
	ff = c13mFF{ok: true}
	outs = make([]float64, len(n.Outputs))
	for i, o := range n.Outputs {
		if n.Nodes[o].Role != 2 {
			return nil, c13mFF{why: "outputs list inconsistent"}
		}
		outs[i] = val[o]
		if dep[o] > ff.depth {
			ff.depth = dep[o]
		}
	}
	return outs, ff
}

func c13mSameObs(a, b []c12Obs) (int, bool) {
	for i := range b {
		if i >= len(a) || a[i].Code != b[i].Code || !c13SameFloats(a[i].Outs, b[i].Outs) {
			return i, false
		}
	}
	return 0, true
}

func c13mRegistered(fs network.Solver) bool {
	st := network.VerifFastSolverStatic(fs)
	_, mods := network.VerifFastSolverExtra(fs.(*network.FastModularNetworkSolver))
	ok := func(a int) bool {
		_, err := c12Orig.ActivationNameFromType(neatmath.NodeActivationType(a))
		return err == nil
	}
	for _, a := range st.Activations {
		if !ok(a) {
			return false
		}
	}
	for _, m := range mods {
		if !ok(m.Activation) {
			return false
		}
	}
	return true
}

func c13mStaticString(fs network.Solver) string {
	st := network.VerifFastSolverStatic(fs)
	sig, mods := network.VerifFastSolverExtra(fs.(*network.FastModularNetworkSolver))
	w := make([]uint64, len(st.Weights))
	for i, x := range st.Weights {
		w[i] = math.Float64bits(x)
	}
	b := make([]uint64, len(st.Biases))
	for i, x := range st.Biases {
		b[i] = math.Float64bits(x)
	}
	s := make([]uint64, len(sig))
	for i, x := range sig {
		s[i] = math.Float64bits(x)
	}
	ms := ""
	for _, m := range mods {
		ms += fmt.Sprintf("{%d %v %v}", m.Activation, m.Inputs, m.Outputs)
	}
	f := fs.(*network.FastModularNetworkSolver)
	return fmt.Sprint(f.Id, f.Name, st.Bias, st.In, st.Out, st.Total, st.Activations, st.Sources, st.Targets, w, b, s, ms)
}

// ---- one case ----

func c13mOne(r *Run, cf *CaseFile, id int, in c13mInput) {
	quiet()
	c12InstallRecorder()
	c12ResetTable()
	in.Kind = "c13m"
	o0, err := c13mBuild(in)
	if err != nil {
		r.Fail(Failure{Key: "c13m-build family=" + in.Family + " via=" + in.Via, What: "the described modular network could not be built: " + err.Error(), Input: in})
		return
	}
	if d := c13mDescribe(in, o0); d != "" {
		r.Fail(Failure{Key: "c13m-build-differs family=" + in.Family + " via=" + in.Via,
			What:  "the network built (" + in.Via + ") is not the described one: " + d + " (for via=genesis: Genesis does not express the modular genome as the property C11 describes)",
			Input: in})
		return
	}
	fs0, fastCode := c13mFastBuild(o0.net)
	runs := make([][]c12Obs, len(in.Runs))
	for i, run := range in.Runs {
		runs[i] = c13mExec(in, run)
	}
	small := func(runs ...c12Run) c13mInput {
		c := in
		c.Runs = runs
		return c
	}
	// (b) Flush, runs in pairs as in c13.go
	for j := 0; j+1 < len(in.Runs); j += 2 {
		a, b := in.Runs[j], in.Runs[j+1]
		if a.Fresh <= 0 || runs[j] == nil || runs[j+1] == nil {
			continue
		}
		name := "std"
		if a.Solver == 1 {
			name = "fast"
		}
		if runs[j][a.Fresh-1].Code != 1 {
			r.Fail(Failure{Key: fmt.Sprintf("c13m-%s-flush-fails family=%s", name, in.Family), What: name + " solver (modular network): Flush reports failure",
				Input: small(a, b), Observed: map[string]interface{}{"code": runs[j][a.Fresh-1].Code}, Required: map[string]interface{}{"code": 1}})
			continue
		}
		if t, same := c13mSameObs(runs[j][a.Fresh:], runs[j+1]); !same {
			fa, fb := runs[j][a.Fresh+t], runs[j+1][t]
			r.Fail(Failure{Key: fmt.Sprintf("c13m-%s-flush family=%s via=%s modules=%d", name, in.Family, in.Via, len(in.Ctrl)),
				What:  fmt.Sprintf("%s solver (modular network): operation %d after Flush behaves differently from the same operation on a fresh instance", name, t),
				Input: small(a, b),
				Observed: map[string]interface{}{"after_flush_code": fa.Code, "after_flush_outputs": fmt.Sprint(fa.Outs),
					"codes_after_flush": c12Codes(runs[j][a.Fresh:])},
				Required: map[string]interface{}{"fresh_code": fb.Code, "fresh_outputs": fmt.Sprint(fb.Outs), "codes_fresh": c12Codes(runs[j+1])}})
		}
	}
	// (c) model file of the fast solver
	if fs0 != nil {
		c13mFmns(r, in, fs0, runs)
	}
	// (d) agreement of the two solvers on feed-forward modular networks
	c13mAgree(r, in, runs)
	if cf != nil {
		cf.Add(c13mCaseTerm(id, in, fastCode, fs0, runs))
		r.SaveInput(id, in)
	}
	nops := 0
	for _, run := range in.Runs {
		nops += len(run.Ops)
	}
	b, _ := json.Marshal([]interface{}{in.Net, in.Ctrl, in.Via})
	r.Count("c13m|"+string(b)+fmt.Sprint(nops), len(in.Ctrl) > 0)
	r.Hist("modular family", in.Family)
	r.Hist("modular via", in.Via)
	r.Hist("modules", fmt.Sprint(len(in.Ctrl)))
	if fastCode != 1 {
		r.Hist("modular FastNetworkSolver()", fmt.Sprint("code ", fastCode))
	}
	for _, obs := range runs {
		for _, ob := range obs {
			if ob.Code >= 100 {
				r.Hist("modular operation codes", fmt.Sprint(ob.Code))
			}
		}
	}
}

func c13mFmns(r *Run, in c13mInput, fs0 network.Solver, runs [][]c12Obs) {
	f0 := fs0.(*network.FastModularNetworkSolver)
	var buf bytes.Buffer
	werr := f0.WriteModel(&buf)
	if !c13mRegistered(fs0) {
		if werr == nil {
			r.Fail(Failure{Key: "c13m-fmns-unregistered-written family=" + in.Family, What: "WriteModel wrote a solver with an unregistered activation type", Input: in})
		}
		r.Hist("modular model file", "refused: unregistered activation type")
		return
	}
	if werr != nil {
		r.Fail(Failure{Key: "c13m-fmns-write family=" + in.Family, What: "WriteModel failed on a solver built by FastNetworkSolver from a modular network: " + werr.Error(), Input: in})
		return
	}
	text := buf.String()
	restored, rerr := network.ReadFMNSModel(strings.NewReader(text))
	if rerr != nil {
		r.Fail(Failure{Key: "c13m-fmns-read family=" + in.Family, What: "ReadFMNSModel failed on what WriteModel wrote: " + rerr.Error(), Input: in, Observed: text})
		return
	}
	if a, b := c13mStaticString(fs0), c13mStaticString(restored); a != b {
		r.Fail(Failure{Key: "c13m-fmns-static family=" + in.Family, What: "the solver restored from the model file has a different static description (modules included)",
			Input: in, Observed: b, Required: a})
		return
	}
	done := false
	for i, run := range in.Runs {
		if run.Solver != 1 || runs[i] == nil || run.Fresh > 0 || done {
			continue
		}
		// the fresh run of the pair: same operations on the restored solver
		rs, _ := network.ReadFMNSModel(strings.NewReader(text))
		got := c13mRunOps(rs, c13mObj{}, c12Run{Solver: 1, Ops: run.Ops, State: 2})
		t, same := c13mSameObs(got, runs[i])
		if same {
			for k := range got {
				if got[k].State != runs[i][k].State {
					t, same = k, false
					break
				}
			}
		}
		if !same {
			r.Fail(Failure{Key: fmt.Sprintf("c13m-fmns-outputs family=%s modules=%d", in.Family, len(in.Ctrl)),
				What:     fmt.Sprintf("the solver restored from the model file behaves differently from the original at operation %d", t),
				Input:    func() c13mInput { c := in; c.Runs = []c12Run{run}; return c }(),
				Observed: map[string]interface{}{"codes": c12Codes(got), "outputs": fmt.Sprint(got[t].Outs)},
				Required: map[string]interface{}{"codes": c12Codes(runs[i]), "outputs": fmt.Sprint(runs[i][t].Outs)}})
		}
		done = true
		r.Hist("modular model file", "written, read back, same static description, same results and outputs and state")
	}
}

func c13mAgree(r *Run, in c13mInput, runs [][]c12Obs) {
	for i, run := range in.Runs {
		if runs[i] == nil || len(run.Ops) != 2 || run.Ops[0].Kind != c12Load || run.Ops[1].Kind != c12Forward || run.Fresh > 0 {
			continue
		}
		x := run.Ops[0].X
		if len(x) != c12CountRole(in.Net, 1) {
			continue
		}
		want, ff := c13mIdeal(in, x)
		if !ff.ok {
			if in.Agree {
				r.Fail(Failure{Key: "c13m-agree-generator family=" + in.Family, What: "generator error: a network meant to be feed-forward is not (" + ff.why + ")", Input: in})
			}
			// outside the quantifier: do the two solvers at least agree with each other? (observation only)
			continue
		}
		if run.Ops[1].K < ff.depth || run.Ops[1].K < 1 {
			continue
		}
		name := "std"
		if run.Solver == 1 {
			name = "fast"
		}
		last := runs[i][1]
		bad := ""
		if runs[i][0].Code != 1 || last.Code >= 100 {
			bad = fmt.Sprintf("operation failed with codes %v", c12Codes(runs[i]))
		} else if !c12Close(want, last.Outs) {
			bad = "outputs differ from the one-pass evaluation of the modular network"
		}
		if bad != "" {
			r.Fail(Failure{Key: fmt.Sprintf("c13m-agree-%s family=%s via=%s modules=%d depth=%d", name, in.Family, in.Via, len(in.Ctrl), ff.depth),
				What:     name + " solver, feed-forward modular network, ForwardSteps(k) with k >= depth: " + bad,
				Input:    func() c13mInput { c := in; c.Runs = []c12Run{run}; return c }(),
				Observed: map[string]interface{}{"outputs": fmt.Sprint(last.Outs), "codes": c12Codes(runs[i])},
				Required: map[string]interface{}{"outputs": fmt.Sprint(want), "depth": ff.depth}})
		} else {
			r.Hist("modular agreement oracle", name+" = one-pass evaluation")
		}
	}
	// the disagreement on modules fed by sensors is recorded, not failed (outside the agreement statement)
	if in.Family == "sensor-input" {
		var so, fo []float64
		for i, run := range in.Runs {
			if runs[i] == nil || len(run.Ops) != 2 || run.Ops[1].Kind != c12Forward || run.Fresh > 0 {
				continue
			}
			if run.Solver == 0 {
				so = runs[i][1].Outs
			} else {
				fo = runs[i][1].Outs
			}
		}
		if so != nil && fo != nil && !c12Close(so, fo) {
			r.Hist("observation", "module fed directly by a sensor: the fast solver reads 0 (neuronSignalsBeingProcessed of a sensor) where the Network reads the sensor value; outputs differ")
			if len(r.Res.Notes) < 6 {
				b, _ := json.Marshal(in)
				r.Note(fmt.Sprintf("solvers disagree on a module fed by a sensor: Network %v, fast solver %v; input: %s", so, fo, string(b)))
			}
		}
	}
}

// ---- generators ----

type c13mLNode struct {
	role, act int
	in        []c12Link // logical sources
}

// c13mGenFF: feed-forward modular network: sensors; a first hidden layer fed by sensors; modules fed by neurons, each
// writing its own relay neuron (no incoming links), possibly reading earlier relays (modules feeding modules) or second
// layer neurons fed by relays; outputs fed by relays / neurons. Modules are listed in dependency order.
func c13mGenFF(rng *rand.Rand, acts []int, deep int) (c12Net, []c13mCtrl) {
	var ln []c13mLNode
	nIn, nBias := 1+rng.Intn(3), rng.Intn(3)
	for i := 0; i < nIn; i++ {
		ln = append(ln, c13mLNode{role: 1, act: 17})
	}
	for i := 0; i < nBias; i++ {
		ln = append(ln, c13mLNode{role: 3, act: 17})
	}
	ns := nIn + nBias
	pickAct := func() int { return acts[rng.Intn(len(acts))] }
	w := func() float64 { return rng.NormFloat64() * 0.8 }
	feed := func(cands []int, must int) []c12Link {
		var ls []c12Link
		for _, a := range cands {
			if a == must || rng.Float64() < 0.35 {
				ls = append(ls, c12Link{Src: a, W: w()})
			}
		}
		rng.Shuffle(len(ls), func(i, j int) { ls[i], ls[j] = ls[j], ls[i] })
		return ls
	}
	sensors := make([]int, ns)
	for i := range sensors {
		sensors[i] = i
	}
	var neurons []int // neurons available as module inputs / link sources
	for i := 0; i < 2+rng.Intn(3); i++ {
		ln = append(ln, c13mLNode{role: 0, act: pickAct(), in: feed(sensors, rng.Intn(nIn))})
		neurons = append(neurons, len(ln)-1)
	}
	// deep variant: further hidden layers, each fed by the previous one only; the modules then read the last layer,
	// two or three neuron layers away from the sensors
	for l := 0; l < deep; l++ {
		prev := neurons
		neurons = nil
		for i := 0; i < 1+rng.Intn(3); i++ {
			ln = append(ln, c13mLNode{role: 0, act: pickAct(), in: feed(prev, prev[rng.Intn(len(prev))])})
			neurons = append(neurons, len(ln)-1)
		}
	}
	var ctrl []c13mCtrl
	var relays []int
	nMod := 1 + rng.Intn(3)
	for m := 0; m < nMod; m++ {
		k := 1 + rng.Intn(3)
		p := rng.Perm(len(neurons))
		var ins []int
		for i := 0; i < k && i < len(p); i++ {
			ins = append(ins, neurons[p[i]])
		}
		if len(relays) > 0 && rng.Intn(2) == 0 {
			ins[rng.Intn(len(ins))] = relays[len(relays)-1] // module feeding a module
		}
		ln = append(ln, c13mLNode{role: 0, act: []int{17, 14, 4}[rng.Intn(3)]})
		relay := len(ln) - 1
		ctrl = append(ctrl, c13mCtrl{Act: 21 + rng.Intn(3), In: ins, Out: []int{relay}})
		relays = append(relays, relay)
		neurons = append(neurons, relay)
		if rng.Intn(3) == 0 {
			// a neuron behind the relay, available to later modules
			ln = append(ln, c13mLNode{role: 0, act: pickAct(), in: feed(neurons, relay)})
			neurons = append(neurons, len(ln)-1)
		}
	}
	for i := 0; i < 1+rng.Intn(2); i++ {
		srcs := append(append([]int{}, neurons...), sensors...)
		ln = append(ln, c13mLNode{role: 2, act: pickAct(), in: feed(srcs, relays[rng.Intn(len(relays))])})
	}
	return c13mPlace(rng, ln, ctrl, deep > 0 || rng.Intn(2) == 0)
}

// c13mPlace assigns positions (optionally shuffled; sensors keep their relative order so that Genesis agrees)
func c13mPlace(rng *rand.Rand, ln []c13mLNode, ctrl []c13mCtrl, shuffle bool) (c12Net, []c13mCtrl) {
	N := len(ln)
	perm := make([]int, N)
	for i := range perm {
		perm[i] = i
	}
	if shuffle {
		rng.Shuffle(N, func(i, j int) { perm[i], perm[j] = perm[j], perm[i] })
	}
	net := c12Net{Nodes: make([]c12Node, N)}
	for a := 0; a < N; a++ {
		nd := c12Node{Role: ln[a].role, Act: ln[a].act, In: []c12Link{}}
		for _, l := range ln[a].in {
			nd.In = append(nd.In, c12Link{Src: perm[l.Src], W: l.W, TD: l.TD})
		}
		net.Nodes[perm[a]] = nd
	}
	net.Inputs, net.Outputs = []int{}, []int{}
	for p, nd := range net.Nodes {
		if nd.Role == 1 || nd.Role == 3 {
			net.Inputs = append(net.Inputs, p)
		}
		if nd.Role == 2 {
			net.Outputs = append(net.Outputs, p)
		}
	}
	out := make([]c13mCtrl, len(ctrl))
	for k, c := range ctrl {
		out[k] = c13mCtrl{Act: c.Act, Trait: c.Trait, In: []int{}, Out: []int{}}
		for _, p := range c.In {
			out[k].In = append(out[k].In, perm[p])
		}
		for _, p := range c.Out {
			out[k].Out = append(out[k].Out, perm[p])
		}
	}
	return net, out
}

func c13mGenesisOK(n c12Net) bool {
	var sens, outs []int
	for p, nd := range n.Nodes {
		if nd.Role == 1 || nd.Role == 3 {
			sens = append(sens, p)
		}
		if nd.Role == 2 {
			outs = append(outs, p)
		}
		for _, l := range nd.In {
			if l.TD {
				return false
			}
		}
	}
	total := 0
	for _, nd := range n.Nodes {
		total += len(nd.In)
	}
	return total > 0 && len(outs) > 0 && fmt.Sprint(sens) == fmt.Sprint(n.Inputs) && fmt.Sprint(outs) == fmt.Sprint(n.Outputs)
}

func c13mRandNodes(rng *rand.Rand, N, k int) []int {
	out := make([]int, 0, k)
	for i := 0; i < k; i++ {
		out = append(out, rng.Intn(N))
	}
	return out
}

// c13mRuns: per solver the Flush pair of c13.go, plus (when depth > 0) the agreement runs Load x; Forward k
// c13mActivateOps: Load and Network.Activate() / ActivateSteps(k) / ForwardSteps(1) calls, one activation call at a time
func c13mActivateOps(rng *rand.Rand, n c12Net, count int) []c12Op {
	nIn := c12CountRole(n, 1)
	ops := []c12Op{{Kind: c12Load, X: c12RandVec(rng, nIn)}}
	for i := 0; i < count; i++ {
		switch k := rng.Intn(10); {
		case k < 5:
			ops = append(ops, c12Op{Kind: c13mActivate, K: 20})
		case k < 7:
			ops = append(ops, c12Op{Kind: c13mActivate, K: []int{1, 2, 3, 0, -1}[rng.Intn(5)]})
		case k < 9:
			ops = append(ops, c12Op{Kind: c12Forward, K: 1})
		default:
			ops = append(ops, c12Op{Kind: c12Load, X: c12RandVec(rng, nIn)})
		}
	}
	return ops
}

func c13mRuns(rng *rand.Rand, n c12Net, depth int) []c12Run {
	runs := c13Runs(rng, n)
	// the Network's own entry points: a history, Flush, then single activation calls, against a fresh Network
	hist := c13mActivateOps(rng, n, rng.Intn(4))
	seq := c13mActivateOps(rng, n, 1+rng.Intn(5))
	ops := append(append(append([]c12Op{}, hist...), c12Op{Kind: c12Flush}), seq...)
	runs = append(runs, c12Run{Solver: 0, Ops: ops, State: 2, Fresh: len(hist) + 1}, c12Run{Solver: 0, Ops: seq, State: 2})
	if depth > 0 {
		x := c12RandVec(rng, c12CountRole(n, 1))
		k := depth + []int{0, 0, 1, 2}[rng.Intn(4)]
		ops := []c12Op{{Kind: c12Load, X: x}, {Kind: c12Forward, K: k}}
		runs = append(runs, c12Run{Solver: 0, Ops: ops, State: 2}, c12Run{Solver: 1, Ops: ops, State: 2})
	}
	return runs
}

func c13mGen(rng *rand.Rand, i int) c13mInput {
	fams := []string{"ff-module", "deep-module", "sensor-input", "random", "bad-arity", "unknown-type", "reversed-chain", "bias-slot", "random", "no-module", "into-sensor", "deep-module", "ff-module"}
	fam := fams[i%len(fams)]
	acts := c12CoqActs
	if rng.Intn(3) == 0 {
		acts = c12AllActs
	}
	in := c13mInput{Kind: "c13m", Family: fam, Via: "direct"}
	depth := 0
	switch fam {
	case "random", "no-module", "into-sensor":
		g := c13Gen{nIn: 1 + rng.Intn(3), nBias: rng.Intn(3), nHid: 1 + rng.Intn(5), nOut: 1 + rng.Intn(2),
			pEdge: 0.15 + 0.3*rng.Float64(), family: []string{"random", "self-loop", "2-cycle", "feed-forward-ish"}[rng.Intn(4)], shuffle: rng.Intn(2) == 0}
		if rng.Intn(4) == 0 {
			g.pTD = 0.3
		}
		in.Net = c13GenGraph(rng, g)
		sort.Ints(in.Net.Inputs)
		N := len(in.Net.Nodes)
		if fam != "no-module" {
			for m := 0; m < 1+rng.Intn(3); m++ {
				c := c13mCtrl{Act: 21 + rng.Intn(3), In: c13mRandNodes(rng, N, rng.Intn(4)), Out: c13mRandNodes(rng, N, 1)}
				if fam == "into-sensor" && m == 0 {
					c.Out = []int{in.Net.Inputs[rng.Intn(len(in.Net.Inputs))]}
				}
				in.Ctrl = append(in.Ctrl, c)
			}
		}
	default:
		deep := 0
		if fam == "deep-module" {
			deep = 1 + rng.Intn(2)
		} else if rng.Intn(4) == 0 {
			deep = 1
		}
		in.Net, in.Ctrl = c13mGenFF(rng, acts, deep)
		N := len(in.Net.Nodes)
		switch fam {
		case "ff-module", "deep-module":
			in.Agree = true
		case "sensor-input":
			c := &in.Ctrl[rng.Intn(len(in.Ctrl))]
			c.In[rng.Intn(len(c.In))] = in.Net.Inputs[rng.Intn(len(in.Net.Inputs))]
		case "bad-arity":
			c := &in.Ctrl[rng.Intn(len(in.Ctrl))]
			if rng.Intn(2) == 0 {
				c.Out = []int{}
			} else {
				c.Out = append(c.Out, rng.Intn(N))
				if rng.Intn(3) == 0 {
					c.Out = append(c.Out, rng.Intn(N))
				}
			}
		case "unknown-type":
			in.Ctrl[rng.Intn(len(in.Ctrl))].Act = []int{4, 0, 17, 24}[rng.Intn(4)]
		case "reversed-chain":
			for a, b := 0, len(in.Ctrl)-1; a < b; a, b = a+1, b-1 {
				in.Ctrl[a], in.Ctrl[b] = in.Ctrl[b], in.Ctrl[a]
			}
		case "bias-slot":
			// a module that writes a bias node, listed after a module that reads that bias node (the scratch slot of
			// a bias neuron: Flush has to clear it)
			var bias []int
			for p, nd := range in.Net.Nodes {
				if nd.Role == 3 {
					bias = append(bias, p)
				}
			}
			if len(bias) > 0 {
				b := bias[rng.Intn(len(bias))]
				first := &in.Ctrl[0]
				first.In = append(first.In, b)
				src := in.Ctrl[len(in.Ctrl)-1].In[0]
				in.Ctrl = append(in.Ctrl, c13mCtrl{Act: 21 + rng.Intn(3), In: []int{src}, Out: []int{b}})
			}
		}
	}
	if rng.Intn(5) == 0 && len(in.Ctrl) > 0 {
		in.Ctrl[rng.Intn(len(in.Ctrl))].Trait = true
	}
	if rng.Intn(5) < 3 {
		// control links with weights other than 1 (hand-wired networks may have any): no solver reads them
		wv := func() float64 {
			switch rng.Intn(5) {
			case 0:
				return 0
			case 1:
				return -1.5
			case 2:
				return 2
			}
			return rng.NormFloat64()
		}
		for k := range in.Ctrl {
			c := &in.Ctrl[k]
			c.InW, c.OutW = make([]float64, len(c.In)), make([]float64, len(c.Out))
			for j := range c.InW {
				c.InW[j] = wv()
			}
			for j := range c.OutW {
				c.OutW[j] = wv()
			}
		}
	}
	if c13mGenesisOK(in.Net) && rng.Intn(2) == 0 {
		in.Via = "genesis"
		in.DisabledLinks = rng.Intn(3)
		in.DisabledCtrl = rng.Intn(3)
	}
	if in.Agree || fam == "sensor-input" || fam == "reversed-chain" || fam == "bias-slot" {
		if _, ff := c13mIdeal(in, make([]float64, c12CountRole(in.Net, 1))); ff.ok {
			depth = ff.depth
		} else {
			depth = len(in.Net.Nodes)
		}
		if depth < 1 {
			depth = 1
		}
	}
	in.Runs = c13mRuns(rng, in.Net, depth)
	return in
}

// c13mHand: hand-built networks (the library's own test network, and the two recorded findings)
func c13mHand() []c13mInput {
	lnk := func(src int, w float64) c12Link { return c12Link{Src: src, W: w} }
	load := func(x ...float64) c12Op { return c12Op{Kind: c12Load, X: x} }
	fwd := func(k int) c12Op { return c12Op{Kind: c12Forward, K: k} }
	both := func(ops ...c12Op) []c12Run {
		return []c12Run{{Solver: 0, Ops: ops, State: 2}, {Solver: 1, Ops: ops, State: 2}}
	}
	flushPair := func(solver int, hist, seq []c12Op) []c12Run {
		ops := append(append(append([]c12Op{}, hist...), c12Op{Kind: c12Flush}), seq...)
		return []c12Run{{Solver: solver, Ops: ops, State: 2, Fresh: len(hist) + 1}, {Solver: solver, Ops: seq, State: 2}}
	}
	var out []c13mInput
	// network_test.go buildModularNetwork: 2 inputs, bias, hidden 4 and 5 -> multiply -> hidden 7 -> outputs 8 and 9
	test := c12Net{Nodes: []c12Node{
		{Role: 1, Act: 4, In: []c12Link{}}, {Role: 1, Act: 4, In: []c12Link{}}, {Role: 3, Act: 4, In: []c12Link{}},
		{Role: 0, Act: 14, In: []c12Link{lnk(0, 15), lnk(2, 10)}}, {Role: 0, Act: 14, In: []c12Link{lnk(1, 5), lnk(2, 1)}},
		{Role: 0, Act: 17, In: []c12Link{}},
		{Role: 2, Act: 14, In: []c12Link{lnk(5, 4.5)}}, {Role: 2, Act: 14, In: []c12Link{lnk(5, 13)}}},
		Inputs: []int{0, 1, 2}, Outputs: []int{6, 7}}
	for _, act := range []int{21, 22, 23} {
		for _, via := range []string{"direct", "genesis"} {
			in := c13mInput{Kind: "c13m", Family: "library-test-network", Via: via, Net: test, Ctrl: []c13mCtrl{{Act: act, In: []int{3, 4}, Out: []int{5}}}, Agree: true}
			in.Runs = append(both(load(1, 2), fwd(3)), both(load(1, 2, 1), fwd(5), fwd(1), c12Op{Kind: c12Recursive}, c12Op{Kind: c12Relax, K: 2, Delta: 0.5})...)
			in.Runs = append(in.Runs, flushPair(0, []c12Op{load(1, 2), fwd(3)}, []c12Op{load(0.5, -1), fwd(2), fwd(1)})...)
			in.Runs = append(in.Runs, flushPair(1, []c12Op{load(1, 2), fwd(3)}, []c12Op{load(0.5, -1), fwd(2), fwd(1)})...)
			out = append(out, in)
		}
	}
	// a multiply module fed directly by the two inputs: Network 15, fast solver 0
	sens := c12Net{Nodes: []c12Node{{Role: 1, Act: 17, In: []c12Link{}}, {Role: 1, Act: 17, In: []c12Link{}},
		{Role: 0, Act: 17, In: []c12Link{}}, {Role: 2, Act: 14, In: []c12Link{lnk(2, 1)}}}, Inputs: []int{0, 1}, Outputs: []int{3}}
	out = append(out, c13mInput{Kind: "c13m", Family: "sensor-input", Via: "direct", Net: sens, Ctrl: []c13mCtrl{{Act: 21, In: []int{0, 1}, Out: []int{2}}},
		Runs: both(load(3, 5), fwd(3))})
	// a module writing the bias node, read by an earlier module: before the repair of Flush the written scratch slot
	// survived the fast solver's Flush (regression test of that fix: the fresh-instance oracle fails on it with the old Flush)
	bs := c12Net{Nodes: []c12Node{{Role: 1, Act: 17, In: []c12Link{}}, {Role: 3, Act: 17, In: []c12Link{}},
		{Role: 0, Act: 17, In: []c12Link{}}, {Role: 2, Act: 14, In: []c12Link{lnk(2, 1)}}, {Role: 0, Act: 14, In: []c12Link{lnk(0, 1)}}},
		Inputs: []int{0, 1}, Outputs: []int{3}}
	bsIn := c13mInput{Kind: "c13m", Family: "bias-slot", Via: "direct", Net: bs,
		Ctrl: []c13mCtrl{{Act: 21, In: []int{1}, Out: []int{2}}, {Act: 21, In: []int{4}, Out: []int{1}}}}
	bsIn.Runs = append(flushPair(0, []c12Op{load(7), fwd(1), fwd(1)}, []c12Op{load(7), fwd(1), fwd(1), fwd(1)}),
		flushPair(1, []c12Op{load(7), fwd(1), fwd(1)}, []c12Op{load(7), fwd(1), fwd(1), fwd(1)})...)
	out = append(out, bsIn)
	// control node with two / zero outgoing links, an unregistered module type
	for _, c := range []c13mCtrl{{Act: 22, In: []int{3}, Out: []int{5, 6}}, {Act: 23, In: []int{3}, Out: []int{}}, {Act: 4, In: []int{3, 4}, Out: []int{5}}, {Act: 21, In: []int{}, Out: []int{5}}, {Act: 22, In: []int{}, Out: []int{5}}, {Act: 23, In: []int{}, Out: []int{5}}} {
		out = append(out, c13mInput{Kind: "c13m", Family: "error-paths", Via: "direct", Net: test, Ctrl: []c13mCtrl{c},
			Runs: both(load(1, 2), fwd(2), fwd(1), c12Op{Kind: c12Relax, K: 2, Delta: 0}, c12Op{Kind: c12Flush}, fwd(1))})
	}
	return out
}

// c13mCases is called from runC13 (c13.go)
func c13mCases(r *Run) {
	defer func() { c12Table = nil }()
	rng := rand.New(rand.NewSource(r.Rng.Int63()))
	inputs := c13mHand()
	n := r.N(330, 4400)
	for i := 0; i < n; i++ {
		inputs = append(inputs, c13mGen(rng, i))
	}
	const imports = "Res Net Fast NetMod FastMod C12Cases ModCases"
	shard, inShard := 100, 0
	cf := r.NewCaseFile(shard, imports, "c13m_case")
	for k, in := range inputs {
		if inShard >= 120 {
			cf.Close("c13m_mismatches")
			shard++
			inShard = 0
			cf = r.NewCaseFile(shard, imports, "c13m_case")
		}
		c13mOne(r, cf, 100000+k, in)
		inShard++
	}
	cf.Close("c13m_mismatches")
	r.Res.Rule += "; modular networks (harness/c13_mod.go): feed-forward networks with 1-3 modules (multiply / max / min, modules feeding modules), modules fed by sensors, " +
		"wrong numbers of outgoing links, unregistered module types, reversed module order, modules writing bias nodes and sensors, random graphs with random modules, " +
		"built by NewModularNetwork or by Genesis from a modular genome (disabled link genes and control genes, control node with a trait); per solver the Flush pair, " +
		"the model-file round trip of the fast solver and the agreement runs; non-trivial = at least one module"
}

func c13mReplay(r *Run, input []byte) error {
	var in c13mInput
	if err := json.Unmarshal(input, &in); err != nil {
		return err
	}
	for i := range in.Net.Nodes {
		if in.Net.Nodes[i].In == nil {
			in.Net.Nodes[i].In = []c12Link{}
		}
	}
	c13mOne(r, nil, 0, in)
	c12Table = nil
	return nil
}
