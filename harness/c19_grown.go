//go:build verif

package main

import (
	"fmt"
)

// c19GrownChampion: the complexity aggregates are recomputed from the recorded champion as it is when asked: a
// champion whose network gained links in place after an earlier query (NNode.ConnectFrom is public) is reported with
// its present complexity by every accessor.
func c19GrownChampion(r *Run) {
	for k := 0; k < r.N(30, 300); k++ {
		in := c19GenExp(r)
		b := c19Build(in)
		before := c19ObserveExp(b)
		grown := map[[2]int]int{}
		for ti := range b.champs {
			for gi, org := range b.champs[ti] {
				if org == nil {
					continue
				}
				net, err := org.Phenotype()
				if err != nil || net == nil {
					continue
				}
				nodes := net.BaseNodes()
				add := 1 + r.Rng.Intn(3)
				for a := 0; a < add; a++ {
					from, to := nodes[r.Rng.Intn(len(nodes))], nodes[r.Rng.Intn(len(nodes))]
					to.ConnectFrom(from, 0.5)
				}
				grown[[2]int{ti, gi}] = add
				b.cplx[org] += add
			}
		}
		if len(grown) == 0 {
			continue
		}
		after := c19ObserveExp(b)
		input := map[string]interface{}{"kind": "grown-champion", "experiment": in, "links_added": fmt.Sprint(grown)}
		for ti := range b.champs {
			for gi, org := range b.champs[ti] {
				if org == nil || ti >= len(after.Trials) || gi >= len(after.Trials[ti].ChC) || gi >= len(before.Trials[ti].ChC) {
					continue
				}
				want := before.Trials[ti].ChC[gi] + int64(grown[[2]int{ti, gi}])
				if got := after.Trials[ti].ChC[gi]; got != want {
					r.Fail(Failure{Key: "grown-champion-complexity", What: "Generation.ChampionComplexity asked again after the recorded champion's network gained links in place is not nodes+links of the network as it is now",
						Input: input, Observed: fmt.Sprint("trial ", ti, " generation ", gi, ": ", got), Required: fmt.Sprint(want)})
					goto next
				}
			}
		}
		// the experiment-level series follow the same recount
		{
			b2 := c19Build(in)
			for ti := range b2.champs {
				for gi, org := range b2.champs[ti] {
					if org == nil {
						continue
					}
					if net, err := org.Phenotype(); err == nil && net != nil {
						// same growth on a never-queried twin
						nodes := net.BaseNodes()
						for a := 0; a < grown[[2]int{ti, gi}]; a++ {
							nodes[0].ConnectFrom(nodes[0], 0.5)
						}
					}
				}
			}
			twin := c19ObserveExp(b2)
			if fmt.Sprint(after.BestCplx) != fmt.Sprint(twin.BestCplx) {
				r.Fail(Failure{Key: "grown-champion-best-complexity", What: "BestComplexity after a query-grow-query sequence differs from the same experiment grown before its first query",
					Input: input, Observed: fmt.Sprint(after.BestCplx), Required: fmt.Sprint(twin.BestCplx)})
			}
		}
	next:
		r.Count(fmt.Sprint("grown ", k, grown), true)
	}
	r.Hist("grown_champion", "checked")
}
