package main

import (
	"fmt"
	"sync"

	"github.com/yaricom/goNEAT/v4/neat/genetics"
)

// c04Concurrent: crossovers of DIFFERENT pairs of parents running at the same time (as the per-species goroutines
// of the parallel executor do) must each satisfy the alignment rules for their own parents: the child-by-child
// oracle of C04 does not depend on the random draws, so it can be evaluated whatever the interleaving.
func c04Concurrent(r *Run, families []*family) {
	type job struct {
		a, b *genetics.Genome
	}
	var jobs []job
	for _, f := range families {
		if len(f.members) < 2 {
			continue
		}
		for k := 0; k < 3; k++ {
			a, e1 := genetics.VDuplicate(f.pick(r.Rng), 1)
			b, e2 := genetics.VDuplicate(f.pick(r.Rng), 2)
			if e1 == nil && e2 == nil && wfGenome(a) == nil && wfGenome(b) == nil {
				jobs = append(jobs, job{a, b})
			}
		}
	}
	if len(jobs) < 2 {
		return
	}
	if len(jobs) > 16 {
		jobs = jobs[:16]
	}
	var mu sync.Mutex
	type failure struct{ key, what, a, b, c string }
	var first *failure
	var wg sync.WaitGroup
	start := make(chan struct{})
	for w, j := range jobs {
		wg.Add(1)
		go func(w int, j job) {
			defer wg.Done()
			defer func() { _ = recover() }()
			<-start
			for i := 0; i < 150; i++ {
				m := (w + i) % 3
				f1, f2 := float64(1+(i%3)), float64(1+((i/3)%3))
				child, err := genetics.VMate(m, j.a, j.b, 900+i, f1, f2)
				if err != nil || child == nil {
					continue
				}
				bad := func(key, what string) {
					mu.Lock()
					if first == nil {
						first = &failure{key, what, snap(j.a).str(), snap(j.b).str(), snap(child).str()}
					}
					mu.Unlock()
				}
				checkMate(m, j.a, j.b, f1, f2, child, bad)
			}
		}(w, j)
	}
	close(start)
	wg.Wait()
	if first != nil {
		r.Fail(Failure{Key: "concurrent-" + first.key, What: "with " + fmt.Sprint(len(jobs)) + " crossovers of different parents running at the same time: " + first.what,
			Input: map[string]interface{}{"kind": "concurrent-crossovers", "goroutines": len(jobs), "parent1": first.a, "parent2": first.b}, Observed: first.c})
	}
	r.Hist("concurrent_crossovers", fmt.Sprint(len(jobs), " goroutines"))
}
