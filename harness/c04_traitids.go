//go:build verif

package main

import (
	"fmt"
	"strings"

	"github.com/yaricom/goNEAT/v4/neat/genetics"
)

// c04TraitIdLists: relatives whose trait ids are not consecutive ascending numbers. The crossovers find a trait of
// the child by arithmetic on ids (Trait.Id - Traits[0].Id): with ids 2,5,9 or 3,2,1 they index outside the trait
// list. The statement (the child has the parents' number of traits with averaged parameters, for all well-formed
// relatives) does not ask for consecutive ids. With ids 1,3,2 (the library's own test genome) nothing panics and the
// clauses of the statement hold (the child's trait REFERENCES are permuted, which the statement does not mention).
func c04TraitIdLists(r *Run) {
	for _, ids := range [][3]int{{1, 2, 3}, {1, 3, 2}, {2, 5, 9}, {3, 2, 1}, {4, 5, 6}} {
		text := fmt.Sprintf("genomestart 1\ntrait %d 0.1 0 0 0 0 0 0 0\ntrait %d 0.2 0 0 0 0 0 0 0\ntrait %d 0.3 0 0 0 0 0 0 0\n", ids[0], ids[1], ids[2]) +
			fmt.Sprintf("node 1 %d 1 1 NullActivation\nnode 2 %d 1 1 NullActivation\nnode 3 %d 1 3 NullActivation\nnode 4 %d 0 2 SigmoidSteepenedActivation\n", ids[0], ids[1], ids[2], ids[2]) +
			fmt.Sprintf("gene %d 1 4 0.5 false 1 0.5 true\ngene %d 2 4 -0.5 false 2 -0.5 true\ngene %d 3 4 1.5 false 3 1.5 true\n", ids[2], ids[1], ids[0]) +
			"genomeend 1\n"
		for method := 0; method < 3; method++ {
			a, b := readPlain(text, 1), readPlain(text, 2)
			for i, x := range b.Genes {
				x.Link.ConnectionWeight += float64(i + 1)
			}
			var child *genetics.Genome
			var err error
			panicked := ""
			func() {
				defer func() {
					if p := recover(); p != nil {
						panicked = fmt.Sprint(p)
					}
				}()
				child, err = genetics.VMate(method, a, b, 3, 1.0, 2.0)
			}()
			in := map[string]interface{}{"kind": "trait-id-list", "trait_ids": ids, "method": method, "genome": text}
			consecutive := ids[1] == ids[0]+1 && ids[2] == ids[1]+1
			switch {
			case panicked != "":
				key := "mate-trait-index-nonconsecutive-ids"
				if consecutive {
					key = "mate-panic consecutive-ids"
				}
				r.Fail(Failure{Key: key, What: "a crossover of two well-formed relatives whose trait ids are not consecutive ascending numbers panics (traits are found by Trait.Id - Traits[0].Id)",
					Input: in, Observed: "panic: " + panicked, Required: "a child with the parents' number of traits, averaged parameters"})
			case err != nil:
				r.Fail(Failure{Key: "mate-error trait-ids", What: "a crossover of two well-formed relatives fails", Input: in, Observed: err.Error(), Required: "a child"})
			default:
				if len(child.Traits) != 3 || len(child.Genes) != 3 {
					r.Fail(Failure{Key: "mate-traits trait-ids", What: "the child does not have the parents' number of traits / the common genes", Input: in,
						Observed: fmt.Sprint(len(child.Traits), " traits ", len(child.Genes), " genes"), Required: "3 traits, 3 genes"})
				}
				for i, t := range child.Traits {
					if len(t.Params) == 0 || t.Params[0] != a.Traits[i].Params[0] || t.Id != a.Traits[i].Id {
						r.Fail(Failure{Key: "mate-traits trait-ids", What: "the child's traits are not the parents' traits with averaged parameters (equal parents: the same parameters)", Input: in,
							Observed: fmt.Sprint(t.Id, t.Params), Required: fmt.Sprint(a.Traits[i].Id, a.Traits[i].Params)})
					}
				}
			}
			r.Count(fmt.Sprint("trait-ids ", ids, method), true)
			r.Hist("trait_id_lists", strings.Trim(fmt.Sprint(ids), "[]"))
		}
	}
}
