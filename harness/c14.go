package main

import (
	"encoding/json"
	"errors"
	"fmt"
	"math"
	"strings"

	"github.com/yaricom/goNEAT/v4/neat/genetics"
	"github.com/yaricom/goNEAT/v4/neat/network"
)

// C14: activation depth (Network.MaxActivationDepth / MaxActivationDepthWithCap, NNode.Depth).
// A case is a network topology plus a sequence of depth queries issued one after the other on the
// SAME network object; the observation is (value, error code, ids still marked visited) per query.
// neuron type codes: 0 hidden, 1 input, 2 output, 3 bias.  query = [kind, cap], kind 0 =
// MaxActivationDepth(), kind 1 = MaxActivationDepthWithCap(cap).

func init() {
	runners["C14"] = runC14
	replayers["C14"] = replayC14
}

type c14Input struct {
	Family  string   `json:"family"`
	Via     string   `json:"via"`   // "ctor": NewNNode/ConnectFrom/NewNetwork; "genesis": plain genome text -> ReadGenome -> Genesis
	Nodes   [][2]int `json:"nodes"` // [id, neuron type], in allNodes order
	Inputs  []int    `json:"inputs"`
	Outputs []int    `json:"outputs"`
	Links   [][2]int `json:"links"` // [in id, out id], in creation order
	Control int      `json:"control"`
	Queries [][2]int `json:"queries"`
	// per link, optional: bit 0 = Link.IsRecurrent, bit 1 = Link.IsTimeDelayed (public fields a caller may set;
	// depth is topological and must ignore them), and the weight (1.0 when absent; 0 and negative included)
	Flags   []int     `json:"flags,omitempty"`
	Weights []float64 `json:"weights,omitempty"`
}

type c14Obs struct {
	Value int   `json:"value"`
	Err   int   `json:"err"` // 0 nil, 1 ErrMaximalNetDepthExceeded, 2 other
	Marks []int `json:"marks"`
}

func c14ErrCode(err error) int {
	switch {
	case err == nil:
		return 0
	case errors.Is(err, network.ErrMaximalNetDepthExceeded):
		return 1
	default:
		return 2
	}
}

func c14IsSensor(t int) bool { return t == 1 || t == 3 }

// c14Build constructs a brand-new network object for the topology through the public constructors
func c14Build(in c14Input) (*network.Network, error) {
	if in.Via == "genesis" {
		var sb strings.Builder
		sb.WriteString("genomestart 1\ntrait 1 0.1 0 0 0 0 0 0 0\n")
		for _, nd := range in.Nodes {
			nt := 0 // NeuronNode
			if c14IsSensor(nd[1]) {
				nt = 1
			}
			fmt.Fprintf(&sb, "node %d 1 %d %d SigmoidSteepenedActivation\n", nd[0], nt, nd[1])
		}
		for i, l := range in.Links {
			w, rec := 1.0, false
			if i < len(in.Weights) {
				w = in.Weights[i]
			}
			if i < len(in.Flags) {
				rec = in.Flags[i]&1 != 0
			}
			fmt.Fprintf(&sb, "gene 1 %d %d %v %v %d 0 true\n", l[0], l[1], w, rec, i+1)
		}
		sb.WriteString("genomeend 1\n")
		g, err := genetics.ReadGenome(strings.NewReader(sb.String()), 1)
		if err != nil {
			return nil, err
		}
		return g.Genesis(1)
	}
	byId := map[int]*network.NNode{}
	all := make([]*network.NNode, 0, len(in.Nodes))
	for _, nd := range in.Nodes {
		n := network.NewNNode(nd[0], network.NodeNeuronType(nd[1]))
		byId[nd[0]] = n
		all = append(all, n)
	}
	for i, l := range in.Links {
		a, b := byId[l[0]], byId[l[1]]
		if a == nil || b == nil {
			return nil, fmt.Errorf("link %v names no node", l)
		}
		w := 1.0
		if i < len(in.Weights) {
			w = in.Weights[i]
		}
		lk := b.ConnectFrom(a, w)
		if i < len(in.Flags) {
			lk.IsRecurrent = in.Flags[i]&1 != 0
			lk.IsTimeDelayed = in.Flags[i]&2 != 0
		}
	}
	pick := func(ids []int) []*network.NNode {
		out := make([]*network.NNode, 0, len(ids))
		for _, id := range ids {
			out = append(out, byId[id])
		}
		return out
	}
	if in.Control > 0 {
		ctl := make([]*network.NNode, in.Control)
		for i := range ctl {
			ctl[i] = network.NewNNode(100000+i, network.HiddenNeuron)
		}
		return network.NewModularNetwork(pick(in.Inputs), pick(in.Outputs), all, ctl, 1), nil
	}
	return network.NewNetwork(pick(in.Inputs), pick(in.Outputs), all, 1), nil
}

func c14Ask(n *network.Network, q [2]int) c14Obs {
	var v int
	var err error
	if q[0] == 0 {
		v, err = n.MaxActivationDepth()
	} else {
		v, err = n.MaxActivationDepthWithCap(q[1])
	}
	return c14Obs{Value: v, Err: c14ErrCode(err), Marks: network.VC14Visited(n)}
}

// c14Exec runs the query sequence on one network object
func c14Exec(in c14Input) ([]c14Obs, error) {
	n, err := c14Build(in)
	if err != nil {
		return nil, err
	}
	obs := make([]c14Obs, 0, len(in.Queries))
	for _, q := range in.Queries {
		obs = append(obs, c14Ask(n, q))
	}
	return obs, nil
}

// ---- Go-side oracle of the statement (independent of the Coq model and of NNode.Depth) ----

// c14Topo returns a topological order of the node ids, ok=false when the link relation has a cycle
func c14Topo(in c14Input) ([]int, bool) {
	indeg := map[int]int{}
	succ := map[int][]int{}
	for _, nd := range in.Nodes {
		indeg[nd[0]] = 0
	}
	for _, l := range in.Links {
		indeg[l[1]]++
		succ[l[0]] = append(succ[l[0]], l[1])
	}
	queue := []int{}
	for _, nd := range in.Nodes {
		if indeg[nd[0]] == 0 {
			queue = append(queue, nd[0])
		}
	}
	order := []int{}
	for len(queue) > 0 {
		v := queue[0]
		queue = queue[1:]
		order = append(order, v)
		for _, w := range succ[v] {
			indeg[w]--
			if indeg[w] == 0 {
				queue = append(queue, w)
			}
		}
	}
	return order, len(order) == len(in.Nodes)
}

// c14Longest: number of links of the longest path ending in an output, by dynamic programming over
// a topological order.  plain: every path; stopped: paths on which every node after the first is a
// neuron (a sensor ignores its incoming links).  The two agree when no link enters a sensor.
func c14Longest(in c14Input, order []int) (plain, stopped int) {
	typ := map[int]int{}
	for _, nd := range in.Nodes {
		typ[nd[0]] = nd[1]
	}
	pred := map[int][]int{}
	for _, l := range in.Links {
		pred[l[1]] = append(pred[l[1]], l[0])
	}
	p := map[int]int{}
	s := map[int]int{}
	for _, v := range order {
		for _, u := range pred[v] {
			if p[u]+1 > p[v] {
				p[v] = p[u] + 1
			}
			if !c14IsSensor(typ[v]) && s[u]+1 > s[v] {
				s[v] = s[u] + 1
			}
		}
	}
	for _, o := range in.Outputs {
		if p[o] > plain {
			plain = p[o]
		}
		if s[o] > stopped {
			stopped = s[o]
		}
	}
	return
}

func c14Key(kind string, in c14Input) string {
	return fmt.Sprintf("%s nodes=%v in=%v out=%v links=%v ctl=%d", kind, in.Nodes, in.Inputs, in.Outputs, in.Links, in.Control)
}

// c14Oracle checks the property statement on the real code for one case; obs is what the query
// sequence returned on one network object
func c14Oracle(r *Run, in c14Input, obs []c14Obs) {
	if in.Control > 0 {
		// outside the property (modular): the capped query must refuse
		for i, o := range obs {
			if in.Queries[i][0] == 1 && (o.Value != -1 || o.Err != 2) {
				r.Fail(Failure{Key: c14Key("modular-refused", in), What: "MaxActivationDepthWithCap on a modular network must return -1 and an error",
					Input: in, Observed: o})
			}
		}
		return
	}
	fresh := func(q [2]int) (c14Obs, bool) {
		n, err := c14Build(in)
		if err != nil {
			return c14Obs{}, false
		}
		return c14Ask(n, q), true
	}
	ref, ok := fresh([2]int{1, 0})
	if !ok {
		return
	}
	nNodes := len(in.Nodes)
	hasHidden := nNodes != len(in.Inputs)+len(in.Outputs)
	// uncapped on a fresh network: no error, 0 <= r0 <= number of nodes
	if ref.Err != 0 || ref.Value < 0 || (nNodes > 0 && ref.Value > nNodes) {
		r.Fail(Failure{Key: c14Key("depth-range", in), What: "uncapped depth of a fresh network must be between 0 and the number of nodes, without error",
			Input: in, Observed: ref, Required: map[string]interface{}{"min": 0, "max": nNodes, "err": 0}})
		return
	}
	r0 := ref.Value
	order, dag := c14Topo(in)
	if dag && hasHidden {
		plain, stopped := c14Longest(in, order)
		if plain != stopped {
			r.Hist("dag-with-links-into-sensors", "yes")
		}
		if r0 != stopped {
			r.Fail(Failure{Key: c14Key("depth-dag", in), What: "depth of an acyclic network with a hidden node is not the number of links on the longest path ending in an output",
				Input: in, Observed: ref, Required: map[string]interface{}{"longest_path_links": stopped, "longest_path_links_ignoring_sensor_rule": plain}})
			return
		}
	}
	want := func(q [2]int) (int, int) {
		if q[0] == 0 || q[1] <= 0 || r0 <= q[1] {
			return r0, 0
		}
		return q[1], 1
	}
	for i, o := range obs {
		q := in.Queries[i]
		wv, we := want(q)
		if o.Value == wv && o.Err == we {
			continue
		}
		// the answer differs from the one the statement requires; does a fresh network give the required one?
		f, _ := fresh(q)
		if i > 0 && f.Value == wv && f.Err == we {
			r.Fail(Failure{Key: c14Key(fmt.Sprintf("later-query-differs-from-fresh queries=%v at=%d", in.Queries[:i+1], i), in),
				What:  "a depth query after earlier queries on the same network answers differently from the same query on a fresh network (traversal marks left behind)",
				Input: in, Observed: map[string]interface{}{"sequence": obs[:i+1]}, Required: map[string]interface{}{"value": wv, "err": we, "fresh": f}})
		} else {
			r.Fail(Failure{Key: c14Key(fmt.Sprintf("cap-semantics query=%v", q), in),
				What:  "with cap > 0 the result must be the uncapped depth when it does not exceed the cap, otherwise the cap with ErrMaximalNetDepthExceeded; without cap the uncapped depth",
				Input: in, Observed: map[string]interface{}{"query": q, "answer": o, "uncapped": r0}, Required: map[string]interface{}{"value": wv, "err": we}})
		}
		return
	}
}

// ---- case files ----

func c14Pairs(ps [][2]int) string {
	it := make([]string, len(ps))
	for i, p := range ps {
		it[i] = Pair(ZI(p[0]), ZI(p[1]))
	}
	return List(it)
}

func c14Term(id int, in c14Input, obs []c14Obs) string {
	os := make([]string, len(obs))
	for i, o := range obs {
		os[i] = fmt.Sprintf("(%s, %d, %s)", ZI(o.Value), o.Err, IList(o.Marks))
	}
	return fmt.Sprintf("{| c14_id := %d; c14_nodes := %s; c14_inputs := %s; c14_outputs := %s; c14_links := %s; c14_control := %d; c14_queries := %s; c14_go := %s |}",
		id, c14Pairs(in.Nodes), IList(in.Inputs), IList(in.Outputs), c14Pairs(in.Links), in.Control, c14Pairs(in.Queries), List(os))
}

func c14One(r *Run, cf *CaseFile, id int, in c14Input) {
	obs, err := c14Exec(in)
	if err != nil {
		r.Note(fmt.Sprintf("case %d (%s/%s) could not be built: %v", id, in.Family, in.Via, err))
		return
	}
	if cf != nil {
		cf.Add(c14Term(id, in, obs))
		r.SaveInput(id, in)
	}
	_, dag := c14Topo(in)
	hidden := 0
	for _, nd := range in.Nodes {
		if nd[1] == 0 {
			hidden++
		}
	}
	r.Count(fmt.Sprint(in.Nodes, in.Inputs, in.Outputs, in.Links, in.Control, in.Queries), hidden > 0 && len(in.Links) >= 2 && len(in.Queries) >= 2)
	r.Hist("family", in.Family)
	r.Hist("via", in.Via)
	r.Hist("nodes", fmt.Sprint(len(in.Nodes)))
	r.Hist("acyclic", fmt.Sprint(dag))
	if len(obs) > 0 {
		r.Hist("first_answer", fmt.Sprint(obs[0].Value))
	}
	for _, o := range obs {
		r.Hist("err", fmt.Sprint(o.Err))
	}
	c14Oracle(r, in, obs)
	r.Sample(map[string]interface{}{"input": in, "observed": obs})
}

// ---- generators ----

// deepTrunk: a trunk of two-neuron layers (every neuron of a layer feeds both neurons of the next one, so a walk that
// does not memoise takes a while), a top neuron, one to three outputs right behind the top neuron and one output
// behind a further chain: several outputs share one long trunk, the deepest path belongs to one of them
func (g c14Gen) deepTrunk(layers int) c14Input {
	types := []int{1}
	links := [][2]int{}
	prev := []int{0}
	for l := 0; l < layers; l++ {
		a, b := len(types), len(types)+1
		types = append(types, 0, 0)
		for _, p := range prev {
			links = append(links, [2]int{p, a}, [2]int{p, b})
		}
		prev = []int{a, b}
	}
	top := len(types)
	types = append(types, 0)
	for _, p := range prev {
		links = append(links, [2]int{p, top})
	}
	for k := 0; k < 1+g.intn(3); k++ {
		o := len(types)
		types = append(types, 2)
		links = append(links, [2]int{top, o})
	}
	cur := top
	for k := 0; k < 2+g.intn(2); k++ {
		h := len(types)
		types = append(types, 0)
		links = append(links, [2]int{cur, h})
		cur = h
	}
	o := len(types)
	types = append(types, 2)
	links = append(links, [2]int{cur, o})
	in := g.finish("deep-trunk-several-outputs", types, links)
	in.Flags, in.Weights = nil, nil
	return in
}

type c14Gen struct {
	r *Run
}

func (g c14Gen) intn(n int) int        { return g.r.Rng.Intn(n) }
func (g c14Gen) chance(p float64) bool { return g.r.Rng.Float64() < p }

// finish: relabels the nodes 0..n-1 of a draft with distinct ids, shuffles node and link order,
// derives the input/output lists from the types and picks the query sequence
func (g c14Gen) finish(family string, types []int, links [][2]int) c14Input {
	n := len(types)
	ids := g.r.Rng.Perm(n)
	base, stride := 1, 1
	if g.chance(0.2) {
		base, stride = 10+g.intn(1000), 1+g.intn(3)
	}
	for i := range ids {
		ids[i] = base + ids[i]*stride
	}
	in := c14Input{Family: family, Via: "ctor"}
	order := g.r.Rng.Perm(n)
	for _, k := range order {
		in.Nodes = append(in.Nodes, [2]int{ids[k], types[k]})
	}
	for _, k := range g.r.Rng.Perm(len(links)) {
		in.Links = append(in.Links, [2]int{ids[links[k][0]], ids[links[k][1]]})
	}
	in.Inputs, in.Outputs = []int{}, []int{}
	for _, nd := range in.Nodes {
		if c14IsSensor(nd[1]) {
			in.Inputs = append(in.Inputs, nd[0])
		} else if nd[1] == 2 {
			in.Outputs = append(in.Outputs, nd[0])
		}
	}
	if in.Links == nil {
		in.Links = [][2]int{}
	}
	if g.chance(0.4) {
		ws := []float64{0, -1, 1, 0.5, -2.5, 1e-300, math.Inf(1)}
		for range in.Links {
			f := 0
			if g.chance(0.3) {
				f = 1 + g.intn(3)
			}
			in.Flags = append(in.Flags, f)
			in.Weights = append(in.Weights, ws[g.intn(len(ws))])
		}
	}
	return in
}

// queries: needs the uncapped answer to aim the caps at 0..depth+1
func (g c14Gen) queries(in *c14Input) {
	r0 := 0
	if n, err := c14Build(*in); err == nil && in.Control == 0 {
		r0, _ = n.MaxActivationDepthWithCap(0)
	}
	cap := func() int {
		switch {
		case g.chance(0.05):
			return -1 - g.intn(3)
		case g.chance(0.05):
			return 50 + g.intn(50)
		default:
			return g.intn(r0 + 2)
		}
	}
	qs := [][2]int{}
	switch g.intn(4) {
	case 0: // the sequence of the repaired defect: small cap first, then uncapped
		qs = append(qs, [2]int{1, 1}, [2]int{1, 0})
	case 1: // every cap from 0 to depth+1 in random order, an uncapped query after each
		for _, c := range g.r.Rng.Perm(r0 + 2) {
			if len(qs) >= 12 {
				break
			}
			qs = append(qs, [2]int{1, c})
			if g.chance(0.6) {
				qs = append(qs, [2]int{g.intn(2), 0})
			}
		}
	case 2: // start uncapped
		qs = append(qs, [2]int{g.intn(2), 0})
	}
	for len(qs) < 3 || (len(qs) < 8 && g.chance(0.5)) {
		if g.chance(0.3) {
			qs = append(qs, [2]int{0, 0})
		} else {
			qs = append(qs, [2]int{1, cap()})
		}
	}
	if in.Control > 0 {
		for i := range qs {
			qs[i][0] = 1
		}
	}
	in.Queries = qs
}

// layered network with skip links
func (g c14Gen) layered() c14Input {
	layers := [][]int{}
	types := []int{}
	add := func(k, t int) {
		l := []int{}
		for i := 0; i < k; i++ {
			tt := t
			if t == 1 && g.chance(0.2) {
				tt = 3
			}
			l = append(l, len(types))
			types = append(types, tt)
		}
		layers = append(layers, l)
	}
	add(1+g.intn(3), 1)
	nh := 1 + g.intn(4)
	for i := 0; i < nh && len(types) < 9; i++ {
		add(1+g.intn(3), 0)
	}
	add(1+g.intn(3), 2)
	links := [][2]int{}
	for li := 1; li < len(layers); li++ {
		for _, v := range layers[li] {
			for lj := 0; lj < li; lj++ {
				p := 0.15
				if lj == li-1 {
					p = 0.7
				}
				for _, u := range layers[lj] {
					if g.chance(p) {
						links = append(links, [2]int{u, v})
					}
				}
			}
		}
	}
	return g.finish("layered-skips", types, links)
}

// chain sensor -> h1 -> ... -> hk -> output, with optional shortcuts and a second output
func (g c14Gen) chain() c14Input {
	k := g.intn(10)
	types := []int{1}
	links := [][2]int{}
	prev := 0
	for i := 0; i < k; i++ {
		types = append(types, 0)
		links = append(links, [2]int{prev, len(types) - 1})
		prev = len(types) - 1
	}
	types = append(types, 2)
	out := len(types) - 1
	links = append(links, [2]int{prev, out})
	if g.chance(0.5) {
		links = append(links, [2]int{0, out})
	}
	if g.chance(0.4) && k >= 2 {
		types = append(types, 2)
		links = append(links, [2]int{1 + g.intn(k), len(types) - 1})
	}
	if g.chance(0.3) && k >= 3 {
		a := 1 + g.intn(k-1)
		links = append(links, [2]int{a, a + 1 + g.intn(k-a)})
	}
	return g.finish("chain", types, links)
}

// nested diamonds: a shared sub-path reached along several routes
func (g c14Gen) diamond() c14Input {
	types := []int{1}
	links := [][2]int{}
	front := 0
	d := 1 + g.intn(3)
	for i := 0; i < d; i++ {
		w := 2 + g.intn(2)
		join := len(types) + w
		for j := 0; j < w; j++ {
			types = append(types, 0)
			links = append(links, [2]int{front, len(types) - 1})
			links = append(links, [2]int{len(types) - 1, join})
			if j > 0 && g.chance(0.5) { // one branch longer than the other
				links = append(links, [2]int{len(types) - 2, len(types) - 1})
			}
		}
		types = append(types, 0)
		front = join
	}
	types[front] = 2
	if g.chance(0.5) {
		types = append(types, 2)
		links = append(links, [2]int{1 + g.intn(front), len(types) - 1})
	}
	return g.finish("diamond", types, links)
}

// random DAG: links respect a hidden order, roles anywhere (hidden sources, hidden sinks,
// disconnected hidden nodes, outputs with outgoing links, several outputs); sensorTargets allows links into sensors
func (g c14Gen) randomDag(sensorTargets bool) c14Input {
	n := 2 + g.intn(11)
	types := make([]int, n)
	for i := range types {
		switch x := g.intn(10); {
		case x < 2:
			types[i] = 1
		case x < 3:
			types[i] = 3
		case x < 5:
			types[i] = 2
		default:
			types[i] = 0
		}
	}
	types[n-1] = 2
	p := 0.1 + 0.5*g.r.Rng.Float64()
	links := [][2]int{}
	for v := 0; v < n; v++ {
		for u := 0; u < v; u++ {
			if !sensorTargets && c14IsSensor(types[v]) {
				continue
			}
			if g.chance(p) {
				links = append(links, [2]int{u, v})
				if g.chance(0.05) { // parallel link
					links = append(links, [2]int{u, v})
				}
			}
		}
	}
	fam := "random-dag"
	if sensorTargets {
		fam = "random-dag-links-into-sensors"
	}
	return g.finish(fam, types, links)
}

// random digraph with cycles and self-loops (edge count bounded: NNode.Depth enumerates simple paths)
func (g c14Gen) cyclic() c14Input {
	n := 2 + g.intn(9)
	types := make([]int, n)
	for i := range types {
		switch x := g.intn(10); {
		case x < 2:
			types[i] = 1
		case x < 4:
			types[i] = 2
		default:
			types[i] = 0
		}
	}
	types[n-1] = 2
	m := n + g.intn(n+3)
	if m > 18 {
		m = 18
	}
	links := [][2]int{}
	for i := 0; i < m; i++ {
		u, v := g.intn(n), g.intn(n)
		if g.chance(0.15) {
			v = u
		}
		if c14IsSensor(types[v]) && g.chance(0.9) {
			continue
		}
		links = append(links, [2]int{u, v})
	}
	return g.finish("random-cyclic", types, links)
}

// one ring of hidden nodes entered from a sensor and left towards an output, optional self-loops
func (g c14Gen) ring() c14Input {
	l := 1 + g.intn(6)
	types := []int{1}
	links := [][2]int{}
	for i := 0; i < l; i++ {
		types = append(types, 0)
	}
	for i := 0; i < l; i++ {
		links = append(links, [2]int{1 + i, 1 + (i+1)%l})
	}
	types = append(types, 2)
	out := len(types) - 1
	links = append(links, [2]int{0, 1 + g.intn(l)}, [2]int{1 + g.intn(l), out})
	if g.chance(0.5) {
		links = append(links, [2]int{out, out})
	}
	if g.chance(0.3) {
		links = append(links, [2]int{out, 1 + g.intn(l)})
	}
	return g.finish("ring", types, links)
}

// no hidden node: the shortcut of MaxActivationDepthWithCap
func (g c14Gen) noHidden() c14Input {
	ns, no := 1+g.intn(3), 1+g.intn(3)
	types := []int{}
	for i := 0; i < ns; i++ {
		types = append(types, 1)
	}
	for i := 0; i < no; i++ {
		types = append(types, 2)
	}
	links := [][2]int{}
	for v := ns; v < ns+no; v++ {
		for u := 0; u < v; u++ {
			if g.chance(0.6) {
				links = append(links, [2]int{u, v})
			}
		}
	}
	if len(links) == 0 {
		links = append(links, [2]int{0, ns})
	}
	return g.finish("no-hidden", types, links)
}

// exhaustive: every DAG whose links respect the order sensor, h1..hk, output (mask over the pairs)
func c14Exhaustive(n int, mask int) (types []int, links [][2]int) {
	types = make([]int, n)
	types[0] = 1
	types[n-1] = 2
	bit := 0
	for v := 1; v < n; v++ {
		for u := 0; u < v; u++ {
			if mask&(1<<bit) != 0 {
				links = append(links, [2]int{u, v})
			}
			bit++
		}
	}
	return
}

func (g c14Gen) dedupe(in *c14Input) {
	seen := map[[2]int]bool{}
	out := [][2]int{}
	for _, l := range in.Links {
		if !seen[l] {
			seen[l] = true
			out = append(out, l)
		}
	}
	in.Links = out
}

func runC14(r *Run) error {
	quiet()
	r.Res.Rule = "network topologies up to 12 nodes built through the public constructors or from plain genome text through Genesis: " +
		"layered with skip links, chains, nested diamonds, random DAGs (hidden sources/sinks, disconnected hidden nodes, several outputs, parallel links, optionally links into sensors), " +
		"rings, random cyclic digraphs with self-loops, networks without hidden nodes, inconsistent input/output lists, modular networks; every DAG on sensor+<=k hidden+output exhaustively; " +
		"each with a sequence of 3..13 queries (caps 0..depth+1, negative, large; cap-1-then-uncapped; MaxActivationDepth) on ONE network object; " +
		"non-trivial = has a hidden node, >= 2 links and >= 2 queries; distinct by topology and query sequence"
	g := c14Gen{r}
	id, shard, perShard := 0, 0, 0
	const imports = "Res Depth C14Cases"
	perFile := r.N(400, 1500)
	cf := r.NewCaseFile(shard, imports, "c14_case")
	add := func(in c14Input) {
		if perShard >= perFile {
			cf.Close("c14_mismatches")
			shard++
			cf = r.NewCaseFile(shard, imports, "c14_case")
			perShard = 0
		}
		c14One(r, cf, id, in)
		id++
		perShard++
	}
	// boundary family: the five-node witness of the repaired defect and friends
	{
		in := c14Input{Family: "witness-e158b24", Via: "ctor",
			Nodes:  [][2]int{{1, 1}, {2, 0}, {3, 0}, {4, 0}, {5, 2}},
			Inputs: []int{1}, Outputs: []int{5},
			Links:   [][2]int{{1, 3}, {3, 4}, {4, 5}, {1, 5}, {2, 4}},
			Queries: [][2]int{{1, 1}, {1, 0}, {0, 0}, {1, 3}, {1, 2}}}
		add(in)
		in.Via = "genesis"
		add(in)
		// the empty network and single nodes (outside the property; model correspondence only)
		add(c14Input{Family: "degenerate", Via: "ctor", Nodes: [][2]int{}, Inputs: []int{}, Outputs: []int{}, Links: [][2]int{}, Queries: [][2]int{{1, 0}, {1, 1}, {0, 0}}})
		add(c14Input{Family: "degenerate", Via: "ctor", Nodes: [][2]int{{7, 2}}, Inputs: []int{}, Outputs: []int{7}, Links: [][2]int{{7, 7}}, Queries: [][2]int{{1, 0}, {1, 1}, {0, 0}}})
		add(c14Input{Family: "degenerate", Via: "ctor", Nodes: [][2]int{{7, 0}}, Inputs: []int{}, Outputs: []int{}, Links: [][2]int{{7, 7}}, Queries: [][2]int{{1, 0}, {1, 1}, {0, 0}}})
		add(c14Input{Family: "degenerate", Via: "ctor", Nodes: [][2]int{{7, 0}}, Inputs: []int{}, Outputs: []int{7}, Links: [][2]int{{7, 7}}, Queries: [][2]int{{1, 0}, {1, 1}, {0, 0}}})
	}
	// exhaustive small DAGs
	maxN := r.N(4, 6)
	for n := 2; n <= maxN; n++ {
		pairs := n * (n - 1) / 2
		for mask := 0; mask < 1<<pairs; mask++ {
			types, links := c14Exhaustive(n, mask)
			in := c14Input{Family: fmt.Sprintf("exhaustive-dag-%d", n), Via: "ctor"}
			for i, t := range types {
				in.Nodes = append(in.Nodes, [2]int{i + 1, t})
			}
			in.Inputs, in.Outputs = []int{1}, []int{n}
			in.Links = [][2]int{}
			for _, l := range links {
				in.Links = append(in.Links, [2]int{l[0] + 1, l[1] + 1})
			}
			// links into the sensor cannot occur (it is first); fixed informative query sequence
			in.Queries = [][2]int{{1, 1}, {1, 0}, {1, 2}, {0, 0}}
			if mask%3 == 1 {
				in.Queries = [][2]int{{1, 0}, {1, n - 1}, {1, n - 2}, {1, 0}}
			}
			add(in)
		}
	}
	r.Res.Exhaustive = false
	// random families
	total := r.N(1100, 30000)
	for i := 0; i < total; i++ {
		var in c14Input
		switch x := g.intn(100); {
		case x < 18:
			in = g.layered()
		case x < 26:
			in = g.chain()
		case x < 36:
			in = g.diamond()
		case x < 58:
			in = g.randomDag(false)
		case x < 64:
			in = g.randomDag(true)
		case x < 82:
			in = g.cyclic()
		case x < 90:
			in = g.ring()
		case x < 94:
			in = g.noHidden()
		case x < 97: // inconsistent input/output lists handed to NewNetwork
			in = g.randomDag(false)
			in.Family = "inconsistent-io-lists"
			switch g.intn(3) {
			case 0:
				in.Outputs = []int{}
			case 1:
				in.Inputs = []int{}
			default:
				in.Outputs = append(in.Outputs, in.Nodes[g.intn(len(in.Nodes))][0])
			}
		default: // modular: control nodes present
			in = g.randomDag(false)
			in.Family = "modular"
			in.Control = 1 + g.intn(2)
		}
		// a third of the plain families goes through the genome reader and Genesis
		if in.Control == 0 && in.Family != "inconsistent-io-lists" && len(in.Outputs) > 0 && g.chance(0.33) {
			g.dedupe(&in)
			if len(in.Links) > 0 {
				in.Via = "genesis"
			}
		}
		g.queries(&in)
		add(in)
	}
	cf.Close("c14_mismatches")
	// long shared trunks under several outputs, asked repeatedly (Go oracle only: the walk takes 2^layers steps)
	for i := 0; i < r.N(6, 40); i++ {
		in := g.deepTrunk(11 + g.intn(4))
		g.queries(&in)
		for len(in.Queries) < 10 {
			in.Queries = append(in.Queries, [2]int{1, 0}, [2]int{0, 0})
		}
		c14One(r, nil, id, in)
		id++
	}
	r.Note("NNode.Depth stops at sensors: on DAGs with links INTO sensors the reported depth counts paths up to the first sensor met backwards (theorem C14_depth_dag_sensor_stopped); the oracle uses that reading")
	return nil
}

func replayC14(r *Run, input []byte) error {
	var in c14Input
	if err := json.Unmarshal(input, &in); err != nil {
		return err
	}
	c14One(r, nil, 0, in)
	return nil
}
