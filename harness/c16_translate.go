package main

// Lock-table translator for C16: translators["locktable"] writes coq/gen/LockTable.v from the CURRENT
// source text of package genetics (non-test files without the `verif` build tag).
//
// It computes the functions reachable from the goroutine body of
// ParallelPopulationEpochExecutor.reproduce and lists every read/write of a field of Population,
// Species, Organism (and of elements of slices of those objects / of Innovation records) in them,
// together with the protection visible in the source: inside Population.mutex.Lock()...Unlock(),
// through sync/atomic, neither, or "local" (the object was allocated by the goroutine itself).
// The rules are spelled out in the header of the generated file (c16Header).  Anything the
// translator does not understand is an error, so that the check fails instead of silently
// dropping an access.

import (
	"bufio"
	"bytes"
	"fmt"
	"go/ast"
	"go/parser"
	"go/printer"
	"go/token"
	"go/types"
	"os"
	"path/filepath"
	"regexp"
	"sort"
	"strings"
)

func init() { translators["locktable"] = c16TranslateLockTable }

// c16Access is one row of the table
type c16Access struct {
	Fun   string `json:"fun"`
	Kind  string `json:"kind"`
	Field string `json:"field"`
	Write bool   `json:"write"`
	Prot  string `json:"prot"` // PMutex | PAtomic | PNone | PLocal
	Base  string `json:"base"`
	Pos   string `json:"pos"`
}

type c16Table struct {
	Reachable    []string
	Accesses     []c16Access
	VarDefs      [][3]string // function, variable, defining expression: local names of possibly shared objects
	Publications [][3]string // function, what, position: stores that could make a goroutine-local object reachable by others
}

// the object kinds whose fields are tracked, and the element kinds of tracked slices
var c16Kinds = map[string]bool{"Population": true, "Species": true, "Organism": true,
	"SequentialPopulationEpochExecutor": true, "ParallelPopulationEpochExecutor": true}
var c16ElemKinds = map[string]bool{"Population": true, "Species": true, "Organism": true, "Innovation": true}

// kinds a pointer to which must not be stored into shared memory by a goroutine (escape rule)
var c16PtrKinds = map[string]bool{"Population": true, "Species": true, "Organism": true, "Genome": true}

// methods that library code outside the package may call on a value handed to it
// (fmt verbs, encoding/gob, sort.Interface, io.Writer/Reader, yaml/json)
var c16Callbacks = map[string]bool{"String": true, "Error": true, "Format": true, "GoString": true,
	"MarshalBinary": true, "GobEncode": true, "MarshalText": true, "MarshalJSON": true, "MarshalYAML": true,
	"Len": true, "Less": true, "Swap": true, "Write": true, "Read": true}

type c16FakeImporter map[string]*types.Package

var c16VersionElem = regexp.MustCompile(`^v[0-9]+$`)

// Import gives every imported package an empty scope: only the package under analysis is type-checked,
// expressions of foreign types stay untyped (type errors are ignored) and are resolved by name
func (f c16FakeImporter) Import(path string) (*types.Package, error) {
	if p, ok := f[path]; ok {
		return p, nil
	}
	parts := strings.Split(path, "/")
	name := parts[len(parts)-1]
	if c16VersionElem.MatchString(name) && len(parts) > 1 {
		name = parts[len(parts)-2]
	}
	if i := strings.Index(name, "."); i > 0 {
		name = name[:i]
	}
	p := types.NewPackage(path, name)
	p.MarkComplete()
	f[path] = p
	return p, nil
}

func c16HasVerifTag(src []byte) bool {
	for _, line := range strings.Split(string(src), "\n") {
		t := strings.TrimSpace(line)
		if strings.HasPrefix(t, "package ") {
			return false
		}
		if (strings.HasPrefix(t, "//go:build") || strings.HasPrefix(t, "// +build")) && strings.Contains(t, "verif") {
			return true
		}
	}
	return false
}

// one analysed body: a declared function, the goroutine literal, or main's part of the spawn loop
type c16Unit struct {
	Key    string
	Nodes  []ast.Node            // what is walked
	Skip   ast.Node              // subtree left out (the goroutine literal inside the spawn loop)
	Params map[types.Object]bool // receiver and parameters: may alias shared objects
	Decl   *ast.FuncDecl
	Thread string // "goroutine" or "main"
}

type c16Analysis struct {
	fset      *token.FileSet
	pkg       *types.Package
	info      *types.Info
	decls     map[string]*ast.FuncDecl
	keyOf     map[types.Object]string
	byName    map[string][]string // method/function name -> keys
	methodsOf map[string][]string // type name -> keys of its methods
	alloc     map[string][]bool   // allocator results per function key
	errs      []string
}

func (a *c16Analysis) text(n ast.Node) string {
	var b bytes.Buffer
	_ = printer.Fprint(&b, a.fset, n)
	s := strings.Join(strings.Fields(b.String()), " ")
	if len(s) > 60 {
		s = s[:57] + "..."
	}
	return s
}

func (a *c16Analysis) pos(n ast.Node) string {
	p := a.fset.Position(n.Pos())
	return fmt.Sprintf("%s:%d", filepath.Base(p.Filename), p.Line)
}

func c16NamedOf(t types.Type) string {
	for {
		if p, ok := t.(*types.Pointer); ok {
			t = p.Elem()
			continue
		}
		break
	}
	if n, ok := t.(*types.Named); ok {
		return n.Obj().Name()
	}
	return ""
}

// does a value of type t carry a pointer to an object of a tracked kind (interfaces are not looked into)
func c16HoldsPtr(t types.Type, depth int) bool {
	if t == nil || depth > 6 {
		return false
	}
	switch u := t.(type) {
	case *types.Pointer:
		if n, ok := u.Elem().(*types.Named); ok && c16PtrKinds[n.Obj().Name()] {
			return true
		}
		return c16HoldsPtr(u.Elem(), depth+1)
	case *types.Named:
		return c16HoldsPtr(u.Underlying(), depth+1)
	case *types.Slice:
		return c16HoldsPtr(u.Elem(), depth+1)
	case *types.Array:
		return c16HoldsPtr(u.Elem(), depth+1)
	case *types.Map:
		return c16HoldsPtr(u.Elem(), depth+1) || c16HoldsPtr(u.Key(), depth+1)
	case *types.Chan:
		return c16HoldsPtr(u.Elem(), depth+1)
	case *types.Struct:
		for i := 0; i < u.NumFields(); i++ {
			if c16HoldsPtr(u.Field(i).Type(), depth+1) {
				return true
			}
		}
	}
	return false
}

func c16Load(repo string) (*c16Analysis, error) {
	dir := filepath.Join(repo, "neat", "genetics")
	ents, err := os.ReadDir(dir)
	if err != nil {
		return nil, err
	}
	fset := token.NewFileSet()
	var files []*ast.File
	for _, e := range ents {
		n := e.Name()
		if e.IsDir() || !strings.HasSuffix(n, ".go") || strings.HasSuffix(n, "_test.go") {
			continue
		}
		src, err := os.ReadFile(filepath.Join(dir, n))
		if err != nil {
			return nil, err
		}
		if c16HasVerifTag(src) {
			continue
		}
		f, err := parser.ParseFile(fset, filepath.Join(dir, n), src, 0)
		if err != nil {
			return nil, err
		}
		files = append(files, f)
	}
	if len(files) == 0 {
		return nil, fmt.Errorf("no source files in %s", dir)
	}
	info := &types.Info{Types: map[ast.Expr]types.TypeAndValue{}, Defs: map[*ast.Ident]types.Object{},
		Uses: map[*ast.Ident]types.Object{}, Selections: map[*ast.SelectorExpr]*types.Selection{}}
	conf := types.Config{Importer: c16FakeImporter{}, Error: func(error) {}}
	pkg, _ := conf.Check("genetics", fset, files, info)
	if pkg == nil {
		return nil, fmt.Errorf("type-checking package genetics produced no package")
	}
	a := &c16Analysis{fset: fset, pkg: pkg, info: info, decls: map[string]*ast.FuncDecl{}, keyOf: map[types.Object]string{},
		byName: map[string][]string{}, methodsOf: map[string][]string{}, alloc: map[string][]bool{}}
	for _, f := range files {
		for _, d := range f.Decls {
			fd, ok := d.(*ast.FuncDecl)
			if !ok || fd.Body == nil {
				continue
			}
			key := fd.Name.Name
			recv := ""
			if fd.Recv != nil && len(fd.Recv.List) == 1 {
				t := fd.Recv.List[0].Type
				if s, ok := t.(*ast.StarExpr); ok {
					t = s.X
				}
				if id, ok := t.(*ast.Ident); ok {
					recv = id.Name
				} else {
					return nil, fmt.Errorf("%s: unsupported receiver", fset.Position(fd.Pos()))
				}
				key = recv + "." + key
			}
			if _, dup := a.decls[key]; dup {
				return nil, fmt.Errorf("duplicate function %s", key)
			}
			a.decls[key] = fd
			if obj := info.Defs[fd.Name]; obj != nil {
				a.keyOf[obj] = key
			}
			a.byName[fd.Name.Name] = append(a.byName[fd.Name.Name], key)
			if recv != "" {
				a.methodsOf[recv] = append(a.methodsOf[recv], key)
			}
		}
	}
	return a, nil
}

// ---------- freshness of local variables (escape rule) ----------

type c16VarInfo struct {
	rhs     []ast.Expr // single-valued definitions
	calls   []c16CallRes
	ranges  []ast.Expr // range expressions whose element the variable is
	zero    bool
	unknown bool // some definition the translator does not model (=> may alias)
}
type c16CallRes struct {
	call *ast.CallExpr
	idx  int
}

type c16UnitFacts struct {
	u    *c16Unit
	vars map[types.Object]*c16VarInfo
	memo map[types.Object]int // 0 unknown, 1 in progress, 2 fresh, 3 shared
}

func (a *c16Analysis) inspectUnit(u *c16Unit, f func(n ast.Node) bool) {
	for _, n := range u.Nodes {
		ast.Inspect(n, func(x ast.Node) bool {
			if x == nil {
				return false
			}
			if u.Skip != nil && x == u.Skip {
				return false
			}
			return f(x)
		})
	}
}

func (a *c16Analysis) objOf(id *ast.Ident) types.Object {
	if o := a.info.Defs[id]; o != nil {
		return o
	}
	return a.info.Uses[id]
}

func (a *c16Analysis) facts(u *c16Unit) *c16UnitFacts {
	uf := &c16UnitFacts{u: u, vars: map[types.Object]*c16VarInfo{}, memo: map[types.Object]int{}}
	get := func(id *ast.Ident) *c16VarInfo {
		o := a.objOf(id)
		if o == nil {
			return nil
		}
		v := uf.vars[o]
		if v == nil {
			v = &c16VarInfo{}
			uf.vars[o] = v
		}
		return v
	}
	define := func(lhs []ast.Expr, rhs []ast.Expr) {
		if len(lhs) == len(rhs) {
			for i, l := range lhs {
				if id, ok := l.(*ast.Ident); ok && id.Name != "_" {
					if v := get(id); v != nil {
						v.rhs = append(v.rhs, rhs[i])
					}
				}
			}
			return
		}
		if len(rhs) == 1 {
			call, isCall := ast.Unparen(rhs[0]).(*ast.CallExpr)
			for i, l := range lhs {
				if id, ok := l.(*ast.Ident); ok && id.Name != "_" {
					if v := get(id); v != nil {
						if isCall {
							v.calls = append(v.calls, c16CallRes{call, i})
						} else {
							v.unknown = true // v, ok := m[k] / x.(T) / <-ch
						}
					}
				}
			}
		}
	}
	a.inspectUnit(u, func(n ast.Node) bool {
		switch s := n.(type) {
		case *ast.AssignStmt:
			if s.Tok == token.ASSIGN || s.Tok == token.DEFINE {
				define(s.Lhs, s.Rhs)
			}
		case *ast.ValueSpec:
			if len(s.Values) == 0 {
				for _, id := range s.Names {
					if v := get(id); v != nil {
						v.zero = true
					}
				}
			} else {
				lhs := make([]ast.Expr, len(s.Names))
				for i, id := range s.Names {
					lhs[i] = id
				}
				define(lhs, s.Values)
			}
		case *ast.RangeStmt:
			if id, ok := s.Value.(*ast.Ident); ok && id.Name != "_" {
				if v := get(id); v != nil {
					v.ranges = append(v.ranges, s.X)
				}
			}
		case *ast.TypeSwitchStmt:
			if as, ok := s.Assign.(*ast.AssignStmt); ok {
				for _, l := range as.Lhs {
					if id, ok := l.(*ast.Ident); ok {
						if v := get(id); v != nil {
							v.unknown = true
						}
					}
				}
			}
		case *ast.FuncLit:
			// parameters of nested literals may alias anything
			for _, fl := range s.Type.Params.List {
				for _, id := range fl.Names {
					if v := get(id); v != nil {
						v.unknown = true
					}
				}
			}
		}
		return true
	})
	// named results start as zero values
	if u.Decl != nil && u.Decl.Type.Results != nil {
		for _, fl := range u.Decl.Type.Results.List {
			for _, id := range fl.Names {
				if v := get(id); v != nil {
					v.zero = true
				}
			}
		}
	}
	return uf
}

func (a *c16Analysis) freshVar(uf *c16UnitFacts, o types.Object) bool {
	if o == nil || uf.u.Params[o] {
		return false
	}
	if _, isVar := o.(*types.Var); !isVar {
		return false
	}
	switch uf.memo[o] {
	case 1, 2: // a cycle (x = append(x, ...)) does not by itself make x shared
		return true
	case 3:
		return false
	}
	v := uf.vars[o]
	if v == nil || v.unknown || (len(v.rhs) == 0 && len(v.calls) == 0 && len(v.ranges) == 0 && !v.zero) {
		uf.memo[o] = 3 // declared outside the unit (captured / package level) or not understood
		return false
	}
	uf.memo[o] = 1
	ok := true
	for _, e := range v.rhs {
		ok = ok && a.freshExpr(uf, e)
	}
	for _, c := range v.calls {
		ok = ok && a.freshCall(uf, c.call, c.idx)
	}
	for _, e := range v.ranges {
		ok = ok && a.freshExpr(uf, e)
	}
	if ok {
		uf.memo[o] = 2
	} else {
		uf.memo[o] = 3
	}
	return ok
}

func (a *c16Analysis) calleeKey(call *ast.CallExpr) string {
	var id *ast.Ident
	switch f := ast.Unparen(call.Fun).(type) {
	case *ast.Ident:
		id = f
	case *ast.SelectorExpr:
		id = f.Sel
	}
	if id == nil {
		return ""
	}
	if fn, ok := a.info.Uses[id].(*types.Func); ok {
		return a.keyOf[fn]
	}
	return ""
}

func (a *c16Analysis) freshCall(uf *c16UnitFacts, call *ast.CallExpr, idx int) bool {
	if id, ok := ast.Unparen(call.Fun).(*ast.Ident); ok {
		if _, isBuiltin := a.info.Uses[id].(*types.Builtin); isBuiltin {
			switch id.Name {
			case "new", "make":
				return true
			case "append":
				for i, arg := range call.Args {
					if i == 0 {
						if aid, ok := ast.Unparen(arg).(*ast.Ident); ok && uf.memo[a.objOf(aid)] == 1 {
							continue
						}
					}
					if !a.freshExpr(uf, arg) {
						return false
					}
				}
				return true
			}
			return false
		}
	}
	key := a.calleeKey(call)
	if key == "" {
		return false
	}
	res := a.alloc[key]
	return idx < len(res) && res[idx]
}

// freshExpr: does e evaluate to an object (or a slice of objects) allocated by the running goroutine
func (a *c16Analysis) freshExpr(uf *c16UnitFacts, e ast.Expr) bool {
	switch x := ast.Unparen(e).(type) {
	case *ast.CompositeLit:
		return true
	case *ast.UnaryExpr:
		if x.Op == token.AND {
			if _, ok := ast.Unparen(x.X).(*ast.CompositeLit); ok {
				return true
			}
			if id, ok := ast.Unparen(x.X).(*ast.Ident); ok { // &localStruct
				return a.freshVar(uf, a.objOf(id))
			}
		}
		return false
	case *ast.Ident:
		if x.Name == "nil" {
			return true
		}
		return a.freshVar(uf, a.objOf(x))
	case *ast.CallExpr:
		return a.freshCall(uf, x, 0)
	}
	return false
}

// allocator fixpoint: result k of F is fresh when every return statement returns a fresh value there
func (a *c16Analysis) computeAllocators() {
	keys := make([]string, 0, len(a.decls))
	for k := range a.decls {
		keys = append(keys, k)
	}
	sort.Strings(keys)
	units := map[string]*c16Unit{}
	for _, k := range keys {
		units[k] = a.declUnit(k)
		n := 0
		if r := a.decls[k].Type.Results; r != nil {
			for _, fl := range r.List {
				if len(fl.Names) == 0 {
					n++
				} else {
					n += len(fl.Names)
				}
			}
		}
		a.alloc[k] = make([]bool, n)
	}
	for changed := true; changed; {
		changed = false
		for _, k := range keys {
			fd := a.decls[k]
			n := len(a.alloc[k])
			if n == 0 {
				continue
			}
			uf := a.facts(units[k])
			res := make([]bool, n)
			for i := range res {
				res[i] = true
			}
			var named []types.Object
			for _, fl := range fd.Type.Results.List {
				for _, id := range fl.Names {
					named = append(named, a.info.Defs[id])
				}
			}
			seen := false
			var walk func(n ast.Node) bool
			walk = func(x ast.Node) bool {
				switch r := x.(type) {
				case *ast.FuncLit:
					return false
				case *ast.ReturnStmt:
					seen = true
					switch {
					case len(r.Results) == 0:
						for i := range res {
							res[i] = res[i] && i < len(named) && a.freshVar(uf, named[i])
						}
					case len(r.Results) == n:
						for i, e := range r.Results {
							res[i] = res[i] && a.freshExpr(uf, e)
						}
					case len(r.Results) == 1:
						call, ok := ast.Unparen(r.Results[0]).(*ast.CallExpr)
						for i := range res {
							res[i] = res[i] && ok && a.freshCall(uf, call, i)
						}
					default:
						for i := range res {
							res[i] = false
						}
					}
				}
				return true
			}
			ast.Inspect(fd.Body, walk)
			for i := range res {
				res[i] = res[i] && seen
				if res[i] != a.alloc[k][i] {
					if res[i] { // monotone: only ever switch on
						a.alloc[k][i] = true
						changed = true
					}
				}
			}
		}
	}
}

func (a *c16Analysis) declUnit(key string) *c16Unit {
	fd := a.decls[key]
	u := &c16Unit{Key: key, Nodes: []ast.Node{fd.Body}, Params: map[types.Object]bool{}, Decl: fd, Thread: "goroutine"}
	add := func(fl *ast.FieldList) {
		if fl == nil {
			return
		}
		for _, f := range fl.List {
			for _, id := range f.Names {
				if o := a.info.Defs[id]; o != nil {
					u.Params[o] = true
				}
			}
		}
	}
	add(fd.Recv)
	add(fd.Type.Params)
	return u
}

// ---------- reachability ----------

func (a *c16Analysis) edges(u *c16Unit) []string {
	set := map[string]bool{}
	addByName := func(name string) {
		for _, k := range a.byName[name] {
			if a.decls[k].Recv != nil {
				set[k] = true
			}
		}
	}
	a.inspectUnit(u, func(n ast.Node) bool {
		switch x := n.(type) {
		case *ast.Ident:
			if fn, ok := a.info.Uses[x].(*types.Func); ok && fn.Pkg() == a.pkg {
				if k, ok := a.keyOf[fn]; ok {
					set[k] = true
				} else { // method of an interface declared in the package: every method of that name
					addByName(fn.Name())
				}
			}
		case *ast.CallExpr:
			external := false
			switch f := ast.Unparen(x.Fun).(type) {
			case *ast.SelectorExpr:
				if id, ok := f.X.(*ast.Ident); ok {
					if _, isPkg := a.info.Uses[id].(*types.PkgName); isPkg {
						external = true
						break
					}
				}
				if a.info.Uses[f.Sel] == nil && a.info.Selections[f] == nil {
					// receiver of a foreign (untyped here) type: resolve by name, and treat as external too
					addByName(f.Sel.Name)
					external = true
				}
			}
			if external {
				for _, arg := range x.Args {
					if tv, ok := a.info.Types[arg]; ok && tv.Type != nil {
						t := tv.Type
						if s, ok := t.Underlying().(*types.Slice); ok && c16NamedOf(t) == "" {
							t = s.Elem()
						}
						if name := c16NamedOf(t); name != "" {
							for _, k := range a.methodsOf[name] {
								if c16Callbacks[a.decls[k].Name.Name] {
									set[k] = true
								}
							}
						}
					}
				}
			}
		}
		return true
	})
	out := make([]string, 0, len(set))
	for k := range set {
		out = append(out, k)
	}
	sort.Strings(out)
	return out
}

// ---------- lock regions ----------

type c16Range struct {
	from, to token.Pos
	base     string
}

// mutexCall recognises X.mutex.Lock() / X.mutex.Unlock() where X.mutex is the field of Population
func (a *c16Analysis) mutexCall(e ast.Expr) (op, base string) {
	call, ok := e.(*ast.CallExpr)
	if !ok || len(call.Args) != 0 {
		return "", ""
	}
	sel, ok := call.Fun.(*ast.SelectorExpr)
	if !ok || (sel.Sel.Name != "Lock" && sel.Sel.Name != "Unlock") {
		return "", ""
	}
	fsel, ok := sel.X.(*ast.SelectorExpr)
	if !ok {
		return "", ""
	}
	s := a.info.Selections[fsel]
	if s == nil || s.Kind() != types.FieldVal || c16NamedOf(s.Recv()) != "Population" || fsel.Sel.Name != "mutex" {
		return "", ""
	}
	return sel.Sel.Name, a.text(fsel.X)
}

func (a *c16Analysis) lockRanges(u *c16Unit) []c16Range {
	var out []c16Range
	var end token.Pos
	for _, n := range u.Nodes {
		if n.End() > end {
			end = n.End()
		}
	}
	handled := map[ast.Node]bool{}
	a.inspectUnit(u, func(n ast.Node) bool {
		var list []ast.Stmt
		switch b := n.(type) {
		case *ast.BlockStmt:
			list = b.List
		case *ast.CaseClause:
			list = b.Body
		case *ast.CommClause:
			list = b.Body
		default:
			return true
		}
		for i, s := range list {
			es, ok := s.(*ast.ExprStmt)
			if !ok {
				continue
			}
			op, base := a.mutexCall(es.X)
			if op != "Lock" {
				continue
			}
			handled[es] = true
			found := false
			for j := i + 1; j < len(list) && !found; j++ {
				switch t := list[j].(type) {
				case *ast.DeferStmt:
					if op2, base2 := a.mutexCall(t.Call); op2 == "Unlock" && base2 == base {
						handled[t] = true
						out = append(out, c16Range{es.End(), end, base})
						found = true
					}
				case *ast.ExprStmt:
					if op2, base2 := a.mutexCall(t.X); op2 == "Unlock" && base2 == base {
						handled[t] = true
						out = append(out, c16Range{es.End(), t.Pos(), base})
						found = true
					}
				}
			}
			if !found {
				a.errs = append(a.errs, fmt.Sprintf("%s: Lock() without Unlock()/defer Unlock() in the same statement list", a.pos(es)))
			}
		}
		return true
	})
	// every other Lock/Unlock call is a pattern the translator does not understand
	a.inspectUnit(u, func(n ast.Node) bool {
		switch s := n.(type) {
		case *ast.ExprStmt:
			if handled[s] {
				return false
			}
		case *ast.DeferStmt:
			if handled[s] {
				return false
			}
		case *ast.CallExpr:
			if op, _ := a.mutexCall(s); op != "" {
				a.errs = append(a.errs, fmt.Sprintf("%s: unsupported use of Population.mutex.%s", a.pos(s), op))
			}
		}
		return true
	})
	return out
}

// ---------- accesses ----------

const (
	c16Read = iota
	c16Write
	c16ReadWrite
	c16Addr
	c16AtomicRead
	c16AtomicWrite
)

func (a *c16Analysis) isAtomicPkg(e ast.Expr) bool {
	id, ok := e.(*ast.Ident)
	if !ok {
		return false
	}
	pn, ok := a.info.Uses[id].(*types.PkgName)
	return ok && pn.Imported().Path() == "sync/atomic"
}

func (a *c16Analysis) analyseUnit(u *c16Unit, t *c16Table) {
	uf := a.facts(u)
	ranges := a.lockRanges(u)
	modes := map[ast.Expr]int{}
	elemWrite := map[ast.Expr]bool{} // copy(dst, ...): elements of dst are written
	setMode := func(e ast.Expr, m int) { modes[ast.Unparen(e)] = m }
	publish := func(what string, n ast.Node) {
		t.Publications = append(t.Publications, [3]string{u.Key, what, a.pos(n)})
	}
	// does the expression denote memory of a possibly shared object
	var sharedTarget func(e ast.Expr) bool
	sharedTarget = func(e ast.Expr) bool {
		switch x := ast.Unparen(e).(type) {
		case *ast.Ident:
			o := a.objOf(x)
			if o == nil {
				return true
			}
			if v, ok := o.(*types.Var); ok && v.Parent() == a.pkg.Scope() {
				return true // package-level variable
			}
			return false // assigning to a local variable publishes nothing
		case *ast.SelectorExpr:
			if id, ok := ast.Unparen(x.X).(*ast.Ident); ok {
				return !a.freshVar(uf, a.objOf(id))
			}
			return true
		case *ast.IndexExpr:
			if id, ok := ast.Unparen(x.X).(*ast.Ident); ok {
				return !a.freshVar(uf, a.objOf(id))
			}
			return true
		case *ast.StarExpr:
			if id, ok := ast.Unparen(x.X).(*ast.Ident); ok {
				return !a.freshVar(uf, a.objOf(id))
			}
			return true
		}
		return true
	}
	a.inspectUnit(u, func(n ast.Node) bool {
		switch s := n.(type) {
		case *ast.AssignStmt:
			m := c16Write
			if s.Tok != token.ASSIGN && s.Tok != token.DEFINE {
				m = c16ReadWrite
			}
			for _, l := range s.Lhs {
				setMode(l, m)
				if tv, ok := a.info.Types[l]; ok && c16HoldsPtr(tv.Type, 0) && sharedTarget(l) {
					publish("store of a pointer-carrying value into "+a.text(l), l)
				}
			}
		case *ast.IncDecStmt:
			setMode(s.X, c16ReadWrite)
		case *ast.RangeStmt:
			if s.Key != nil && s.Tok == token.ASSIGN {
				setMode(s.Key, c16Write)
			}
			if s.Value != nil && s.Tok == token.ASSIGN {
				setMode(s.Value, c16Write)
			}
		case *ast.SendStmt:
			if tv, ok := a.info.Types[s.Value]; ok && c16HoldsPtr(tv.Type, 0) {
				publish("channel send of a pointer-carrying value "+a.text(s.Value), s)
			}
		case *ast.GoStmt:
			if u.Skip == nil || s.Call.Fun != u.Skip {
				publish("go statement inside the parallel region", s)
			}
		case *ast.UnaryExpr:
			if s.Op == token.AND {
				if _, seen := modes[ast.Unparen(s.X)]; !seen {
					switch ast.Unparen(s.X).(type) {
					case *ast.SelectorExpr, *ast.IndexExpr:
						setMode(s.X, c16Addr)
					}
				}
			}
		case *ast.CallExpr:
			if sel, ok := s.Fun.(*ast.SelectorExpr); ok && a.isAtomicPkg(sel.X) && len(s.Args) > 0 {
				if ue, ok := ast.Unparen(s.Args[0]).(*ast.UnaryExpr); ok && ue.Op == token.AND {
					if strings.HasPrefix(sel.Sel.Name, "Load") {
						setMode(ue.X, c16AtomicRead)
					} else {
						setMode(ue.X, c16AtomicWrite)
					}
				}
			}
			if id, ok := s.Fun.(*ast.Ident); ok && id.Name == "copy" && len(s.Args) == 2 {
				if _, isBuiltin := a.info.Uses[id].(*types.Builtin); isBuiltin {
					elemWrite[ast.Unparen(s.Args[0])] = true
				}
			}
		}
		return true
	})
	lockedBy := func(p token.Pos) (bool, string) {
		for _, r := range ranges {
			if p > r.from && p < r.to {
				return true, r.base
			}
		}
		return false, ""
	}
	emit := func(kind, field string, mode int, base ast.Expr, at ast.Node) {
		local := false
		if id, ok := ast.Unparen(base).(*ast.Ident); ok {
			local = a.freshVar(uf, a.objOf(id))
		}
		held, lockBase := lockedBy(at.Pos())
		baseText := a.text(base)
		prot := "PNone"
		switch {
		case mode == c16AtomicRead || mode == c16AtomicWrite:
			prot = "PAtomic"
		case local:
			prot = "PLocal"
		case held && (kind != "Population" || lockBase == baseText):
			prot = "PMutex"
		}
		add := func(w bool) {
			t.Accesses = append(t.Accesses, c16Access{Fun: u.Key, Kind: kind, Field: field, Write: w, Prot: prot, Base: baseText, Pos: a.pos(at)})
		}
		switch mode {
		case c16Read, c16AtomicRead:
			add(false)
		case c16Write, c16AtomicWrite:
			add(true)
		case c16ReadWrite:
			add(false)
			add(true)
		case c16Addr: // the address leaves the expression: anything may be done through it
			field2 := field
			t.Accesses = append(t.Accesses, c16Access{Fun: u.Key, Kind: kind, Field: field2, Write: true, Prot: map[bool]string{true: "PLocal", false: "PNone"}[local], Base: "&" + baseText, Pos: a.pos(at)})
		}
	}
	elemKind := func(x ast.Expr) string {
		tv, ok := a.info.Types[x]
		if !ok || tv.Type == nil {
			return ""
		}
		var el types.Type
		switch s := tv.Type.Underlying().(type) {
		case *types.Slice:
			el = s.Elem()
		case *types.Array:
			el = s.Elem()
		case *types.Pointer:
			if arr, ok := s.Elem().Underlying().(*types.Array); ok {
				el = arr.Elem()
			}
		}
		if el == nil {
			return ""
		}
		name := c16NamedOf(el)
		if !c16ElemKinds[name] {
			return ""
		}
		if _, ok := el.(*types.Pointer); ok {
			return "[]*" + name
		}
		return "[]" + name
	}
	a.inspectUnit(u, func(n ast.Node) bool {
		switch x := n.(type) {
		case *ast.SelectorExpr:
			s := a.info.Selections[x]
			if s == nil || s.Kind() != types.FieldVal {
				return true
			}
			kind := c16NamedOf(s.Recv())
			if len(s.Index()) != 1 {
				a.errs = append(a.errs, fmt.Sprintf("%s: field %s reached through an embedded struct", a.pos(x), x.Sel.Name))
				return true
			}
			if !c16Kinds[kind] {
				return true
			}
			mode := modes[x]
			emit(kind, x.Sel.Name, mode, x.X, x)
			if elemWrite[x] {
				if ek := elemKind(x); ek != "" {
					emit(ek, "[i]", c16Write, x, x)
				}
			}
		case *ast.IndexExpr:
			if ek := elemKind(x.X); ek != "" {
				emit(ek, "[i]", modes[x], x.X, x)
			}
		case *ast.RangeStmt:
			if ek := elemKind(x.X); ek != "" && x.Value != nil {
				emit(ek, "[i]", c16Read, x.X, x.X)
			}
		case *ast.Ident:
			if elemWrite[x] {
				if ek := elemKind(x); ek != "" {
					emit(ek, "[i]", c16Write, x, x)
				}
			}
		case *ast.StarExpr:
			if m, ok := modes[x]; ok && (m == c16Write || m == c16ReadWrite) {
				if tv, ok := a.info.Types[x]; ok {
					if kind := c16NamedOf(tv.Type); c16Kinds[kind] {
						emit(kind, "*", m, x.X, x)
					}
				}
			}
		}
		return true
	})
	// names of possibly shared objects (for the justification of exceptions)
	type vd struct{ name, def string }
	var defs []vd
	for o, v := range uf.vars {
		if !c16Kinds[c16NamedOf(o.Type())] || a.freshVar(uf, o) {
			continue
		}
		for _, e := range v.rhs {
			defs = append(defs, vd{o.Name(), a.text(e)})
		}
		for _, c := range v.calls {
			defs = append(defs, vd{o.Name(), fmt.Sprintf("result %d of %s", c.idx, a.text(c.call))})
		}
		for _, e := range v.ranges {
			defs = append(defs, vd{o.Name(), "element of " + a.text(e)})
		}
		if v.unknown {
			defs = append(defs, vd{o.Name(), "?"})
		}
	}
	sort.Slice(defs, func(i, j int) bool {
		if defs[i].name != defs[j].name {
			return defs[i].name < defs[j].name
		}
		return defs[i].def < defs[j].def
	})
	for i, d := range defs {
		if i > 0 && defs[i-1] == d {
			continue
		}
		t.VarDefs = append(t.VarDefs, [3]string{u.Key, d.name, d.def})
	}
}

// ---------- driver ----------

const c16GoUnit = "ParallelPopulationEpochExecutor.reproduce$goroutine"
const c16SpawnUnit = "ParallelPopulationEpochExecutor.reproduce$spawnloop"

func c16BuildTable(repo string) (*c16Table, error) {
	a, err := c16Load(repo)
	if err != nil {
		return nil, err
	}
	root := a.decls["ParallelPopulationEpochExecutor.reproduce"]
	if root == nil {
		return nil, fmt.Errorf("ParallelPopulationEpochExecutor.reproduce not found")
	}
	// the go statement and the loop around it
	var goStmt *ast.GoStmt
	var loop ast.Stmt
	var stack []ast.Node
	count := 0
	ast.Inspect(root.Body, func(n ast.Node) bool {
		if n == nil {
			stack = stack[:len(stack)-1]
			return false
		}
		stack = append(stack, n)
		if g, ok := n.(*ast.GoStmt); ok {
			count++
			goStmt = g
			loop = nil
			for i := len(stack) - 1; i >= 0; i-- {
				switch l := stack[i].(type) {
				case *ast.RangeStmt:
					loop = l
				case *ast.ForStmt:
					loop = l
				}
				if loop != nil {
					break
				}
			}
		}
		return true
	})
	if count != 1 {
		return nil, fmt.Errorf("expected exactly one go statement in ParallelPopulationEpochExecutor.reproduce, found %d", count)
	}
	lit, ok := goStmt.Call.Fun.(*ast.FuncLit)
	if !ok {
		return nil, fmt.Errorf("%s: the go statement does not start a function literal", a.pos(goStmt))
	}
	a.computeAllocators()
	gu := &c16Unit{Key: c16GoUnit, Nodes: []ast.Node{lit.Body}, Params: map[types.Object]bool{}, Thread: "goroutine"}
	for _, fl := range lit.Type.Params.List {
		for _, id := range fl.Names {
			if o := a.info.Defs[id]; o != nil {
				gu.Params[o] = true
			}
		}
	}
	// main's part of the region: the statements of the spawning loop (without the literal's body)
	su := &c16Unit{Key: c16SpawnUnit, Params: map[types.Object]bool{}, Skip: lit, Thread: "main"}
	switch l := loop.(type) {
	case *ast.RangeStmt:
		su.Nodes = []ast.Node{l.Body} // the range expression is evaluated once, before the first go statement
	case *ast.ForStmt:
		su.Nodes = []ast.Node{l}
	default:
		su.Nodes = []ast.Node{goStmt}
	}
	// everything main's loop names is declared outside it: treat all of it as possibly shared
	for _, fl := range root.Type.Params.List {
		for _, id := range fl.Names {
			if o := a.info.Defs[id]; o != nil {
				su.Params[o] = true
			}
		}
	}
	if root.Recv != nil {
		for _, id := range root.Recv.List[0].Names {
			if o := a.info.Defs[id]; o != nil {
				su.Params[o] = true
			}
		}
	}

	t := &c16Table{}
	units := map[string]*c16Unit{c16GoUnit: gu}
	work := []string{c16GoUnit}
	seen := map[string]bool{c16GoUnit: true}
	for len(work) > 0 {
		k := work[0]
		work = work[1:]
		u := units[k]
		if u == nil {
			u = a.declUnit(k)
			units[k] = u
		}
		for _, e := range a.edges(u) {
			if !seen[e] {
				seen[e] = true
				work = append(work, e)
			}
		}
	}
	for k := range seen {
		t.Reachable = append(t.Reachable, k)
	}
	sort.Strings(t.Reachable)
	a.analyseUnit(su, t)
	for _, k := range t.Reachable {
		u := units[k]
		if u == nil {
			u = a.declUnit(k)
		}
		a.analyseUnit(u, t)
	}
	if len(a.errs) > 0 {
		return nil, fmt.Errorf("lock-table translator: %s", strings.Join(a.errs, "; "))
	}
	// sanity: the four shared primitives must be there, else the reachability rule lost the mutators
	for _, must := range []string{"Species.reproduce", "Population.StoreInnovation", "Population.Innovations",
		"Population.NextInnovationNumber", "Population.NextNodeId", "Organism.MarshalBinary", "Genome.Write"} {
		if !seen[must] {
			return nil, fmt.Errorf("lock-table translator: %s is not reachable from the goroutine body (reachability rule broken?)", must)
		}
	}
	return t, nil
}

// c16Exceptions mirrors the hand-written exception list of coq/props/C16.v (the Coq side is the
// authority; this copy only lets the Go-side oracle name the offending source lines)
var c16Exceptions = [][4]string{{"Species.reproduce", "Organism", "superChampOffspring", "theChamp"}}

// c16Offenders is the Go mirror of Lockset.table_disciplined: the fields whose possibly shared accesses
// are neither all under the mutex, nor all atomic, nor all reads, nor all excepted
func c16Offenders(t *c16Table) map[string][]c16Access {
	by := map[string][]c16Access{}
	for _, x := range t.Accesses {
		if x.Prot != "PLocal" {
			k := x.Kind + "." + x.Field
			by[k] = append(by[k], x)
		}
	}
	excepted := func(x c16Access) bool {
		if x.Prot != "PNone" {
			return false
		}
		for _, e := range c16Exceptions {
			if e[0] == x.Fun && e[1] == x.Kind && e[2] == x.Field && e[3] == x.Base {
				return true
			}
		}
		return false
	}
	bad := map[string][]c16Access{}
	for k, l := range by {
		allM, allA, allR, allX := true, true, true, true
		for _, x := range l {
			allM = allM && x.Prot == "PMutex"
			allA = allA && x.Prot == "PAtomic"
			allR = allR && !x.Write
			allX = allX && excepted(x)
		}
		if !(allM || allA || allR || allX) {
			bad[k] = l
		}
	}
	return bad
}

func c16CoqString(s string) string {
	var b strings.Builder
	b.WriteByte('"')
	for _, ch := range []byte(s) {
		switch {
		case ch == '"':
			b.WriteString("\"\"")
		case ch < 32 || ch > 126:
			b.WriteByte('?')
		default:
			b.WriteByte(ch)
		}
	}
	b.WriteByte('"')
	return b.String()
}

const c16Header = `(* GENERATED by ` + "`neatverif translate locktable`" + ` from the non-test, non-verif files of neat/genetics -- do not edit.

   WHAT IS LISTED.  [reachable]: the goroutine body of ParallelPopulationEpochExecutor.reproduce and every
   function of the package reachable from it, where an edge exists for (1) every mention of a package
   function or concrete method resolved by go/types (calls and function values alike); (2) every method
   call through an interface declared in the package, or on a receiver of a type from another package
   (not type-checked here), to EVERY method of the package with that name; (3) every value of a package
   type handed to a function of another package (fmt, encoding/gob, sort, ...), to the methods
   String/Error/Format/GoString/MarshalBinary/GobEncode/MarshalText/MarshalJSON/MarshalYAML/Len/Less/Swap/
   Write/Read of that type (this is how gob reaches Organism.MarshalBinary).  Bodies of nested function
   literals belong to the function around them.  The unit "...$spawnloop" is what the spawning goroutine
   itself executes between the first go statement and wg.Wait() (the loop body without the literal).

   [accesses]: every field selection x.f in those bodies whose struct is Population, Species, Organism or one of the two
   epoch executors,
   every element access s[i] / range s / copy(s, _) on a slice or array of (pointers to) Population,
   Species, Organism or Innovation (kind "[]*Organism" etc., field "[i]"), and every assignment *p = v to
   such an object (field "*").  R/W: assignment targets, op-assignments and ++/-- (read and write) are
   writes, a field whose address is taken outside sync/atomic is listed as a write through "&...".
   Protection: PAtomic when the address is the first argument of a sync/atomic function (Load* = read,
   everything else = write); PMutex when the access lies textually between X.mutex.Lock() and the
   X.mutex.Unlock() / defer X.mutex.Unlock() of the same statement list, X.mutex being the mutex field of
   a Population (for fields of Population X must be the base expression of the access); PLocal by the
   escape rule below; PNone otherwise.  Any other use of the mutex is a translator error.

   ESCAPE RULE.  An access through a plain variable v is PLocal iff v is declared in the function, is not a
   receiver, parameter or parameter of a nested literal, and EVERY definition of v in the function is
   fresh: a composite literal T{..} / &T{..}, new, make, nil, another fresh variable, the element of a range
   over a fresh slice, append of fresh values to a fresh slice, or result k of a package function whose
   every return statement returns a fresh value at position k (least fixpoint over the package; this makes
   NewOrganism and Species.reproduce allocators).  Accesses through anything else (fields of fields, slice
   elements, parameters) count as possibly shared.  The rule is sound only if fresh objects are not handed
   to other goroutines: [publications] lists every assignment of a value that can carry a pointer to a
   Population/Species/Organism/Genome into a field, element or pointee of a possibly shared object or a
   package variable, every channel send of such a value, and every go statement inside the region;
   props/C16.v requires that list to be empty.  (Interfaces are not looked into; the only channel send of
   the region carries reproductionResult = ints, bytes and an error.)

   NOT LISTED (trusted, see DESIGN.md C16): objects of other kinds reached from shared organisms (Genome,
   Gene, NNode, Trait of the OLD generation are only read: duplicate/mate*/compatibility build new
   objects); the elements of the innovation record (each written once under the mutex before the slice
   header that makes it visible is stored under the same mutex; readers take the header under the mutex);
   the global math/rand source (locked inside math/rand); neat.Options (read-only). *)
`

func c16WriteCoq(t *c16Table, w *bufio.Writer) {
	w.WriteString(c16Header)
	w.WriteString("From Coq Require Import List String.\nFrom NeatModel Require Import Lockset.\nImport ListNotations.\nLocal Open Scope string_scope.\n\n")
	w.WriteString("Definition reachable : list string := [\n")
	for i, k := range t.Reachable {
		sep := ";"
		if i == len(t.Reachable)-1 {
			sep = ""
		}
		fmt.Fprintf(w, "  %s%s\n", c16CoqString(k), sep)
	}
	w.WriteString("].\n\nDefinition accesses : list access := [\n")
	for i, x := range t.Accesses {
		sep := ";"
		if i == len(t.Accesses)-1 {
			sep = ""
		}
		rw := "R"
		if x.Write {
			rw = "W"
		}
		fmt.Fprintf(w, "  mkAccess %s %s %s %s %s %s %s%s\n", c16CoqString(x.Fun), c16CoqString(x.Kind), c16CoqString(x.Field), rw, x.Prot,
			c16CoqString(x.Base), c16CoqString(x.Pos), sep)
	}
	w.WriteString("].\n\n(* local names of possibly shared objects and every expression they are defined from *)\n")
	w.WriteString("Definition var_defs : list (string * string * string) := [\n")
	for i, d := range t.VarDefs {
		sep := ";"
		if i == len(t.VarDefs)-1 {
			sep = ""
		}
		fmt.Fprintf(w, "  (%s, %s, %s)%s\n", c16CoqString(d[0]), c16CoqString(d[1]), c16CoqString(d[2]), sep)
	}
	w.WriteString("].\n\n(* stores that could hand a goroutine-local object to another goroutine (must be empty) *)\n")
	w.WriteString("Definition publications : list (string * string * string) := [\n")
	for i, d := range t.Publications {
		sep := ";"
		if i == len(t.Publications)-1 {
			sep = ""
		}
		fmt.Fprintf(w, "  (%s, %s, %s)%s\n", c16CoqString(d[0]), c16CoqString(d[1]), c16CoqString(d[2]), sep)
	}
	w.WriteString("].\n")
}

func c16TranslateLockTable(outDir string) error {
	t, err := c16BuildTable(repoRoot())
	if err != nil {
		return err
	}
	if err = os.MkdirAll(outDir, 0o755); err != nil {
		return err
	}
	tmp := filepath.Join(outDir, "LockTable.v.tmp")
	f, err := os.Create(tmp)
	if err != nil {
		return err
	}
	w := bufio.NewWriter(f)
	c16WriteCoq(t, w)
	if err = w.Flush(); err != nil {
		return err
	}
	if err = f.Close(); err != nil {
		return err
	}
	final := filepath.Join(outDir, "LockTable.v")
	if old, err := os.ReadFile(final); err == nil {
		if nw, err2 := os.ReadFile(tmp); err2 == nil && bytes.Equal(old, nw) {
			return os.Remove(tmp) // unchanged: keep the timestamp so that make does not rebuild
		}
	}
	return os.Rename(tmp, final)
}
