package main

import (
	"bytes"
	"fmt"
	"math"
	"math/rand"
	"strings"

	"github.com/yaricom/goNEAT/v4/neat"
	"github.com/yaricom/goNEAT/v4/neat/genetics"
	neatmath "github.com/yaricom/goNEAT/v4/neat/math"
	"github.com/yaricom/goNEAT/v4/neat/network"
)

// ---------- Gallina rendering of genomes, environments, options ----------

func traitRef(t *neat.Trait) string {
	if t == nil {
		return "None"
	}
	return "(Some " + ZI(t.Id) + ")"
}

func coqNode(n *network.NNode) string {
	return fmt.Sprintf("(N %s %d %d %s)", ZI(n.Id), int(n.NeuronType), int(n.ActivationType), traitRef(n.Trait))
}

func coqGenome(g *genetics.Genome) string {
	var ts, ns, gs, ms []string
	for _, t := range g.Traits {
		ts = append(ts, fmt.Sprintf("(T %s %s)", ZI(t.Id), FList(t.Params)))
	}
	for _, n := range g.Nodes {
		ns = append(ns, coqNode(n))
	}
	for _, x := range g.Genes {
		gs = append(gs, fmt.Sprintf("(G %s %s %s %s %s %s %s %s)", ZI(x.Link.InNode.Id), ZI(x.Link.OutNode.Id),
			B(x.Link.IsRecurrent), F(x.Link.ConnectionWeight), traitRef(x.Link.Trait), Z(x.InnovationNum), F(x.MutationNum), B(x.IsEnabled)))
	}
	for _, m := range g.ControlGenes {
		var ins, outs []string
		for _, l := range m.ControlNode.Incoming {
			ins = append(ins, Pair(ZI(l.InNode.Id), F(l.ConnectionWeight)))
		}
		for _, l := range m.ControlNode.Outgoing {
			outs = append(outs, Pair(ZI(l.OutNode.Id), F(l.ConnectionWeight)))
		}
		ms = append(ms, fmt.Sprintf("(MM %s %s %s %s %s %s)", coqNode(m.ControlNode), Z(m.InnovationNum), F(m.MutationNum), B(m.IsEnabled), List(ins), List(outs)))
	}
	return fmt.Sprintf("(GN %s %s %s %s %s)", ZI(g.Id), List(ts), List(ns), List(gs), List(ms))
}

// venv is the innovation environment handed to the mutators (InnovationsObserver + NodeIdGenerator)
type venv struct {
	Innovs []genetics.Innovation
	NextI  int64
	NextN  int
}

func (p *venv) StoreInnovation(i genetics.Innovation) { p.Innovs = append(p.Innovs, i) }
func (p *venv) Innovations() []genetics.Innovation    { return p.Innovs }
func (p *venv) NextInnovationNumber() int64           { p.NextI++; return p.NextI }
func (p *venv) NextNodeId() int                       { p.NextN++; return p.NextN }
func (p *venv) clone() *venv {
	return &venv{Innovs: append([]genetics.Innovation(nil), p.Innovs...), NextI: p.NextI, NextN: p.NextN}
}

func coqInnovation(i genetics.Innovation) string {
	return fmt.Sprintf("(IV %d %s %s %s %s %s %s %s %s %s)", genetics.VInnovationType(i), ZI(i.InNodeId), ZI(i.OutNodeId),
		Z(i.InnovationNum), Z(i.InnovationNum2), F(i.NewWeight), ZI(i.NewTraitNum), ZI(i.NewNodeId), Z(i.OldInnovNum), B(i.IsRecurrent))
}

func coqEnv(e *venv) string {
	var it []string
	for _, i := range e.Innovs {
		it = append(it, coqInnovation(i))
	}
	return fmt.Sprintf("(EV %s %s %s)", List(it), Z(e.NextI), ZI(e.NextN))
}

func coqOptions(o *neat.Options) string {
	fl := []float64{o.TraitParamMutProb, o.TraitMutationPower, o.WeightMutPower, o.DisjointCoeff, o.ExcessCoeff, o.MutdiffCoeff,
		o.CompatThreshold, o.AgeSignificance, o.SurvivalThresh, o.MutateOnlyProb, o.MutateRandomTraitProb, o.MutateLinkTraitProb,
		o.MutateNodeTraitProb, o.MutateLinkWeightsProb, o.MutateToggleEnableProb, o.MutateGeneReenableProb, o.MutateAddNodeProb,
		o.MutateAddLinkProb, o.MutateConnectSensors, o.InterspeciesMateRate, o.MateMultipointProb, o.MateMultipointAvgProb,
		o.MateSinglepointProb, o.MateOnlyProb, o.RecurOnlyProb}
	acts := make([]int, len(o.NodeActivators))
	for i, a := range o.NodeActivators {
		acts[i] = int(a)
	}
	return fmt.Sprintf("(OPT %s %s %s %s %s %s %s %s)", FList(fl), ZI(o.PopSize), ZI(o.DropOffAge), ZI(o.NewLinkTries), ZI(o.BabiesStolen),
		B(o.GenCompatMethod == neat.GenomeCompatibilityMethodLinear), IList(acts), FList(o.NodeActivatorsProb))
}

// tapeFor is the raw Int63 stream the global source produces after rand.Seed(seed)
func tapeFor(seed int64, n int) []int64 {
	src := rand.New(rand.NewSource(seed))
	t := make([]int64, n)
	for i := range t {
		t[i] = src.Int63()
	}
	return t
}

// ---------- snapshots (value projection of a genome, used by the Go-side oracles) ----------

type gsnap struct {
	Nodes  []string
	Genes  []string
	Traits []string
	Mods   []string
}

func tid(t *neat.Trait) int {
	if t == nil {
		return 0
	}
	return t.Id
}

func snap(g *genetics.Genome) gsnap {
	var s gsnap
	for _, n := range g.Nodes {
		s.Nodes = append(s.Nodes, fmt.Sprint(n.Id, " ", int(n.NeuronType), " ", int(n.ActivationType), " ", tid(n.Trait)))
	}
	for _, gn := range g.Genes {
		s.Genes = append(s.Genes, fmt.Sprint(gn.Link.InNode.Id, " ", gn.Link.OutNode.Id, " ", gn.Link.IsRecurrent, " ",
			math.Float64bits(gn.Link.ConnectionWeight), " ", tid(gn.Link.Trait), " ", gn.InnovationNum, " ", math.Float64bits(gn.MutationNum), " ", gn.IsEnabled))
	}
	for _, tr := range g.Traits {
		bits := make([]uint64, len(tr.Params))
		for i, p := range tr.Params {
			bits[i] = math.Float64bits(p)
		}
		s.Traits = append(s.Traits, fmt.Sprint(tr.Id, " ", bits))
	}
	for _, m := range g.ControlGenes {
		x := fmt.Sprint(m.ControlNode.Id, " ", int(m.ControlNode.NeuronType), " ", int(m.ControlNode.ActivationType), " ", tid(m.ControlNode.Trait), " ",
			m.InnovationNum, " ", math.Float64bits(m.MutationNum), " ", m.IsEnabled, " in:")
		for _, l := range m.ControlNode.Incoming {
			x += fmt.Sprint(" ", l.InNode.Id, "/", math.Float64bits(l.ConnectionWeight))
		}
		x += " out:"
		for _, l := range m.ControlNode.Outgoing {
			x += fmt.Sprint(" ", l.OutNode.Id, "/", math.Float64bits(l.ConnectionWeight))
		}
		s.Mods = append(s.Mods, x)
	}
	return s
}

func (a gsnap) str() string {
	return strings.Join(a.Nodes, ";") + "|" + strings.Join(a.Genes, ";") + "|" + strings.Join(a.Traits, ";") + "|" + strings.Join(a.Mods, ";")
}
func (a gsnap) eq(b gsnap) bool { return a.str() == b.str() }

func geneKey(s string) (in, out, rec, w, tid, innov, mut, en string) {
	f := strings.Fields(s)
	return f[0], f[1], f[2], f[3], f[4], f[5], f[6], f[7]
}

// genomeText serialises a genome for replay files (plain encoding; YAML when it has modules)
func genomeText(g *genetics.Genome) map[string]string {
	var buf bytes.Buffer
	enc := genetics.PlainGenomeEncoding
	name := "plain"
	if len(g.ControlGenes) > 0 {
		enc = genetics.YAMLGenomeEncoding
		name = "yaml"
	}
	w, err := genetics.NewGenomeWriter(&buf, enc)
	if err == nil {
		err = w.WriteGenome(g)
	}
	if err != nil {
		return map[string]string{"format": "error", "text": err.Error()}
	}
	return map[string]string{"format": name, "text": buf.String()}
}

func genomeFromText(m map[string]string) (*genetics.Genome, error) {
	enc := genetics.PlainGenomeEncoding
	if m["format"] == "yaml" {
		enc = genetics.YAMLGenomeEncoding
	}
	r, err := genetics.NewGenomeReader(strings.NewReader(m["text"]), enc)
	if err != nil {
		return nil, err
	}
	return r.Read()
}

// ---------- the statement of C01 as a Go predicate ----------

func wfGenome(g *genetics.Genome) error {
	if len(g.Genes) == 0 {
		return fmt.Errorf("no genes")
	}
	for i := 1; i < len(g.Genes); i++ {
		if g.Genes[i-1].InnovationNum >= g.Genes[i].InnovationNum {
			return fmt.Errorf("genes not strictly ascending by innovation at %d", i)
		}
	}
	links := map[string]bool{}
	for _, x := range g.Genes {
		k := fmt.Sprint(x.Link.InNode.Id, ">", x.Link.OutNode.Id, x.Link.IsRecurrent)
		if links[k] {
			return fmt.Errorf("two genes join %s", k)
		}
		links[k] = true
	}
	for i := 1; i < len(g.Nodes); i++ {
		if g.Nodes[i-1].Id >= g.Nodes[i].Id {
			return fmt.Errorf("nodes not strictly ascending by id at %d", i)
		}
	}
	traitOK := func(t *neat.Trait) bool {
		if t == nil {
			return true
		}
		for _, x := range g.Traits {
			if x == t {
				return true
			}
		}
		return false
	}
	for _, n := range g.Nodes {
		if g.NodeWithId(n.Id) != n {
			return fmt.Errorf("NodeWithId(%d) does not return the genome's node", n.Id)
		}
		if !traitOK(n.Trait) {
			return fmt.Errorf("node %d references a foreign trait", n.Id)
		}
	}
	outputs := 0
	for _, n := range g.Nodes {
		if n.NeuronType == network.OutputNeuron {
			outputs++
		}
	}
	if outputs == 0 {
		return fmt.Errorf("no output node")
	}
	for _, x := range g.Genes {
		if g.NodeWithId(x.Link.InNode.Id) != x.Link.InNode || g.NodeWithId(x.Link.OutNode.Id) != x.Link.OutNode {
			return fmt.Errorf("gene %d endpoint is not one of the genome's own nodes", x.InnovationNum)
		}
		if x.Link.OutNode.IsSensor() {
			return fmt.Errorf("gene %d ends in a sensor", x.InnovationNum)
		}
		if !traitOK(x.Link.Trait) {
			return fmt.Errorf("gene %d references a foreign trait", x.InnovationNum)
		}
	}
	for i, t := range g.Traits {
		if i > 0 && t.Id != g.Traits[i-1].Id+1 {
			return fmt.Errorf("trait ids not consecutive")
		}
	}
	if _, err := g.Genesis(g.Id); err != nil {
		return fmt.Errorf("genesis failed: %v", err)
	}
	g.Phenotype = nil
	return nil
}

func ioNodeIds(g *genetics.Genome) map[int]network.NodeNeuronType {
	m := map[int]network.NodeNeuronType{}
	for _, n := range g.Nodes {
		if n.NeuronType != network.HiddenNeuron {
			m[n.Id] = n.NeuronType
		}
	}
	return m
}

// ---------- option and genome generators ----------

func randOptions(r *rand.Rand) *neat.Options {
	o := baseOptions()
	o.NewLinkTries = []int{1, 5, 20, 50}[r.Intn(4)]
	o.RecurOnlyProb = []float64{0, 0, 0.3, 1}[r.Intn(4)]
	o.WeightMutPower = []float64{0.5, 2.5, 10}[r.Intn(3)]
	o.TraitParamMutProb = []float64{0, 0.5, 1}[r.Intn(3)]
	o.TraitMutationPower = []float64{0.1, 1}[r.Intn(2)]
	o.MutateRandomTraitProb = r.Float64() * 0.6
	o.MutateLinkTraitProb = r.Float64() * 0.6
	o.MutateNodeTraitProb = r.Float64() * 0.6
	o.MutateLinkWeightsProb = 0.3 + r.Float64()*0.7
	o.MutateToggleEnableProb = r.Float64() * 0.5
	o.MutateGeneReenableProb = r.Float64() * 0.5
	switch r.Intn(3) {
	case 0:
		o.NodeActivators = []neatmath.NodeActivationType{neatmath.SigmoidSteepenedActivation}
		o.NodeActivatorsProb = []float64{1}
	case 1:
		o.NodeActivators = []neatmath.NodeActivationType{neatmath.SigmoidSteepenedActivation, neatmath.TanhActivation}
		o.NodeActivatorsProb = []float64{0.5, 0.5}
	default:
		o.NodeActivators = []neatmath.NodeActivationType{neatmath.SigmoidBipolarActivation, neatmath.GaussianBipolarActivation, neatmath.LinearAbsActivation, neatmath.SineActivation}
		o.NodeActivatorsProb = []float64{0.25, 0.35, 0.15, 0.25}
	}
	return o
}

const xorStart = "genomestart 1\n" +
	"trait 1 0.1 0 0 0 0 0 0 0\ntrait 2 0.2 0 0 0 0 0 0 0\ntrait 3 0.3 0 0 0 0 0 0 0\n" +
	"node 1 0 1 1 NullActivation\nnode 2 0 1 1 NullActivation\nnode 3 0 1 3 NullActivation\nnode 4 0 0 2 SigmoidSteepenedActivation\n" +
	"gene 1 1 4 0.0 false 1 0 true\ngene 2 2 4 0.0 false 2 0 true\ngene 3 3 4 0.0 false 3 0 true\n" +
	"genomeend 1\n"

// node ids start at 0 (an id like any other; every shipped genome starts at 1)
const zeroBasedIds = "genomestart 1\n" +
	"trait 1 0.1 0 0 0 0 0 0 0\ntrait 2 0.2 0 0 0 0 0 0 0\n" +
	"node 0 1 1 1 NullActivation\nnode 1 2 1 1 NullActivation\nnode 2 1 1 3 NullActivation\nnode 3 1 0 0 SigmoidSteepenedActivation\nnode 4 2 0 2 SigmoidSteepenedActivation\n" +
	"gene 1 0 3 0.5 false 1 0.5 true\ngene 2 1 3 -0.5 false 2 -0.5 true\ngene 1 2 3 1.5 false 3 1.5 true\ngene 2 3 4 1.0 false 4 1.0 true\ngene 1 0 4 -1.0 false 5 -1.0 true\n" +
	"genomeend 1\n"

// one disconnected sensor (node 2) and a hidden node
const xorDisconnected = "genomestart 1\n" +
	"trait 1 0.1 0 0 0 0 0 0 0\ntrait 2 0.2 0 0 0 0 0 0 0\n" +
	"node 1 1 1 1 NullActivation\nnode 2 0 1 1 NullActivation\nnode 3 2 1 3 NullActivation\nnode 4 1 0 2 SigmoidSteepenedActivation\nnode 5 2 0 0 SigmoidSteepenedActivation\nnode 6 1 0 2 LinearActivation\n" +
	"gene 1 1 5 0.5 false 1 0.5 true\ngene 2 3 5 -1.5 false 2 -1.5 true\ngene 1 5 4 2.0 false 3 2.0 true\ngene 2 3 6 1.0 false 4 1.0 false\ngene 1 5 6 1.0 false 5 1.0 true\n" +
	"genomeend 1\n"

// genes without traits (one of them disabled), nil-trait nodes
const nilTraitGenes = "genomestart 1\n" +
	"trait 1 0.1 0 0 0 0 0 0 0\ntrait 2 0.2 0 0 0 0 0 0 0\n" +
	"node 1 0 1 1 NullActivation\nnode 2 1 1 1 NullActivation\nnode 3 0 1 3 NullActivation\nnode 4 2 0 2 SigmoidSteepenedActivation\nnode 5 0 0 0 TanhActivation\n" +
	"gene 0 1 5 0.7 false 1 0.7 true\ngene 0 2 5 -0.3 false 2 -0.3 false\ngene 1 5 4 1.1 false 3 1.1 true\ngene 0 3 4 0.2 false 4 0.2 true\ngene 2 1 4 0.9 false 5 0.9 true\n" +
	"genomeend 1\n"

// two genes on one ordered node pair that differ only in the recurrence flag, a self loop, a back link
const parallelRecurrent = "genomestart 1\n" +
	"trait 1 0.1 0 0 0 0 0 0 0\n" +
	"node 1 1 1 1 NullActivation\nnode 2 1 1 3 NullActivation\nnode 3 1 0 2 SigmoidSteepenedActivation\nnode 4 1 0 0 SigmoidSteepenedActivation\n" +
	"gene 1 1 4 0.5 false 1 0.5 true\ngene 1 4 3 1.5 false 2 1.5 true\ngene 1 2 3 0.3 false 3 0.3 true\ngene 1 4 3 -0.8 true 4 -0.8 true\n" +
	"gene 1 4 4 0.25 true 5 0.25 true\ngene 1 3 4 0.6 true 6 0.6 true\n" +
	"genomeend 1\n"

// 19 genes of which a single one is enabled and does not leave the bias node
func bigMostlyIneligible() string {
	s := "genomestart 1\ntrait 1 0.1 0 0 0 0 0 0 0\n" +
		"node 1 1 1 1 NullActivation\nnode 2 1 1 3 NullActivation\nnode 3 1 0 2 SigmoidSteepenedActivation\n"
	for h := 4; h <= 9; h++ {
		s += fmt.Sprintf("node %d 1 0 0 SigmoidSteepenedActivation\n", h)
	}
	innov := 1
	for t := 3; t <= 9; t++ { // bias -> every neuron, enabled
		s += fmt.Sprintf("gene 1 2 %d 0.%d false %d 0.%d true\n", t, t, innov, t)
		innov++
	}
	for t := 3; t <= 9; t++ { // input -> every neuron, all disabled but one
		s += fmt.Sprintf("gene 1 1 %d 0.5 false %d 0.5 %v\n", t, innov, t == 6)
		innov++
	}
	for h := 4; h <= 8; h++ { // hidden -> output, disabled
		s += fmt.Sprintf("gene 1 %d 3 1.25 false %d 1.25 false\n", h, innov)
		innov++
	}
	return s + "genomeend 1\n"
}

// sensor 1 has only a disabled outgoing gene and no gene to hidden node 5
const sensorOnlyDisabled = "genomestart 1\n" +
	"trait 1 0.1 0 0 0 0 0 0 0\ntrait 2 0.2 0 0 0 0 0 0 0\n" +
	"node 1 1 1 1 NullActivation\nnode 2 1 1 1 NullActivation\nnode 3 2 1 3 NullActivation\nnode 4 1 0 2 SigmoidSteepenedActivation\nnode 5 2 0 0 SigmoidSteepenedActivation\n" +
	"gene 1 1 4 0.5 false 1 0.5 false\ngene 2 2 5 -1.5 false 2 -1.5 true\ngene 1 5 4 2.0 false 3 2.0 true\ngene 2 3 4 1.0 false 4 1.0 true\n" +
	"genomeend 1\n"

// a sensor (bias node 5) placed after the neurons in node order: the leading run of sensors is shorter
// than the set of sensors
const sensorLast = "genomestart 1\n" +
	"trait 1 0.1 0 0 0 0 0 0 0\n" +
	"node 1 1 1 1 NullActivation\nnode 2 1 1 1 NullActivation\nnode 3 1 0 0 SigmoidSteepenedActivation\nnode 4 1 0 2 SigmoidSteepenedActivation\nnode 5 1 1 3 NullActivation\n" +
	"gene 1 1 3 0.5 false 1 0.5 true\ngene 1 2 3 -0.5 false 2 -0.5 true\ngene 1 3 4 1.5 false 3 1.5 true\ngene 1 5 4 0.25 false 4 0.25 true\n" +
	"genomeend 1\n"

// a recurrent self-loop on hidden node 5 carries a smaller innovation number than every other gene that touches
// node 5: in a child the self-loop is the first gene to bring that node in, as both of its endpoints
const selfLoopFirst = "genomestart 1\n" +
	"trait 1 0.1 0 0 0 0 0 0 0\n" +
	"node 1 1 1 1 NullActivation\nnode 2 1 1 1 NullActivation\nnode 3 1 1 3 NullActivation\nnode 4 1 0 2 SigmoidSteepenedActivation\nnode 5 1 0 0 SigmoidSteepenedActivation\n" +
	"gene 1 1 4 0.5 false 1 0.5 true\ngene 1 2 4 -0.5 false 2 -0.5 true\ngene 1 3 4 0.75 false 3 0.75 true\n" +
	"gene 1 5 5 0.3 true 4 0.3 true\ngene 1 1 5 1.5 false 5 1.5 true\ngene 1 5 4 -1.25 false 6 -1.25 true\n" +
	"genomeend 1\n"

// a hidden node (3) whose id is below the output nodes' ids, and an output (5) that no gene touches: children
// get that output only from the copy of the parents' input/bias/output nodes
const danglingOutputAfterHidden = "genomestart 1\n" +
	"trait 1 0.1 0 0 0 0 0 0 0\n" +
	"node 1 1 1 1 NullActivation\nnode 2 1 1 3 NullActivation\nnode 3 1 0 0 SigmoidSteepenedActivation\nnode 4 1 0 2 SigmoidSteepenedActivation\nnode 5 1 0 2 SigmoidSteepenedActivation\n" +
	"gene 1 1 3 0.5 false 1 0.5 true\ngene 1 3 4 1.5 false 2 1.5 true\ngene 1 2 4 0.25 false 3 0.25 true\n" +
	"genomeend 1\n"

// a self-loop flagged NON-recurrent (the readers and verify accept it; mutateAddLink never makes one): the flag is
// part of a link's identity and must travel unchanged through copies and crossovers
const selfLoopNonRecurrent = "genomestart 1\n" +
	"trait 1 0.1 0 0 0 0 0 0 0\n" +
	"node 1 1 1 1 NullActivation\nnode 2 1 1 3 NullActivation\nnode 3 1 0 2 SigmoidSteepenedActivation\nnode 4 1 0 0 SigmoidSteepenedActivation\n" +
	"gene 1 1 3 0.5 false 1 0.5 true\ngene 1 2 3 -0.5 false 2 -0.5 true\ngene 1 1 4 1.5 false 3 1.5 true\ngene 1 4 3 0.25 false 4 0.25 true\n" +
	"gene 1 4 4 0.75 false 5 0.75 true\ngene 1 3 3 -0.25 true 6 -0.25 true\n" +
	"genomeend 1\n"

// every innovation number negative (any int64 is a number; the counters then start at 1): a small genome in which
// every non-recurrent link between its nodes already exists
const negativeInnovations = "genomestart 1\n" +
	"trait 1 0.1 0 0 0 0 0 0 0\n" +
	"node 1 1 1 1 NullActivation\nnode 2 1 1 3 NullActivation\nnode 3 1 0 2 SigmoidSteepenedActivation\nnode 4 1 0 0 SigmoidSteepenedActivation\n" +
	"gene 1 1 3 0.5 false -9 0.5 true\ngene 1 2 3 -0.5 false -8 -0.5 true\ngene 1 1 4 1.5 false -7 1.5 true\ngene 1 2 4 0.25 false -6 0.25 true\n" +
	"gene 1 4 3 0.75 false -5 0.75 true\n" +
	"genomeend 1\n"

func startGenomes() []*genetics.Genome {
	return []*genetics.Genome{readPlain(sensorLast, 1), readPlain(xorStart, 1), readPlain(xorDisconnected, 1), readPlain(tinyGenome, 1),
		readPlain(nilTraitGenes, 1), readPlain(parallelRecurrent, 1), readPlain(bigMostlyIneligible(), 1), readPlain(sensorOnlyDisabled, 1),
		readPlain(selfLoopFirst, 1), readPlain(danglingOutputAfterHidden, 1), readPlain(selfLoopNonRecurrent, 1), readPlain(negativeInnovations, 1), readPlain(zeroBasedIds, 1)}
}

func startEnv(g *genetics.Genome) *venv {
	e := &venv{}
	for _, x := range g.Genes {
		if x.InnovationNum > e.NextI {
			e.NextI = x.InnovationNum
		}
	}
	for _, n := range g.Nodes {
		if n.Id > e.NextN {
			e.NextN = n.Id
		}
	}
	return e
}
