package main

import (
	"fmt"
	"math/rand"

	"github.com/yaricom/goNEAT/v4/neat/genetics"
)

// interposeEnv hands out numbers like venv, but after its first NextInnovationNumber it lets "another goroutine"
// run to completion (hook): the deterministic picture of two reproduction goroutines interleaving between the two
// NextInnovationNumber calls of one mutateAddNode.
type interposeEnv struct {
	*venv
	hook  func()
	fired bool
}

func (p *interposeEnv) NextInnovationNumber() int64 {
	n := p.venv.NextInnovationNumber()
	if !p.fired && p.hook != nil {
		p.fired = true
		p.hook()
	}
	return n
}

// c03InterleavedAllocation: genome A splits a gene; between A's two innovation numbers genome B (another species'
// goroutine) completes a structural mutation of its own; later in the same generation genome C replays A's split
// from the record.  Whatever the interleaving, one innovation number denotes one connection over A, B and C.
func c03InterleavedAllocation(r *Run) {
	quiet()
	starts := startGenomes()
	for k := 0; k < r.N(40, 600); k++ {
		start := starts[r.Rng.Intn(len(starts))]
		env := startEnv(start)
		opts := baseOptions()
		opts.MutateAddNodeProb, opts.MutateAddLinkProb, opts.NewLinkTries, opts.RecurOnlyProb = 1, 1, 30, 0.2
		a, e1 := genetics.VDuplicate(start, 1)
		b, e2 := genetics.VDuplicate(start, 2)
		c, e3 := genetics.VDuplicate(start, 3)
		if e1 != nil || e2 != nil || e3 != nil {
			continue
		}
		seedA, seedB := r.Rng.Int63(), r.Rng.Int63()
		kindB := []string{"add_node", "add_link"}[r.Rng.Intn(2)]
		in := map[string]interface{}{"kind": "interleaved-allocation", "start": genomeText(start), "seed_a": seedA, "seed_b": seedB, "other_goroutine_does": kindB}
		ip := &interposeEnv{venv: env}
		ip.hook = func() {
			// the other goroutine: its own draws (the global source is saved and restored around it)
			saved := rand.Int63()
			rand.Seed(seedB)
			_, _ = genetics.VMutate(kindB, b, env, env, opts, 1, 1)
			rand.Seed(saved)
		}
		ok := true
		func() {
			defer func() {
				if p := recover(); p != nil {
					ok = false
				}
			}()
			rand.Seed(seedA)
			_, _ = genetics.VMutate("add_node", a, ip, ip, opts, 1, 1)
			// C replays the same split with the same draws: the record must be found
			rand.Seed(seedA)
			_, _ = genetics.VMutate("add_node", c, env, env, opts, 1, 1)
		}()
		if !ok {
			continue
		}
		reg := map[int64]string{}
		for who, g := range map[string]*genetics.Genome{"A (interrupted)": a, "B (the other goroutine)": b, "C (replays A's split)": c} {
			for _, x := range g.Genes {
				key := fmt.Sprint(x.Link.InNode.Id, ">", x.Link.OutNode.Id, " ", x.Link.IsRecurrent)
				if old, seen := reg[x.InnovationNum]; seen && old != key {
					r.Fail(Failure{Key: "innovation-number-reused interleaved-allocation", What: fmt.Sprintf("innovation %d denotes %s and %s (second seen in genome %s)", x.InnovationNum, old, key, who), Input: in})
					ok = false
				}
				reg[x.InnovationNum] = key
			}
			if e := wfGenome(g); e != nil && ok {
				r.Fail(Failure{Key: "illformed-after-interleaved-allocation", What: "genome " + who + " is ill-formed: " + e.Error(), Input: in})
				ok = false
			}
		}
		r.Count(fmt.Sprint("interleave ", k, seedA, seedB, kindB), ip.fired)
	}
	r.Hist("interleaved_allocation", "checked")
}
