package main

import (
	"math"
	"math/bits"

	"github.com/yaricom/goNEAT/v4/neat"
	"github.com/yaricom/goNEAT/v4/neat/genetics"
	"github.com/yaricom/goNEAT/v4/neat/network"
)

// 61-bit polynomial digest mirroring coq/cases/Digest.v

const dM = uint64(2305843009213693951) // 2^61 - 1
const dP = uint64(1000003)

type digester struct{ h uint64 }

func newDigester() *digester { return &digester{h: 7} }

func (d *digester) z(v int64) {
	var vm uint64
	if v >= 0 {
		vm = uint64(v) % dM
	} else {
		m := uint64(-(v + 1)) % dM // (-v-1) mod M
		vm = (dM - 1 - m) % dM     // v mod M = M - 1 - ((-v-1) mod M)
	}
	hi, lo := bits.Mul64(d.h, dP)
	var c uint64
	lo, c = bits.Add64(lo, vm, 0)
	hi += c
	lo, c = bits.Add64(lo, 17, 0)
	hi += c
	_, rem := bits.Div64(hi, lo, dM)
	d.h = rem
}
func (d *digester) i(v int) { d.z(int64(v)) }
func (d *digester) b(v bool) {
	if v {
		d.z(1)
	} else {
		d.z(0)
	}
}
func (d *digester) f(x float64) {
	b := math.Float64bits(x)
	sign := b>>63 == 1
	exp := int64((b >> 52) & 0x7ff)
	frac := b & ((1 << 52) - 1)
	switch {
	case exp == 0 && frac == 0:
		d.z(0)
		d.b(sign)
	case exp == 0x7ff && frac == 0:
		d.z(1)
		d.b(sign)
	case exp == 0x7ff:
		d.z(2)
	case exp == 0:
		d.z(3)
		d.b(sign)
		d.z(int64(frac))
		d.z(-1074)
	default:
		d.z(3)
		d.b(sign)
		d.z(int64(frac | (1 << 52)))
		d.z(exp - 1075)
	}
}
func (d *digester) trait(t *neat.Trait) {
	if t == nil {
		d.z(0)
	} else {
		d.z(1)
		d.i(t.Id)
	}
}
func (d *digester) node(n *network.NNode) {
	d.i(n.Id)
	d.i(int(n.NeuronType))
	d.i(int(n.ActivationType))
	d.trait(n.Trait)
}
func (d *digester) genome(g *genetics.Genome) {
	d.i(g.Id)
	d.i(len(g.Traits))
	for _, t := range g.Traits {
		d.i(t.Id)
		d.i(len(t.Params))
		for _, p := range t.Params {
			d.f(p)
		}
	}
	d.i(len(g.Nodes))
	for _, n := range g.Nodes {
		d.node(n)
	}
	d.i(len(g.Genes))
	for _, x := range g.Genes {
		d.i(x.Link.InNode.Id)
		d.i(x.Link.OutNode.Id)
		d.b(x.Link.IsRecurrent)
		d.f(x.Link.ConnectionWeight)
		d.trait(x.Link.Trait)
		d.z(x.InnovationNum)
		d.f(x.MutationNum)
		d.b(x.IsEnabled)
	}
	d.i(len(g.ControlGenes))
	for _, m := range g.ControlGenes {
		d.node(m.ControlNode)
		d.z(m.InnovationNum)
		d.f(m.MutationNum)
		d.b(m.IsEnabled)
		d.i(len(m.ControlNode.Incoming))
		for _, l := range m.ControlNode.Incoming {
			d.i(l.InNode.Id)
			d.f(l.ConnectionWeight)
		}
		d.i(len(m.ControlNode.Outgoing))
		for _, l := range m.ControlNode.Outgoing {
			d.i(l.OutNode.Id)
			d.f(l.ConnectionWeight)
		}
	}
}
func (d *digester) env(innovs []genetics.Innovation, ni int64, nn int) {
	d.i(len(innovs))
	for _, i := range innovs {
		d.z(int64(genetics.VInnovationType(i)))
		d.i(i.InNodeId)
		d.i(i.OutNodeId)
		d.z(i.InnovationNum)
		d.z(i.InnovationNum2)
		d.f(i.NewWeight)
		d.i(i.NewTraitNum)
		d.i(i.NewNodeId)
		d.z(i.OldInnovNum)
		d.b(i.IsRecurrent)
	}
	d.z(ni)
	d.i(nn)
}

// popDigest mirrors enc_pop_obs of coq/cases/EpochCases.v
func popDigest(p *genetics.Population, next int64) uint64 {
	d := newDigester()
	d.i(len(p.Organisms))
	for _, o := range p.Organisms {
		info := genetics.VOrganismInfo(o)
		d.genome(o.Genotype)
		d.f(o.Fitness)
		sid := 0
		if o.Species != nil {
			sid = o.Species.Id
		}
		d.i(sid)
		d.i(o.Generation)
		d.b(info.IsPopulationChampionChild)
		d.f(info.HighestFitness)
		d.b(info.MutationStructBaby)
		d.b(info.MateBaby)
	}
	d.i(len(p.Species))
	for _, s := range p.Species {
		d.i(s.Id)
		d.i(s.Age)
		d.b(s.IsNovel)
		d.f(s.MaxFitnessEver)
		d.i(s.ExpectedOffspring)
		d.i(s.AgeOfLastImprovement)
		d.i(len(s.Organisms))
		for _, o := range s.Organisms {
			d.i(o.Genotype.Id)
		}
	}
	d.i(p.LastSpecies)
	d.f(p.HighestFitness)
	d.i(p.EpochsHighestLastChanged)
	innovs, ni, nn := genetics.VPopulationCounters(p)
	d.env(innovs, ni, int(nn))
	d.z(next)
	return d.h
}
