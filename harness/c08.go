package main

import (
	"encoding/json"
	"fmt"
	"math"
	"math/rand"
	"sort"
	"strconv"
	"strings"

	"github.com/yaricom/goNEAT/v4/neat"
	"github.com/yaricom/goNEAT/v4/neat/genetics"
)

// C08: each organism is placed in the first species whose representative is nearest among the
// compatible ones, or founds a new species with a fresh id when no representative is compatible.
// A real Population with real Species and Organisms is built and the real speciate is called
// through export_verif_c07.go (VC08Speciate); two further families read the species the public
// constructors NewPopulation / NewPopulationRandom leave behind.

func init() {
	runners["C08"] = runC08
	replayers["C08"] = replayC08
}

type c08Org struct {
	Key   int       `json:"key"`
	Genes []c07Gene `json:"genes"`
}

type c08Species struct {
	Id      int      `json:"id"`
	Members []c08Org `json:"members"`
}

type c08Input struct {
	Kind    string       `json:"kind"`
	Linear  bool         `json:"linear"`
	Dc      float64      `json:"disjoint_coeff"`
	Ec      float64      `json:"excess_coeff"`
	Mc      float64      `json:"mutdiff_coeff"`
	Thr     string       `json:"threshold"` // exact hex literal (may be +Inf / NaN, which JSON numbers cannot carry)
	Species []c08Species `json:"species"`
	Last    int          `json:"last_species"`
	Batch   []c08Org     `json:"batch"`
	// constructor families: Ctor = "random" | "spawn"; the batch is what the constructor built from Seed
	Ctor string `json:"ctor,omitempty"`
	Seed int64  `json:"seed,omitempty"`
}

type c08SpeciesObs struct {
	Id   int   `json:"id"`
	Keys []int `json:"keys"`
}

type c08Obs struct {
	Species []c08SpeciesObs `json:"species"`
	Last    int             `json:"last_species"`
	Assign  [][2]int        `json:"assign"`
	Status  int             `json:"status"`
	Err     string          `json:"err,omitempty"`
}

func c08ThrStr(x float64) string {
	switch {
	case math.IsNaN(x):
		return "NaN"
	case math.IsInf(x, 1):
		return "+Inf"
	case math.IsInf(x, -1):
		return "-Inf"
	}
	return fmt.Sprintf("%x", x)
}

func c08ThrVal(s string) float64 {
	switch s {
	case "NaN":
		return math.NaN()
	case "+Inf":
		return math.Inf(1)
	case "-Inf":
		return math.Inf(-1)
	}
	x, err := strconv.ParseFloat(s, 64)
	if err != nil {
		panic("bad threshold literal " + s)
	}
	return x
}

func c08Opts(in c08Input) *neat.Options {
	o := baseOptions()
	o.DisjointCoeff, o.ExcessCoeff, o.MutdiffCoeff = in.Dc, in.Ec, in.Mc
	o.CompatThreshold = c08ThrVal(in.Thr)
	o.GenCompatMethod = neat.GenomeCompatibilityMethodFast
	if in.Linear {
		o.GenCompatMethod = neat.GenomeCompatibilityMethodLinear
	}
	return o
}

func c08Status(err error) int {
	switch {
	case err == nil:
		return 0
	case strings.Contains(err.Error(), "no organisms to speciate"):
		return 1
	case strings.Contains(err.Error(), "threshold is set to ZERO"):
		return 2
	}
	return 9
}

func c08GenesOf(g *genetics.Genome) []c07Gene {
	out := make([]c07Gene, len(g.Genes))
	for i, gn := range g.Genes {
		out[i] = c07Gene{Innov: gn.InnovationNum, Mut: gn.MutationNum}
	}
	return out
}

func c08Observe(p *genetics.Population, batch []*genetics.Organism, err error) c08Obs {
	obs := c08Obs{Last: p.LastSpecies, Status: c08Status(err), Species: []c08SpeciesObs{}, Assign: [][2]int{}}
	if err != nil {
		obs.Err = err.Error()
	}
	for _, s := range p.Species {
		so := c08SpeciesObs{Id: s.Id, Keys: []int{}}
		for _, o := range s.Organisms {
			so.Keys = append(so.Keys, o.Genotype.Id)
		}
		obs.Species = append(obs.Species, so)
	}
	for _, o := range batch {
		if o.Species != nil {
			obs.Assign = append(obs.Assign, [2]int{o.Genotype.Id, o.Species.Id})
		}
	}
	return obs
}

// c08World is the real population and batch of one case
type c08World struct {
	pop   *genetics.Population
	batch []*genetics.Organism
	reps  map[int]*genetics.Organism // initial representative per species position
	err   error
}

// c08Build makes the real objects of a direct case (no constructor)
func c08Build(in c08Input) *c08World {
	w := &c08World{pop: &genetics.Population{LastSpecies: in.Last, Species: []*genetics.Species{}, Organisms: []*genetics.Organism{}},
		reps: map[int]*genetics.Organism{}}
	for i, s := range in.Species {
		sp := genetics.NewSpecies(s.Id)
		for j, m := range s.Members {
			// fitness values differ inside a species (speciation compares with the FIRST member whatever its fitness)
			o, _ := genetics.NewOrganism(float64((m.Key*7)%11), c07Genome(m.Key, m.Genes, m.Key%2 == 0), 1)
			o.Species = sp
			sp.Organisms = append(sp.Organisms, o)
			w.pop.Organisms = append(w.pop.Organisms, o)
			if j == 0 {
				w.reps[i] = o
			}
		}
		w.pop.Species = append(w.pop.Species, sp)
	}
	for _, b := range in.Batch {
		o, _ := genetics.NewOrganism(float64((b.Key*5)%7), c07Genome(b.Key, b.Genes, b.Key%2 == 0), 1)
		w.batch = append(w.batch, o)
	}
	return w
}

// c08Construct runs a public constructor from the seed; the batch is the organisms it built
func c08Construct(in c08Input) (*c08World, error) {
	opts := c08Opts(in)
	opts.PopSize = 8 + int(in.Seed%7)
	rand.Seed(in.Seed)
	var pop *genetics.Population
	var err error
	if in.Ctor == "random" {
		pop, err = genetics.NewPopulationRandom(2, 1, 2, in.Seed%2 == 0, 0.5, opts)
	} else {
		pop, err = genetics.NewPopulation(readPlain(tinyGenome, 1), opts)
	}
	if err != nil || pop == nil {
		return nil, err
	}
	return &c08World{pop: pop, batch: pop.Organisms, reps: map[int]*genetics.Organism{}}, nil
}

// c08Oracle re-derives the nearest-compatible rule from distances computed with the real
// compatibility function and compares with what the real speciate left behind
func c08Oracle(r *Run, in c08Input, w *c08World, initial []c08SpeciesObs, obs c08Obs) {
	fail := func(what, msg string, observed, required interface{}) {
		r.Fail(Failure{Key: fmt.Sprintf("speciate-%s kind=%s thr=%s species=%d batch=%d linear=%v coeffs=%g/%g/%g", what, in.Kind, in.Thr,
			len(in.Species), len(in.Batch), in.Linear, in.Dc, in.Ec, in.Mc), What: msg, Input: in, Observed: observed, Required: required})
	}
	opts := c08Opts(in)
	thr := opts.CompatThreshold
	if thr == 0 || len(w.batch) == 0 || math.IsNaN(thr) {
		return // outside the quantifier (thresholds > 0): only the correspondence applies
	}
	if obs.Status != 0 {
		fail("error", "speciate failed on a non-empty batch with a non-zero threshold", obs, "nil error")
		return
	}
	type spec struct {
		id   int
		rep  *genetics.Organism
		keys []int
	}
	var want []*spec
	// initial state: representative = first organism of each species as it was before the call
	idx := 0
	for i, s := range initial {
		sp := &spec{id: s.Id, keys: append([]int{}, s.Keys...)}
		if len(s.Keys) > 0 {
			sp.rep = w.reps[i]
		}
		want = append(want, sp)
		idx++
	}
	last := in.Last
	joins, founds, ties, boundary := 0, 0, 0, 0
	for _, o := range w.batch {
		best := -1
		bestD := 0.0
		for i, sp := range want {
			if sp.rep == nil {
				continue
			}
			d := genetics.VC07Compatibility(o.Genotype, sp.rep.Genotype, opts)
			// the distance speciation works with is the NEAT formula, recomputed here from the two gene lists by
			// set logic (independent of both compatibility methods)
			if want, finite := c08Formula(o.Genotype, sp.rep.Genotype, opts); finite && !(math.Abs(d-want) <= 1e-9*(1+math.Abs(want))) {
				fail("distance-not-the-formula", fmt.Sprintf("the compatibility distance between organism %d and the representative of species position %d is %v, the formula gives %v",
					o.Genotype.Id, i, d, want), d, want)
				return
			}
			if math.IsNaN(d) {
				continue // a NaN distance is not below the threshold: that species is not a candidate
			}
			if d == thr {
				boundary++
			}
			if !(d < thr) {
				continue
			}
			if best >= 0 && d == bestD {
				ties++
			}
			if best < 0 || d < bestD {
				best, bestD = i, d
			}
		}
		if best >= 0 {
			want[best].keys = append(want[best].keys, o.Genotype.Id)
			joins++
		} else {
			last++
			want = append(want, &spec{id: last, rep: o, keys: []int{o.Genotype.Id}})
			founds++
		}
	}
	req := make([]c08SpeciesObs, len(want))
	for i, sp := range want {
		req[i] = c08SpeciesObs{Id: sp.id, Keys: sp.keys}
	}
	if fmt.Sprint(req) != fmt.Sprint(obs.Species) || last != obs.Last {
		fail("membership", "species membership differs from the nearest-compatible-representative rule", obs,
			map[string]interface{}{"species": req, "last_species": last})
		return
	}
	// founder or within the threshold, on the final real state
	seenIds := map[int]bool{}
	for _, s := range w.pop.Species {
		if seenIds[s.Id] {
			fail("id-reused", fmt.Sprintf("species id %d occurs twice", s.Id), obs, "pairwise distinct species ids")
			return
		}
		seenIds[s.Id] = true
	}
	for _, o := range w.batch {
		s := o.Species
		if s == nil || len(s.Organisms) == 0 {
			fail("no-species", fmt.Sprintf("organism %d has no species after speciate", o.Genotype.Id), obs, "every organism is in a species")
			return
		}
		member := false
		for _, m := range s.Organisms {
			member = member || m == o
		}
		if !member {
			fail("back-pointer", fmt.Sprintf("organism %d points to species %d but is not among its members", o.Genotype.Id, s.Id), obs, "member of its species")
			return
		}
		if s.Organisms[0] != o {
			d := genetics.VC07Compatibility(o.Genotype, s.Organisms[0].Genotype, opts)
			if !(d < thr) {
				fail("founder-or-within", fmt.Sprintf("organism %d is neither the founder of species %d nor within the threshold of its representative (distance %g)",
					o.Genotype.Id, s.Id, d), obs, "founder or distance < threshold")
				return
			}
		}
	}
	// representatives never displaced
	for i, rep := range w.reps {
		if i >= len(w.pop.Species) || len(w.pop.Species[i].Organisms) == 0 || w.pop.Species[i].Organisms[0] != rep {
			fail("representative-displaced", fmt.Sprintf("the representative of the species at position %d changed", i), obs, "unchanged")
			return
		}
	}
	r.Hist("joins_per_case", c07Bucket(joins))
	r.Hist("founds_per_case", c07Bucket(founds))
	if ties > 0 {
		r.Hist("tie_among_compatible", "yes")
	} else {
		r.Hist("tie_among_compatible", "no")
	}
	if boundary > 0 {
		r.Hist("distance_equals_threshold", "yes")
	} else {
		r.Hist("distance_equals_threshold", "no")
	}
	r.Res.Histograms["decisions"] = addTo(r.Res.Histograms["decisions"], "join", joins)
	r.Res.Histograms["decisions"] = addTo(r.Res.Histograms["decisions"], "found", founds)
}

func addTo(m map[string]int, k string, n int) map[string]int {
	if m == nil {
		m = map[string]int{}
	}
	m[k] += n
	return m
}

func c08OrgTerm(o c08Org) string { return Pair(ZI(o.Key), c07GenesTerm(o.Genes)) }

func c08Term(id int, in c08Input, obs c08Obs) string {
	sp := make([]string, len(in.Species))
	for i, s := range in.Species {
		ms := make([]string, len(s.Members))
		for j, m := range s.Members {
			ms[j] = c08OrgTerm(m)
		}
		sp[i] = Pair(ZI(s.Id), List(ms))
	}
	bt := make([]string, len(in.Batch))
	for i, b := range in.Batch {
		bt[i] = c08OrgTerm(b)
	}
	gs := make([]string, len(obs.Species))
	for i, s := range obs.Species {
		gs[i] = Pair(ZI(s.Id), IList(s.Keys))
	}
	as := make([]string, len(obs.Assign))
	for i, a := range obs.Assign {
		as[i] = Pair(ZI(a[0]), ZI(a[1]))
	}
	return fmt.Sprintf("{| c08_id := %d; c08_linear := %s; c08_dc := %s; c08_ec := %s; c08_mc := %s; c08_thr := %s; "+
		"c08_species := %s; c08_last := %s; c08_batch := %s; c08_go_species := %s; c08_go_last := %s; c08_go_assign := %s; c08_go_status := %d |}",
		id, B(in.Linear), F(in.Dc), F(in.Ec), F(in.Mc), F(c08ThrVal(in.Thr)),
		List(sp), ZI(in.Last), List(bt), List(gs), ZI(obs.Last), List(as), obs.Status)
}

// c08Exec runs one case on the real code; for constructor cases it fills in.Batch from what was built
func c08Exec(in *c08Input) (*c08World, []c08SpeciesObs, c08Obs, error) {
	quiet()
	if in.Ctor != "" {
		w, err := c08Construct(*in)
		if err != nil || w == nil {
			return nil, nil, c08Obs{}, fmt.Errorf("constructor failed: %v", err)
		}
		in.Batch = in.Batch[:0]
		for _, o := range w.batch {
			in.Batch = append(in.Batch, c08Org{Key: o.Genotype.Id, Genes: c08GenesOf(o.Genotype)})
		}
		return w, []c08SpeciesObs{}, c08Observe(w.pop, w.batch, nil), nil
	}
	w := c08Build(*in)
	initial := c08Observe(w.pop, nil, nil).Species
	opts := c08Opts(*in)
	w.err = genetics.VC08Speciate(w.pop, opts.NeatContext(), w.batch)
	return w, initial, c08Observe(w.pop, w.batch, w.err), nil
}

func c08One(r *Run, cf *CaseFile, id int, in c08Input) {
	w, initial, obs, err := c08Exec(&in)
	if err != nil {
		r.Note(fmt.Sprintf("case %d skipped: %v", id, err))
		return
	}
	if obs.Status == 9 {
		r.Fail(Failure{Key: "speciate-unexpected-error " + obs.Err, What: "speciate returned an error the model does not know", Input: in, Observed: obs})
	}
	if cf != nil {
		cf.Add(c08Term(id, in, obs))
		r.SaveInput(id, in)
	}
	c08Oracle(r, in, w, initial, obs)
	b, _ := json.Marshal(in)
	r.Count(string(b), obs.Status == 0 && len(obs.Species) >= 2 && len(in.Batch) >= 2)
	r.Hist("kind", in.Kind)
	r.Hist("status", fmt.Sprint(obs.Status))
	if len(in.Batch) <= 4 && len(in.Species) >= 1 && len(in.Species) <= 2 {
		r.Sample(map[string]interface{}{"input": in, "observed": obs})
	}
}

// ---- generators ----

// c08Variant derives a genome from an archetype: perturbed mutation numbers, a few genes dropped or added
func c08Variant(r *Run, arch []c07Gene, nextInnov *int64, strength int) []c07Gene {
	var out []c07Gene
	for _, g := range arch {
		if strength > 0 && r.Rng.Intn(6) == 0 {
			continue
		}
		h := g
		switch r.Rng.Intn(4) {
		case 0:
			h.Mut += r.Rng.NormFloat64() * 0.5 * float64(strength)
		case 1:
			h.Mut += float64(r.Rng.Intn(3)) * 0.25
		}
		out = append(out, h)
	}
	for k := 0; k < strength && r.Rng.Intn(2) == 0; k++ {
		*nextInnov += 1 + int64(r.Rng.Intn(2))
		out = append(out, c07Gene{Innov: *nextInnov, Mut: float64(r.Rng.Intn(5)) * 0.5})
	}
	if out == nil {
		out = []c07Gene{}
	}
	return out
}

func c08Gen(r *Run, kind int) c08Input {
	in := c08Input{Linear: r.Rng.Intn(2) == 0, Species: []c08Species{}, Batch: []c08Org{}}
	in.Dc, in.Ec, in.Mc = []float64{1, 1, 0.5, 2}[r.Rng.Intn(4)], []float64{1, 1, 0.5, 3}[r.Rng.Intn(4)], []float64{0.4, 1, 0, 3}[r.Rng.Intn(4)]
	// archetypes
	nArch := 1 + r.Rng.Intn(4)
	archs := make([][]c07Gene, nArch)
	next := int64(0)
	for a := range archs {
		n := 1 + r.Rng.Intn(7)
		var common int64 = 0
		for i := 0; i < n; i++ {
			common += 1 + int64(r.Rng.Intn(2))
			if a > 0 && r.Rng.Intn(3) == 0 {
				continue
			}
			archs[a] = append(archs[a], c07Gene{Innov: common, Mut: float64(r.Rng.Intn(9)-4) * 0.5})
		}
		if common > next {
			next = common
		}
	}
	next += 2
	key := 100
	newOrg := func(strength int) c08Org {
		key++
		return c08Org{Key: key, Genes: c08Variant(r, archs[r.Rng.Intn(nArch)], &next, strength)}
	}
	strength := r.Rng.Intn(3)
	// initial species
	nSp := 0
	if kind != 0 {
		nSp = 1 + r.Rng.Intn(4)
	}
	ids := r.Rng.Perm(nSp + 3)
	maxId := 0
	for i := 0; i < nSp; i++ {
		s := c08Species{Id: ids[i] + 1, Members: []c08Org{}}
		nm := 1 + r.Rng.Intn(3)
		if kind == 3 && r.Rng.Intn(3) == 0 {
			nm = 0 // a species without members is skipped by the scan
		}
		for j := 0; j < nm; j++ {
			s.Members = append(s.Members, newOrg(strength))
		}
		if s.Id > maxId {
			maxId = s.Id
		}
		in.Species = append(in.Species, s)
	}
	in.Last = maxId + r.Rng.Intn(2)
	nb := 1 + r.Rng.Intn(9)
	for i := 0; i < nb; i++ {
		in.Batch = append(in.Batch, newOrg(strength))
	}
	switch kind {
	case 0:
		in.Kind = "empty-population"
	case 1:
		in.Kind = "existing-species"
	case 2: // ties: the same genome represents two species and arrives again in the batch
		in.Kind = "ties"
		if len(in.Species) >= 1 && len(in.Species[0].Members) > 0 {
			rep := in.Species[0].Members[0]
			key++
			dupSp := c08Species{Id: in.Last + 1, Members: []c08Org{{Key: key, Genes: rep.Genes}}}
			in.Last++
			pos := r.Rng.Intn(len(in.Species) + 1)
			in.Species = append(in.Species[:pos], append([]c08Species{dupSp}, in.Species[pos:]...)...)
			for k := 0; k < 1+r.Rng.Intn(2); k++ {
				key++
				g := rep.Genes
				if r.Rng.Intn(2) == 0 {
					g = c08Variant(r, rep.Genes, &next, 1)
				}
				in.Batch = append(in.Batch, c08Org{Key: key, Genes: g})
			}
		}
	case 3:
		in.Kind = "with-empty-species"
	case 4:
		in.Kind = "special-threshold"
	}
	r.Rng.Shuffle(len(in.Batch), func(i, j int) { in.Batch[i], in.Batch[j] = in.Batch[j], in.Batch[i] })
	// threshold from the observed distance distribution
	in.Thr = c08ThrStr(1)
	ds := c08Distances(in)
	thr := 3.0
	if len(ds) > 0 {
		switch r.Rng.Intn(6) {
		case 0, 1: // exactly an observed distance: the strict comparison decides
			thr = ds[r.Rng.Intn(len(ds))]
		case 2, 3: // between two observed distances
			i := r.Rng.Intn(len(ds))
			thr = ds[i] + 1e-9
			if i+1 < len(ds) {
				thr = (ds[i] + ds[i+1]) / 2
			}
		case 4:
			thr = ds[len(ds)-1] + 1 // everything compatible: pure nearest-representative choice
		case 5:
			thr = ds[0] / 2 // (almost) nothing compatible
		}
	}
	if thr == 0 {
		thr = 0.25
	}
	if kind == 4 {
		thr = []float64{0, math.Copysign(0, -1), math.Inf(1), -1, math.MaxFloat64, math.SmallestNonzeroFloat64, math.NaN()}[r.Rng.Intn(7)]
	}
	in.Thr = c08ThrStr(thr)
	return in
}

// c08Distances: sorted distinct distances between batch organisms / members, by the real function
func c08Distances(in c08Input) []float64 {
	opts := c08Opts(in)
	var gs []*genetics.Genome
	for _, s := range in.Species {
		for _, m := range s.Members {
			gs = append(gs, c07Genome(m.Key, m.Genes, false))
		}
	}
	for _, b := range in.Batch {
		gs = append(gs, c07Genome(b.Key, b.Genes, false))
	}
	seen := map[float64]bool{}
	var ds []float64
	for i := range gs {
		for j := range gs {
			if i == j {
				continue
			}
			d := genetics.VC07Compatibility(gs[i], gs[j], opts)
			if !math.IsNaN(d) && !seen[d] {
				seen[d] = true
				ds = append(ds, d)
			}
		}
	}
	sort.Float64s(ds)
	return ds
}

func runC08(r *Run) error {
	r.Res.Rule = "real Population/Species/Organism objects: direct speciate calls on empty populations, populations with existing species (random ids, " +
		"1-3 members, some without members), duplicated representatives (ties), batches in shuffled order, thresholds drawn from the observed " +
		"distance distribution (equal to a distance, between two, above all, below all) and special thresholds (0, -0, +Inf, negative, MaxFloat64, NaN); " +
		"plus the species left by NewPopulationRandom and NewPopulation; both compatibility methods; non-trivial = success, >= 2 species afterwards and >= 2 organisms in the batch"
	id, shard, perShard := 0, 0, 0
	imports := "Res F64 Compat Speciate C08Cases"
	cf := r.NewCaseFile(shard, imports, "c08_case")
	add := func(in c08Input) {
		if perShard >= 400 {
			cf.Close("c08_mismatches")
			shard++
			cf = r.NewCaseFile(shard, imports, "c08_case")
			perShard = 0
		}
		c08One(r, cf, id, in)
		id++
		perShard++
	}
	// fixed boundary cases
	g := func(ms ...float64) []c07Gene {
		out := make([]c07Gene, len(ms))
		for i, m := range ms {
			out[i] = c07Gene{Innov: int64(i + 1), Mut: m}
		}
		return out
	}
	add(c08Input{Kind: "fixed", Dc: 1, Ec: 1, Mc: 0.4, Thr: c08ThrStr(3), Species: []c08Species{}, Last: 0,
		Batch: []c08Org{{10, g(0, 0)}, {11, g(1, 1)}, {12, g(0, 0, 0, 0, 0)}, {13, g(0, 0, 0, 0)}}})
	add(c08Input{Kind: "fixed", Dc: 1, Ec: 1, Mc: 0.4, Thr: c08ThrStr(3), Species: []c08Species{}, Last: 0, Batch: []c08Org{}})
	add(c08Input{Kind: "fixed", Dc: 1, Ec: 1, Mc: 0.4, Thr: c08ThrStr(0), Species: []c08Species{}, Last: 4, Batch: []c08Org{{10, g(0)}, {11, g(1)}}})
	// near-ties: two compatible representatives almost equidistant from the arriving organism (differences
	// of 1e-10 .. 1e-15), the strictly closer one in the later or in the earlier species
	for _, delta := range []float64{1e-10, 5e-10, 1e-12, 1e-15} {
		for _, linear := range []bool{false, true} {
			for _, closerLater := range []bool{true, false} {
				a, b := g(0, 1.5), g(delta, 1.5)
				if !closerLater {
					a, b = b, a
				}
				add(c08Input{Kind: "near-tie", Linear: linear, Dc: 1, Ec: 1, Mc: 2, Thr: c08ThrStr(3),
					Species: []c08Species{{Id: 1, Members: []c08Org{{20, a}}}, {Id: 2, Members: []c08Org{{21, b}}}}, Last: 2,
					Batch: []c08Org{{30, g(2, 1.5)}, {31, g(2+delta, 1.5)}}})
			}
		}
	}
	n := r.N(300, 6000)
	for i := 0; i < n; i++ {
		add(c08Gen(r, i%5))
	}
	// species left behind by the public constructors; threshold chosen from a dry run with the same seed
	nc := r.N(40, 600)
	for i := 0; i < nc; i++ {
		in := c08Input{Kind: "NewPopulationRandom", Ctor: "random", Seed: 1000 + r.Rng.Int63n(1<<30), Linear: i%2 == 0,
			Dc: 1, Ec: 1, Mc: 0.4, Thr: c08ThrStr(3), Species: []c08Species{}, Batch: []c08Org{}}
		if i%4 >= 2 {
			in.Kind, in.Ctor = "NewPopulation", "spawn"
		}
		dry := in
		if _, _, _, err := c08Exec(&dry); err == nil {
			ds := c08Distances(c08Input{Linear: in.Linear, Dc: in.Dc, Ec: in.Ec, Mc: in.Mc, Thr: in.Thr, Batch: dry.Batch})
			if len(ds) > 0 {
				k := r.Rng.Intn(len(ds))
				thr := ds[k]
				if r.Rng.Intn(2) == 0 && k+1 < len(ds) {
					thr = (ds[k] + ds[k+1]) / 2
				}
				if thr > 0 {
					in.Thr = c08ThrStr(thr)
				}
			}
		}
		add(in)
	}
	cf.Close("c08_mismatches")
	// whole histories through the executor's phases: species die out and are founded over many generations; the
	// placement rules are checked baby by baby against the species that existed at the turnover, and every newly
	// founded species must carry an id this population never used (state left by earlier turnovers)
	for k := 0; k < r.N(10, 120); k++ {
		in := newEpochInput(r, "C08", 36, 30, true)
		in.Opts.CompatThreshold = []float64{1, 2, 3}[k%3]
		in.Opts.BabiesStolen = 0
		in.Epochs = 20 + r.Rng.Intn(25)
		res := runPhased(r, in)
		r.Count(fmt.Sprint("history", in.Seed), res.multi > 0)
		r.Hist("history_epochs_run", bucket(res.epochsRun))
	}
	return nil
}

func replayC08(r *Run, input []byte) error {
	var in c08Input
	if err := json.Unmarshal(input, &in); err != nil {
		return err
	}
	c08One(r, nil, 0, in)
	return nil
}

// c08Formula: excess_coeff*E + disjoint_coeff*D + mutdiff_coeff*W by set logic over the two gene lists; finite
// reports whether every ingredient is an ordinary number (extreme cases that overflow are left to C07)
func c08Formula(a, b *genetics.Genome, opts *neat.Options) (float64, bool) {
	inA, inB := map[int64]float64{}, map[int64]float64{}
	maxA, maxB := int64(math.MinInt64), int64(math.MinInt64)
	for _, g := range a.Genes {
		inA[g.InnovationNum] = g.MutationNum
		if g.InnovationNum > maxA {
			maxA = g.InnovationNum
		}
	}
	for _, g := range b.Genes {
		inB[g.InnovationNum] = g.MutationNum
		if g.InnovationNum > maxB {
			maxB = g.InnovationNum
		}
	}
	e, d, m, sum := 0, 0, 0, 0.0
	for _, g := range a.Genes {
		if mb, ok := inB[g.InnovationNum]; ok {
			m++
			sum += math.Abs(g.MutationNum - mb)
		} else if len(b.Genes) == 0 || g.InnovationNum > maxB {
			e++
		} else {
			d++
		}
	}
	for _, g := range b.Genes {
		if _, ok := inA[g.InnovationNum]; ok {
			continue
		}
		if len(a.Genes) == 0 || g.InnovationNum > maxA {
			e++
		} else {
			d++
		}
	}
	w := 0.0
	if m > 0 {
		w = sum / float64(m)
	}
	v := opts.ExcessCoeff*float64(e) + opts.DisjointCoeff*float64(d) + opts.MutdiffCoeff*w
	return v, !math.IsNaN(v) && !math.IsInf(v, 0) && !math.IsInf(sum, 0)
}
