package main

// Body translator for C18 (`neatverif translate actbodies -out <dir>` writes <dir>/ActBodies.v).
//
// For every `af.Register(Const, fn, "Name")` / `af.RegisterModule(...)` call of NewNodeActivatorsFactory (found by the
// registry translator's parser) the identifier `fn` is followed to its declaration in neat/math/activations.go
// (`var fn = func(...) ... {...}` or `func fn(...) ... {...}`) and the BODY is translated, construct by construct, into
// a Gallina definition over primitive binary64 floats:
//
//	Definition gen_<fn> (L : libm_fn -> float -> float -> float) (v_input : float) : float := ...
//
// Calls of math.Exp/Tanh/Sin/Pow become applications of the same oracle `L` that model/Act.v's `run` uses, the exactly
// computable library functions (Abs, Max, Min, IsNaN, Signbit, IsInf, Inf, NaN, Sqrt) become the definitions Act.v
// uses for them.  proofs/ActBodiesAgree.v (checked in) proves that each generated body equals the hand-written model
// function, so an edit of a body in the source breaks a proof obligation on the next run.
//
// The translator is deliberately small: anything outside the subset listed in c18bUnsupported messages below is an
// error carrying the source position (non-zero exit), never a silent approximation.
//
// Go semantics relied on (all checked, not assumed, where a check is possible):
//   - constant expressions are evaluated exactly (go/constant, as the compiler does) and rounded once when they meet a
//     float64 operand; integer constant division is integer division; `-0.0` is +0;
//   - an untyped integer constant bound by `:=` / `var x = ` would be an int variable: rejected;
//   - float64 + - * / and comparisons are the IEEE-754 binary64 operations of Coq's PrimFloat (no fused multiply-add:
//     true for amd64, the platform of the check);
//   - `a, b := e1, e2` evaluates e1, e2 before binding: the translator emits sequential lets and rejects a right-hand
//     side that mentions a variable bound on the left;
//   - inner declarations that shadow an outer variable are rejected, so textual `let` shadowing implements assignment.

import (
	"bufio"
	"fmt"
	"go/ast"
	"go/constant"
	"go/parser"
	"go/token"
	"math"
	"os"
	"path/filepath"
	"regexp"
	"sort"
	"strconv"
	"strings"
)

func init() { translators["actbodies"] = c18TranslateBodies }

const c18bLibmType = "libm_fn -> float -> float -> float"

type c18bKind int

const (
	c18bFloat c18bKind = iota // float64 run-time value; code is a float term
	c18bConst                 // untyped numeric constant; cv holds the exact value
	c18bBool                  // boolean run-time value; code is a bool term
	c18bInt                   // int run-time value (only len(slice)); code is a Z term
	c18bSlice                 // []float64 variable; code is a (list float) term
)

type c18bVal struct {
	kind    c18bKind
	code    string
	cv      constant.Value
	isFloat bool   // for constants: untyped float (true) or untyped integer (false)
	src     string // source text of a constant, for the comment next to the hex literal
}

type c18bVar struct {
	kind  c18bKind // c18bFloat or c18bSlice
	depth int      // scope depth of the declaration
}

// c18bEnv is an immutable chain of scopes (continuations are translated under different environments)
type c18bEnv struct {
	vars   map[string]c18bVar
	depth  int
	inLoop bool
}

func (e c18bEnv) with(name string, v c18bVar) c18bEnv {
	m := make(map[string]c18bVar, len(e.vars)+1)
	for k, x := range e.vars {
		m[k] = x
	}
	m[name] = v
	return c18bEnv{vars: m, depth: e.depth, inLoop: e.inLoop}
}
func (e c18bEnv) push() c18bEnv { return c18bEnv{vars: e.vars, depth: e.depth + 1, inLoop: e.inLoop} }

// pop forgets the variables declared deeper than the given environment (leaving a block)
func (e c18bEnv) popTo(outer c18bEnv) c18bEnv {
	m := make(map[string]c18bVar, len(e.vars))
	for k, x := range e.vars {
		if x.depth <= outer.depth {
			m[k] = x
		}
	}
	return c18bEnv{vars: m, depth: outer.depth, inLoop: outer.inLoop}
}

type c18bError struct{ msg string }

type c18bTr struct {
	fset     *token.FileSet
	src      []byte
	fn       string          // function being translated
	auxName  string          // second parameter (must stay unused)
	reserved map[string]bool // identifiers the body may not redeclare
}

func (t *c18bTr) fail(n ast.Node, format string, a ...interface{}) {
	pos := "?"
	if n != nil {
		pos = t.fset.Position(n.Pos()).String()
	}
	panic(c18bError{fmt.Sprintf("%s: in %s: %s", pos, t.fn, fmt.Sprintf(format, a...))})
}

func (t *c18bTr) text(n ast.Node) string {
	a, b := t.fset.Position(n.Pos()).Offset, t.fset.Position(n.End()).Offset
	if a < 0 || b > len(t.src) || a > b {
		return ""
	}
	return string(t.src[a:b])
}

var c18bIdentRe = regexp.MustCompile(`^[A-Za-z_][A-Za-z0-9_]*$`)
var c18bPlainConstRe = regexp.MustCompile(`^[-+0-9a-zA-Z_.]+$`)

func (t *c18bTr) coqVar(id *ast.Ident) string {
	if !c18bIdentRe.MatchString(id.Name) {
		t.fail(id, "identifier %q is not plain ASCII", id.Name)
	}
	return "v_" + id.Name
}

// c18bFloatLit prints a finite float64 as an exact hexadecimal primitive-float literal (float_scope is open)
func c18bFloatLit(f float64, src string) string {
	s := strconv.FormatFloat(math.Abs(f), 'x', -1, 64)
	if math.Float64bits(f)>>63 == 1 {
		s = "(-" + s + ")"
	}
	if src != "" && c18bPlainConstRe.MatchString(src) {
		s += " (* " + src + " *)"
	}
	return s
}

// the constants of package math the subset knows (exact values as in GOROOT/src/math/const.go)
var c18bMathConsts = map[string]struct {
	lit     string
	isFloat bool
}{
	"MaxFloat64":             {"0x1.fffffffffffffp+1023", true},
	"SmallestNonzeroFloat64": {"0x1p-1074", true},
	"MaxFloat32":             {"0x1.fffffep+127", true},
	"SmallestNonzeroFloat32": {"0x1p-149", true},
	"Pi":                     {"3.14159265358979323846264338327950288419716939937510582097494459", true},
	"E":                      {"2.71828182845904523536028747135266249775724709369995957496696763", true},
	"MaxInt8":                {"127", false}, "MinInt8": {"-128", false},
	"MaxInt16": {"32767", false}, "MinInt16": {"-32768", false},
	"MaxInt32": {"2147483647", false}, "MinInt32": {"-2147483648", false},
	"MaxInt64": {"9223372036854775807", false}, "MinInt64": {"-9223372036854775808", false},
	"MaxUint8": {"255", false}, "MaxUint16": {"65535", false}, "MaxUint32": {"4294967295", false},
	"MaxInt": {"9223372036854775807", false}, "MinInt": {"-9223372036854775808", false},
}

// math functions: how a call is written in the model's vocabulary
var c18bLibmOracle = map[string]string{"Exp": "LExp", "Tanh": "LTanh", "Sin": "LSin"} // unary, answered by L
var c18bExactUnary = map[string]string{"Abs": "abs", "Sqrt": "PrimFloat.sqrt"}
var c18bExactBinary = map[string]string{"Max": "go_max", "Min": "go_min"}
var c18bExactPred = map[string]string{"IsNaN": "is_nan", "Signbit": "f_signbit"}

func (t *c18bTr) constToFloat(n ast.Node, v c18bVal) float64 {
	f, _ := constant.Float64Val(constant.ToFloat(v.cv))
	if math.IsInf(f, 0) || math.IsNaN(f) {
		t.fail(n, "constant %s overflows float64", v.src)
	}
	if f == 0 {
		f = 0 // Go constants have no negative zero
	}
	return f
}

// asFloat: the value in a float64 context
func (t *c18bTr) asFloat(n ast.Node, v c18bVal) string {
	switch v.kind {
	case c18bFloat:
		return v.code
	case c18bConst:
		return c18bFloatLit(t.constToFloat(n, v), v.src)
	}
	t.fail(n, "expression %q is not a float64 value", t.text(n))
	return ""
}

func (t *c18bTr) asBool(n ast.Node, v c18bVal) string {
	if v.kind != c18bBool {
		t.fail(n, "expression %q is not a boolean built from float64/len comparisons", t.text(n))
	}
	return v.code
}

func (t *c18bTr) constInt(n ast.Node, v c18bVal) int64 {
	if v.kind != c18bConst || v.isFloat {
		t.fail(n, "expression %q must be an integer constant", t.text(n))
	}
	i, ok := constant.Int64Val(constant.ToInt(v.cv))
	if !ok {
		t.fail(n, "integer constant %q out of range", t.text(n))
	}
	return i
}

func (t *c18bTr) expr(e ast.Expr, env c18bEnv) c18bVal {
	switch x := e.(type) {
	case *ast.ParenExpr:
		return t.expr(x.X, env)
	case *ast.BasicLit:
		switch x.Kind {
		case token.INT, token.FLOAT:
			cv := constant.MakeFromLiteral(x.Value, x.Kind, 0)
			if cv.Kind() == constant.Unknown {
				t.fail(x, "cannot read numeric literal %s", x.Value)
			}
			return c18bVal{kind: c18bConst, cv: cv, isFloat: x.Kind == token.FLOAT, src: x.Value}
		}
		t.fail(x, "unsupported literal %s (only integer and floating-point literals)", x.Value)
	case *ast.Ident:
		if x.Name == t.auxName {
			t.fail(x, "the auxiliary parameter slice %q is used; the model's activations ignore it", x.Name)
		}
		if v, ok := env.vars[x.Name]; ok {
			return c18bVal{kind: v.kind, code: t.coqVar(x)}
		}
		t.fail(x, "unsupported identifier %q (not a float64/[]float64 parameter or local of this function)", x.Name)
	case *ast.SelectorExpr:
		if p, ok := x.X.(*ast.Ident); ok && p.Name == "math" {
			if c, ok := c18bMathConsts[x.Sel.Name]; ok {
				k := token.INT
				if c.isFloat {
					k = token.FLOAT
				}
				cv := constant.MakeFromLiteral(strings.TrimPrefix(c.lit, "-"), k, 0)
				if strings.HasPrefix(c.lit, "-") {
					cv = constant.UnaryOp(token.SUB, cv, 0)
				}
				return c18bVal{kind: c18bConst, cv: cv, isFloat: c.isFloat, src: "math." + x.Sel.Name}
			}
		}
		t.fail(x, "unsupported selector %q (only the numeric constants of package math)", t.text(x))
	case *ast.UnaryExpr:
		v := t.expr(x.X, env)
		switch x.Op {
		case token.SUB, token.ADD:
			if v.kind == c18bConst {
				return c18bVal{kind: c18bConst, cv: constant.UnaryOp(x.Op, v.cv, 0), isFloat: v.isFloat, src: t.text(x)}
			}
			f := t.asFloat(x.X, v)
			if x.Op == token.ADD {
				return c18bVal{kind: c18bFloat, code: f}
			}
			return c18bVal{kind: c18bFloat, code: "(- " + f + ")"}
		case token.NOT:
			return c18bVal{kind: c18bBool, code: "(negb " + t.asBool(x.X, v) + ")"}
		}
		t.fail(x, "unsupported unary operator %s", x.Op)
	case *ast.BinaryExpr:
		return t.binary(x, env)
	case *ast.CallExpr:
		return t.call(x, env)
	}
	t.fail(e, "unsupported expression %q (%T)", t.text(e), e)
	return c18bVal{}
}

func (t *c18bTr) binary(x *ast.BinaryExpr, env c18bEnv) c18bVal {
	a, b := t.expr(x.X, env), t.expr(x.Y, env)
	switch x.Op {
	case token.LAND, token.LOR:
		f := "andb"
		if x.Op == token.LOR {
			f = "orb"
		}
		return c18bVal{kind: c18bBool, code: "(" + f + " " + t.asBool(x.X, a) + " " + t.asBool(x.Y, b) + ")"}
	case token.ADD, token.SUB, token.MUL, token.QUO:
		if a.kind == c18bConst && b.kind == c18bConst {
			// exact constant arithmetic, as the compiler does it
			isFloat := a.isFloat || b.isFloat
			op, av, bv := x.Op, a.cv, b.cv
			if isFloat {
				av, bv = constant.ToFloat(av), constant.ToFloat(bv)
			} else if op == token.QUO {
				op = token.QUO_ASSIGN // integer division of integer constants
			}
			if x.Op == token.QUO && constant.Sign(bv) == 0 {
				t.fail(x, "constant division by zero")
			}
			return c18bVal{kind: c18bConst, cv: constant.BinaryOp(av, op, bv), isFloat: isFloat, src: t.text(x)}
		}
		if a.kind == c18bInt || b.kind == c18bInt {
			t.fail(x, "integer arithmetic %q is not supported", t.text(x))
		}
		sym := map[token.Token]string{token.ADD: "+", token.SUB: "-", token.MUL: "*", token.QUO: "/"}[x.Op]
		return c18bVal{kind: c18bFloat, code: "(" + t.asFloat(x.X, a) + " " + sym + " " + t.asFloat(x.Y, b) + ")"}
	case token.LSS, token.LEQ, token.GTR, token.GEQ, token.EQL, token.NEQ:
		if a.kind == c18bConst && b.kind == c18bConst {
			t.fail(x, "comparison of two constants %q is not supported", t.text(x))
		}
		if a.kind == c18bInt || b.kind == c18bInt {
			zi := func(n ast.Expr, v c18bVal) string {
				if v.kind == c18bInt {
					return v.code
				}
				return fmt.Sprintf("(%d)%%Z", t.constInt(n, v))
			}
			l, r := zi(x.X, a), zi(x.Y, b)
			var c string
			switch x.Op {
			case token.LSS:
				c = "(Z.ltb " + l + " " + r + ")"
			case token.LEQ:
				c = "(Z.leb " + l + " " + r + ")"
			case token.GTR:
				c = "(Z.ltb " + r + " " + l + ")"
			case token.GEQ:
				c = "(Z.leb " + r + " " + l + ")"
			case token.EQL:
				c = "(Z.eqb " + l + " " + r + ")"
			case token.NEQ:
				c = "(negb (Z.eqb " + l + " " + r + "))"
			}
			return c18bVal{kind: c18bBool, code: c}
		}
		if a.kind == c18bBool || b.kind == c18bBool || a.kind == c18bSlice || b.kind == c18bSlice {
			t.fail(x, "comparison %q is not between float64 values", t.text(x))
		}
		l, r := t.asFloat(x.X, a), t.asFloat(x.Y, b)
		var c string
		switch x.Op { // a > b is b < a: the same IEEE predicate (false on NaN either way)
		case token.LSS:
			c = "(" + l + " <? " + r + ")"
		case token.LEQ:
			c = "(" + l + " <=? " + r + ")"
		case token.GTR:
			c = "(" + r + " <? " + l + ")"
		case token.GEQ:
			c = "(" + r + " <=? " + l + ")"
		case token.EQL:
			c = "(" + l + " =? " + r + ")"
		case token.NEQ:
			c = "(negb (" + l + " =? " + r + "))"
		}
		return c18bVal{kind: c18bBool, code: c}
	}
	t.fail(x, "unsupported binary operator %s", x.Op)
	return c18bVal{}
}

func (t *c18bTr) call(x *ast.CallExpr, env c18bEnv) c18bVal {
	if x.Ellipsis != token.NoPos {
		t.fail(x, "variadic call is not supported")
	}
	if id, ok := x.Fun.(*ast.Ident); ok {
		switch id.Name {
		case "float64":
			if len(x.Args) != 1 {
				t.fail(x, "float64 conversion with %d arguments", len(x.Args))
			}
			v := t.expr(x.Args[0], env)
			if v.kind == c18bInt {
				t.fail(x, "conversion of a run-time integer to float64 is not supported")
			}
			return c18bVal{kind: c18bFloat, code: t.asFloat(x.Args[0], v)}
		case "len":
			if len(x.Args) != 1 {
				t.fail(x, "len with %d arguments", len(x.Args))
			}
			v := t.expr(x.Args[0], env)
			if v.kind != c18bSlice {
				t.fail(x, "len of something that is not a []float64 variable")
			}
			return c18bVal{kind: c18bInt, code: "(Z.of_nat (length " + v.code + "))"}
		}
		t.fail(x, "unsupported call of %q (only float64(..), len(..) and functions of package math)", id.Name)
	}
	sel, ok := x.Fun.(*ast.SelectorExpr)
	if !ok {
		t.fail(x, "unsupported call %q", t.text(x))
	}
	pkg, ok := sel.X.(*ast.Ident)
	if !ok || pkg.Name != "math" {
		t.fail(x, "unsupported call %q (only functions of package math)", t.text(x))
	}
	name := sel.Sel.Name
	argF := func(i int) string { return t.asFloat(x.Args[i], t.expr(x.Args[i], env)) }
	need := func(n int) {
		if len(x.Args) != n {
			t.fail(x, "math.%s with %d arguments", name, len(x.Args))
		}
	}
	if fn, ok := c18bLibmOracle[name]; ok {
		need(1)
		return c18bVal{kind: c18bFloat, code: "(L " + fn + " " + argF(0) + " 0x0p+00)"}
	}
	if name == "Pow" {
		need(2)
		return c18bVal{kind: c18bFloat, code: "(L LPow " + argF(0) + " " + argF(1) + ")"}
	}
	if fn, ok := c18bExactUnary[name]; ok {
		need(1)
		return c18bVal{kind: c18bFloat, code: "(" + fn + " " + argF(0) + ")"}
	}
	if fn, ok := c18bExactBinary[name]; ok {
		need(2)
		return c18bVal{kind: c18bFloat, code: "(" + fn + " " + argF(0) + " " + argF(1) + ")"}
	}
	if fn, ok := c18bExactPred[name]; ok {
		need(1)
		return c18bVal{kind: c18bBool, code: "(" + fn + " " + argF(0) + ")"}
	}
	switch name {
	case "Inf":
		need(1)
		if t.constInt(x.Args[0], t.expr(x.Args[0], env)) >= 0 {
			return c18bVal{kind: c18bFloat, code: "infinity"}
		}
		return c18bVal{kind: c18bFloat, code: "neg_infinity"}
	case "NaN":
		need(0)
		return c18bVal{kind: c18bFloat, code: "nan"}
	case "IsInf":
		need(2)
		s := t.constInt(x.Args[1], t.expr(x.Args[1], env))
		a := argF(0)
		switch {
		case s > 0:
			return c18bVal{kind: c18bBool, code: "(f_is_pinf " + a + ")"}
		case s < 0:
			return c18bVal{kind: c18bBool, code: "(f_is_ninf " + a + ")"}
		}
		return c18bVal{kind: c18bBool, code: "(orb (f_is_pinf " + a + ") (f_is_ninf " + a + "))"}
	}
	t.fail(x, "math.%s has no counterpart in the model: the library oracle of model/Act.v (libm_fn) answers Exp, Tanh, Sin, Pow; "+
		"Abs, Sqrt, Max, Min, IsNaN, Signbit, IsInf, Inf, NaN are computed exactly; extend Act.libm_fn and this table first", name)
	return c18bVal{}
}

func c18bIndent(s string) string { return "  " + strings.ReplaceAll(s, "\n", "\n  ") }

// mentions reports whether expression e mentions one of the identifiers
func c18bMentions(e ast.Node, names map[string]bool) bool {
	found := false
	ast.Inspect(e, func(n ast.Node) bool {
		if id, ok := n.(*ast.Ident); ok && names[id.Name] {
			found = true
		}
		return !found
	})
	return found
}

// declare binds a new float64 local in the current scope, rejecting shadowing and reserved names
func (t *c18bTr) declare(id *ast.Ident, env c18bEnv) c18bEnv {
	if t.reserved[id.Name] {
		t.fail(id, "declaration of %q hides a name the translator gives a fixed meaning", id.Name)
	}
	if _, ok := env.vars[id.Name]; ok {
		t.fail(id, "declaration of %q shadows (or repeats) a variable of an enclosing scope; not supported", id.Name)
	}
	if id.Name == t.auxName {
		t.fail(id, "declaration of %q shadows the auxiliary parameter", id.Name)
	}
	return env.with(id.Name, c18bVar{kind: c18bFloat, depth: env.depth})
}

// result translates the operand of `return`
func (t *c18bTr) result(e ast.Expr, env c18bEnv, module bool) string {
	if !module {
		return t.asFloat(e, t.expr(e, env))
	}
	switch x := e.(type) {
	case *ast.ParenExpr:
		return t.result(x.X, env, module)
	case *ast.CompositeLit:
		at, ok := x.Type.(*ast.ArrayType)
		if !ok || at.Len != nil || !c18bIsIdent(at.Elt, "float64") {
			t.fail(x, "unsupported composite literal %q (only []float64{...})", t.text(x))
		}
		items := make([]string, len(x.Elts))
		for i, el := range x.Elts {
			if _, kv := el.(*ast.KeyValueExpr); kv {
				t.fail(el, "keyed element in []float64 literal is not supported")
			}
			items[i] = t.asFloat(el, t.expr(el, env))
		}
		return "[" + strings.Join(items, "; ") + "]"
	case *ast.Ident:
		v := t.expr(x, env)
		if v.kind == c18bSlice {
			return v.code
		}
	}
	t.fail(e, "unsupported module result %q (only a []float64{...} literal or a []float64 parameter)", t.text(e))
	return ""
}

// stmts translates a statement list in continuation style: k yields the term for "fall off the end of the list"
func (t *c18bTr) stmts(list []ast.Stmt, env c18bEnv, module bool, k func(c18bEnv) string) string {
	if len(list) == 0 {
		return k(env)
	}
	rest := func(e c18bEnv) string { return t.stmts(list[1:], e, module, k) }
	switch s := list[0].(type) {
	case *ast.EmptyStmt:
		return rest(env)
	case *ast.ReturnStmt:
		if env.inLoop {
			t.fail(s, "return inside a range loop is not supported")
		}
		if len(s.Results) != 1 {
			t.fail(s, "return with %d results", len(s.Results))
		}
		if len(list) > 1 {
			t.fail(list[1], "statement after return")
		}
		return t.result(s.Results[0], env, module)
	case *ast.BlockStmt:
		return t.stmts(s.List, env.push(), module, func(inner c18bEnv) string { return rest(inner.popTo(env)) })
	case *ast.IfStmt:
		if s.Init != nil {
			t.fail(s.Init, "if with an init statement is not supported")
		}
		c := t.asBool(s.Cond, t.expr(s.Cond, env))
		after := func(inner c18bEnv) string { return rest(inner.popTo(env)) }
		thenT := t.stmts(s.Body.List, env.push(), module, after)
		var elseT string
		switch el := s.Else.(type) {
		case nil:
			elseT = rest(env)
		case *ast.BlockStmt:
			elseT = t.stmts(el.List, env.push(), module, after)
		case *ast.IfStmt:
			elseT = t.stmts([]ast.Stmt{el}, env, module, after)
		default:
			t.fail(s.Else, "unsupported else branch")
		}
		if strings.HasPrefix(thenT, "let ") || strings.HasPrefix(thenT, "if ") {
			thenT = "(" + thenT + ")"
		}
		if strings.HasPrefix(elseT, "if ") {
			return "if " + c + " then\n" + c18bIndent(thenT) + "\nelse " + elseT
		}
		return "if " + c + " then\n" + c18bIndent(thenT) + "\nelse\n" + c18bIndent(elseT)
	case *ast.DeclStmt:
		gd, ok := s.Decl.(*ast.GenDecl)
		if !ok || gd.Tok != token.VAR {
			t.fail(s, "unsupported declaration (only `var x float64 [= e]` / `var x = e`)")
		}
		out := ""
		cur := env
		for _, sp := range gd.Specs {
			vs := sp.(*ast.ValueSpec)
			if vs.Type != nil && !c18bIsIdent(vs.Type, "float64") {
				t.fail(vs.Type, "local variable of type %q (only float64)", t.text(vs.Type))
			}
			if len(vs.Values) != 0 && len(vs.Values) != len(vs.Names) {
				t.fail(vs, "var with %d names and %d values", len(vs.Names), len(vs.Values))
			}
			if vs.Type == nil && len(vs.Values) == 0 {
				t.fail(vs, "var without type and value")
			}
			lhs := map[string]bool{}
			for _, n := range vs.Names {
				lhs[n.Name] = true
			}
			vals := make([]string, len(vs.Names))
			for i := range vs.Names {
				if len(vs.Values) == 0 {
					vals[i] = c18bFloatLit(0, "")
					continue
				}
				v := t.expr(vs.Values[i], env)
				if vs.Type == nil && v.kind == c18bConst && !v.isFloat {
					t.fail(vs.Values[i], "`var %s = %s` declares an int variable; only float64 locals are supported", vs.Names[i].Name, t.text(vs.Values[i]))
				}
				vals[i] = t.asFloat(vs.Values[i], v)
			}
			for i, n := range vs.Names {
				if n.Name == "_" {
					continue
				}
				cur = t.declare(n, cur)
				out += "let " + t.coqVar(n) + " := " + vals[i] + " in\n"
			}
		}
		return out + rest(cur)
	case *ast.IncDecStmt:
		id, ok := s.X.(*ast.Ident)
		if !ok {
			t.fail(s, "unsupported operand of %s", s.Tok)
		}
		v := t.expr(id, env)
		if v.kind != c18bFloat {
			t.fail(s, "%s of something that is not a float64 variable", s.Tok)
		}
		op := "+"
		if s.Tok == token.DEC {
			op = "-"
		}
		return "let " + v.code + " := (" + v.code + " " + op + " " + c18bFloatLit(1, "1") + ") in\n" + rest(env)
	case *ast.AssignStmt:
		return t.assign(s, env, rest)
	case *ast.RangeStmt:
		return t.rangeLoop(s, env, module, rest)
	}
	t.fail(list[0], "unsupported statement %T (supported: :=, =, op=, ++/--, var, if/else, return, block, `for _, v := range slice`)", list[0])
	return ""
}

func (t *c18bTr) assign(s *ast.AssignStmt, env c18bEnv, rest func(c18bEnv) string) string {
	if len(s.Lhs) != len(s.Rhs) {
		t.fail(s, "assignment with %d targets and %d values", len(s.Lhs), len(s.Rhs))
	}
	ids := make([]*ast.Ident, len(s.Lhs))
	lhs := map[string]bool{}
	for i, l := range s.Lhs {
		id, ok := l.(*ast.Ident)
		if !ok {
			t.fail(l, "assignment to %q: only plain float64 variables can be assigned (no indexing, no fields)", t.text(l))
		}
		ids[i] = id
		if id.Name != "_" {
			if lhs[id.Name] {
				t.fail(id, "%q assigned twice in one statement", id.Name)
			}
			lhs[id.Name] = true
		}
	}
	opOf := map[token.Token]string{token.ADD_ASSIGN: "+", token.SUB_ASSIGN: "-", token.MUL_ASSIGN: "*", token.QUO_ASSIGN: "/"}
	vals := make([]string, len(ids))
	switch s.Tok {
	case token.DEFINE, token.ASSIGN:
		for i, r := range s.Rhs {
			if len(ids) > 1 && c18bMentions(r, lhs) {
				t.fail(r, "right-hand side of a parallel assignment mentions a variable assigned by it; not supported")
			}
			v := t.expr(r, env)
			if s.Tok == token.DEFINE && v.kind == c18bConst && !v.isFloat {
				if _, exists := env.vars[ids[i].Name]; !exists {
					t.fail(r, "`%s := %s` declares an int variable; only float64 locals are supported", ids[i].Name, t.text(r))
				}
			}
			vals[i] = t.asFloat(r, v)
		}
	default:
		sym, ok := opOf[s.Tok]
		if !ok || len(ids) != 1 {
			t.fail(s, "unsupported assignment operator %s", s.Tok)
		}
		cur := t.expr(ids[0], env)
		if cur.kind != c18bFloat {
			t.fail(s, "%s on something that is not a float64 variable", s.Tok)
		}
		vals[0] = "(" + cur.code + " " + sym + " " + t.asFloat(s.Rhs[0], t.expr(s.Rhs[0], env)) + ")"
	}
	out := ""
	cur := env
	fresh := 0
	for i, id := range ids {
		if id.Name == "_" {
			continue
		}
		old, exists := cur.vars[id.Name]
		switch {
		case s.Tok == token.DEFINE && (!exists || old.depth != cur.depth):
			cur = t.declare(id, cur) // fails when it shadows an outer variable
			fresh++
		case !exists:
			t.fail(id, "assignment to undeclared variable %q", id.Name)
		case old.kind != c18bFloat:
			t.fail(id, "assignment to %q, which is not a float64 variable", id.Name)
		}
		out += "let " + t.coqVar(id) + " := " + vals[i] + " in\n"
	}
	if s.Tok == token.DEFINE && fresh == 0 {
		t.fail(s, "no new variable on the left side of :=")
	}
	return out + rest(cur)
}

// assigned collects, in order of first appearance, the variables of `outer` assigned anywhere inside the loop body
func (t *c18bTr) assigned(body *ast.BlockStmt, outer c18bEnv) []string {
	var names []string
	seen := map[string]bool{}
	add := func(e ast.Expr) {
		if id, ok := e.(*ast.Ident); ok {
			if v, ok := outer.vars[id.Name]; ok && v.kind == c18bFloat && !seen[id.Name] {
				seen[id.Name] = true
				names = append(names, id.Name)
			}
		}
	}
	ast.Inspect(body, func(n ast.Node) bool {
		switch s := n.(type) {
		case *ast.AssignStmt:
			for _, l := range s.Lhs {
				add(l) // a := that re-declares an outer name is rejected later as shadowing
			}
		case *ast.IncDecStmt:
			add(s.X)
		}
		return true
	})
	return names
}

func (t *c18bTr) rangeLoop(s *ast.RangeStmt, env c18bEnv, module bool, rest func(c18bEnv) string) string {
	if s.Key != nil {
		if id, ok := s.Key.(*ast.Ident); !ok || id.Name != "_" {
			t.fail(s.Key, "range loop that binds the index is not supported (only `for _, v := range slice`)")
		}
	}
	if s.Tok != token.DEFINE && !(s.Key == nil && s.Value == nil) {
		t.fail(s, "range loop must declare its variable with :=")
	}
	sl := t.expr(s.X, env)
	if sl.kind != c18bSlice {
		t.fail(s.X, "range over %q, which is not a []float64 parameter", t.text(s.X))
	}
	acc := t.assigned(s.Body, env)
	if len(acc) == 0 {
		t.fail(s, "range loop assigns no float64 variable of the enclosing function (nothing to accumulate)")
	}
	inner := env.push()
	inner.inLoop = true
	elem := "_"
	if s.Value != nil {
		id, ok := s.Value.(*ast.Ident)
		if !ok {
			t.fail(s.Value, "unsupported range variable")
		}
		if id.Name != "_" {
			inner = t.declare(id, inner)
			elem = t.coqVar(id)
		}
	}
	coq := make([]string, len(acc))
	for i, a := range acc {
		coq[i] = "v_" + a
	}
	tuple := coq[0]
	pat := coq[0]
	if len(coq) > 1 {
		tuple = "(" + strings.Join(coq, ", ") + ")"
		pat = "'" + tuple
	}
	body := t.stmts(s.Body.List, inner.push(), module, func(c18bEnv) string { return tuple })
	return "let " + pat + " := fold_left (fun " + pat + " " + elem + " =>\n" + c18bIndent(c18bIndent(body)) + ")\n    " + sl.code + " " + tuple + " in\n" + rest(env)
}

func c18bIsIdent(e ast.Expr, name string) bool {
	id, ok := e.(*ast.Ident)
	return ok && id.Name == name
}

func c18bIsFloatSlice(e ast.Expr) bool {
	at, ok := e.(*ast.ArrayType)
	return ok && at.Len == nil && c18bIsIdent(at.Elt, "float64")
}

type c18bFunc struct {
	Name   string
	Module bool
	Line   int
	Coq    string // the complete Definition
}

// c18bTranslateFunc translates one activation function (scalar: float64 x []float64 -> float64; module: []float64 x []float64 -> []float64)
func c18bTranslateFunc(fset *token.FileSet, src []byte, name string, ft *ast.FuncType, body *ast.BlockStmt, module bool) (res c18bFunc, err error) {
	t := &c18bTr{fset: fset, src: src, fn: name, reserved: map[string]bool{
		"math": true, "len": true, "float64": true, "true": true, "false": true, "nil": true, "iota": true}}
	defer func() {
		if p := recover(); p != nil {
			if e, ok := p.(c18bError); ok {
				err = fmt.Errorf("%s", e.msg)
				return
			}
			panic(p)
		}
	}()
	if !c18bIdentRe.MatchString(name) {
		t.fail(ft, "function identifier %q is not plain ASCII", name)
	}
	if body == nil {
		t.fail(ft, "function without a body")
	}
	if ft.TypeParams != nil && len(ft.TypeParams.List) > 0 {
		t.fail(ft, "generic function")
	}
	type param struct {
		id  *ast.Ident
		typ ast.Expr
	}
	var params []param
	for _, f := range ft.Params.List {
		if len(f.Names) == 0 {
			params = append(params, param{nil, f.Type})
		}
		for _, n := range f.Names {
			params = append(params, param{n, f.Type})
		}
	}
	if len(params) != 2 || !c18bIsFloatSlice(params[1].typ) {
		t.fail(ft, "signature is not (x, auxParams []float64)")
	}
	if ft.Results == nil || len(ft.Results.List) != 1 || len(ft.Results.List[0].Names) != 0 {
		t.fail(ft, "function must have exactly one unnamed result")
	}
	rt := ft.Results.List[0].Type
	env := c18bEnv{vars: map[string]c18bVar{}}
	argType, resType := "float", "float"
	if module {
		if !c18bIsFloatSlice(params[0].typ) || !c18bIsFloatSlice(rt) {
			t.fail(ft, "module activation signature is not ([]float64, []float64) []float64")
		}
		argType, resType = "list float", "list float"
	} else if !c18bIsIdent(params[0].typ, "float64") || !c18bIsIdent(rt, "float64") {
		t.fail(ft, "scalar activation signature is not (float64, []float64) float64")
	}
	arg := "v__"
	if p := params[0].id; p != nil && p.Name != "_" {
		if t.reserved[p.Name] {
			t.fail(p, "parameter %q hides a name the translator gives a fixed meaning", p.Name)
		}
		k := c18bFloat
		if module {
			k = c18bSlice
		}
		env = env.with(p.Name, c18bVar{kind: k, depth: 0})
		arg = t.coqVar(p)
	}
	if p := params[1].id; p != nil && p.Name != "_" {
		if params[0].id != nil && p.Name == params[0].id.Name {
			t.fail(p, "duplicate parameter name")
		}
		t.auxName = p.Name // any use is an error (see expr)
	}
	term := t.stmts(body.List, env.push(), module, func(c18bEnv) string {
		t.fail(body, "control reaches the end of the function without a return")
		return ""
	})
	res = c18bFunc{Name: name, Module: module, Line: fset.Position(ft.Pos()).Line}
	res.Coq = fmt.Sprintf("(* neat/math/activations.go:%d  %s *)\nDefinition gen_%s (L : %s) (%s : %s) : %s :=\n%s.\n",
		res.Line, name, name, c18bLibmType, arg, argType, resType, c18bIndent(term))
	return res, nil
}

// c18bCheckNotReassigned: the registered identifiers must be bound exactly once in the package (no `fn = ...`, no `&fn`
// anywhere in the non-test files of neat/math), otherwise the declaration found is not what runs
func c18bCheckNotReassigned(dir string, names map[string]bool) error {
	ents, err := os.ReadDir(dir)
	if err != nil {
		return err
	}
	for _, ent := range ents {
		n := ent.Name()
		if ent.IsDir() || !strings.HasSuffix(n, ".go") || strings.HasSuffix(n, "_test.go") {
			continue
		}
		fset := token.NewFileSet()
		f, err := parser.ParseFile(fset, filepath.Join(dir, n), nil, 0)
		if err != nil {
			return err
		}
		var bad error
		ast.Inspect(f, func(node ast.Node) bool {
			switch s := node.(type) {
			case *ast.AssignStmt:
				if s.Tok == token.DEFINE {
					return true
				}
				for _, l := range s.Lhs {
					if id, ok := l.(*ast.Ident); ok && names[id.Name] && bad == nil {
						bad = fmt.Errorf("%s: activation function variable %s is assigned again; the translated declaration may not be what runs", fset.Position(s.Pos()), id.Name)
					}
				}
			case *ast.UnaryExpr:
				if id, ok := s.X.(*ast.Ident); ok && s.Op == token.AND && names[id.Name] && bad == nil {
					bad = fmt.Errorf("%s: address of activation function variable %s is taken", fset.Position(s.Pos()), id.Name)
				}
			}
			return bad == nil
		})
		if bad != nil {
			return bad
		}
	}
	return nil
}

func c18TranslateBodies(outDir string) error {
	dir := filepath.Join(repoRoot(), "neat", "math")
	path := filepath.Join(dir, "activations.go")
	reg, err := c18ParseRegistry(path)
	if err != nil {
		return err
	}
	src, err := os.ReadFile(path)
	if err != nil {
		return err
	}
	fset := token.NewFileSet()
	file, err := parser.ParseFile(fset, path, src, 0)
	if err != nil {
		return err
	}
	// `math` must be the standard library package
	mathOK := false
	for _, im := range file.Imports {
		p, _ := strconv.Unquote(im.Path.Value)
		if im.Name != nil && im.Name.Name == "math" && p != "math" {
			return fmt.Errorf("%s: the name math is bound to package %q", fset.Position(im.Pos()), p)
		}
		if p == "math" && (im.Name == nil || im.Name.Name == "math") {
			mathOK = true
		}
	}
	if !mathOK {
		return fmt.Errorf("%s: package math is not imported under its own name", path)
	}
	// declarations: package-level `var f = func...` (exactly one binding per name) and `func f(...)`
	type decl struct {
		ft   *ast.FuncType
		body *ast.BlockStmt
		n    int
	}
	decls := map[string]*decl{}
	note := func(name string, ft *ast.FuncType, body *ast.BlockStmt) {
		d := decls[name]
		if d == nil {
			d = &decl{}
			decls[name] = d
		}
		d.ft, d.body = ft, body
		d.n++
	}
	otherVars := map[string]token.Pos{}
	for _, d := range file.Decls {
		switch x := d.(type) {
		case *ast.FuncDecl:
			if x.Recv == nil {
				note(x.Name.Name, x.Type, x.Body)
			}
		case *ast.GenDecl:
			if x.Tok != token.VAR {
				continue
			}
			for _, sp := range x.Specs {
				vs := sp.(*ast.ValueSpec)
				for i, n := range vs.Names {
					if len(vs.Values) == len(vs.Names) {
						if fl, ok := vs.Values[i].(*ast.FuncLit); ok {
							note(n.Name, fl.Type, fl.Body)
							continue
						}
					}
					otherVars[n.Name] = n.Pos()
				}
			}
		}
	}
	registered := map[string]bool{}
	var funcs []c18bFunc
	done := map[string]bool{}
	for _, c := range reg.Calls {
		registered[c.Func] = true
		if done[c.Func] {
			continue
		}
		done[c.Func] = true
		d := decls[c.Func]
		if d == nil {
			if p, ok := otherVars[c.Func]; ok {
				return fmt.Errorf("%s: %s (registered at line %d) is not bound to a function literal", fset.Position(p), c.Func, c.Line)
			}
			return fmt.Errorf("%s:%d: no declaration of the registered function %s in this file", path, c.Line, c.Func)
		}
		if d.n != 1 {
			return fmt.Errorf("%s: %s is declared %d times", path, c.Func, d.n)
		}
		f, err := c18bTranslateFunc(fset, src, c.Func, d.ft, d.body, c.Module)
		if err != nil {
			return err
		}
		funcs = append(funcs, f)
	}
	// a function registered both as scalar and as module cannot type-check in Go; still, refuse it explicitly
	kind := map[string]bool{}
	for _, c := range reg.Calls {
		if m, ok := kind[c.Func]; ok && m != c.Module {
			return fmt.Errorf("%s:%d: %s is registered both as a scalar and as a module activation", path, c.Line, c.Func)
		}
		kind[c.Func] = c.Module
	}
	if err := c18bCheckNotReassigned(dir, registered); err != nil {
		return err
	}

	if err = os.MkdirAll(outDir, 0o755); err != nil {
		return err
	}
	tmp := filepath.Join(outDir, "ActBodies.v.tmp")
	out, err := os.Create(tmp)
	if err != nil {
		return err
	}
	w := bufio.NewWriter(out)
	fmt.Fprintf(w, "(* GENERATED by `neatverif translate actbodies` from neat/math/activations.go -- do not edit.\n")
	fmt.Fprintf(w, "   The bodies of the functions bound by the Register/RegisterModule calls of NewNodeActivatorsFactory,\n")
	fmt.Fprintf(w, "   translated construct by construct (harness/c18_translate_bodies.go).  L answers math.Exp/Tanh/Sin/Pow\n")
	fmt.Fprintf(w, "   exactly as in [Act.run]; v_<name> is the Go variable <name>; constants are the binary64 values the Go\n")
	fmt.Fprintf(w, "   compiler rounds the (exactly evaluated) constant expressions to.\n")
	fmt.Fprintf(w, "   proofs/ActBodiesAgree.v proves each of them equal to the hand-written model function of model/Act.v. *)\n")
	fmt.Fprintf(w, "From Coq Require Import ZArith List Bool Floats.\nFrom NeatModel Require Import Act.\nImport ListNotations.\nOpen Scope float_scope.\n\n")
	for _, f := range funcs {
		fmt.Fprintf(w, "%s\n", f.Coq)
	}
	emit := func(name, doc, argType string, module bool) {
		fmt.Fprintf(w, "(* %s *)\nDefinition %s : list (Z * ((%s) -> %s -> %s)) := [\n", doc, name, c18bLibmType, argType, argType)
		first := true
		for _, c := range reg.Calls {
			if c.Module != module {
				continue
			}
			if !first {
				fmt.Fprintf(w, ";\n")
			}
			first = false
			fmt.Fprintf(w, "  ((%d)%%Z, gen_%s)", c.Code, c.Func)
		}
		fmt.Fprintf(w, "\n].\n\n")
	}
	emit("gen_scalar_table", "type code -> translated body, one entry per Register call, in source order", "float", false)
	emit("gen_module_table", "type code -> translated body, one entry per RegisterModule call, in source order", "list float", true)
	names := make([]string, 0, len(funcs))
	for _, f := range funcs {
		names = append(names, f.Name)
	}
	sort.Strings(names)
	fmt.Fprintf(w, "(* translated functions: %s *)\n", strings.Join(names, " "))
	if err = w.Flush(); err != nil {
		return err
	}
	if err = out.Close(); err != nil {
		return err
	}
	// keep the timestamp when nothing changed, so make does not rebuild dependants needlessly
	dst := filepath.Join(outDir, "ActBodies.v")
	if old, e := os.ReadFile(dst); e == nil {
		if nw, e2 := os.ReadFile(tmp); e2 == nil && string(old) == string(nw) {
			return os.Remove(tmp)
		}
	}
	return os.Rename(tmp, dst)
}
