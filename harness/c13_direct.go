package main

import (
	"fmt"
	"math"

	"github.com/yaricom/goNEAT/v4/neat/network"
)

// c13DirectSolvers: fast solvers built directly by NewFastModularNetworkSolver (as ReadFMNSModel does), with
// explicit connections FROM the bias neurons (Network.FastNetworkSolver() never makes those: it folds bias links
// into the bias list), cycles and self-loops.  Go-side oracle of the statement only: any history, Flush, then an
// operation sequence must give exactly what the same sequence gives on a freshly constructed solver.
func c13DirectSolvers(r *Run) {
	acts := []int{4, 11, 14, 16, 9} // steepened sigmoid, tanh, linear, clipped linear, ...
	for k := 0; k < r.N(60, 800); k++ {
		bias, nin, nout, hid := 1+r.Rng.Intn(2), 1+r.Rng.Intn(2), 1+r.Rng.Intn(2), r.Rng.Intn(3)
		total := bias + nin + nout + hid
		s := c15FmSolver{Id: k, Name: "direct", Bias: bias, In: nin, Out: nout, Total: total}
		for i := 0; i < total; i++ {
			a := 17 // NullActivation for sensors
			if i >= bias+nin {
				a = acts[r.Rng.Intn(len(acts))]
			}
			s.Acts = append(s.Acts, a)
			s.Biases = append(s.Biases, 0)
		}
		for tgt := bias + nin; tgt < total; tgt++ {
			for src := 0; src < total; src++ {
				p := 0.35
				if src < bias {
					p = 0.7 // the point of this family: connections whose source is a bias neuron
				}
				if r.Rng.Float64() < p {
					s.Conns = append(s.Conns, c15FmLink{Src: src, Tgt: tgt, W: math.Round((r.Rng.Float64()*4-2)*64) / 64})
				}
			}
		}
		s.toStrings()
		type op struct {
			Kind  string    `json:"kind"`
			X     []float64 `json:"x,omitempty"`
			K     int       `json:"k,omitempty"`
			Delta float64   `json:"delta,omitempty"`
		}
		randOps := func(n int) []op {
			var ops []op
			for i := 0; i < n; i++ {
				switch r.Rng.Intn(4) {
				case 0:
					x := make([]float64, nin)
					for j := range x {
						x[j] = math.Round((r.Rng.Float64()*4-2)*16) / 16
					}
					ops = append(ops, op{Kind: "load", X: x})
				case 1:
					ops = append(ops, op{Kind: "forward", K: 1 + r.Rng.Intn(4)})
				case 2:
					ops = append(ops, op{Kind: "recursive"})
				case 3:
					ops = append(ops, op{Kind: "relax", K: 1 + r.Rng.Intn(4), Delta: []float64{0, 0.1, 1e-9}[r.Rng.Intn(3)]})
				}
			}
			return ops
		}
		history, after := randOps(r.Rng.Intn(6)), append([]op{{Kind: "load", X: make([]float64, nin)}}, randOps(1+r.Rng.Intn(5))...)
		for j := range after[0].X {
			after[0].X[j] = math.Round((r.Rng.Float64()*4-2)*16) / 16
		}
		apply := func(f *network.FastModularNetworkSolver, ops []op) (trace []string) {
			for _, o := range ops {
				var err error
				var b bool
				func() {
					defer func() {
						if p := recover(); p != nil {
							err = fmt.Errorf("panic: %v", p)
						}
					}()
					switch o.Kind {
					case "load":
						err = f.LoadSensors(o.X)
					case "forward":
						b, err = f.ForwardSteps(o.K)
					case "recursive":
						b, err = f.RecursiveSteps()
					case "relax":
						b, err = f.Relax(o.K, o.Delta)
					}
				}()
				outs := f.ReadOutputs()
				hex := make([]string, len(outs))
				for i, v := range outs {
					hex[i] = fmt.Sprintf("%016x", c15FmBits(v))
				}
				trace = append(trace, fmt.Sprint(o.Kind, " ", b, " ", err != nil, " ", hex))
			}
			return trace
		}
		in := map[string]interface{}{"kind": "direct-fast-solver", "solver": s, "history": history, "after_flush": after}
		used, pc := c15FmConstruct(s)
		fresh, pc2 := c15FmConstruct(s)
		if pc != 0 || pc2 != 0 || used == nil || fresh == nil {
			continue
		}
		apply(used, history)
		if _, err := used.Flush(); err != nil {
			continue
		}
		got, want := apply(used, after), apply(fresh, after)
		if fmt.Sprint(got) != fmt.Sprint(want) {
			r.Fail(Failure{Key: "fast-flush direct-solver", What: "a directly constructed fast solver (explicit connections from bias neurons) behaves differently after Flush than a freshly constructed one",
				Input: in, Observed: got, Required: want})
		}
		hasBiasConn := false
		for _, c := range s.Conns {
			if c.Src < bias {
				hasBiasConn = true
			}
		}
		r.Count(fmt.Sprint("direct ", k, s.Conns, history, after), hasBiasConn && len(history) > 0)
	}
	r.Hist("direct_fast_solvers", "checked")
}
