package main

import (
	"fmt"
	"math/rand"

	"github.com/yaricom/goNEAT/v4/neat"
	"github.com/yaricom/goNEAT/v4/neat/genetics"
)

// Randomly constructed populations (NewPopulationRandom: genomes without common ancestry) whose options never
// choose single-point crossover: the boundary of the recorded finding singlepoint-empty-child-unrelated-parents.
// Statement checked on the real code (props/C01.v C01_history_wf_random, props/C03.v C03_one_link_per_number_random):
// if every constructed genome has a connection gene and
//     1 <= MateMultipointProb  or  1 <= MateMultipointAvgProb/(MateMultipointAvgProb+MateSinglepointProb)
// then every NextEpoch succeeds as far as C01 is concerned (no "genome has no genes"), every genome of every
// generation is well-formed and keeps the input, bias and output nodes of the constructed genomes, and an
// innovation number / node id denotes one link / one role over the whole history.
//
// The inputs are ordinary epochInputs (Random: true), so a failing input replays through replayEpoch.  Under these
// options an empty child is NOT the recorded finding: failures that runHistory files under the known-finding key
// are re-keyed to a key of their own.

// c01NoSinglePoint is the condition on the options, evaluated as the implementation evaluates it
func c01NoSinglePoint(o *neat.Options) bool {
	return 1 <= o.MateMultipointProb || 1 <= o.MateMultipointAvgProb/(o.MateMultipointAvgProb+o.MateSinglepointProb)
}

// the crossover probabilities tried: all satisfy the condition
var c01NoSinglePointProbs = [][3]float64{
	{0.6, 0.4, 0},    // the quotient is 0.4/0.4 = 1
	{0, 1, 0},        // always mateMultipointAvg
	{1, 0.3, 0.3},    // the first comparison always succeeds (draws are < 1)
	{0.3, 1e-300, 0}, // tiny but positive: 1e-300/1e-300 = 1
	{0.5, 5e-324, 0}, // subnormal: still x/x = 1
	{1.5, 0, 0},      // 0/0 = NaN, but the first comparison always succeeds
	{0.2, 0.7, 0},    // mostly mateMultipointAvg
}

func c01RandEpochsOptions(r *rand.Rand, k int) *neat.Options {
	o := epochOptions(r, 40)
	p := c01NoSinglePointProbs[k%len(c01NoSinglePointProbs)]
	o.MateMultipointProb, o.MateMultipointAvgProb, o.MateSinglepointProb = p[0], p[1], p[2]
	// unrelated genomes are far apart: large thresholds put them into one species so that they mate
	o.CompatThreshold = []float64{3, 6, 20, 1e9}[r.Intn(4)]
	if k%3 == 0 {
		o.MutateOnlyProb = 0.05 // mostly mating
		o.MateOnlyProb = 0.7    // and most children are not mutated afterwards: an empty child would survive
	}
	return o
}

// c01RandEpochsStrict runs the history itself (same seed, same calls as runHistory, hence the same run) with the
// strict reading: the constructed genomes' io nodes must be kept, any ill-formed genome and any epoch error is a
// failure.  Returns: was the hypothesis "every constructed genome has a gene" met, did unrelated genomes mate.
func c01RandEpochsStrict(r *Run, in *epochInput) (hyp bool, mated int, unrelated bool, epochsRun int) {
	quiet()
	bad := func(key, what string) { r.Fail(Failure{Key: key, What: what, Input: in}) }
	rand.Seed(in.Seed)
	pop, err := genetics.NewPopulationRandom(3, 2, 5, false, 0.5, in.Opts)
	if err != nil {
		bad("random-nosp-new-population-error", "NewPopulationRandom failed: "+err.Error())
		return false, 0, false, 0
	}
	for _, o := range pop.Organisms {
		if len(o.Genotype.Genes) == 0 {
			return false, 0, false, 0 // outside the statement (C01_random_population_wf characterises these)
		}
	}
	ioWant := ioNodeIds(pop.Organisms[0].Genotype)
	first0 := pop.Organisms[0].Genotype.Genes[0].InnovationNum
	for _, o := range pop.Organisms {
		if o.Genotype.Genes[0].InnovationNum != first0 {
			unrelated = true
		}
	}
	check := func(ep int) bool {
		ok := true
		for _, o := range pop.Organisms {
			if e := wfGenome(o.Genotype); e != nil {
				bad("random-nosp-illformed-genome", fmt.Sprintf("after %d epochs without single-point crossover the population holds an ill-formed genome: %v", ep, e))
				ok = false
				break
			}
			have := ioNodeIds(o.Genotype)
			if len(have) != len(ioWant) {
				bad("random-nosp-io-nodes", fmt.Sprintf("after %d epochs a genome has %d input/bias/output nodes, the constructed genomes have %d", ep, len(have), len(ioWant)))
				ok = false
			}
			for id, role := range ioWant {
				if have[id] != role {
					bad("random-nosp-io-nodes", fmt.Sprintf("after %d epochs a genome lost input/bias/output node %d of the constructed genomes", ep, id))
					ok = false
				}
			}
		}
		return ok
	}
	if !check(0) {
		return true, 0, unrelated, 0
	}
	_ = rand.Int63() // runHistory peeks one draw after the construction and after every epoch
	ex := &genetics.SequentialPopulationEpochExecutor{}
	ctx := in.Opts.NeatContext()
	for ep := 0; ep < in.Epochs; ep++ {
		for i, o := range pop.Organisms {
			o.Fitness = fitnessFor(in.FitRule, ep, i, o.Genotype)
		}
		var eerr error
		func() {
			defer func() {
				if p := recover(); p != nil {
					eerr = fmt.Errorf("panic: %v", p)
				}
			}()
			eerr = ex.NextEpoch(ctx, ep, pop)
		}()
		if eerr != nil {
			bad("random-nosp-epoch-error", fmt.Sprintf("epoch %d of a random population failed although single-point crossover is never chosen: %v", ep, eerr))
			return true, mated, unrelated, epochsRun
		}
		_ = rand.Int63()
		epochsRun++
		for _, o := range pop.Organisms {
			if genetics.VOrganismInfo(o).MateBaby {
				mated++
			}
		}
		if !check(ep + 1) {
			return true, mated, unrelated, epochsRun
		}
	}
	return true, mated, unrelated, epochsRun
}

// c01RandEpochsNoSinglePoint: 3..10 epochs of NewPopulationRandom populations through the public NextEpoch, with the
// C01 and C03 oracles of runHistory plus the strict pass above
func c01RandEpochsNoSinglePoint(r *Run) {
	for i := 0; i < r.N(28, 420); i++ {
		opts := c01RandEpochsOptions(r.Rng, i)
		if !c01NoSinglePoint(opts) {
			r.Fail(Failure{Key: "random-nosp-generator", What: "generator produced options that may choose single-point crossover", Input: opts})
			continue
		}
		in := &epochInput{Prop: "C01", Seed: r.Rng.Int63(), Opts: opts, Start: genomeText(startGenomes()[0]),
			Epochs: 3 + r.Rng.Intn(8), FitRule: []int{0, 1, 2}[r.Rng.Intn(3)], Random: true}
		hyp, mated, unrelated, epochsRun := c01RandEpochsStrict(r, in)
		if !hyp {
			r.Hist("random_nosp", "skipped-gene-less-constructed-genome")
			continue
		}
		for _, prop := range []string{"C01", "C03"} {
			in2 := *in
			in2.Prop = prop
			n0 := len(r.Res.Failures)
			res := runHistory(r, &in2, nil, 0)
			for j := n0; j < len(r.Res.Failures); j++ {
				if r.Res.Failures[j].Key == "singlepoint-empty-child-unrelated-parents" {
					// not the recorded finding: single-point crossover cannot have been chosen
					r.Res.Failures[j].Key = "random-nosp-empty-child"
				}
			}
			if res.epochsRun != epochsRun && len(r.Res.Failures) == n0 {
				r.Fail(Failure{Key: "random-nosp-harness-divergence", What: fmt.Sprintf("the strict pass ran %d epochs, runHistory %d", epochsRun, res.epochsRun), Input: in})
			}
		}
		r.Count(fmt.Sprint("random-nosp", in.Seed), unrelated && mated > 0)
		r.Hist("random_nosp_epochs_run", bucket(epochsRun))
		r.Hist("random_nosp_mated_babies", bucket(mated))
		r.Hist("random_nosp_probs", fmt.Sprint(c01NoSinglePointProbs[i%len(c01NoSinglePointProbs)]))
		if i < 3 {
			r.Sample(map[string]interface{}{"seed": in.Seed, "pop_size": opts.PopSize, "epochs": in.Epochs, "fitness_rule": in.FitRule,
				"compat_threshold": opts.CompatThreshold, "mate_probs": c01NoSinglePointProbs[i%len(c01NoSinglePointProbs)],
				"epochs_run": epochsRun, "mated_babies": mated, "unrelated": unrelated})
		}
	}
}
