package main

import (
	"fmt"
	"math"
	"math/rand"

	"github.com/yaricom/goNEAT/v4/neat/genetics"
)

// runners of the population-level properties over epoch histories (epoch.go, phased.go)

func init() {
	for _, p := range []string{"C02", "C03"} {
		p := p
		runners[p] = func(r *Run) error { return runEpochProp(r, p) }
		replayers[p] = replayEpoch
	}
	for _, p := range []string{"C09", "C10"} {
		p := p
		runners[p] = func(r *Run) error { return runPhasedProp(r, p) }
		replayers[p] = replayEpoch
	}
}

func newEpochInput(r *Run, prop string, maxPop, maxEpochs int, tieFreeOnly bool) *epochInput {
	opts := epochOptions(r.Rng, maxPop)
	starts := startGenomes()
	s := starts[r.Rng.Intn(len(starts))]
	rule := r.Rng.Intn(3)
	if !tieFreeOnly && opts.PopSize <= 12 && r.Rng.Intn(3) == 0 {
		rule = 3 + r.Rng.Intn(2)
	}
	if maxPop > 30 && r.Rng.Intn(3) == 0 {
		// oracle-only runs: a third of them stagnate from the first epoch on, with a short drop-off age, so that
		// delta coding (and the ageing of the two species it keeps) is exercised
		rule = 6
		opts.DropOffAge = 1
	}
	// mixed-sign fitness clamps every negative value to the same number: ties everywhere, so in runs that are
	// compared with the model (maxPop <= 30) only where every sorted slice has at most 12 elements
	if prop == "C09" && r.Rng.Intn(4) == 0 && (opts.PopSize <= 12 || maxPop > 30) {
		rule = 5
	}
	return &epochInput{Prop: prop, Seed: r.Rng.Int63(), Opts: opts, Start: genomeText(s), Epochs: 2 + r.Rng.Intn(maxEpochs-1), FitRule: rule}
}

// subnormalOvershoot is the designated demonstration of a recorded finding: four organisms of one species with
// the finite, non-negative fitness values (8, 4, 4, 4) x 2^-1074.  Their shared values are (2, 1, 1, 1) units, the
// average 5/4 units rounds to 1 unit (a subnormal quotient has no relative error bound), the expected offspring
// (2, 1, 1, 1) total 5 and the turnover fails with "progeny size after reproduction cycle dimished, expected: [4],
// but got: [5]".  The random family (fitness rule 7 with any options) looks for the same overshoot elsewhere.
func subnormalOvershoot(r *Run, prop string) {
	for k := 0; k < r.N(4, 40); k++ {
		opts := baseOptions()
		if k > 0 {
			opts = epochOptions(r.Rng, 12)
		} else {
			opts.PopSize, opts.CompatThreshold = 4, 6
		}
		in := &epochInput{Prop: prop, Seed: 7 + int64(k), Opts: opts, Start: genomeText(readPlain(xorStart, 1)), Epochs: 2, FitRule: 7}
		if prop == "C09" {
			runPhased(r, in)
		} else {
			runHistory(r, in, nil, 0)
		}
	}
}

// fitnessOverflow is the designated demonstration of a recorded finding: four organisms of one young species with
// the finite, non-negative fitness values (1.7e308, 1, 1, 1) and AgeSignificance 1.1.  The youth boost overflows to
// +Inf, the population average is +Inf, the expected offspring of organism 0 is Inf/Inf = NaN, int(math.Floor(NaN))
// is the most negative int on amd64, every quota ends up zero or negative, the fallback finds no species to keep,
// all species are purged and prepareForReproduction indexes the empty sorted list (panic).  The random family
// (fitness rule 8, any options) looks for other failures of the same kind.
func fitnessOverflow(r *Run, prop string) {
	for k := 0; k < r.N(4, 40); k++ {
		opts := baseOptions()
		if k > 0 {
			opts = epochOptions(r.Rng, 12)
		} else {
			opts.PopSize, opts.CompatThreshold, opts.AgeSignificance = 4, 1e9, 1.1
		}
		in := &epochInput{Prop: prop, Seed: 11 + int64(k), Opts: opts, Start: genomeText(readPlain(xorStart, 1)), Epochs: 2, FitRule: 8}
		runHistory(r, in, nil, 0)
	}
}

func runEpochProp(r *Run, prop string) error {
	r.Res.Rule = "populations spawned from three start genomes (PopSize 3..N, random option settings incl. stolen babies, both compat methods, " +
		"drop-off ages that trigger stagnation and delta coding), fitness rules {distinct, heavy-tailed, single dominant; all-zero and constant for PopSize<=12}, " +
		"several consecutive epochs through the public NextEpoch; non-trivial = history had >= 2 species at some epoch and >= 1 structural mutation; distinct by (seed, options)"
	cf := r.NewCaseFile(0, "Res F64 Genome Options GenomeLit EpochCases "+prop+"Cases", "epoch_case")
	n := r.N(48, 1600)
	shard, per := 0, 0
	for i := 0; i < n; i++ {
		if per >= 6 {
			cf.Close("epoch_mismatches")
			shard++
			cf = r.NewCaseFile(shard, "Res F64 Genome Options GenomeLit EpochCases "+prop+"Cases", "epoch_case")
			per = 0
		}
		in := newEpochInput(r, prop, 30, 6, false)
		res := runHistory(r, in, cf, i)
		per++
		r.Count(fmt.Sprint(in.Seed), res.multi > 0 && res.structural > 0)
		r.Hist("pop_size", bucket(in.Opts.PopSize))
		r.Hist("fitness_rule", fmt.Sprint(in.FitRule))
		r.Hist("epochs_run", fmt.Sprint(res.epochsRun))
		r.Hist("multi_species_epochs", fmt.Sprint(res.multi))
		if res.err != nil {
			r.Hist("epoch_errors", res.err.Error())
		}
		if i < 3 {
			r.Sample(map[string]interface{}{"seed": in.Seed, "pop_size": in.Opts.PopSize, "epochs": in.Epochs, "fitness_rule": in.FitRule,
				"compat_threshold": in.Opts.CompatThreshold, "babies_stolen": in.Opts.BabiesStolen, "dropoff_age": in.Opts.DropOffAge, "epochs_run": res.epochsRun})
		}
	}
	cf.Close("epoch_mismatches")
	if prop == "C03" {
		for i := 0; i < r.N(20, 300); i++ {
			c03ReadPopulation(r)
		}
	}
	if prop == "C02" {
		subnormalOvershoot(r, prop)
		fitnessOverflow(r, prop)
	}
	if prop == "C02" {
		// randomly constructed populations (recorded finding: single-point crossover of unrelated genomes)
		for i := 0; i < r.N(12, 200); i++ {
			in := newEpochInput(r, prop, 40, 8, true)
			in.Random = true
			res := runHistory(r, in, nil, 0)
			r.Count(fmt.Sprint("random", in.Seed), res.multi > 0)
			r.Hist("random_population_epochs_run", bucket(res.epochsRun))
		}
	}
	// larger populations and longer runs: Go-side oracle only (tie-free fitness)
	for i := 0; i < r.N(30, 600); i++ {
		in := newEpochInput(r, prop, 70, 25, true)
		res := runHistory(r, in, nil, 0)
		r.Count(fmt.Sprint(in.Seed), res.multi > 0 && res.structural > 0)
		r.Hist("oracle_only_epochs_run", bucket(res.epochsRun))
	}
	return nil
}

// c10RoundingTie is the designated demonstration of a recorded finding: two raw fitness values one ulp
// apart tie after the division by the species size, the stable sort keeps the earlier organism first, and
// the strictly fittest organism is not the champion: its genome is not copied unchanged.
func c10RoundingTie(r *Run) {
	quiet()
	opts := baseOptions()
	opts.PopSize, opts.CompatThreshold, opts.AgeSignificance, opts.BabiesStolen = 6, 6, 1, 0
	in := map[string]interface{}{"pop_size": 6, "seed": 42, "fitness": "[7, nextafter(7,8), 1, 2, 3, 4]", "start": "xorStart"}
	rand.Seed(42)
	pop, err := genetics.NewPopulation(readPlain(xorStart, 1), opts)
	if err != nil {
		return
	}
	fits := []float64{7, math.Nextafter(7, 8), 1, 2, 3, 4}
	for i, o := range pop.Organisms {
		o.Fitness = fits[i]
	}
	best := snap(pop.Organisms[1].Genotype)
	quotaOK := len(pop.Species) == 1
	ex := &genetics.SequentialPopulationEpochExecutor{}
	if err := ex.NextEpoch(opts.NeatContext(), 0, pop); err != nil || !quotaOK {
		return
	}
	for _, o := range pop.Organisms {
		if best.eq(snap(o.Genotype)) {
			return
		}
	}
	r.Fail(Failure{Key: "champion-rounding-tie-1ulp", What: "the strictly fittest organism (by one ulp) of a species with quota 6 has no unmodified copy in the next generation: its adjusted fitness ties with another member's after the division by the species size", Input: in})
}

func runPhasedProp(r *Run, prop string) error {
	r.Res.Rule = "same population generator as C02; the three phases of the sequential executor are driven separately so that quotas, parents and champions can be observed between them; " +
		"non-trivial = >= 2 species at some epoch (C09) / >= 1 species with quota > 5 (C10); distinct by (seed, options)"
	if prop == "C10" {
		c10RoundingTie(r)
	}
	if prop == "C09" {
		subnormalOvershoot(r, prop)
	}
	// the tie between model and code for this check: whole-epoch correspondence through the public NextEpoch
	cf := r.NewCaseFile(0, "Res F64 Genome Options GenomeLit EpochCases "+prop+"Cases", "epoch_case")
	shard, per := 0, 0
	for i := 0; i < r.N(18, 480); i++ {
		if per >= 6 {
			cf.Close("epoch_mismatches")
			shard++
			cf = r.NewCaseFile(shard, "Res F64 Genome Options GenomeLit EpochCases "+prop+"Cases", "epoch_case")
			per = 0
		}
		in := newEpochInput(r, prop, 30, 6, prop == "C10")
		res := runHistory(r, in, cf, i)
		per++
		r.Count(fmt.Sprint("corr", in.Seed), res.multi > 0)
		r.Hist("correspondence_epochs_run", fmt.Sprint(res.epochsRun))
	}
	cf.Close("epoch_mismatches")
	for i := 0; i < r.N(60, 1500); i++ {
		in := newEpochInput(r, prop, 70, 20, prop == "C10")
		res := runPhased(r, in)
		nontrivial := res.multi > 0
		if prop == "C10" {
			nontrivial = res.champs > 0
		}
		r.Count(fmt.Sprint(in.Seed), nontrivial)
		r.Hist("pop_size", bucket(in.Opts.PopSize))
		r.Hist("epochs_run", bucket(res.epochsRun))
		r.Hist("champion_species", bucket(res.champs))
		if res.err != nil {
			r.Hist("errors", res.err.Error())
		}
		if i < 3 {
			r.Sample(map[string]interface{}{"seed": in.Seed, "pop_size": in.Opts.PopSize, "epochs": in.Epochs, "fitness_rule": in.FitRule, "epochs_run": res.epochsRun, "champion_species_epochs": res.champs})
		}
	}
	return nil
}
