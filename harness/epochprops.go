package main

import (
	"fmt"
	"math"
	"math/rand"
	"strings"
	"sync"

	"github.com/yaricom/goNEAT/v4/neat/genetics"
)

// runners of the population-level properties over epoch histories (epoch.go, phased.go)

func init() {
	for _, p := range []string{"C02", "C03"} {
		p := p
		runners[p] = func(r *Run) error { return runEpochProp(r, p) }
		replayers[p] = replayEpoch
	}
	for _, p := range []string{"C09", "C10"} {
		p := p
		runners[p] = func(r *Run) error { return runPhasedProp(r, p) }
		replayers[p] = replayEpoch
	}
}

func newEpochInput(r *Run, prop string, maxPop, maxEpochs int, tieFreeOnly bool) *epochInput {
	opts := epochOptions(r.Rng, maxPop)
	starts := startGenomes()
	s := starts[r.Rng.Intn(len(starts))]
	rule := []int{0, 1, 2, 9, 11}[r.Rng.Intn(5)]
	if !tieFreeOnly && opts.PopSize <= 12 && r.Rng.Intn(3) == 0 {
		rule = 3 + r.Rng.Intn(2)
	}
	if maxPop > 30 && r.Rng.Intn(3) == 0 {
		// oracle-only runs: a third of them stagnate from the first epoch on, with a short drop-off age, so that
		// delta coding (and the ageing of the two species it keeps) is exercised
		rule = 6
		opts.DropOffAge = 1
	}
	// mixed-sign fitness clamps every negative value to the same number: ties everywhere, so in runs that are
	// compared with the model (maxPop <= 30) only where every sorted slice has at most 12 elements
	if prop == "C09" && r.Rng.Intn(4) == 0 && (opts.PopSize <= 12 || maxPop > 30) {
		rule = 5
	}
	return &epochInput{Prop: prop, Seed: r.Rng.Int63(), Opts: opts, Start: genomeText(s), Epochs: 2 + r.Rng.Intn(maxEpochs-1), FitRule: rule}
}

// subnormalOvershoot is the designated demonstration of a recorded finding: four organisms of one species with
// the finite, non-negative fitness values (8, 4, 4, 4) x 2^-1074.  Their shared values are (2, 1, 1, 1) units, the
// average 5/4 units rounds to 1 unit (a subnormal quotient has no relative error bound), the expected offspring
// (2, 1, 1, 1) total 5 and the turnover fails with "progeny size after reproduction cycle dimished, expected: [4],
// but got: [5]".  The random family (fitness rule 7 with any options) looks for the same overshoot elsewhere.
func subnormalOvershoot(r *Run, prop string) {
	for k := 0; k < r.N(4, 40); k++ {
		opts := baseOptions()
		if k > 0 {
			opts = epochOptions(r.Rng, 12)
		} else {
			opts.PopSize, opts.CompatThreshold = 4, 6
		}
		in := &epochInput{Prop: prop, Seed: 7 + int64(k), Opts: opts, Start: genomeText(readPlain(xorStart, 1)), Epochs: 2, FitRule: 7}
		if prop == "C09" {
			runPhased(r, in)
		} else {
			runHistory(r, in, nil, 0)
		}
	}
}

// fitnessOverflow is the designated demonstration of a recorded finding: four organisms of one young species with
// the finite, non-negative fitness values (1.7e308, 1, 1, 1) and AgeSignificance 1.1.  The youth boost overflows to
// +Inf, the population average is +Inf, the expected offspring of organism 0 is Inf/Inf = NaN, int(math.Floor(NaN))
// is the most negative int on amd64, every quota ends up zero or negative, the fallback finds no species to keep,
// all species are purged and prepareForReproduction indexes the empty sorted list (panic).  The random family
// (fitness rule 8, any options) looks for other failures of the same kind (Go-side oracle only); the designated
// input k == 0 is additionally written as a model-compared case (props/C02.v C02_epoch_panics_on_boost_overflow
// proves the same outcome of the model on the Coq side).
func fitnessOverflow(r *Run, prop string) {
	for k := 0; k < r.N(4, 40); k++ {
		opts := baseOptions()
		if k > 0 {
			opts = epochOptions(r.Rng, 12)
		} else {
			opts.PopSize, opts.CompatThreshold, opts.AgeSignificance = 4, 1e9, 1.1
		}
		in := &epochInput{Prop: prop, Seed: 11 + int64(k), Opts: opts, Start: genomeText(readPlain(xorStart, 1)), Epochs: 2, FitRule: 8}
		if k == 0 {
			// the designated input is also compared with the model: Go's int(x) is modelled as compiled for amd64
			// (coq/base/F64.v f_trunc_Z: NaN, +-Inf and everything outside [-2^63, 2^63) convert to math.MinInt64), so
			// the model's next_epoch must fail on this input as the implementation does (es_go := None matches a
			// GoErr/GoPanic outcome of the model: cases/EpochCases.v run_steps); a model that totalises int(NaN) to
			// 0 returns Ok here and the case is reported as a mismatch.  Shard and case id lie outside the ranges
			// the main loop of runEpochProp uses.
			cf := r.NewCaseFile(9008, "Res F64 Genome Options GenomeLit EpochCases "+prop+"Cases", "epoch_case")
			runHistory(r, in, cf, 900801)
			cf.Close("epoch_mismatches")
			continue
		}
		runHistory(r, in, nil, 0)
	}
}

// counterHammer: the two issue counters of a population handed out from many goroutines at once (as the parallel
// executor's reproduction goroutines do): every caller must receive a number no other caller receives, and the
// numbers issued are exactly the next ones (nothing skipped, nothing repeated).
func counterHammer(r *Run, prop string) {
	quiet()
	rand.Seed(5)
	pop, err := genetics.NewPopulation(readPlain(xorStart, 1), baseOptions())
	if err != nil {
		return
	}
	const workers, per = 16, 4000
	in := map[string]interface{}{"kind": "counter-hammer", "goroutines": workers, "calls_each": per}
	for round, name := range []string{"NextInnovationNumber", "NextNodeId"} {
		got := make([][]int64, workers)
		var wg sync.WaitGroup
		start := make(chan struct{})
		for w := 0; w < workers; w++ {
			wg.Add(1)
			go func(w int) {
				defer wg.Done()
				<-start
				out := make([]int64, per)
				for i := range out {
					if round == 0 {
						out[i] = pop.NextInnovationNumber()
					} else {
						out[i] = int64(pop.NextNodeId())
					}
				}
				got[w] = out
			}(w)
		}
		close(start)
		wg.Wait()
		seen := map[int64]bool{}
		lo, hi := int64(1<<62), int64(-1)
		dup := int64(-1)
		for _, out := range got {
			for _, v := range out {
				if seen[v] {
					dup = v
				}
				seen[v] = true
				if v < lo {
					lo = v
				}
				if v > hi {
					hi = v
				}
			}
		}
		if dup >= 0 {
			r.Fail(Failure{Key: "counter-issued-twice " + name, What: fmt.Sprintf("%s handed the value %d to two callers", name, dup), Input: in})
		} else if hi-lo+1 != workers*per {
			r.Fail(Failure{Key: "counter-not-consecutive " + name, What: fmt.Sprintf("%s issued %d values spanning %d..%d", name, workers*per, lo, hi), Input: in})
		}
	}
	r.Hist("counter_hammer", "16 goroutines x 4000 calls x 2 counters")
}

// steadySpecies: a population file of several mutually incompatible species of identical organisms, reproduced
// without any mutation or mating (offspring are copies and stay in their species), every organism scoring the
// size of its species: each species expects exactly its own size, epoch after epoch, with no rounding involved.
// That makes the quota arithmetic exact, so small stolen-baby pools meet donors that expect exactly what is asked
// of them, a best species that is the only eligible donor, and the like - from the seventh turnover on, when the
// species are old enough to be robbed.
func steadySpecies(r *Run, prop string) {
	for k := 0; k < r.N(8, 120); k++ {
		nsp := 4 + r.Rng.Intn(5)
		sizes := make([]int, nsp)
		total := 0
		for i := range sizes {
			sizes[i] = 2
			if i == 0 || r.Rng.Intn(4) == 0 {
				sizes[i] = 3 + r.Rng.Intn(2)
			}
			total += sizes[i]
		}
		var sb strings.Builder
		id := 0
		for sp, size := range sizes {
			mut := 10*sp + size
			for m := 0; m < size; m++ {
				id++
				fmt.Fprintf(&sb, "genomestart %d\ntrait 1 0.1 0 0 0 0 0 0 0\nnode 1 1 1 1 NullActivation\nnode 2 1 1 3 NullActivation\nnode 3 1 0 2 SigmoidSteepenedActivation\n", id)
				fmt.Fprintf(&sb, "gene 1 1 3 %d false 1 %d true\ngene 1 2 3 %d false 2 %d true\ngenomeend %d\n", mut, mut, mut, mut, id)
			}
		}
		opts := baseOptions()
		opts.PopSize, opts.CompatThreshold, opts.MutdiffCoeff, opts.AgeSignificance, opts.DropOffAge = total, 3, 1, 1, 100
		opts.MutateOnlyProb, opts.MateOnlyProb, opts.InterspeciesMateRate = 1, 0, 0
		opts.MutateAddNodeProb, opts.MutateAddLinkProb, opts.MutateConnectSensors = 0, 0, 0
		opts.MutateLinkWeightsProb, opts.MutateRandomTraitProb, opts.MutateLinkTraitProb, opts.MutateNodeTraitProb = 0, 0, 0, 0
		opts.MutateToggleEnableProb, opts.MutateGeneReenableProb = 0, 0
		opts.BabiesStolen = 1 + r.Rng.Intn(4)
		in := &epochInput{Prop: prop, Seed: r.Rng.Int63(), Opts: opts, Start: genomeText(readPlain(xorStart, 1)), Epochs: 9, FitRule: 10,
			PopText: sb.String(), Parallel: k%3 == 2}
		if prop == "C09" {
			runPhased(r, in)
		} else {
			res := runHistory(r, in, nil, 0)
			r.Hist("steady_species_epochs_run", bucket(res.epochsRun))
		}
		r.Count(fmt.Sprint("steady", sizes, opts.BabiesStolen), true)
	}
}

func runEpochProp(r *Run, prop string) error {
	r.Res.Rule = "populations spawned from three start genomes (PopSize 3..N, random option settings incl. stolen babies, both compat methods, " +
		"drop-off ages that trigger stagnation and delta coding), fitness rules {distinct, heavy-tailed, single dominant; all-zero and constant for PopSize<=12}, " +
		"several consecutive epochs through the public NextEpoch; non-trivial = history had >= 2 species at some epoch and >= 1 structural mutation; distinct by (seed, options)"
	cf := r.NewCaseFile(0, "Res F64 Genome Options GenomeLit EpochCases "+prop+"Cases", "epoch_case")
	n := r.N(48, 1600)
	shard, per := 0, 0
	for i := 0; i < n; i++ {
		if per >= 6 {
			cf.Close("epoch_mismatches")
			shard++
			cf = r.NewCaseFile(shard, "Res F64 Genome Options GenomeLit EpochCases "+prop+"Cases", "epoch_case")
			per = 0
		}
		in := newEpochInput(r, prop, 30, 6, false)
		res := runHistory(r, in, cf, i)
		per++
		r.Count(fmt.Sprint(in.Seed), res.multi > 0 && res.structural > 0)
		r.Hist("pop_size", bucket(in.Opts.PopSize))
		r.Hist("fitness_rule", fmt.Sprint(in.FitRule))
		r.Hist("epochs_run", fmt.Sprint(res.epochsRun))
		r.Hist("multi_species_epochs", fmt.Sprint(res.multi))
		if res.err != nil {
			r.Hist("epoch_errors", res.err.Error())
		}
		if i < 3 {
			r.Sample(map[string]interface{}{"seed": in.Seed, "pop_size": in.Opts.PopSize, "epochs": in.Epochs, "fitness_rule": in.FitRule,
				"compat_threshold": in.Opts.CompatThreshold, "babies_stolen": in.Opts.BabiesStolen, "dropoff_age": in.Opts.DropOffAge, "epochs_run": res.epochsRun})
		}
	}
	cf.Close("epoch_mismatches")
	if prop == "C03" {
		for i := 0; i < r.N(20, 300); i++ {
			c03ReadPopulation(r)
		}
	}
	if prop == "C02" {
		subnormalOvershoot(r, prop)
		fitnessOverflow(r, prop)
	}
	if prop == "C02" {
		// randomly constructed populations (recorded finding: single-point crossover of unrelated genomes)
		for i := 0; i < r.N(12, 200); i++ {
			in := newEpochInput(r, prop, 40, 8, true)
			in.Random = true
			res := runHistory(r, in, nil, 0)
			r.Count(fmt.Sprint("random", in.Seed), res.multi > 0)
			r.Hist("random_population_epochs_run", bucket(res.epochsRun))
		}
	}
	if prop == "C03" {
		counterHammer(r, prop)
		c03InterleavedAllocation(r)
	}
	if prop == "C03" {
		// modular start genomes (control genes numbered right after the links): outside the Coq model of the
		// epoch, Go-side registry oracle only; the counters must start past the modules' numbers and node ids
		for i := 0; i < r.N(8, 100); i++ {
			in := newEpochInput(r, prop, 30, 8, true)
			starts := startGenomes()
			if m := withModule(r.Rng, starts[r.Rng.Intn(len(starts))], i%2 == 0); m != nil {
				in.Start = genomeText(m)
				res := runHistory(r, in, nil, 0)
				r.Count(fmt.Sprint("modular", in.Seed), res.structural > 0)
				r.Hist("modular_start_epochs_run", bucket(res.epochsRun))
			}
		}
	}
	if prop == "C02" || prop == "C09" {
		// small stolen-baby pools over long histories with many small species of steady fitness: a donor (a species
		// older than five generations) can be asked for exactly what it expects
		for i := 0; i < r.N(10, 200); i++ {
			in := newEpochInput(r, prop, 28, 14, true)
			in.Opts.PopSize = 12 + r.Rng.Intn(16)
			in.Opts.BabiesStolen = 1 + r.Rng.Intn(4)
			in.Opts.CompatThreshold = 0.2 + 0.6*r.Rng.Float64()
			in.Opts.DropOffAge = 50
			in.Epochs = 9 + r.Rng.Intn(6)
			in.FitRule = []int{6, 0, 9}[r.Rng.Intn(3)]
			res := runHistory(r, in, nil, 0)
			r.Count(fmt.Sprint("small-pool", in.Seed), res.multi > 0)
			r.Hist("small_stolen_pool_epochs_run", bucket(res.epochsRun))
		}
	}
	if prop == "C02" || prop == "C09" {
		steadySpecies(r, prop)
	}
	// the same guarantees under the parallel executor (goroutine per species; not schedule-reproducible, so
	// Go-side oracle only; the race-freedom side of it is C16's subject)
	for i := 0; i < r.N(10, 150); i++ {
		in := newEpochInput(r, prop, 50, 12, true)
		in.Parallel = true
		if i%2 == 0 {
			in.Opts.CompatThreshold = 0.5 + r.Rng.Float64() // many small species: a best species that is replaced
		}
		res := runHistory(r, in, nil, 0)
		r.Count(fmt.Sprint("parallel", in.Seed), res.multi > 0)
		r.Hist("parallel_executor_epochs_run", bucket(res.epochsRun))
	}
	// larger populations and longer runs: Go-side oracle only (tie-free fitness)
	for i := 0; i < r.N(30, 600); i++ {
		in := newEpochInput(r, prop, 70, 25, true)
		res := runHistory(r, in, nil, 0)
		r.Count(fmt.Sprint(in.Seed), res.multi > 0 && res.structural > 0)
		r.Hist("oracle_only_epochs_run", bucket(res.epochsRun))
	}
	return nil
}

// c10UnsortedGenes: "all populations" includes those whose genomes were written by hand: a start genome whose gene
// lines are not in innovation order is accepted by the readers and by Population.Verify.  Its champion's copy
// must still be an unmodified copy (same genes in the same order).  Mutation-only reproduction, so that the
// crossovers (which presuppose the order) stay out of it.
func c10UnsortedGenes(r *Run) {
	const text = "genomestart 1\ntrait 1 0.1 0 0 0 0 0 0 0\n" +
		"node 1 1 1 1 NullActivation\nnode 2 1 1 1 NullActivation\nnode 3 1 1 3 NullActivation\nnode 4 1 0 2 SigmoidSteepenedActivation\nnode 5 1 0 0 SigmoidSteepenedActivation\n" +
		"gene 1 3 4 0.75 false 3 0.75 true\ngene 1 1 4 0.5 false 1 0.5 true\ngene 1 5 4 -1.25 false 5 -1.25 true\ngene 1 2 5 -0.5 false 2 -0.5 true\ngene 1 1 5 1.5 false 4 1.5 true\n" +
		"genomeend 1\n"
	for k := 0; k < r.N(4, 40); k++ {
		opts := epochOptions(r.Rng, 40)
		if opts.PopSize < 12 {
			opts.PopSize = 12
		}
		opts.MutateOnlyProb, opts.CompatThreshold, opts.BabiesStolen = 1.0, 6, 0
		in := &epochInput{Prop: "C10", Seed: 31 + int64(k), Opts: opts, Start: map[string]string{"format": "plain", "text": text}, Epochs: 2, FitRule: k % 3}
		res := runPhased(r, in)
		r.Count(fmt.Sprint("unsorted", in.Seed), res.champs > 0)
		// the same genomes loaded as a population file (no duplication on the way in): one species of 12, so its
		// quota is 12 and the fittest organism's genome must reappear unchanged, genes in the order of the file
		var sb strings.Builder
		for id := 1; id <= 12; id++ {
			sb.WriteString(strings.Replace(strings.Replace(text, "genomestart 1", fmt.Sprint("genomestart ", id), 1), "genomeend 1", fmt.Sprint("genomeend ", id), 1))
		}
		o2 := *opts
		o2.PopSize, o2.CompatThreshold = 12, 1e6
		rand.Seed(in.Seed)
		pop, err := genetics.ReadPopulation(strings.NewReader(sb.String()), &o2)
		if err != nil || len(pop.Organisms) != 12 || len(pop.Species) != 1 {
			continue
		}
		best := 0
		for i, o := range pop.Organisms {
			o.Fitness = fitnessFor(0, k, i, o.Genotype)
			if o.Fitness > pop.Organisms[best].Fitness {
				best = i
			}
		}
		champ := snap(pop.Organisms[best].Genotype)
		input := map[string]interface{}{"kind": "population file with gene lines out of innovation order", "text": sb.String(), "opts": &o2, "seed": in.Seed, "fitness_rule": 0}
		var eerr error
		func() {
			defer func() {
				if p := recover(); p != nil {
					eerr = fmt.Errorf("panic: %v", p)
				}
			}()
			eerr = (&genetics.SequentialPopulationEpochExecutor{}).NextEpoch(o2.NeatContext(), k, pop)
		}()
		if eerr != nil {
			continue // what else such a population may do is not this property's subject
		}
		found := false
		for _, o := range pop.Organisms {
			if champ.eq(snap(o.Genotype)) {
				found = true
			}
		}
		if !found {
			r.Fail(Failure{Key: "champion-lost", What: "a species of 12 read from a population file (gene lines not in innovation order): no unmodified copy of its fittest organism's genome in the next generation", Input: input})
		}
		r.Hist("unsorted_population_file", "checked")
	}
}

// c10RoundingTie is the designated demonstration of a recorded finding: two raw fitness values one ulp
// apart tie after the division by the species size, the stable sort keeps the earlier organism first, and
// the strictly fittest organism is not the champion: its genome is not copied unchanged.
func c10RoundingTie(r *Run) {
	quiet()
	opts := baseOptions()
	opts.PopSize, opts.CompatThreshold, opts.AgeSignificance, opts.BabiesStolen = 6, 6, 1, 0
	in := map[string]interface{}{"pop_size": 6, "seed": 42, "fitness": "[7, nextafter(7,8), 1, 2, 3, 4]", "start": "xorStart"}
	rand.Seed(42)
	pop, err := genetics.NewPopulation(readPlain(xorStart, 1), opts)
	if err != nil {
		return
	}
	fits := []float64{7, math.Nextafter(7, 8), 1, 2, 3, 4}
	for i, o := range pop.Organisms {
		o.Fitness = fits[i]
	}
	best := snap(pop.Organisms[1].Genotype)
	quotaOK := len(pop.Species) == 1
	ex := &genetics.SequentialPopulationEpochExecutor{}
	if err := ex.NextEpoch(opts.NeatContext(), 0, pop); err != nil || !quotaOK {
		return
	}
	for _, o := range pop.Organisms {
		if best.eq(snap(o.Genotype)) {
			return
		}
	}
	r.Fail(Failure{Key: "champion-rounding-tie-1ulp", What: "the strictly fittest organism (by one ulp) of a species with quota 6 has no unmodified copy in the next generation: its adjusted fitness ties with another member's after the division by the species size", Input: in})
}

func runPhasedProp(r *Run, prop string) error {
	r.Res.Rule = "same population generator as C02; the three phases of the sequential executor are driven separately so that quotas, parents and champions can be observed between them; " +
		"non-trivial = >= 2 species at some epoch (C09) / >= 1 species with quota > 5 (C10); distinct by (seed, options)"
	if prop == "C10" {
		c10RoundingTie(r)
	}
	if prop == "C09" {
		subnormalOvershoot(r, prop)
	}
	if prop == "C10" {
		c10UnsortedGenes(r)
		// the PopSize option lowered after the population was built: the turnover may refuse, it must not drop a champion
		for i := 0; i < r.N(12, 120); i++ {
			in := newEpochInput(r, prop, 40, 3, true)
			if in.Opts.PopSize < 20 {
				in.Opts.PopSize = 20
			}
			in.Opts.CompatThreshold = []float64{1, 3}[i%2]
			in.ShrinkPop = 6 + r.Rng.Intn(in.Opts.PopSize/2) // enough to cut whole trailing species off
			in.Epochs, in.ShrinkAt = 4, 2+r.Rng.Intn(2)      // by then there are several species
			runPhased(r, in)
		}
		// modular champions (two modules): the unmodified copy includes the modules and their links
		for i := 0; i < r.N(5, 60); i++ {
			in := newEpochInput(r, prop, 40, 4, true)
			if in.Opts.PopSize < 10 {
				in.Opts.PopSize = 10
			}
			in.Opts.CompatThreshold = 6
			starts := startGenomes()
			if m := withModule(r.Rng, starts[r.Rng.Intn(len(starts))], true); m != nil {
				in.Start = genomeText(m)
				res := runPhased(r, in)
				r.Count(fmt.Sprint("modular-champion", in.Seed), res.champs > 0)
			}
		}
	}
	// the tie between model and code for this check: whole-epoch correspondence through the public NextEpoch
	cf := r.NewCaseFile(0, "Res F64 Genome Options GenomeLit EpochCases "+prop+"Cases", "epoch_case")
	shard, per := 0, 0
	for i := 0; i < r.N(18, 480); i++ {
		if per >= 6 {
			cf.Close("epoch_mismatches")
			shard++
			cf = r.NewCaseFile(shard, "Res F64 Genome Options GenomeLit EpochCases "+prop+"Cases", "epoch_case")
			per = 0
		}
		in := newEpochInput(r, prop, 30, 6, prop == "C10")
		res := runHistory(r, in, cf, i)
		per++
		r.Count(fmt.Sprint("corr", in.Seed), res.multi > 0)
		r.Hist("correspondence_epochs_run", fmt.Sprint(res.epochsRun))
	}
	cf.Close("epoch_mismatches")
	for i := 0; i < r.N(60, 1500); i++ {
		in := newEpochInput(r, prop, 70, 20, prop == "C10")
		res := runPhased(r, in)
		nontrivial := res.multi > 0
		if prop == "C10" {
			nontrivial = res.champs > 0
		}
		r.Count(fmt.Sprint(in.Seed), nontrivial)
		r.Hist("pop_size", bucket(in.Opts.PopSize))
		r.Hist("epochs_run", bucket(res.epochsRun))
		r.Hist("champion_species", bucket(res.champs))
		if res.err != nil {
			r.Hist("errors", res.err.Error())
		}
		if i < 3 {
			r.Sample(map[string]interface{}{"seed": in.Seed, "pop_size": in.Opts.PopSize, "epochs": in.Epochs, "fitness_rule": in.FitRule, "epochs_run": res.epochsRun, "champion_species_epochs": res.champs})
		}
	}
	return nil
}
