package main

import (
	"fmt"
	"math"
	"math/rand"
	"strings"

	"github.com/yaricom/goNEAT/v4/neat"
	"github.com/yaricom/goNEAT/v4/neat/genetics"
)

// runPhased drives prepare / reproduce / finalize separately (the three calls NextEpoch makes) so
// that the oracles of C08 (speciation), C09 (quotas) and C10 (champion) can look between the phases.
func runPhased(r *Run, in *epochInput) historyResult {
	quiet()
	res := historyResult{}
	bad := func(key, what string) { r.Fail(Failure{Key: key, What: what, Input: in}) }
	start, err := startGenomeFor(in)
	if err != nil {
		bad("start-genome-unreadable", err.Error())
		return res
	}
	conf := in.Opts
	rand.Seed(in.Seed)
	var pop *genetics.Population
	if in.PopText != "" {
		pop, err = genetics.ReadPopulation(strings.NewReader(in.PopText), conf)
	} else {
		pop, err = genetics.NewPopulation(start, conf)
	}
	if err != nil {
		bad("new-population-error", err.Error())
		return res
	}
	compat := func(a, b *genetics.Genome) float64 { return genetics.VCompatibility(a, b, conf) }
	if in.Prop == "C08" {
		checkInitialSpeciation(pop, conf, compat, bad)
	}
	shrunk := false
	everSpecies := map[int]bool{} // ids of all species this population ever had
	for _, sp := range pop.Species {
		everSpecies[sp.Id] = true
	}
	for ep := 0; ep < in.Epochs; ep++ {
		if in.ShrinkPop > 0 && ep == in.ShrinkAt && conf.PopSize-in.ShrinkPop >= 3 {
			conf.PopSize -= in.ShrinkPop
			shrunk = true
		}
		for j, o := range pop.Organisms {
			o.Fitness = fitnessFor(in.FitRule, ep, j, o.Genotype)
		}
		ex := &genetics.SequentialPopulationEpochExecutor{}
		N := len(pop.Organisms)
		type spInfo struct {
			size int
			orgs []*genetics.Organism
			raw  []float64
			age  int
			last int
		}
		pre := map[*genetics.Species]spInfo{}
		for _, sp := range pop.Species {
			raw := make([]float64, len(sp.Organisms))
			for i, o := range sp.Organisms {
				raw[i] = o.Fitness
			}
			pre[sp] = spInfo{len(sp.Organisms), append([]*genetics.Organism{}, sp.Organisms...), raw, sp.Age, sp.AgeOfLastImprovement}
		}
		allSpecies := append([]*genetics.Species{}, pop.Species...)
		highestChanged := pop.EpochsHighestLastChanged
		// the champion of every species by raw fitness (distinct positive values under rules 0-2)
		champOf := map[*genetics.Species]gsnap{}
		for _, sp := range pop.Species {
			best := sp.Organisms[0]
			for _, o := range sp.Organisms {
				if o.Fitness > best.Fitness {
					best = o
				}
			}
			champOf[sp] = snap(best.Genotype)
		}
		var perr error
		func() {
			defer func() {
				if p := recover(); p != nil {
					perr = fmt.Errorf("panic: %v", p)
				}
			}()
			perr = genetics.VPrepare(ex, conf, ep, pop)
		}()
		if err := perr; err != nil {
			if in.Prop == "C09" {
				bad("prepare-error", "prepareForReproduction failed: "+err.Error())
			}
			res.err = err
			break
		}
		delta := pop.EpochsHighestLastChanged == 0 && highestChanged+1 >= conf.DropOffAge+5
		if in.Prop == "C09" {
			// adjusted fitness as the statement defines it: shared, age-adjusted
			sumF, cnt := 0.0, 0
			for _, sp := range allSpecies {
				info := pre[sp]
				debt := (info.age - info.last + 1) - conf.DropOffAge
				if debt == 0 {
					debt = 1
				}
				for i, o := range info.orgs {
					f := info.raw[i]
					if debt >= 1 {
						f *= 0.01
					}
					if info.age <= 10 {
						f *= conf.AgeSignificance
					}
					if f < 0 {
						f = 0.0001
					}
					f /= float64(info.size)
					if math.Abs(f-o.Fitness) > 1e-12*(1+math.Abs(f)) {
						bad("shared-fitness", "adjusted fitness is not raw fitness x stagnation penalty x youth boost / species size")
					}
					sumF += o.Fitness
					cnt++
				}
			}
			mean := sumF / float64(cnt)
			total := 0
			for _, sp := range pop.Species {
				total += sp.ExpectedOffspring
			}
			if total != N {
				key := "quota-total"
				if in.FitRule == 7 && total > N {
					key = "subnormal-fitness-quota-overshoot"
				}
				bad(key, fmt.Sprintf("species quotas total %d, population size %d", total, N))
			}
			if mean != 0 {
				sumE := 0.0
				carryIn := 0.0
				for _, sp := range allSpecies {
					se := 0.0
					for _, o := range pre[sp].orgs {
						if math.Abs(o.ExpectedOffspring*mean-o.Fitness) > 1e-9*(1+o.Fitness) {
							bad("expected-offspring-definition", "an organism's expected offspring is not its adjusted fitness divided by the population mean")
						}
					}
					// species order of summation is the post-sort order of its organisms; the sum is order independent up to rounding
					for _, o := range pre[sp].orgs {
						se += o.ExpectedOffspring
					}
					sumE += se
					if conf.BabiesStolen == 0 && !delta {
						// quota = floor(carry_in + se) with the carried fraction, +1 for the single make-up offspring
						q := sp.ExpectedOffspring
						lo := math.Floor(carryIn+se-1e-6) - 0
						hi := math.Floor(carryIn+se+1e-6) + 1
						if float64(q) < lo || float64(q) > hi {
							key := "quota-floor-carry"
							if in.FitRule == 7 {
								// the expected offspring do not sum to N (rounded subnormal average): the make-up /
								// fallback code then hands out quotas that are not floors of anything
								key = "subnormal-fitness-quota-overshoot"
							}
							bad(key, fmt.Sprintf("species quota %d is not the floor of its members' expected offspring %.6f plus carried fraction %.6f (+1 make-up)", q, se, carryIn))
						}
						carryIn = carryIn + se - math.Floor(carryIn+se+1e-9)
						if carryIn < 0 {
							carryIn = 0
						}
					}
				}
				if math.Abs(sumE-float64(N)) > 1e-6*float64(N) {
					key := "sum-expected"
					if in.FitRule == 7 { // either direction: the rounded subnormal average is off by up to a factor 2
						key = "subnormal-fitness-quota-overshoot"
					}
					bad(key, "expected offspring of all organisms do not sum to the population size")
				}
			}
			for _, sp := range allSpecies {
				n := pre[sp].size
				want := int(math.Floor(conf.SurvivalThresh*float64(n) + 1.0))
				if want > n {
					want = n
				}
				if len(sp.Organisms) != want {
					bad("parents-cut", fmt.Sprintf("species keeps %d of %d organisms as parents, expected floor(thresh*n)+1 = %d", len(sp.Organisms), n, want))
				}
				minSurv := math.Inf(1)
				surv := map[*genetics.Organism]bool{}
				for _, o := range sp.Organisms {
					surv[o] = true
					if o.Fitness < minSurv {
						minSurv = o.Fitness
					}
				}
				for _, o := range pre[sp].orgs {
					if !surv[o] && o.Fitness > minSurv {
						bad("eliminated-fitter-than-survivor", "an eliminated organism is fitter than a surviving parent")
					}
				}
			}
			r.Hist("delta_coding", fmt.Sprint(delta))
		}
		type champ struct {
			s     gsnap
			quota int
		}
		var champs []champ
		zeroQuota := map[int]bool{}
		for _, sp := range allSpecies {
			if sp.ExpectedOffspring == 0 {
				zeroQuota[sp.Id] = true
			}
		}
		for _, sp := range pop.Species {
			if sp.ExpectedOffspring > 5 {
				champs = append(champs, champ{champOf[sp], sp.ExpectedOffspring})
				res.champs++
			}
		}
		lastSpecies := pop.LastSpecies
		old := map[*genetics.Organism]bool{}
		for _, o := range pop.Organisms {
			old[o] = true
		}
		preReps := map[int]*genetics.Organism{}
		for _, sp := range pop.Species {
			if len(sp.Organisms) > 0 {
				preReps[sp.Id] = sp.Organisms[0]
			}
		}
		var rerr error
		func() {
			defer func() {
				if p := recover(); p != nil {
					rerr = fmt.Errorf("panic: %v", p)
				}
			}()
			rerr = genetics.VReproduce(ex, conf, ep, pop)
		}()
		if rerr != nil {
			res.err = rerr
			if shrunk {
				break // the caller lowered the PopSize option under a larger population: refusing is fine
			}
			key := "reproduce-error"
			if in.FitRule == 7 && strings.Contains(rerr.Error(), "progeny size") {
				key = "subnormal-fitness-quota-overshoot"
			}
			bad(key, fmt.Sprintf("reproduction failed in epoch %d: %v", ep, rerr))
			break
		}
		if in.Prop == "C08" {
			checkBabySpeciation(pop, conf, old, lastSpecies, compat, bad, r)
		}
		if err := genetics.VFinalize(ex, conf, pop); err != nil {
			res.err = err
			break
		}
		if in.Prop == "C08" {
			// a species founded in this turnover gets an id no species of this population ever had
			living := map[int]bool{}
			for _, sp := range allSpecies {
				living[sp.Id] = true
			}
			for _, sp := range pop.Species {
				if !living[sp.Id] && everSpecies[sp.Id] {
					bad("species-id-not-fresh", fmt.Sprintf("epoch %d: the species founded with id %d reuses the id of an earlier, extinct species of this population", ep, sp.Id))
				}
			}
			for _, sp := range pop.Species {
				everSpecies[sp.Id] = true
			}
		}
		if in.Prop == "C10" {
			for _, c := range champs {
				found := false
				for _, o := range pop.Organisms {
					cs := snap(o.Genotype)
					if c.s.eq(cs) {
						found = true
						break
					}
				}
				if !found {
					bad("champion-lost", fmt.Sprintf("species with quota %d: no unmodified copy of its champion's genome in the next generation", c.quota))
				}
			}
		}
		if len(pop.Species) > 1 {
			res.multi++
		}
		res.epochsRun++
	}
	return res
}

func checkInitialSpeciation(pop *genetics.Population, conf *neat.Options, compat func(a, b *genetics.Genome) float64, bad func(key, what string)) {
	// organisms were speciated in Organisms order into initially no species
	type sp struct {
		id  int
		rep *genetics.Organism
	}
	var species []sp
	last := 0
	for _, o := range pop.Organisms {
		bestId, bestD := -1, math.MaxFloat64
		for _, s := range species {
			d := compat(o.Genotype, s.rep.Genotype)
			if d < conf.CompatThreshold && d < bestD {
				bestId, bestD = s.id, d
			}
		}
		if bestId < 0 {
			last++
			species = append(species, sp{last, o})
			bestId = last
		}
		if o.Species == nil || o.Species.Id != bestId {
			bad("spawn-speciation", fmt.Sprintf("spawned organism %d is in species %v, nearest compatible rule gives %d", o.Genotype.Id, o.Species, bestId))
			return
		}
	}
}

func checkBabySpeciation(pop *genetics.Population, conf *neat.Options, old map[*genetics.Organism]bool, lastSpecies int,
	compat func(a, b *genetics.Genome) float64, bad func(key, what string), r *Run) {
	// replay the assignment: species list before = species with their current representatives (old
	// organisms stay first), babies were processed in the order they were produced; recover that order
	// from the species member lists is not possible in general, so check the order-free consequences
	// and, per baby, the rule against every species that certainly existed at its turn
	for _, sp := range pop.Species {
		for i, o := range sp.Organisms {
			if old[o] {
				continue
			}
			rep := sp.Organisms[0]
			if i == 0 {
				if sp.Id <= lastSpecies {
					bad("baby-displaced-representative", "a baby became the first organism of a species that existed before")
				}
				r.Hist("speciation", "founder")
				for _, s2 := range pop.Species {
					if s2.Id <= lastSpecies && len(s2.Organisms) > 0 && old[s2.Organisms[0]] {
						if compat(o.Genotype, s2.Organisms[0].Genotype) < conf.CompatThreshold {
							bad("founder-was-compatible", fmt.Sprintf("organism founded species %d although species %d was closer than the threshold", sp.Id, s2.Id))
						}
					}
				}
				continue
			}
			r.Hist("speciation", "joined")
			d := compat(o.Genotype, rep.Genotype)
			if !(d < conf.CompatThreshold) {
				bad("member-not-within-threshold", "organism joined a species whose representative is not closer than the threshold")
			}
			if sp.Id <= lastSpecies {
				for _, s2 := range pop.Species {
					if s2.Id <= lastSpecies && s2 != sp && len(s2.Organisms) > 0 && old[s2.Organisms[0]] {
						if d2 := compat(o.Genotype, s2.Organisms[0].Genotype); d2 < d {
							bad("not-nearest-species", fmt.Sprintf("organism joined species %d (distance %g) although species %d was closer (%g)", sp.Id, d, s2.Id, d2))
						}
					}
				}
			}
		}
	}
}
