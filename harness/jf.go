package main

import (
	"encoding/json"
	"math"
	"strconv"
)

// JF is a float64 that survives JSON (replay files) exactly, including infinities and NaN
type JF float64

func (f JF) MarshalJSON() ([]byte, error) {
	x := float64(f)
	if math.IsInf(x, 0) || math.IsNaN(x) {
		return json.Marshal(strconv.FormatFloat(x, 'g', -1, 64))
	}
	return json.Marshal(strconv.FormatFloat(x, 'x', -1, 64))
}

func (f *JF) UnmarshalJSON(b []byte) error {
	var s string
	if err := json.Unmarshal(b, &s); err != nil {
		var x float64
		if err2 := json.Unmarshal(b, &x); err2 != nil {
			return err
		}
		*f = JF(x)
		return nil
	}
	x, err := strconv.ParseFloat(s, 64)
	if err != nil {
		return err
	}
	*f = JF(x)
	return nil
}
