package main

// C16 -- the parallel executor is race-free and preserves the population guarantees.
//
// Four things happen per run, all on the REAL code:
//  1. the lock table is re-derived from the current source (c16_translate.go) and checked by the Go
//     mirror of Lockset.table_disciplined; an offending field is a failure whose input names the
//     source lines (the Coq side proves the same obligation on gen/LockTable.v);
//  2. parallel epoch histories (many species, high structural mutation rates, stolen babies) through
//     the public ParallelPopulationEpochExecutor.NextEpoch with the C01/C02/C03 oracles of
//     popOracle after every epoch (runHistory with Prop "C16");
//  3. single-species histories run twice from the same seed, once per executor: with one species
//     there is one goroutine, so the random stream is consumed identically and the two populations
//     must agree genome by genome after every epoch (babies travel through the wire codec);
//  4. a twin of this binary built with -race soaks the parallel executor for a bounded time; every
//     "WARNING: DATA RACE" report is a failure keyed by the two racing functions.
// No Coq case files are written: a parallel epoch is not reproducible from the seed.

import (
	"bytes"
	"encoding/json"
	"fmt"
	"math/rand"
	"os"
	"os/exec"
	"path/filepath"
	"regexp"
	"sort"
	"strings"
	"time"

	"github.com/yaricom/goNEAT/v4/neat"
	"github.com/yaricom/goNEAT/v4/neat/genetics"
)

func init() {
	runners["C16"] = runC16
	replayers["C16"] = replayC16
	runners["C16-soak"] = runC16Soak // executed inside the race-enabled twin only
}

// c16Finding is the input of a failure that is not an epoch history
type c16Finding struct {
	Kind   string      `json:"c16_kind"` // "lockset" | "race"
	Field  string      `json:"field,omitempty"`
	Rows   []c16Access `json:"rows,omitempty"`
	Seed   int64       `json:"seed,omitempty"`
	Secs   int         `json:"seconds,omitempty"`
	Frames []string    `json:"frames,omitempty"`
}

// c16Options: settings that split the population into many species and mutate structure often
func c16Options(r *rand.Rand, maxPop int, manySpecies bool) *neat.Options {
	o := epochOptions(r, maxPop)
	if o.PopSize < 10 {
		o.PopSize = 10 + r.Intn(maxPop-9)
	}
	if manySpecies {
		o.CompatThreshold = []float64{0.2, 0.4, 0.8, 1.5}[r.Intn(4)]
	}
	o.MutateAddNodeProb = 0.1 + r.Float64()*0.5
	o.MutateAddLinkProb = 0.3 + r.Float64()*0.7
	o.MutateOnlyProb = 0.3 + r.Float64()*0.6
	o.InterspeciesMateRate = []float64{0.001, 0.2, 0.5}[r.Intn(3)]
	o.BabiesStolen = []int{0, o.PopSize / 5, o.PopSize / 3, o.PopSize / 2}[r.Intn(4)]
	o.DropOffAge = []int{2, 5, 15}[r.Intn(3)]
	o.EpochExecutorType = neat.EpochExecutorTypeParallel
	if r.Intn(6) == 0 {
		o.NewLinkTries = 0 // the field left unset by a caller that builds options in code
	}
	return o
}

func c16Input(r *Run, maxPop, maxEpochs int, manySpecies bool) *epochInput {
	opts := c16Options(r.Rng, maxPop, manySpecies)
	starts := startGenomes()
	s := starts[r.Rng.Intn(len(starts))]
	return &epochInput{Prop: "C16", Seed: r.Rng.Int63(), Opts: opts, Start: genomeText(s), Epochs: 3 + r.Rng.Intn(maxEpochs-2),
		FitRule: r.Rng.Intn(3), Parallel: true}
}

// ---------- 1. lock table ----------

func c16CheckTable(r *Run) {
	t, err := c16BuildTable(repoRoot())
	if err != nil {
		r.Fail(Failure{Key: "lockset-translator-error", What: "the lock-table translator does not understand the current source: " + err.Error(),
			Input: c16Finding{Kind: "lockset"}})
		return
	}
	bad := c16Offenders(t)
	keys := make([]string, 0, len(bad))
	for k := range bad {
		keys = append(keys, k)
	}
	sort.Strings(keys)
	for _, k := range keys {
		rows := bad[k]
		var un, pr []string
		for _, x := range rows {
			rw := "read"
			if x.Write {
				rw = "write"
			}
			d := fmt.Sprintf("%s %s in %s (%s)", x.Prot, rw, x.Fun, x.Pos)
			if x.Prot == "PNone" {
				un = append(un, d)
			} else {
				pr = append(pr, d)
			}
		}
		r.Fail(Failure{Key: "lockset " + k,
			What:     "field " + k + " is reachable from the species goroutines with mixed protection: a write is possible while another goroutine accesses it without the same lock / atomically",
			Input:    c16Finding{Kind: "lockset", Field: k, Rows: rows},
			Observed: map[string]interface{}{"unprotected": un, "protected": pr},
			Required: "every possibly shared access to the field under Population.mutex, or every access atomic, or no writes, or all covered by the owner-confined exception"})
	}
	for _, p := range t.Publications {
		r.Fail(Failure{Key: "lockset-publication " + p[0], What: "a goroutine of the parallel region may hand a freshly allocated object to another goroutine: " + p[1] + " at " + p[2],
			Input: c16Finding{Kind: "lockset", Field: "publication"}, Observed: p})
	}
	shared, local := 0, 0
	fields := map[string]bool{}
	for _, x := range t.Accesses {
		if x.Prot == "PLocal" {
			local++
		} else {
			shared++
		}
		fields[x.Kind+"."+x.Field] = true
		r.Hist("table_protection", x.Prot)
	}
	r.Count("locktable", true)
	r.Hist("table_reachable_functions", bucket(len(t.Reachable)))
	r.Sample(map[string]interface{}{"lock_table": map[string]int{"reachable_functions": len(t.Reachable), "rows": len(t.Accesses),
		"possibly_shared_rows": shared, "local_rows": local, "fields": len(fields), "offending_fields": len(bad)}})
}

// ---------- 3. one species: parallel = sequential ----------

type c16Snap struct {
	Genomes []string
	Fit     []float64
	Species []int
	NextI   int64
	NextN   int32
}

func c16RunOne(in *epochInput, parallel bool) ([]c16Snap, error) {
	quiet()
	start, err := startGenomeFor(in)
	if err != nil {
		return nil, err
	}
	rand.Seed(in.Seed)
	pop, err := genetics.NewPopulation(start, in.Opts)
	if err != nil {
		return nil, err
	}
	var ex genetics.PopulationEpochExecutor = &genetics.SequentialPopulationEpochExecutor{}
	if parallel {
		ex = &genetics.ParallelPopulationEpochExecutor{}
	}
	ctx := in.Opts.NeatContext()
	var out []c16Snap
	for ep := 0; ep < in.Epochs; ep++ {
		for i, o := range pop.Organisms {
			o.Fitness = fitnessFor(in.FitRule, ep, i, o.Genotype)
		}
		if err = ex.NextEpoch(ctx, ep, pop); err != nil {
			return out, err
		}
		s := c16Snap{}
		for _, o := range pop.Organisms {
			s.Genomes = append(s.Genomes, coqGenome(o.Genotype))
			s.Fit = append(s.Fit, o.Fitness)
			s.Species = append(s.Species, o.Species.Id)
		}
		_, s.NextI, s.NextN = genetics.VPopulationCounters(pop)
		out = append(out, s)
	}
	return out, nil
}

func c16SingleSpecies(r *Run, in *epochInput) {
	seq, e1 := c16RunOne(in, false)
	par, e2 := c16RunOne(in, true)
	bad := func(key, what string, obs interface{}) {
		r.Fail(Failure{Key: key, What: what, Input: in, Observed: obs, Required: "with a single species the parallel executor produces the population of the sequential executor"})
	}
	if (e1 == nil) != (e2 == nil) {
		bad("single-species-error-differs", "one executor failed and the other did not", fmt.Sprint("sequential: ", e1, "; parallel: ", e2))
		return
	}
	multi := false
	for ep := range seq {
		if ep >= len(par) {
			break
		}
		a, b := seq[ep], par[ep]
		for _, s := range a.Species {
			if s != a.Species[0] {
				multi = true
			}
		}
		if multi {
			break // more than one species: the streams interleave from here on
		}
		if len(a.Genomes) != len(b.Genomes) || a.NextI != b.NextI || a.NextN != b.NextN {
			bad("single-species-differs", fmt.Sprintf("epoch %d: sizes or counters differ", ep),
				fmt.Sprintf("sequential %d organisms, counters %d/%d; parallel %d organisms, counters %d/%d", len(a.Genomes), a.NextI, a.NextN, len(b.Genomes), b.NextI, b.NextN))
			return
		}
		for i := range a.Genomes {
			if a.Genomes[i] != b.Genomes[i] {
				bad("single-species-differs", fmt.Sprintf("epoch %d, organism %d: genomes differ", ep, i),
					map[string]string{"sequential": a.Genomes[i], "parallel": b.Genomes[i]})
				return
			}
		}
	}
	r.Count(fmt.Sprint("single", in.Seed), !multi && len(seq) > 0)
	r.Hist("single_species_epochs_compared", bucket(len(seq)))
}

// ---------- 4. race soak ----------

func c16WorkDir() string {
	if v := os.Getenv("VERIF_WORK"); v != "" {
		return v
	}
	if exe, err := os.Executable(); err == nil {
		if d := filepath.Dir(exe); filepath.Base(d) == "bin" {
			return filepath.Dir(d)
		}
	}
	if v := os.Getenv("VERIF_ROOT"); v != "" {
		return filepath.Join(v, "work")
	}
	return "/verif/work"
}

func c16HarnessSrc() string {
	if v := os.Getenv("VERIF_HARNESS_SRC"); v != "" {
		return v
	}
	if repoRoot() != "/repo" { // the driver keeps a copy of the harness whose go.mod points at the private repo
		return filepath.Join(c16WorkDir(), "harness_src")
	}
	if v := os.Getenv("VERIF_HARNESS"); v != "" {
		return v
	}
	if v := os.Getenv("VERIF_ROOT"); v != "" {
		return filepath.Join(v, "harness")
	}
	return "/verif/harness"
}

// c16BuildRace builds the race-enabled twin (incremental through the shared go build cache)
func c16BuildRace() (string, string, error) {
	work := c16WorkDir()
	bin := filepath.Join(work, "bin", "neatverif-race")
	_ = os.MkdirAll(filepath.Dir(bin), 0o755)
	cmd := exec.Command("go", "build", "-race", "-tags", "verif", "-o", bin, ".")
	cmd.Dir = c16HarnessSrc()
	env := os.Environ()
	env = append(env, "GOFLAGS=-mod=mod", "GOPROXY=off", "GOSUMDB=off", "GOTOOLCHAIN=local", "CGO_ENABLED=1")
	if os.Getenv("GOCACHE") == "" {
		env = append(env, "GOCACHE="+filepath.Join(work, "gocache"))
	}
	cmd.Env = env
	t0 := time.Now()
	out, err := cmd.CombinedOutput()
	if err != nil {
		return "", "", fmt.Errorf("go build -race in %s: %v: %s", cmd.Dir, err, tailStr(string(out), 1500))
	}
	return bin, fmt.Sprintf("%.1fs", time.Since(t0).Seconds()), nil
}

func tailStr(s string, n int) string {
	if len(s) > n {
		return s[len(s)-n:]
	}
	return s
}

var c16FrameRe = regexp.MustCompile(`^\s+([A-Za-z0-9_./*()\-]+)\(\)\s*$`)

// c16ParseRaces splits the race detector's output into reports and names each by the innermost
// frames of the two conflicting accesses
func c16ParseRaces(stderr string) map[string]string {
	out := map[string]string{}
	for _, rep := range strings.Split(stderr, "==================") {
		if !strings.Contains(rep, "WARNING: DATA RACE") {
			continue
		}
		var frames []string
		lines := strings.Split(rep, "\n")
		for i, l := range lines {
			t := strings.TrimSpace(l)
			if strings.HasPrefix(t, "Write at") || strings.HasPrefix(t, "Read at") || strings.HasPrefix(t, "Previous write at") ||
				strings.HasPrefix(t, "Previous read at") || strings.HasPrefix(t, "Atomic") || strings.HasPrefix(t, "Previous atomic") {
				// first frame that belongs to the library under test, else the first frame
				first, lib := "", ""
				for j := i + 1; j < len(lines) && strings.TrimSpace(lines[j]) != ""; j++ {
					if m := c16FrameRe.FindStringSubmatch(lines[j]); m != nil {
						fn := m[1]
						if k := strings.LastIndex(fn, "/"); k >= 0 {
							fn = fn[k+1:]
						}
						if first == "" {
							first = fn
						}
						if lib == "" && strings.Contains(m[1], "goNEAT") {
							lib = fn
						}
					}
				}
				if lib == "" {
					lib = first
				}
				frames = append(frames, lib)
			}
		}
		sort.Strings(frames)
		key := "data-race " + strings.Join(frames, " <-> ")
		if _, ok := out[key]; !ok {
			out[key] = strings.TrimSpace(rep)
		}
	}
	return out
}

// c16RaceSoak runs the twin for about secs seconds and turns its reports into failures
func c16RaceSoak(r *Run, secs int, seed int64) {
	bin, took, err := c16BuildRace()
	if err != nil {
		r.Note("race soak skipped: " + err.Error())
		r.Hist("race_soak", "skipped (no race build)")
		return
	}
	dir, err := os.MkdirTemp(c16WorkDir(), "c16soak")
	if err != nil {
		r.Note("race soak skipped: " + err.Error())
		return
	}
	defer os.RemoveAll(dir)
	cmd := exec.Command(bin, "cases", "C16-soak", "-seed", fmt.Sprint(seed), "-tier", r.Tier, "-out", dir)
	cmd.Env = append(os.Environ(), fmt.Sprintf("C16_SOAK_SECONDS=%d", secs), "GORACE=halt_on_error=0 exitcode=0")
	var stderr, stdout bytes.Buffer
	cmd.Stderr, cmd.Stdout = &stderr, &stdout
	t0 := time.Now()
	runErr := cmd.Run()
	races := c16ParseRaces(stderr.String())
	keys := make([]string, 0, len(races))
	for k := range races {
		keys = append(keys, k)
	}
	sort.Strings(keys)
	for _, k := range keys {
		r.Fail(Failure{Key: k, What: "the Go race detector reports a data race in the parallel epoch executor",
			Input:    c16Finding{Kind: "race", Seed: seed, Secs: secs, Frames: strings.Split(strings.TrimPrefix(k, "data-race "), " <-> ")},
			Observed: tailStr(races[k], 6000), Required: "no data race under any schedule"})
	}
	epochs, histories := 0, 0
	if b, err := os.ReadFile(filepath.Join(dir, "result.json")); err == nil {
		var res Result
		if json.Unmarshal(b, &res) == nil {
			for _, f := range res.Failures { // invariant failures observed inside the twin
				r.Fail(f)
			}
			histories = res.Evaluations
			for k, v := range res.Histograms["soak_epochs_total"] {
				fmt.Sscan(k, &epochs)
				_ = v
			}
			r.Res.Evaluations += res.Evaluations
			r.Res.DistinctNontrivial += res.DistinctNontrivial
		}
	} else if runErr != nil && len(races) == 0 {
		r.Fail(Failure{Key: "race-soak-crashed", What: "the race-enabled twin of the harness crashed: " + runErr.Error(),
			Input: c16Finding{Kind: "race", Seed: seed, Secs: secs}, Observed: tailStr(stderr.String(), 4000)})
	}
	r.Hist("race_soak", fmt.Sprintf("ran (%d reports)", len(races)))
	r.Note(fmt.Sprintf("race soak: build %s, %d parallel histories / %d epochs in %.1fs under -race, %d distinct reports",
		took, histories, epochs, time.Since(t0).Seconds(), len(races)))
}

// runC16Soak is what the race-enabled twin executes: parallel histories with many species until the deadline
func runC16Soak(r *Run) error {
	secs := 10
	if v := os.Getenv("C16_SOAK_SECONDS"); v != "" {
		fmt.Sscan(v, &secs)
	}
	deadline := time.Now().Add(time.Duration(secs) * time.Second)
	epochs := 0
	for i := 0; time.Now().Before(deadline); i++ {
		in := c16Input(r, 70, 12, true)
		res := runHistory(r, in, nil, 0)
		epochs += res.epochsRun
		r.Count(fmt.Sprint("soak", in.Seed), res.multi > 0)
	}
	r.Hist("soak_epochs_total", fmt.Sprint(epochs))
	return nil
}

// ---------- runner ----------

func runC16(r *Run) error {
	r.Res.Rule = "lock table re-derived from the source and checked (Go mirror of table_disciplined); parallel epoch histories through the public NextEpoch " +
		"(PopSize 10..70, compat thresholds 0.2..1.5 for many species, add-node 0.1..0.6, add-link 0.3..1.0, stolen babies, interspecies mating up to 0.5, 3..25 epochs) " +
		"with the C01/C02/C03 oracles after every epoch; single-species histories compared organism by organism with the sequential executor; " +
		"race detector soak of the same generator in a -race twin; non-trivial = history had >= 2 species (so >= 2 concurrent goroutines) at some epoch, or a single-species comparison of >= 1 epoch; distinct by seed"
	c16CheckTable(r)
	counterHammer(r, "C16")
	c03InterleavedAllocation(r)
	// parallel histories
	n := r.N(60, 1500)
	for i := 0; i < n; i++ {
		in := c16Input(r, 70, 25, i%4 != 3)
		res := runHistory(r, in, nil, 0)
		r.Count(fmt.Sprint(in.Seed), res.multi > 0)
		r.Hist("pop_size", bucket(in.Opts.PopSize))
		r.Hist("epochs_run", bucket(res.epochsRun))
		r.Hist("multi_species_epochs", bucket(res.multi))
		r.Hist("babies_stolen", fmt.Sprint(in.Opts.BabiesStolen > 0))
		if res.err != nil {
			r.Hist("epoch_errors", res.err.Error())
		}
		if i < 2 {
			r.Sample(map[string]interface{}{"seed": in.Seed, "pop_size": in.Opts.PopSize, "epochs": in.Epochs, "compat_threshold": in.Opts.CompatThreshold,
				"babies_stolen": in.Opts.BabiesStolen, "add_node": in.Opts.MutateAddNodeProb, "add_link": in.Opts.MutateAddLinkProb,
				"epochs_run": res.epochsRun, "multi_species_epochs": res.multi, "structural_babies": res.structural})
		}
	}
	// one species: parallel = sequential
	for i := 0; i < r.N(25, 400); i++ {
		in := c16Input(r, 40, 8, false)
		in.Opts.CompatThreshold = 1e9
		in.Opts.BabiesStolen = 0
		c16SingleSpecies(r, in)
	}
	// race detector
	c16RaceSoak(r, r.N(12, 600), r.Rng.Int63())
	return nil
}

func replayC16(r *Run, input []byte) error {
	var f c16Finding
	_ = json.Unmarshal(input, &f)
	switch f.Kind {
	case "lockset":
		c16CheckTable(r)
		return nil
	case "race":
		secs := f.Secs
		if secs <= 0 || secs > 60 {
			secs = 30
		}
		c16RaceSoak(r, secs, f.Seed)
		return nil
	}
	var in epochInput
	if err := json.Unmarshal(input, &in); err != nil {
		return err
	}
	if in.Opts != nil && in.Opts.CompatThreshold >= 1e9 {
		c16SingleSpecies(r, &in)
		return nil
	}
	return replayEpoch(r, input)
}
