package main

import (
	"fmt"

	"github.com/yaricom/goNEAT/v4/neat/network"
)

// depthQueryHistories: depth queries (capped ones that are refused, capped ones that succeed, uncapped ones) are
// part of what a caller does with a network between activations; they must not influence it.  Go-side oracle
// only (the depth functions are C14's model, the solvers C12/C13's):
//
//	C13: history (operations and depth queries), Flush, then operations (incl. the standard solver's
//	     RecursiveSteps, which asks for the depth itself) = the same operations on a fresh network;
//	C12: on a feed-forward network, a refused capped query followed by load + RecursiveSteps gives the
//	     function value (as without the query).
func depthQueryHistories(r *Run, prop string) {
	for k := 0; k < r.N(60, 900); k++ {
		var n c12Net
		if prop == "C12" {
			g, _ := c12RandomGen(r.Rng, k)
			n = c12GenDAG(r.Rng, g)
		} else {
			g := c13Gen{nIn: 1 + r.Rng.Intn(2), nBias: r.Rng.Intn(2), nHid: 1 + r.Rng.Intn(4), nOut: 1 + r.Rng.Intn(3),
				pEdge: 0.2 + 0.3*r.Rng.Float64(), family: []string{"random", "feed-forward-ish", "2-cycle"}[k%3], shuffle: k%2 == 0}
			n = c13GenGraph(r.Rng, g)
		}
		nIn := c12CountRole(n, 1)
		type step struct {
			Kind string    `json:"kind"` // load | forward | recursive | depth
			X    []float64 `json:"x,omitempty"`
			K    int       `json:"k,omitempty"` // steps, or the cap of a depth query (0 = uncapped)
		}
		randSteps := func(cnt int, withDepth bool) []step {
			var out []step
			for i := 0; i < cnt; i++ {
				switch c := r.Rng.Intn(5); {
				case c == 0:
					out = append(out, step{Kind: "load", X: c12RandVec(r.Rng, nIn)})
				case c == 1:
					out = append(out, step{Kind: "forward", K: 1 + r.Rng.Intn(3)})
				case c == 2:
					out = append(out, step{Kind: "recursive"})
				case withDepth:
					out = append(out, step{Kind: "depth", K: r.Rng.Intn(5)})
				default:
					out = append(out, step{Kind: "forward", K: 1})
				}
			}
			return out
		}
		apply := func(net *network.Network, steps []step) (trace []string) {
			for _, s := range steps {
				var res bool
				var err error
				extra := ""
				func() {
					defer func() {
						if p := recover(); p != nil {
							err = fmt.Errorf("panic: %v", p)
						}
					}()
					switch s.Kind {
					case "load":
						err = net.LoadSensors(s.X)
					case "forward":
						res, err = net.ForwardSteps(s.K)
					case "recursive":
						res, err = net.RecursiveSteps()
					case "depth":
						var d int
						d, err = net.MaxActivationDepthWithCap(s.K)
						extra = fmt.Sprint(" depth=", d)
					}
				}()
				outs := net.ReadOutputs()
				hex := make([]string, len(outs))
				for i, v := range outs {
					hex[i] = fmt.Sprintf("%016x", c15FmBits(v))
				}
				trace = append(trace, fmt.Sprint(s.Kind, " ", res, " ", err != nil, extra, " ", hex))
			}
			return trace
		}
		if prop == "C13" {
			history := randSteps(1+r.Rng.Intn(6), true)
			after := append([]step{{Kind: "load", X: c12RandVec(r.Rng, nIn)}}, randSteps(1+r.Rng.Intn(5), true)...)
			used, _ := c12Build(n)
			fresh, _ := c12Build(n)
			apply(used, history)
			if _, err := used.Flush(); err != nil {
				continue
			}
			got, want := apply(used, after), apply(fresh, after)
			if fmt.Sprint(got) != fmt.Sprint(want) {
				r.Fail(Failure{Key: "std-flush depth-queries-in-history", What: "a network whose history holds depth queries behaves differently after Flush than a fresh one",
					Input:    map[string]interface{}{"kind": "depth-history", "net": n, "history": history, "after_flush": after},
					Observed: got, Required: want})
			}
			r.Count(fmt.Sprint("dq13 ", k, history, after), true)
			continue
		}
		// C12: feed-forward network; a capped query below the depth is refused; then the function value is due
		ff := c12Analyse(n)
		if !ff.ok || ff.d < 2 || c12CountRole(n, 0) == 0 {
			continue
		}
		x := c12RandVec(r.Rng, nIn)
		want := c12Topo(n, ff, x)
		for _, cap := range []int{1, ff.d - 1, ff.d, 0} {
			net, _ := c12Build(n)
			steps := []step{{Kind: "depth", K: cap}, {Kind: "load", X: x}, {Kind: "recursive"}}
			tr := apply(net, steps)
			if outs := net.ReadOutputs(); !c12Close(want, outs) {
				r.Fail(Failure{Key: fmt.Sprintf("std-recursive after-depth-query cap=%d d=%d", cap, ff.d), What: "after a depth query the standard solver's recursive activation does not return the feed-forward function value",
					Input:    map[string]interface{}{"kind": "depth-then-recursive", "net": n, "steps": steps},
					Observed: fmt.Sprint(outs, tr), Required: fmt.Sprint(want)})
			}
		}
		r.Count(fmt.Sprint("dq12 ", k, x), true)
	}
	r.Hist("depth_query_histories", "checked")
}

// twoSolversOneNetwork: every FastNetworkSolver() call hands out a solver of its own, built from the network as it
// is at that moment: two solvers of one network do not influence each other, a later solver follows weights that
// were changed in place meanwhile, and a solver requested while another one is in use is as fresh as the solver of
// a separately built copy of the network.
func twoSolversOneNetwork(r *Run, prop string) {
	for k := 0; k < r.N(40, 600); k++ {
		var n c12Net
		if prop == "C12" {
			g, _ := c12RandomGen(r.Rng, k)
			n = c12GenDAG(r.Rng, g)
		} else {
			g := c13Gen{nIn: 1 + r.Rng.Intn(2), nBias: r.Rng.Intn(2), nHid: 1 + r.Rng.Intn(4), nOut: 1 + r.Rng.Intn(2),
				pEdge: 0.25 + 0.3*r.Rng.Float64(), family: []string{"random", "self-loop", "2-cycle"}[k%3], shuffle: k%2 == 0}
			n = c13GenGraph(r.Rng, g)
		}
		nIn := c12CountRole(n, 1)
		net, all := c12Build(n)
		other, _ := c12Build(n) // a separately built copy
		s1, c1 := c12FastBuild(net)
		if s1 == nil || c1 != 1 {
			continue
		}
		x1, x2 := c12RandVec(r.Rng, nIn), c12RandVec(r.Rng, nIn)
		steps := 1 + r.Rng.Intn(4)
		run := func(s network.Solver, x []float64) string {
			var out []string
			for i := 0; i < 2; i++ {
				_ = s.LoadSensors(x)
				_, _ = s.ForwardSteps(steps)
				o := s.ReadOutputs()
				for _, v := range o {
					out = append(out, fmt.Sprintf("%016x", c15FmBits(v)))
				}
			}
			return fmt.Sprint(out)
		}
		in := map[string]interface{}{"kind": "two-solvers-one-network", "net": n, "x1": x1, "x2": x2, "steps": steps}
		// history on the first solver, then a second solver from the SAME network while the first is alive
		_ = run(s1, x1)
		s2, c2 := c12FastBuild(net)
		sRef, cr := c12FastBuild(other)
		if s2 == nil || sRef == nil || c2 != 1 || cr != 1 {
			continue
		}
		got, want := run(s2, x2), run(sRef, x2)
		if got != want {
			r.Fail(Failure{Key: "fast-solver-not-fresh second-solver-of-one-network", What: "a fast solver requested from a network that already handed one out does not behave like the solver of a separately built copy of the network",
				Input: in, Observed: got, Required: want})
			continue
		}
		// the first solver is not disturbed by the second one's existence and use
		a := run(s1, x1)
		s1b, _ := c12FastBuild(other)
		_ = run(s1b, x1)
		if b := run(s1b, x1); a != b {
			r.Fail(Failure{Key: "fast-solver-disturbed by-second-solver", What: "using a second solver of the same network changed what the first solver computes", Input: in, Observed: a, Required: b})
			continue
		}
		// weights rewritten in place: a solver requested afterwards computes with the new weights
		for _, nd := range all {
			for _, l := range nd.Incoming {
				l.ConnectionWeight = l.ConnectionWeight*0.5 + 0.25
			}
		}
		for _, nd := range other.AllNodes() {
			for _, l := range nd.Incoming {
				l.ConnectionWeight = l.ConnectionWeight*0.5 + 0.25
			}
		}
		s3, c3 := c12FastBuild(net)
		s3Ref, c3r := c12FastBuild(other)
		if s3 == nil || s3Ref == nil || c3 != 1 || c3r != 1 {
			continue
		}
		if got, want := run(s3, x2), run(s3Ref, x2); got != want {
			r.Fail(Failure{Key: "fast-solver-stale-weights", What: "a fast solver requested after the link weights were changed in place still computes with the old weights", Input: in, Observed: got, Required: want})
		}
		r.Count(fmt.Sprint("two ", k, x1, x2, steps), true)
	}
	r.Hist("two_solvers_one_network", "checked")
}
