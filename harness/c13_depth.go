package main

import (
	"fmt"

	"github.com/yaricom/goNEAT/v4/neat/network"
)

// depthQueryHistories: depth queries (capped ones that are refused, capped ones that succeed, uncapped ones) are
// part of what a caller does with a network between activations; they must not influence it.  Go-side oracle
// only (the depth functions are C14's model, the solvers C12/C13's):
//
//	C13: history (operations and depth queries), Flush, then operations (incl. the standard solver's
//	     RecursiveSteps, which asks for the depth itself) = the same operations on a fresh network;
//	C12: on a feed-forward network, a refused capped query followed by load + RecursiveSteps gives the
//	     function value (as without the query).
func depthQueryHistories(r *Run, prop string) {
	for k := 0; k < r.N(60, 900); k++ {
		var n c12Net
		if prop == "C12" {
			g, _ := c12RandomGen(r.Rng, k)
			n = c12GenDAG(r.Rng, g)
		} else {
			g := c13Gen{nIn: 1 + r.Rng.Intn(2), nBias: r.Rng.Intn(2), nHid: 1 + r.Rng.Intn(4), nOut: 1 + r.Rng.Intn(3),
				pEdge: 0.2 + 0.3*r.Rng.Float64(), family: []string{"random", "feed-forward-ish", "2-cycle"}[k%3], shuffle: k%2 == 0}
			n = c13GenGraph(r.Rng, g)
		}
		nIn := c12CountRole(n, 1)
		type step struct {
			Kind string    `json:"kind"` // load | forward | recursive | depth
			X    []float64 `json:"x,omitempty"`
			K    int       `json:"k,omitempty"` // steps, or the cap of a depth query (0 = uncapped)
		}
		randSteps := func(cnt int, withDepth bool) []step {
			var out []step
			for i := 0; i < cnt; i++ {
				switch c := r.Rng.Intn(5); {
				case c == 0:
					out = append(out, step{Kind: "load", X: c12RandVec(r.Rng, nIn)})
				case c == 1:
					out = append(out, step{Kind: "forward", K: 1 + r.Rng.Intn(3)})
				case c == 2:
					out = append(out, step{Kind: "recursive"})
				case withDepth:
					out = append(out, step{Kind: "depth", K: r.Rng.Intn(5)})
				default:
					out = append(out, step{Kind: "forward", K: 1})
				}
			}
			return out
		}
		apply := func(net *network.Network, steps []step) (trace []string) {
			for _, s := range steps {
				var res bool
				var err error
				extra := ""
				func() {
					defer func() {
						if p := recover(); p != nil {
							err = fmt.Errorf("panic: %v", p)
						}
					}()
					switch s.Kind {
					case "load":
						err = net.LoadSensors(s.X)
					case "forward":
						res, err = net.ForwardSteps(s.K)
					case "recursive":
						res, err = net.RecursiveSteps()
					case "depth":
						var d int
						d, err = net.MaxActivationDepthWithCap(s.K)
						extra = fmt.Sprint(" depth=", d)
					}
				}()
				outs := net.ReadOutputs()
				hex := make([]string, len(outs))
				for i, v := range outs {
					hex[i] = fmt.Sprintf("%016x", c15FmBits(v))
				}
				trace = append(trace, fmt.Sprint(s.Kind, " ", res, " ", err != nil, extra, " ", hex))
			}
			return trace
		}
		if prop == "C13" {
			history := randSteps(1+r.Rng.Intn(6), true)
			after := append([]step{{Kind: "load", X: c12RandVec(r.Rng, nIn)}}, randSteps(1+r.Rng.Intn(5), true)...)
			used, _ := c12Build(n)
			fresh, _ := c12Build(n)
			apply(used, history)
			if _, err := used.Flush(); err != nil {
				continue
			}
			got, want := apply(used, after), apply(fresh, after)
			if fmt.Sprint(got) != fmt.Sprint(want) {
				r.Fail(Failure{Key: "std-flush depth-queries-in-history", What: "a network whose history holds depth queries behaves differently after Flush than a fresh one",
					Input:    map[string]interface{}{"kind": "depth-history", "net": n, "history": history, "after_flush": after},
					Observed: got, Required: want})
			}
			r.Count(fmt.Sprint("dq13 ", k, history, after), true)
			continue
		}
		// C12: feed-forward network; a capped query below the depth is refused; then the function value is due
		ff := c12Analyse(n)
		if !ff.ok || ff.d < 2 || c12CountRole(n, 0) == 0 {
			continue
		}
		x := c12RandVec(r.Rng, nIn)
		want := c12Topo(n, ff, x)
		for _, cap := range []int{1, ff.d - 1, ff.d, 0} {
			net, _ := c12Build(n)
			steps := []step{{Kind: "depth", K: cap}, {Kind: "load", X: x}, {Kind: "recursive"}}
			tr := apply(net, steps)
			if outs := net.ReadOutputs(); !c12Close(want, outs) {
				r.Fail(Failure{Key: fmt.Sprintf("std-recursive after-depth-query cap=%d d=%d", cap, ff.d), What: "after a depth query the standard solver's recursive activation does not return the feed-forward function value",
					Input:    map[string]interface{}{"kind": "depth-then-recursive", "net": n, "steps": steps},
					Observed: fmt.Sprint(outs, tr), Required: fmt.Sprint(want)})
			}
		}
		r.Count(fmt.Sprint("dq12 ", k, x), true)
	}
	r.Hist("depth_query_histories", "checked")
}
