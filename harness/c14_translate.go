package main

// Activation-depth translator for C14 (`neatverif translate depthbodies -out <dir>` writes <dir>/DepthBodies.v).
//
// Parses neat/network/nnode.go and neat/network/network.go, finds the methods (*NNode).IsSensor, (*NNode).Depth and
// (*Network).MaxActivationDepthWithCap and translates their BODIES, construct by construct, into Gallina over the
// state of model/Depth.v: the network is `g : net`, a *NNode is its id (Z), a *Link is the pair (InNode id, OutNode id),
// the per-node field `visited` of ALL nodes is the one value `h_visited : list Z` (the ids whose flag is set), which
// every function takes and returns next to its Go results:
//
//	Definition gen_is_sensor (t_NeuronType : ntype) : bool
//	Fixpoint   gen_depth (g : net) (fuel : nat) (v_<cap> v_<recv> v_<d> : Z) (h_visited : list Z) : res dres
//	Definition gen_max_depth_cap (g : net) (v_<cap> : Z) (h_visited : list Z) : res dres
//
//   - the recursion of Depth is a Fixpoint on a fuel argument (OutOfFuel when it runs out), a call x.Depth(a, b) inside
//     Depth passes the decremented fuel; MaxActivationDepthWithCap calls it with Depth.depth_fuel g.  The translator
//     does not argue termination (proofs/DepthSpec.v does, for the model, and DepthBodiesAgree.v proves the two equal);
//   - x.visited is `mem x h_visited`, x.visited = true / false is `x :: h_visited` / `unmark x h_visited`;
//   - x.IsSensor() is gen_is_sensor on the NeuronType of x (BadOracle when the id names no node: not a Go network);
//   - `for _, v := range <slice>` is d_for over the list with the tuple (variables the body assigns, h_visited) as state;
//     the body yields LNext state (fall through, `continue`) or LRet result (`return` inside the loop);
//   - an `if` whose branches fall through gets the REST of the enclosing block copied behind each branch.
//
// Subset (everything else: error naming the construct and its source position, non-zero exit):
//   - locals of type int, bool, error, *NNode, *Link declared by `:=` (never shadowing or redeclaring a visible name);
//   - int expressions: integer literals, unary minus, + - *, len(n.allNodes|inputs|Outputs|controlNodes) on the
//     *Network receiver; conditions: < <= > >= == != between ints, err == nil / err != nil, x.visited, x.IsSensor(),
//     && || ! (an operand of && || may not call a method);
//   - errors: nil, ErrMaximalNetDepthExceeded, errors.New("<literal>") (the one error of MaxActivationDepthWithCap);
//   - statements: `=`, `:=`, `+=`, `-=`, `++`, `--` on locals, x.visited = true|false, `a, b := x.Depth(e1, e2)`,
//     blocks, if / else if / else with optional init, `return a, b`, one level of range loop, `continue`.

import (
	"bufio"
	"fmt"
	"go/ast"
	"go/parser"
	"go/token"
	"go/types"
	"os"
	"path/filepath"
	"regexp"
	"sort"
	"strconv"
	"strings"
)

func init() { translators["depthbodies"] = c14tTranslateDepthBodies }

type c14tKind int

const (
	c14tInt c14tKind = iota
	c14tBool
	c14tErr
	c14tNode
	c14tLink
	c14tNet
	c14tNType
)

func (k c14tKind) String() string {
	return [...]string{"int", "bool", "error", "*NNode", "*Link", "*Network", "NodeNeuronType"}[k]
}

type c14tEnv map[string]c14tKind

func (e c14tEnv) with(name string, k c14tKind) c14tEnv {
	m := make(c14tEnv, len(e)+1)
	for n, x := range e {
		m[n] = x
	}
	m[name] = k
	return m
}

type c14tError struct{ msg string }

var c14tIdentRe = regexp.MustCompile(`^[A-Za-z_][A-Za-z0-9_]*$`)

type c14tTr struct {
	fset     *token.FileSet
	fn       string          // Type.Method being translated
	pkgVars  map[string]bool // package-level vars of neat/network
	errorsOK bool            // package errors imported under its own name in the file
	recv     string          // Go name of the receiver
	recvKind c14tKind
	fuel     string // fuel handed to a call of Depth
	inLoop   bool
	tuple    string // state tuple of the enclosing loop
	pending  []string
	ntemp    int
	nresults int
}

func (t *c14tTr) fail(n ast.Node, format string, a ...interface{}) {
	pos := "?"
	if n != nil {
		pos = t.fset.Position(n.Pos()).String()
	}
	panic(c14tError{fmt.Sprintf("%s: in %s: %s", pos, t.fn, fmt.Sprintf(format, a...))})
}

func (t *c14tTr) src(n ast.Node) string { return types.ExprString(n.(ast.Expr)) }

func (t *c14tTr) coqVar(id *ast.Ident) string {
	if !c14tIdentRe.MatchString(id.Name) {
		t.fail(id, "identifier %q is not plain ASCII", id.Name)
	}
	return "v_" + id.Name
}

func (t *c14tTr) temp() string { t.ntemp++; return fmt.Sprintf("p_%d", t.ntemp) }

func (t *c14tTr) takeBinds(ind string) string {
	var b strings.Builder
	for _, p := range t.pending {
		b.WriteString(ind + p + "\n")
	}
	t.pending = nil
	return b.String()
}

var c14tNetLen = map[string]string{
	"allNodes": "(len (n_nodes g))", "inputs": "(len (n_inputs g))", "Outputs": "(len (n_outputs g))", "controlNodes": "(n_control g)",
}

var c14tNTypeConst = map[string]string{
	"HiddenNeuron": "HiddenN", "InputNeuron": "InputN", "OutputNeuron": "OutputN", "BiasNeuron": "BiasN",
}

func c14tIsIdent(e ast.Expr, name string) bool {
	id, ok := e.(*ast.Ident)
	return ok && id.Name == name
}

// expr translates an expression; monadic parts are appended to t.pending
func (t *c14tTr) expr(e ast.Expr, env c14tEnv) (c14tKind, string) {
	switch x := e.(type) {
	case *ast.ParenExpr:
		return t.expr(x.X, env)
	case *ast.BasicLit:
		if x.Kind != token.INT {
			t.fail(x, "unsupported literal %s (only integer literals)", x.Value)
		}
		v, err := strconv.ParseInt(x.Value, 0, 64)
		if err != nil {
			t.fail(x, "integer literal %s does not fit int", x.Value)
		}
		return c14tInt, fmt.Sprintf("(%d)%%Z", v)
	case *ast.Ident:
		if k, ok := env[x.Name]; ok {
			if k == c14tNet {
				t.fail(x, "the *Network receiver %s used as a value", x.Name)
			}
			return k, t.coqVar(x)
		}
		switch x.Name {
		case "nil":
			return c14tErr, "NoErr"
		case "true", "false":
			return c14tBool, x.Name
		case "ErrMaximalNetDepthExceeded":
			if !t.pkgVars[x.Name] {
				t.fail(x, "ErrMaximalNetDepthExceeded is not a package-level variable of neat/network")
			}
			return c14tErr, "ErrDepthExceeded"
		}
		if c, ok := c14tNTypeConst[x.Name]; ok {
			return c14tNType, c
		}
		t.fail(x, "unknown identifier %s", x.Name)
	case *ast.UnaryExpr:
		k, c := t.expr(x.X, env)
		switch {
		case x.Op == token.SUB && k == c14tInt:
			if _, lit := x.X.(*ast.BasicLit); lit {
				return c14tInt, "(-" + strings.TrimPrefix(c, "(")
			}
			return c14tInt, "(Z.opp " + c + ")"
		case x.Op == token.NOT && k == c14tBool:
			return c14tBool, "(negb " + c + ")"
		}
		t.fail(x, "unsupported unary operator %s on %s", x.Op, k)
	case *ast.BinaryExpr:
		if x.Op == token.LAND || x.Op == token.LOR {
			n0 := len(t.pending)
			ka, a := t.expr(x.X, env)
			kb, b := t.expr(x.Y, env)
			if len(t.pending) != n0 {
				t.fail(x, "an operand of %s calls a method (evaluation would depend on short-circuiting)", x.Op)
			}
			if ka != c14tBool || kb != c14tBool {
				t.fail(x, "operands of %s are %s and %s, not bool", x.Op, ka, kb)
			}
			if x.Op == token.LAND {
				return c14tBool, "(andb " + a + " " + b + ")"
			}
			return c14tBool, "(orb " + a + " " + b + ")"
		}
		ka, a := t.expr(x.X, env)
		kb, b := t.expr(x.Y, env)
		if ka != kb {
			t.fail(x, "operands of %s are %s and %s", x.Op, ka, kb)
		}
		switch ka {
		case c14tInt:
			switch x.Op {
			case token.ADD:
				return c14tInt, "(Z.add " + a + " " + b + ")"
			case token.SUB:
				return c14tInt, "(Z.sub " + a + " " + b + ")"
			case token.MUL:
				return c14tInt, "(Z.mul " + a + " " + b + ")"
			case token.LSS:
				return c14tBool, "(Z.ltb " + a + " " + b + ")"
			case token.LEQ:
				return c14tBool, "(Z.leb " + a + " " + b + ")"
			case token.GTR:
				return c14tBool, "(Z.ltb " + b + " " + a + ")"
			case token.GEQ:
				return c14tBool, "(Z.leb " + b + " " + a + ")"
			case token.EQL:
				return c14tBool, "(Z.eqb " + a + " " + b + ")"
			case token.NEQ:
				return c14tBool, "(negb (Z.eqb " + a + " " + b + "))"
			}
		case c14tErr:
			var other string
			switch {
			case c14tIsIdent(x.Y, "nil"):
				other = a
			case c14tIsIdent(x.X, "nil"):
				other = b
			default:
				t.fail(x, "comparison of two error values (only comparison with nil)")
			}
			switch x.Op {
			case token.NEQ:
				return c14tBool, "(d_is_err " + other + ")"
			case token.EQL:
				return c14tBool, "(negb (d_is_err " + other + "))"
			}
		case c14tNType:
			switch x.Op {
			case token.EQL:
				return c14tBool, "(ntype_eqb " + a + " " + b + ")"
			case token.NEQ:
				return c14tBool, "(negb (ntype_eqb " + a + " " + b + "))"
			}
		}
		t.fail(x, "unsupported binary operator %s on %s", x.Op, ka)
	case *ast.SelectorExpr:
		if id, ok := x.X.(*ast.Ident); ok && env[id.Name] == c14tNet {
			if _, bound := env[id.Name]; bound {
				t.fail(x, "field %s of the *Network receiver used outside len(...) / range", x.Sel.Name)
			}
		}
		k, c := t.expr(x.X, env)
		switch {
		case k == c14tNode && x.Sel.Name == "visited":
			return c14tBool, "(mem " + c + " h_visited)"
		case k == c14tNode && x.Sel.Name == "NeuronType":
			if t.recvKind != c14tNType || !c14tIsIdent(x.X, t.recv) {
				t.fail(x, "x.NeuronType outside IsSensor")
			}
			return c14tNType, "t_NeuronType"
		case k == c14tLink && x.Sel.Name == "InNode":
			return c14tNode, "(fst " + c + ")"
		case k == c14tLink && x.Sel.Name == "OutNode":
			return c14tNode, "(snd " + c + ")"
		}
		t.fail(x, "unsupported field access .%s on %s", x.Sel.Name, k)
	case *ast.CallExpr:
		if c14tIsIdent(x.Fun, "len") {
			if _, shadow := env["len"]; shadow {
				t.fail(x, "len is shadowed")
			}
			if len(x.Args) == 1 {
				if sel, ok := x.Args[0].(*ast.SelectorExpr); ok {
					if id, ok := sel.X.(*ast.Ident); ok {
						if k, bound := env[id.Name]; bound && k == c14tNet {
							if c, ok := c14tNetLen[sel.Sel.Name]; ok {
								return c14tInt, c
							}
						}
					}
				}
			}
			t.fail(x, "unsupported len(%s) (only len of allNodes, inputs, Outputs, controlNodes of the *Network receiver)", t.src(x.Args[0]))
		}
		if sel, ok := x.Fun.(*ast.SelectorExpr); ok {
			if c14tIsIdent(sel.X, "errors") && sel.Sel.Name == "New" {
				if _, shadow := env["errors"]; shadow || !t.errorsOK {
					t.fail(x, "errors is not the package errors here")
				}
				if t.recvKind != c14tNet {
					t.fail(x, "errors.New outside MaxActivationDepthWithCap")
				}
				if len(x.Args) != 1 {
					t.fail(x, "errors.New with %d arguments", len(x.Args))
				}
				if lit, ok := x.Args[0].(*ast.BasicLit); !ok || lit.Kind != token.STRING {
					t.fail(x, "errors.New of something that is not a string literal")
				}
				return c14tErr, "ErrModular"
			}
			if sel.Sel.Name == "IsSensor" {
				k, c := t.expr(sel.X, env)
				if k != c14tNode || len(x.Args) != 0 {
					t.fail(x, "IsSensor() on %s with %d arguments", k, len(x.Args))
				}
				p := t.temp()
				t.pending = append(t.pending, "do "+p+" <- d_is_sensor g "+c+";")
				return c14tBool, p
			}
			if sel.Sel.Name == "Depth" {
				t.fail(x, "call of Depth outside `a, b := x.Depth(e1, e2)`")
			}
		}
		t.fail(x, "unsupported call %s", t.src(x.Fun))
	}
	t.fail(e, "unsupported expression %T", e)
	return 0, ""
}

// depthCall translates x.Depth(a, b) into a bind of the triple (int, error, h_visited); returns the temporary
func (t *c14tTr) depthCall(e ast.Expr, env c14tEnv) (string, bool) {
	call, ok := e.(*ast.CallExpr)
	if !ok {
		return "", false
	}
	sel, ok := call.Fun.(*ast.SelectorExpr)
	if !ok || sel.Sel.Name != "Depth" {
		return "", false
	}
	k, c := t.expr(sel.X, env)
	if k != c14tNode {
		t.fail(call, "Depth called on %s, not on a *NNode", k)
	}
	if len(call.Args) != 2 {
		t.fail(call, "Depth called with %d arguments", len(call.Args))
	}
	ka, a := t.expr(call.Args[0], env)
	kb, b := t.expr(call.Args[1], env)
	if ka != c14tInt || kb != c14tInt {
		t.fail(call, "Depth called with (%s, %s)", ka, kb)
	}
	p := t.temp()
	t.pending = append(t.pending, "do "+p+" <- gen_depth g "+t.fuel+" "+b+" "+c+" "+a+" h_visited;")
	return p, true
}

func (t *c14tTr) declare(id *ast.Ident, env c14tEnv, k c14tKind) c14tEnv {
	if id.Name == "_" {
		return env
	}
	if _, ok := env[id.Name]; ok {
		t.fail(id, "`:=` redeclares or shadows the visible name %s", id.Name)
	}
	switch id.Name {
	case "nil", "true", "false", "len", "errors", "ErrMaximalNetDepthExceeded":
		t.fail(id, "local named %s", id.Name)
	}
	if _, ok := c14tNTypeConst[id.Name]; ok {
		t.fail(id, "local named %s", id.Name)
	}
	t.coqVar(id)
	return env.with(id.Name, k)
}

// stmts translates a statement list in continuation-passing style: k(env) is the translation of what follows
func (t *c14tTr) stmts(list []ast.Stmt, env c14tEnv, ind string, k func() string) string {
	if len(list) == 0 {
		return k2(k, ind)
	}
	s, rest := list[0], list[1:]
	next := func(env2 c14tEnv) string { return t.stmts(rest, env2, ind, k) }
	terminal := func() {
		if len(rest) != 0 {
			t.fail(rest[0], "unreachable statement")
		}
	}
	switch x := s.(type) {
	case *ast.EmptyStmt:
		return next(env)
	case *ast.ReturnStmt:
		terminal()
		if len(x.Results) != 2 {
			t.fail(x, "return with %d values (the functions return (int, error))", len(x.Results))
		}
		ka, a := t.expr(x.Results[0], env)
		kb, b := t.expr(x.Results[1], env)
		if ka != c14tInt || kb != c14tErr {
			t.fail(x, "return of (%s, %s), not (int, error)", ka, kb)
		}
		binds := t.takeBinds(ind)
		if t.inLoop {
			return binds + ind + "Ok (LRet (" + a + ", " + b + ", h_visited))"
		}
		return binds + ind + "Ok (" + a + ", " + b + ", h_visited)"
	case *ast.BranchStmt:
		terminal()
		if x.Tok != token.CONTINUE || x.Label != nil || !t.inLoop {
			t.fail(x, "unsupported branch statement %s", x.Tok)
		}
		return ind + "Ok (LNext " + t.tuple + ")"
	case *ast.BlockStmt:
		return t.stmts(x.List, env, ind, func() string { return next(env) })
	case *ast.IncDecStmt:
		id, ok := x.X.(*ast.Ident)
		if !ok || env[id.Name] != c14tInt {
			t.fail(x, "%s on something that is not an int local", x.Tok)
		}
		if _, bound := env[id.Name]; !bound {
			t.fail(x, "unknown identifier %s", id.Name)
		}
		op := "Z.add"
		if x.Tok == token.DEC {
			op = "Z.sub"
		}
		v := t.coqVar(id)
		return ind + "let " + v + " := (" + op + " " + v + " (1)%Z) in\n" + next(env)
	case *ast.AssignStmt:
		return t.assign(x, env, ind, next)
	case *ast.IfStmt:
		return t.ifStmt(x, env, ind, func() string { return next(env) })
	case *ast.RangeStmt:
		return t.rangeStmt(x, env, ind, func() string { return next(env) })
	}
	t.fail(s, "unsupported statement %T", s)
	return ""
}

func (t *c14tTr) assign(x *ast.AssignStmt, env c14tEnv, ind string, next func(c14tEnv) string) string {
	// x.visited = true | false
	if len(x.Lhs) == 1 && len(x.Rhs) == 1 {
		if sel, ok := x.Lhs[0].(*ast.SelectorExpr); ok {
			if x.Tok != token.ASSIGN || sel.Sel.Name != "visited" {
				t.fail(x, "unsupported assignment to the field .%s", sel.Sel.Name)
			}
			k, c := t.expr(sel.X, env)
			if k != c14tNode {
				t.fail(x, ".visited of %s assigned", k)
			}
			var code string
			switch {
			case c14tIsIdent(x.Rhs[0], "true") && !c14tBound(env, "true"):
				code = "(" + c + " :: h_visited)"
			case c14tIsIdent(x.Rhs[0], "false") && !c14tBound(env, "false"):
				code = "(unmark " + c + " h_visited)"
			default:
				t.fail(x, ".visited assigned something other than the literal true / false")
			}
			return t.takeBinds(ind) + ind + "let h_visited := " + code + " in\n" + next(env)
		}
	}
	// a, b := x.Depth(e1, e2)
	if len(x.Lhs) == 2 && len(x.Rhs) == 1 {
		p, ok := t.depthCall(x.Rhs[0], env)
		if !ok {
			t.fail(x, "two-value assignment from something other than a call of Depth")
		}
		names := make([]string, 2)
		env2 := env
		for i, kind := range []c14tKind{c14tInt, c14tErr} {
			id, ok := x.Lhs[i].(*ast.Ident)
			if !ok {
				t.fail(x.Lhs[i], "assignment to something that is not a local")
			}
			switch {
			case id.Name == "_":
				names[i] = "_"
			case x.Tok == token.DEFINE:
				env2 = t.declare(id, env2, kind)
				names[i] = t.coqVar(id)
			case x.Tok == token.ASSIGN:
				if k, bound := env[id.Name]; !bound || k != kind {
					t.fail(id, "assignment of %s to %s", kind, id.Name)
				}
				names[i] = t.coqVar(id)
			default:
				t.fail(x, "unsupported assignment operator %s", x.Tok)
			}
		}
		return t.takeBinds(ind) + ind + "let '(" + names[0] + ", " + names[1] + ", h_visited) := " + p + " in\n" + next(env2)
	}
	if len(x.Lhs) != 1 || len(x.Rhs) != 1 {
		t.fail(x, "unsupported assignment with %d left and %d right sides", len(x.Lhs), len(x.Rhs))
	}
	id, ok := x.Lhs[0].(*ast.Ident)
	if !ok {
		t.fail(x.Lhs[0], "assignment to something that is not a local")
	}
	if _, isCall := t.depthCall(x.Rhs[0], env); isCall {
		t.fail(x, "call of Depth outside `a, b := x.Depth(e1, e2)`")
	}
	k, c := t.expr(x.Rhs[0], env)
	if k == c14tNet || k == c14tNType {
		t.fail(x, "local of type %s", k)
	}
	env2 := env
	switch x.Tok {
	case token.DEFINE:
		if id.Name == "_" {
			t.fail(x, "`_ :=`")
		}
		env2 = t.declare(id, env, k)
	case token.ASSIGN:
		if id.Name == "_" {
			return t.takeBinds(ind) + next(env)
		}
		if k0, bound := env[id.Name]; !bound || k0 != k {
			t.fail(x, "assignment of %s to %s", k, id.Name)
		}
	case token.ADD_ASSIGN, token.SUB_ASSIGN:
		if k0, bound := env[id.Name]; !bound || k0 != c14tInt || k != c14tInt {
			t.fail(x, "%s on something that is not an int local", x.Tok)
		}
		op := "Z.add"
		if x.Tok == token.SUB_ASSIGN {
			op = "Z.sub"
		}
		c = "(" + op + " " + t.coqVar(id) + " " + c + ")"
	default:
		t.fail(x, "unsupported assignment operator %s", x.Tok)
	}
	return t.takeBinds(ind) + ind + "let " + t.coqVar(id) + " := " + c + " in\n" + next(env2)
}

func c14tBound(env c14tEnv, name string) bool { _, ok := env[name]; return ok }

func (t *c14tTr) ifStmt(x *ast.IfStmt, env c14tEnv, ind string, k func() string) string {
	var b strings.Builder
	inner := env
	if x.Init != nil {
		a, ok := x.Init.(*ast.AssignStmt)
		if !ok {
			t.fail(x.Init, "unsupported if-init statement %T", x.Init)
		}
		// the init statement, then the if itself in the scope it opens
		return t.assign(a, env, ind, func(env2 c14tEnv) string {
			y := *x
			y.Init = nil
			return t.ifStmt(&y, env2, ind, k)
		})
	}
	kc, c := t.expr(x.Cond, inner)
	if kc != c14tBool {
		t.fail(x.Cond, "condition of type %s", kc)
	}
	b.WriteString(t.takeBinds(ind))
	b.WriteString(ind + "if " + c + " then (\n")
	b.WriteString(t.stmts(x.Body.List, inner, ind+"  ", k))
	b.WriteString("\n" + ind + ") else (\n")
	switch e := x.Else.(type) {
	case nil:
		b.WriteString(k2(k, ind+"  "))
	case *ast.BlockStmt:
		b.WriteString(t.stmts(e.List, inner, ind+"  ", k))
	case *ast.IfStmt:
		b.WriteString(t.ifStmt(e, inner, ind+"  ", k))
	default:
		t.fail(x.Else, "unsupported else %T", x.Else)
	}
	b.WriteString("\n" + ind + ")")
	return b.String()
}

// the continuation is produced at the indentation of its first use; re-indent a copy by the difference
func k2(k func() string, ind string) string {
	s := k()
	lines := strings.Split(s, "\n")
	if len(lines) == 0 {
		return s
	}
	cur := len(lines[0]) - len(strings.TrimLeft(lines[0], " "))
	if cur >= len(ind) {
		return s
	}
	pad := strings.Repeat(" ", len(ind)-cur)
	for i := range lines {
		if lines[i] != "" {
			lines[i] = pad + lines[i]
		}
	}
	return strings.Join(lines, "\n")
}

// assigned collects, in order of first occurrence, the locals visible in env that the statements assign
func (t *c14tTr) assigned(body *ast.BlockStmt, env c14tEnv) []string {
	var names []string
	seen := map[string]bool{}
	add := func(e ast.Expr) {
		if id, ok := e.(*ast.Ident); ok && id.Name != "_" && c14tBound(env, id.Name) && !seen[id.Name] {
			seen[id.Name] = true
			names = append(names, id.Name)
		}
	}
	ast.Inspect(body, func(n ast.Node) bool {
		switch s := n.(type) {
		case *ast.AssignStmt:
			if s.Tok != token.DEFINE { // `:=` of a visible name is rejected by declare
				for _, l := range s.Lhs {
					add(l)
				}
			}
		case *ast.IncDecStmt:
			add(s.X)
		case *ast.FuncLit:
			t.fail(s, "unsupported function literal")
		}
		return true
	})
	return names
}

func (t *c14tTr) rangeStmt(x *ast.RangeStmt, env c14tEnv, ind string, k func() string) string {
	if t.inLoop {
		t.fail(x, "nested loop")
	}
	if x.Key != nil && !c14tIsIdent(x.Key, "_") {
		t.fail(x, "range loop that uses the index")
	}
	val, ok := x.Value.(*ast.Ident)
	if !ok || x.Tok != token.DEFINE {
		t.fail(x, "range loop without `_, v :=`")
	}
	sel, ok := x.X.(*ast.SelectorExpr)
	if !ok {
		t.fail(x.X, "range over %s (only x.Incoming of a *NNode, n.Outputs of the *Network receiver)", t.src(x.X))
	}
	var list string
	var elem c14tKind
	if id, isId := sel.X.(*ast.Ident); isId && c14tBound(env, id.Name) && env[id.Name] == c14tNet {
		if sel.Sel.Name != "Outputs" {
			t.fail(x.X, "range over the field %s of the *Network receiver (only Outputs)", sel.Sel.Name)
		}
		list, elem = "(n_outputs g)", c14tNode
	} else {
		kx, c := t.expr(sel.X, env)
		if kx != c14tNode || sel.Sel.Name != "Incoming" {
			t.fail(x.X, "range over .%s of %s (only x.Incoming of a *NNode)", sel.Sel.Name, kx)
		}
		list, elem = "(d_incoming g "+c+")", c14tLink
	}
	binds := t.takeBinds(ind)
	names := t.assigned(x.Body, env)
	parts := make([]string, 0, len(names)+1)
	for _, n := range names {
		parts = append(parts, "v_"+n)
	}
	parts = append(parts, "h_visited")
	tuple := strings.Join(parts, ", ")
	pat := "'(" + tuple + ")"
	if len(parts) == 1 {
		pat = tuple
	} else {
		tuple = "(" + tuple + ")"
	}
	inner := t.declare(val, env, elem)
	vname := "_"
	if val.Name != "_" {
		vname = t.coqVar(val)
	}
	t.inLoop, t.tuple = true, tuple
	body := t.stmts(x.Body.List, inner, ind+"    ", func() string { return ind + "    Ok (LNext " + tuple + ")" })
	t.inLoop, t.tuple = false, ""
	var b strings.Builder
	b.WriteString(binds)
	b.WriteString(ind + "do st <- d_for " + list + " (fun " + pat + " " + vname + " =>\n")
	b.WriteString(body + ")\n")
	b.WriteString(ind + "    " + tuple + ";\n")
	b.WriteString(ind + "match st with\n")
	b.WriteString(ind + "| LRet r => Ok r\n")
	b.WriteString(ind + "| LNext " + tuple + " =>\n")
	b.WriteString(k2(k, ind+"  "))
	b.WriteString("\n" + ind + "end")
	return b.String()
}

func (t *c14tTr) run(f func()) (err error) {
	defer func() {
		if p := recover(); p != nil {
			if e, ok := p.(c14tError); ok {
				err = fmt.Errorf("%s", e.msg)
				return
			}
			panic(p)
		}
	}()
	f()
	return nil
}

// signature checks: receiver name, parameter list (name, type ident) and result type idents
func (t *c14tTr) signature(fd *ast.FuncDecl, params int, results []string) []*ast.Ident {
	if fd.Body == nil {
		t.fail(fd, "method without a body")
	}
	if len(fd.Recv.List[0].Names) != 1 || fd.Recv.List[0].Names[0].Name == "_" {
		t.fail(fd, "the receiver has no name")
	}
	ids := []*ast.Ident{fd.Recv.List[0].Names[0]}
	if fd.Type.TypeParams != nil {
		t.fail(fd, "type parameters")
	}
	if fd.Type.Params != nil {
		for _, f := range fd.Type.Params.List {
			if !c14tIsIdent(f.Type, "int") || len(f.Names) == 0 {
				t.fail(f, "parameter that is not a named int")
			}
			ids = append(ids, f.Names...)
		}
	}
	if len(ids) != params+1 {
		t.fail(fd.Type, "%d parameters, expected %d ints", len(ids)-1, params)
	}
	var got []string
	if fd.Type.Results != nil {
		for _, f := range fd.Type.Results.List {
			if len(f.Names) != 0 {
				t.fail(f, "named results")
			}
			got = append(got, types.ExprString(f.Type))
		}
	}
	if strings.Join(got, ",") != strings.Join(results, ",") {
		t.fail(fd.Type, "results (%s), expected (%s)", strings.Join(got, ", "), strings.Join(results, ", "))
	}
	seen := map[string]bool{}
	for _, id := range ids {
		t.coqVar(id)
		switch id.Name {
		case "_", "nil", "true", "false", "len", "errors", "ErrMaximalNetDepthExceeded":
			t.fail(id, "unsupported parameter name %q", id.Name)
		}
		if _, ok := c14tNTypeConst[id.Name]; ok || seen[id.Name] {
			t.fail(id, "unsupported parameter name %q", id.Name)
		}
		seen[id.Name] = true
	}
	return ids
}

func (t *c14tTr) noFallThrough(fd *ast.FuncDecl) func() string {
	return func() string {
		t.fail(fd.Body, "control reaches the end of the function without a return")
		return ""
	}
}

type c14tPkg struct {
	fset    *token.FileSet
	files   map[string]*ast.File
	structs map[string]*ast.StructType
	vars    map[string]bool
}

func c14tParsePkg(dir string) (*c14tPkg, error) {
	p := &c14tPkg{fset: token.NewFileSet(), files: map[string]*ast.File{}, structs: map[string]*ast.StructType{}, vars: map[string]bool{}}
	ents, err := os.ReadDir(dir)
	if err != nil {
		return nil, err
	}
	var names []string
	for _, e := range ents {
		if n := e.Name(); strings.HasSuffix(n, ".go") && !strings.HasSuffix(n, "_test.go") {
			names = append(names, n)
		}
	}
	sort.Strings(names)
	for _, n := range names {
		path := filepath.Join(dir, n)
		f, err := parser.ParseFile(p.fset, path, nil, 0)
		if err != nil {
			return nil, err
		}
		p.files[n] = f
		for _, d := range f.Decls {
			gd, ok := d.(*ast.GenDecl)
			if !ok {
				continue
			}
			for _, sp := range gd.Specs {
				switch s := sp.(type) {
				case *ast.TypeSpec:
					if st, ok := s.Type.(*ast.StructType); ok {
						p.structs[s.Name.Name] = st
					}
				case *ast.ValueSpec:
					if gd.Tok == token.VAR {
						for _, id := range s.Names {
							p.vars[id.Name] = true
						}
					}
				}
			}
		}
	}
	return p, nil
}

func (p *c14tPkg) field(strct, field, typ string) error {
	st := p.structs[strct]
	if st == nil {
		return fmt.Errorf("neat/network: struct %s not found", strct)
	}
	for _, f := range st.Fields.List {
		for _, id := range f.Names {
			if id.Name == field {
				if got := types.ExprString(f.Type); got != typ {
					return fmt.Errorf("%s: field %s.%s has type %s, the translation reads it as %s", p.fset.Position(id.Pos()), strct, field, got, typ)
				}
				return nil
			}
		}
	}
	return fmt.Errorf("neat/network: struct %s has no field %s", strct, field)
}

func (p *c14tPkg) method(file, recvType, name string) (*ast.FuncDecl, error) {
	f := p.files[file]
	if f == nil {
		return nil, fmt.Errorf("neat/network/%s not found", file)
	}
	var fd *ast.FuncDecl
	for _, d := range f.Decls {
		m, ok := d.(*ast.FuncDecl)
		if !ok || m.Name.Name != name || m.Recv == nil || len(m.Recv.List) != 1 {
			continue
		}
		st, ok := m.Recv.List[0].Type.(*ast.StarExpr)
		if !ok || !c14tIsIdent(st.X, recvType) {
			continue
		}
		if fd != nil {
			return nil, fmt.Errorf("%s: two methods %s.%s", p.fset.Position(m.Pos()), recvType, name)
		}
		fd = m
	}
	if fd == nil {
		return nil, fmt.Errorf("neat/network/%s: method (*%s).%s not found", file, recvType, name)
	}
	return fd, nil
}

const c14tPrelude = `From NeatModel Require Import Res Depth.

(* ---- fixed part: what the translated constructs mean ---- *)

(* outcome of one pass through a loop body: go on with the state, or leave the function with a result *)
Inductive lctl (S R : Type) : Type := LNext (s : S) | LRet (r : R).
Arguments LNext {S R} s.
Arguments LRet {S R} r.

(* for _, x := range l { body }: the slice is evaluated once; the body may continue, return, or fail *)
Fixpoint d_for {A S R : Type} (l : list A) (f : S -> A -> res (lctl S R)) (s : S) : res (lctl S R) :=
  match l with
  | [] => Ok (LNext s)
  | x :: l' =>
    match f s x with
    | Ok (LNext s') => d_for l' f s'
    | r => r
    end
  end.

(* n.Incoming: the links (InNode, OutNode) that end in the node, in link order *)
Definition d_incoming (g : net) (id : Z) : list (Z * Z) := filter (fun l => snd l =? id) (n_links g).

(* err != nil *)
Definition d_is_err (e : derr) : bool := match e with NoErr => false | _ => true end.

Definition ntype_eqb (a b : ntype) : bool :=
  match a, b with
  | HiddenN, HiddenN | InputN, InputN | OutputN, OutputN | BiasN, BiasN => true
  | _, _ => false
  end.

(* ---- translated part ---- *)
`

func c14tTranslateDepthBodies(outDir string) error {
	dir := filepath.Join(repoRoot(), "neat", "network")
	pkg, err := c14tParsePkg(dir)
	if err != nil {
		return err
	}
	for _, c := range [][3]string{
		{"NNode", "visited", "bool"}, {"NNode", "Incoming", "[]*Link"}, {"NNode", "NeuronType", "NodeNeuronType"},
		{"Link", "InNode", "*NNode"}, {"Link", "OutNode", "*NNode"},
		{"Network", "Outputs", "[]*NNode"}, {"Network", "inputs", "[]*NNode"}, {"Network", "allNodes", "[]*NNode"}, {"Network", "controlNodes", "[]*NNode"},
	} {
		if err := pkg.field(c[0], c[1], c[2]); err != nil {
			return err
		}
	}
	pos := func(fd *ast.FuncDecl) string {
		p := pkg.fset.Position(fd.Pos())
		return fmt.Sprintf("%s:%d", filepath.Base(p.Filename), p.Line)
	}
	var texts []string

	// (*NNode).IsSensor
	fdS, err := pkg.method("nnode.go", "NNode", "IsSensor")
	if err != nil {
		return err
	}
	tS := &c14tTr{fset: pkg.fset, fn: "NNode.IsSensor", pkgVars: pkg.vars, recvKind: c14tNType}
	if err := tS.run(func() {
		ids := tS.signature(fdS, 0, []string{"bool"})
		tS.recv = ids[0].Name
		if len(fdS.Body.List) != 1 {
			tS.fail(fdS.Body, "body is not a single return statement")
		}
		ret, ok := fdS.Body.List[0].(*ast.ReturnStmt)
		if !ok || len(ret.Results) != 1 {
			tS.fail(fdS.Body, "body is not a single return statement")
		}
		k, c := tS.expr(ret.Results[0], c14tEnv{tS.recv: c14tNode})
		if k != c14tBool || len(tS.pending) != 0 {
			tS.fail(ret, "IsSensor does not return a plain condition on n.NeuronType")
		}
		texts = append(texts, fmt.Sprintf("(* %s  func (%s *NNode) IsSensor() bool *)\nDefinition gen_is_sensor (t_NeuronType : ntype) : bool :=\n  %s.\n\n"+
			"(* x.IsSensor() on a node pointer: the NeuronType behind the id; an id that names no node is not a Go network *)\n"+
			"Definition d_is_sensor (g : net) (id : Z) : res bool :=\n  match type_of (n_nodes g) id with\n  | None => BadOracle\n  | Some t => Ok (gen_is_sensor t)\n  end.\n",
			pos(fdS), tS.recv, c))
	}); err != nil {
		return err
	}

	// (*NNode).Depth
	fdD, err := pkg.method("nnode.go", "NNode", "Depth")
	if err != nil {
		return err
	}
	tD := &c14tTr{fset: pkg.fset, fn: "NNode.Depth", pkgVars: pkg.vars, recvKind: c14tNode, fuel: "fuel"}
	if err := tD.run(func() {
		ids := tD.signature(fdD, 2, []string{"int", "error"})
		tD.recv = ids[0].Name
		env := c14tEnv{ids[0].Name: c14tNode, ids[1].Name: c14tInt, ids[2].Name: c14tInt}
		body := tD.stmts(fdD.Body.List, env, "    ", tD.noFallThrough(fdD))
		texts = append(texts, fmt.Sprintf("(* %s  func (%s *NNode) Depth(%s int, %s int) (int, error) *)\n"+
			"Fixpoint gen_depth (g : net) (fuel : nat) (v_%s : Z) (v_%s : Z) (v_%s : Z) (h_visited : list Z) {struct fuel} : res dres :=\n"+
			"  match fuel with\n  | O => OutOfFuel\n  | S fuel =>\n%s\n  end.\n",
			pos(fdD), ids[0].Name, ids[1].Name, ids[2].Name, ids[2].Name, ids[0].Name, ids[1].Name, body))
	}); err != nil {
		return err
	}

	// (*Network).MaxActivationDepthWithCap
	fdM, err := pkg.method("network.go", "Network", "MaxActivationDepthWithCap")
	if err != nil {
		return err
	}
	tM := &c14tTr{fset: pkg.fset, fn: "Network.MaxActivationDepthWithCap", pkgVars: pkg.vars, recvKind: c14tNet, fuel: "(depth_fuel g)"}
	for _, im := range pkg.files["network.go"].Imports {
		p, _ := strconv.Unquote(im.Path.Value)
		if im.Name != nil && im.Name.Name == "errors" && p != "errors" {
			return fmt.Errorf("%s: the name errors is bound to package %q", pkg.fset.Position(im.Pos()), p)
		}
		if p == "errors" && (im.Name == nil || im.Name.Name == "errors") {
			tM.errorsOK = true
		}
	}
	if err := tM.run(func() {
		ids := tM.signature(fdM, 1, []string{"int", "error"})
		tM.recv = ids[0].Name
		env := c14tEnv{ids[0].Name: c14tNet, ids[1].Name: c14tInt}
		body := tM.stmts(fdM.Body.List, env, "  ", tM.noFallThrough(fdM))
		texts = append(texts, fmt.Sprintf("(* %s  func (%s *Network) MaxActivationDepthWithCap(%s int) (int, error) *)\n"+
			"Definition gen_max_depth_cap (g : net) (v_%s : Z) (h_visited : list Z) : res dres :=\n%s.\n",
			pos(fdM), ids[0].Name, ids[1].Name, ids[1].Name, body))
	}); err != nil {
		return err
	}

	if err = os.MkdirAll(outDir, 0o755); err != nil {
		return err
	}
	tmp := filepath.Join(outDir, "DepthBodies.v.tmp")
	out, err := os.Create(tmp)
	if err != nil {
		return err
	}
	w := bufio.NewWriter(out)
	fmt.Fprintf(w, "(* GENERATED by `neatverif translate depthbodies` from neat/network/nnode.go and network.go -- do not edit.\n")
	fmt.Fprintf(w, "   The bodies of NNode.IsSensor, NNode.Depth and Network.MaxActivationDepthWithCap translated construct by\n")
	fmt.Fprintf(w, "   construct (harness/c14_translate.go) over the state of model/Depth.v: g is the network, a *NNode is its id, a\n")
	fmt.Fprintf(w, "   *Link the pair (InNode, OutNode), h_visited the ids whose field `visited` is set (x.visited = true conses,\n")
	fmt.Fprintf(w, "   = false is Depth.unmark, reading is Depth.mem); every function returns (int, error, h_visited).  v_<name> is\n")
	fmt.Fprintf(w, "   the Go variable <name>, p_<n> a temporary.  The recursion of Depth is a Fixpoint on fuel (OutOfFuel when it runs\n")
	fmt.Fprintf(w, "   out); a range loop is d_for over the tuple (variables it assigns, h_visited), its body answering LNext (go on /\n")
	fmt.Fprintf(w, "   continue) or LRet (return); the rest of a block is copied behind each branch of an if that falls through;\n")
	fmt.Fprintf(w, "   Go ints are unbounded integers.  proofs/DepthBodiesAgree.v proves them equal to is_sensor / depth /\n")
	fmt.Fprintf(w, "   max_depth_cap of model/Depth.v for every network, fuel, cap and set of marks. *)\n")
	fmt.Fprintf(w, "%s\n", c14tPrelude)
	for _, txt := range texts {
		fmt.Fprintf(w, "%s\n", txt)
	}
	if err = w.Flush(); err != nil {
		return err
	}
	if err = out.Close(); err != nil {
		return err
	}
	dst := filepath.Join(outDir, "DepthBodies.v")
	if old, e := os.ReadFile(dst); e == nil {
		if nw, e2 := os.ReadFile(tmp); e2 == nil && string(old) == string(nw) {
			return os.Remove(tmp)
		}
	}
	return os.Rename(tmp, dst)
}
