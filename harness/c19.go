package main

import (
	"encoding/json"
	"fmt"
	neatmath "github.com/yaricom/goNEAT/v4/neat/math"
	"github.com/yaricom/goNEAT/v4/neat/network"
	"math"
	"math/big"
	"sort"
	"strconv"
	"strings"
	"time"
	"unsafe"

	"github.com/yaricom/goNEAT/v4/experiment"
	"github.com/yaricom/goNEAT/v4/neat/genetics"
)

// C19: (a) the ten descriptive statistics of experiment.Floats on generated series, (b) the aggregate
// accessors of Experiment / Trial / Generation on synthetic experiments.  Every call goes through the
// real code under recover; a panic is an observation (GoPanic code), never a harness crash.

func init() {
	runners["C19"] = runC19
	replayers["C19"] = replayC19
}

// ---------- inputs (JSON, replayable) ----------

type c19Series struct {
	Aligned bool     `json:"aligned"` // first element on a 16-byte boundary (gonum's amd64 Sum looks at it)
	Hex     []string `json:"x_hex"`
	Dec     []string `json:"x"` // the same values in decimal, for the reader
}

type c19Champ struct {
	Fit      float64 `json:"fitness"`
	Age      *int    `json:"species_age"` // nil: organism without species
	Hidden   int     `json:"hidden_nodes"`
	Disabled int     `json:"disabled_gene_mask"`
	Mods     int     `json:"modules,omitempty"` // enabled modules (two inputs, one output each) on top of the plain genome
}

type c19GenIn struct {
	Solved      bool      `json:"solved"`
	Champ       *c19Champ `json:"champion"`
	Fitness     []float64 `json:"fitness"`
	Age         []float64 `json:"age"`
	Complexity  []float64 `json:"complexity"`
	Diversity   int       `json:"diversity"`
	WinnerNodes int       `json:"winner_nodes"`
	WinnerGenes int       `json:"winner_genes"`
	WinnerEvals int       `json:"winner_evals"`
	DurationNs  int64     `json:"duration_ns"`
}

type c19TrialIn struct {
	Gens       []c19GenIn `json:"generations"`
	DurationNs int64      `json:"duration_ns"`
	PreCache   bool       `json:"winner_statistics_called_before"`
}

type c19ExpIn struct {
	Trials []c19TrialIn `json:"trials"`
}

type c19SpeciesIn struct {
	Age  int        `json:"age"`
	Orgs []c19Champ `json:"organisms"` // species_age of the organisms is ignored: it is the species' age
}

type c19FillIn struct {
	Solved  bool           `json:"solved"`
	Species []c19SpeciesIn `json:"species"`
}

type c19Input struct {
	Kind   string     `json:"kind"` // "series" | "experiment" | "fill"
	Series *c19Series `json:"series,omitempty"`
	Exp    *c19ExpIn  `json:"experiment,omitempty"`
	Fill   *c19FillIn `json:"population,omitempty"`
}

// ---------- helpers ----------

// c19Place copies vals into a fresh slice whose first element has the requested 16-byte alignment
func c19Place(vals []float64, aligned bool) []float64 {
	n := len(vals)
	if n == 0 {
		return []float64{}
	}
	buf := make([]float64, n+2)
	off := 0
	if (uintptr(unsafe.Pointer(&buf[0]))%16 == 0) != aligned {
		off = 1
	}
	s := buf[off : off+n : off+n]
	copy(s, vals)
	if (uintptr(unsafe.Pointer(&s[0]))%16 == 0) != aligned {
		panic("c19: cannot place slice")
	}
	return s
}

func c19Hex(x float64) string {
	switch {
	case math.IsNaN(x):
		return "NaN"
	case math.IsInf(x, 1):
		return "+Inf"
	case math.IsInf(x, -1):
		return "-Inf"
	}
	return strconv.FormatFloat(x, 'x', -1, 64)
}

func c19ParseHex(s string) float64 {
	switch s {
	case "NaN":
		return math.NaN()
	case "+Inf":
		return math.Inf(1)
	case "-Inf":
		return math.Inf(-1)
	}
	v, err := strconv.ParseFloat(s, 64)
	if err != nil {
		panic(err)
	}
	return v
}

func c19SeriesOf(xs []float64, aligned bool) *c19Series {
	s := &c19Series{Aligned: aligned, Hex: make([]string, len(xs)), Dec: make([]string, len(xs))}
	for i, v := range xs {
		s.Hex[i] = c19Hex(v)
		s.Dec[i] = strconv.FormatFloat(v, 'g', -1, 64)
	}
	return s
}

// c19Code maps a recovered panic value to the panic codes of coq/model/Stats.v, Exper.v
func c19Code(p interface{}) int {
	msg := fmt.Sprint(p)
	switch {
	case strings.Contains(msg, "floats: zero length"):
		return 1
	case strings.Contains(msg, "index out of range"):
		return 2
	case strings.Contains(msg, "percentile out of bounds"):
		return 3
	case strings.Contains(msg, "stat: zero length"):
		return 4
	case strings.Contains(msg, "not sorted"):
		return 5
	case strings.Contains(msg, "impossible"):
		return 6
	case strings.Contains(msg, "nil pointer dereference"):
		return 7
	}
	return 99
}

// c19Call runs f; code 0 = returned normally
func c19Call(f func()) (code int, msg string) {
	defer func() {
		if p := recover(); p != nil {
			code = c19Code(p)
			msg = fmt.Sprint(p)
		}
	}()
	f()
	return 0, ""
}

type c19F struct { // a float result or a panic
	V    float64
	Code int
	Msg  string
}

func c19Float(f func() float64) c19F {
	var r c19F
	r.Code, r.Msg = c19Call(func() { r.V = f() })
	return r
}

func (r c19F) term() string {
	if r.Code != 0 {
		return fmt.Sprintf("(GoPanic %d)", r.Code)
	}
	return "(Ok " + F(r.V) + ")"
}

func (r c19F) String() string {
	if r.Code != 0 {
		return "panic: " + r.Msg
	}
	return strconv.FormatFloat(r.V, 'g', -1, 64)
}

func c19SameFloat(a, b float64) bool {
	return (math.IsNaN(a) && math.IsNaN(b)) || a == b
}

func c19SameBits(a, b float64) bool {
	return (math.IsNaN(a) && math.IsNaN(b)) || math.Float64bits(a) == math.Float64bits(b)
}

func c19AllFinite(xs []float64) bool {
	for _, v := range xs {
		if math.IsNaN(v) || math.IsInf(v, 0) {
			return false
		}
	}
	return true
}

// ---------- (a) statistics ----------

type c19Stats struct {
	Min, Max, Sum, Mean, MVm, MVv, Var, Std, Med, Q25, Q75 c19F
}

func c19Observe(x experiment.Floats) c19Stats {
	var o c19Stats
	o.Min = c19Float(x.Min)
	o.Max = c19Float(x.Max)
	o.Sum = c19Float(x.Sum)
	o.Mean = c19Float(x.Mean)
	var mv []float64
	code, msg := c19Call(func() { mv = x.MeanVariance() })
	if code == 0 && len(mv) == 2 {
		o.MVm, o.MVv = c19F{V: mv[0]}, c19F{V: mv[1]}
	} else {
		if code == 0 {
			code, msg = 99, fmt.Sprintf("MeanVariance returned %d values", len(mv))
		}
		o.MVm, o.MVv = c19F{Code: code, Msg: msg}, c19F{Code: code, Msg: msg}
	}
	o.Var = c19Float(x.Variance)
	o.Std = c19Float(x.StdDev)
	o.Med = c19Float(x.Median)
	o.Q25 = c19Float(x.Q25)
	o.Q75 = c19Float(x.Q75)
	return o
}

var c19StatNames = []string{"Min", "Max", "Sum", "Mean", "MeanVariance[0]", "MeanVariance[1]", "Variance", "StdDev", "Median", "Q25", "Q75"}

func (o c19Stats) all() map[string]c19F {
	return map[string]c19F{"Min": o.Min, "Max": o.Max, "Sum": o.Sum, "Mean": o.Mean, "MeanVariance[0]": o.MVm,
		"MeanVariance[1]": o.MVv, "Variance": o.Var, "StdDev": o.Std, "Median": o.Med, "Q25": o.Q25, "Q75": o.Q75}
}

func (o c19Stats) show() map[string]string {
	m := map[string]string{}
	for k, v := range o.all() {
		m[k] = v.String()
	}
	return m
}

// exact rational moments of a finite series
func c19Exact(xs []float64) (sum, mean, variance *big.Rat) {
	sum = new(big.Rat)
	for _, v := range xs {
		sum.Add(sum, new(big.Rat).SetFloat64(v))
	}
	n := big.NewRat(int64(len(xs)), 1)
	mean = new(big.Rat).Quo(sum, n)
	ss := new(big.Rat)
	for _, v := range xs {
		d := new(big.Rat).Sub(new(big.Rat).SetFloat64(v), mean)
		ss.Add(ss, d.Mul(d, d))
	}
	if len(xs) >= 2 {
		variance = new(big.Rat).Quo(ss, big.NewRat(int64(len(xs)-1), 1))
	}
	return sum, mean, variance
}

func c19RatF(r *big.Rat) float64 { f, _ := r.Float64(); return f }

// the empirical p-quantile (p = num/den) by its definition: the least element whose empirical CDF >= p
func c19QuantileDef(xs []float64, num, den int) float64 {
	n := len(xs)
	best := math.NaN()
	for _, q := range xs {
		cnt := 0
		for _, v := range xs {
			if v <= q {
				cnt++
			}
		}
		if cnt*den >= num*n && (math.IsNaN(best) || q < best) {
			best = q
		}
	}
	return best
}

const c19Eps = 1.0 / (1 << 52)

// c19StatsOracle checks the property statement on the real results (independent of the Coq model)
func c19StatsOracle(in *c19Series, xs []float64, o c19Stats) (fails []Failure) {
	fail := func(key, what string, req interface{}) {
		fails = append(fails, Failure{Key: "floats-" + key, What: what, Input: c19Input{Kind: "series", Series: in},
			Observed: o.show(), Required: req})
	}
	all := o.all()
	// never panics
	for _, name := range c19StatNames {
		if v := all[name]; v.Code != 0 {
			fail("panic-"+strings.ToLower(name), "Floats."+name+" panicked: "+v.Msg, "no panic on any series")
			return
		}
	}
	n := len(xs)
	if n == 0 {
		for _, name := range c19StatNames {
			v := all[name]
			if name == "Sum" {
				if v.V != 0 {
					fail("empty-sum", "Sum of the empty series is not 0", 0)
				}
			} else if !math.IsNaN(v.V) {
				fail("empty-"+strings.ToLower(name), "Floats."+name+" of the empty series is not NaN", "NaN")
			}
		}
		return fails
	}
	if !c19AllFinite(xs) {
		return fails // the statement quantifies over finite series; non-finite series only go through the correspondence
	}
	// min / max: member and bound
	memberMin, memberMax := false, false
	maxAbs := 0.0
	sumAbs := 0.0
	for _, v := range xs {
		if v == o.Min.V {
			memberMin = true
		}
		if v == o.Max.V {
			memberMax = true
		}
		if v < o.Min.V || v > o.Max.V {
			fail("minmax-bound", "Min/Max is not a bound of the series", "Min <= x_i <= Max for all i")
			break
		}
		maxAbs = math.Max(maxAbs, math.Abs(v))
		sumAbs += math.Abs(v)
	}
	if !memberMin || !memberMax {
		fail("minmax-member", "Min/Max is not an element of the series", "an element")
	}
	// sum, mean, variance against exact rational arithmetic
	es, em, ev := c19Exact(xs)
	if big.NewFloat(sumAbs).IsInf() || math.IsInf(sumAbs*sumAbs, 0) {
		// partial sums or squares may overflow: nothing to compare
	} else {
		tolS := 4 * float64(n) * c19Eps * sumAbs
		if d := math.Abs(o.Sum.V - c19RatF(es)); d > tolS {
			fail("sum", "Sum differs from the exact sum by more than the summation error bound", c19RatF(es))
		}
		if d := math.Abs(o.Mean.V - c19RatF(em)); d > tolS/float64(n)+c19Eps*math.Abs(c19RatF(em)) {
			fail("mean", "Mean differs from sum/n", c19RatF(em))
		}
		if n == 1 {
			if !math.IsNaN(o.Var.V) || !math.IsNaN(o.Std.V) {
				fail("single-variance", "variance / standard deviation of a one-element series is not NaN (0/0)", "NaN")
			}
		} else {
			want := c19RatF(ev)
			tolV := 1e-9*want + 64*float64(n)*(c19Eps*maxAbs)*(c19Eps*maxAbs) + 16*c19Eps*maxAbs*math.Sqrt(want)
			if d := math.Abs(o.Var.V - want); !(d <= tolV) {
				fail("variance", "Variance differs from the unbiased sample variance sum((x-mean)^2)/(n-1)", want)
			}
			if o.Var.V < 0 {
				fail("variance-negative", "Variance is negative", ">= 0")
			}
		}
	}
	if !c19SameBits(o.Std.V, math.Sqrt(o.Var.V)) {
		fail("stddev", "StdDev is not the square root of Variance", math.Sqrt(o.Var.V))
	}
	if !c19SameBits(o.MVm.V, o.Mean.V) || !c19SameBits(o.MVv.V, o.Var.V) {
		fail("meanvariance", "MeanVariance differs from (Mean, Variance)", []float64{o.Mean.V, o.Var.V})
	}
	// quantiles by definition
	for _, q := range []struct {
		name     string
		got      float64
		num, den int
	}{{"median", o.Med.V, 1, 2}, {"q25", o.Q25.V, 1, 4}, {"q75", o.Q75.V, 3, 4}} {
		want := c19QuantileDef(xs, q.num, q.den)
		if !(q.got == want) {
			fail("quantile-"+q.name, fmt.Sprintf("%s is not the least element whose empirical CDF >= %d/%d", q.name, q.num, q.den), want)
		}
	}
	return fails
}

func c19StatsTerm(id int, aligned bool, xs []float64, o c19Stats) string {
	fl := func(v c19F) string {
		if v.Code != 0 {
			return "nan" // cannot be represented: the oracle has already failed the case (never panics)
		}
		return F(v.V)
	}
	return fmt.Sprintf("{| c19s_id := %d; c19s_al := %s; c19s_xs := %s;\n     c19s_min := %s; c19s_max := %s; c19s_sum := %s; c19s_mean := %s; c19s_mvm := %s; c19s_mvv := %s;\n     c19s_var := %s; c19s_std := %s; c19s_med := %s; c19s_q25 := %s; c19s_q75 := %s |}",
		id, B(aligned), FList(xs), o.Min.term(), o.Max.term(), fl(o.Sum), fl(o.Mean), fl(o.MVm), fl(o.MVv),
		fl(o.Var), fl(o.Std), o.Med.term(), o.Q25.term(), o.Q75.term())
}

// c19SeriesRun runs one series through the real code and the Go-side oracle
func c19SeriesRun(vals []float64, aligned bool) (c19Stats, []Failure) {
	x := c19Place(vals, aligned)
	in := c19SeriesOf(vals, aligned)
	before := append([]float64(nil), x...)
	o := c19Observe(experiment.Floats(x))
	var fails []Failure
	for i := range x {
		if !c19SameBits(x[i], before[i]) {
			fails = append(fails, Failure{Key: "floats-input-modified", What: "a statistic reordered or changed the series it was called on",
				Input: c19Input{Kind: "series", Series: in}, Observed: fmt.Sprint([]float64(x)), Required: "series left as it was"})
			break
		}
	}
	fails = append(fails, c19StatsOracle(in, vals, o)...)
	// order independence: the same multiset sorted, reversed and rotated must give the same order
	// statistics exactly and the same moments up to summation error (checked against the exact values)
	if len(vals) > 1 && c19AllFinite(vals) {
		perms := [][]float64{append([]float64(nil), vals...), append([]float64(nil), vals...), append([]float64(nil), vals...)}
		sort.Float64s(perms[0])
		sort.Sort(sort.Reverse(sort.Float64Slice(perms[1])))
		k := len(vals) / 2
		copy(perms[2], append(append([]float64(nil), vals[k:]...), vals[:k]...))
		for pi, p := range perms {
			po := c19Observe(experiment.Floats(c19Place(p, aligned)))
			fails = append(fails, c19StatsOracle(c19SeriesOf(p, aligned), p, po)...)
			for _, pr := range [][2]c19F{{o.Min, po.Min}, {o.Max, po.Max}, {o.Med, po.Med}, {o.Q25, po.Q25}, {o.Q75, po.Q75}} {
				if pr[0].Code == 0 && pr[1].Code == 0 && !(pr[0].V == pr[1].V) {
					fails = append(fails, Failure{Key: "floats-order-dependence", What: "an order statistic changed when the same values were given in another order",
						Input: c19Input{Kind: "series", Series: in}, Observed: map[string]interface{}{"original": o.show(), "reordered": po.show(), "reordering": pi},
						Required: "identical Min/Max/Median/Q25/Q75"})
					break
				}
			}
		}
	}
	return o, fails
}

func c19HasKey(fs []Failure, key string) *Failure {
	for i := range fs {
		if fs[i].Key == key {
			return &fs[i]
		}
	}
	return nil
}

// c19ShrinkSeries greedily drops blocks of elements while a failure with the same key remains
func c19ShrinkSeries(vals []float64, aligned bool, key string) []float64 {
	cur := append([]float64(nil), vals...)
	for size := (len(cur) + 1) / 2; size >= 1; size /= 2 {
		for i := 0; i+size <= len(cur); {
			cand := append(append([]float64(nil), cur[:i]...), cur[i+size:]...)
			if _, fs := c19SeriesRun(cand, aligned); c19HasKey(fs, key) != nil {
				cur = cand
			} else {
				i += size
			}
		}
	}
	return cur
}

// c19SeriesOne: one series through the real code, the oracle, and (cf != nil) into a case file
func c19SeriesOne(r *Run, cf *CaseFile, id int, vals []float64, aligned bool, family string) {
	in := c19SeriesOf(vals, aligned)
	o, fails := c19SeriesRun(vals, aligned)
	if cf != nil {
		cf.Add(c19StatsTerm(id, aligned, vals, o))
		r.SaveInput(id, c19Input{Kind: "series", Series: in})
	}
	if len(fails) > 0 {
		// report the smallest series found that still fails the same way
		small := c19ShrinkSeries(vals, aligned, fails[0].Key)
		_, sf := c19SeriesRun(small, aligned)
		if f := c19HasKey(sf, fails[0].Key); f != nil {
			r.Fail(*f)
		} else {
			r.Fail(fails[0])
		}
	}
	nontrivial := len(vals) >= 2
	r.Count(fmt.Sprint(in.Hex, aligned), nontrivial)
	r.Hist("series_family", family)
	r.Hist("series_len", c19Bucket(len(vals)))
	r.Hist("aligned", fmt.Sprint(aligned))
	if len(vals) > 2 && len(vals) < 8 {
		r.Sample(map[string]interface{}{"series": in, "observed": o.show()})
	}
}

func c19Bucket(n int) string {
	switch {
	case n == 0:
		return "0"
	case n == 1:
		return "1"
	case n <= 4:
		return "2-4"
	case n <= 8:
		return "5-8"
	case n <= 16:
		return "9-16"
	case n <= 32:
		return "17-32"
	case n <= 64:
		return "33-64"
	}
	return "65-200"
}

// c19GenSeries draws one series; most are finite and "ordinary", with boundary families mixed in
func c19GenSeries(r *Run) (vals []float64, family string) {
	rng := r.Rng
	var n int
	switch rng.Intn(10) {
	case 0:
		n = rng.Intn(4) // 0..3
	case 1, 2:
		n = []int{7, 8, 9, 15, 16, 17, 18, 19, 23, 24, 25, 31, 32, 33, 34, 35, 47, 48, 49, 63, 64, 65}[rng.Intn(22)]
	case 3:
		n = 66 + rng.Intn(135)
	default:
		n = 1 + rng.Intn(40)
	}
	vals = make([]float64, n)
	switch f := rng.Intn(20); {
	case f < 6:
		family = "normal"
		scale := math.Pow(10, float64(rng.Intn(7)-3))
		for i := range vals {
			vals[i] = rng.NormFloat64() * scale
		}
	case f < 9:
		family = "small-integers-duplicates"
		k := 1 + rng.Intn(6)
		for i := range vals {
			vals[i] = float64(rng.Intn(k) - k/2)
		}
	case f < 11:
		family = "fitness-like"
		for i := range vals {
			vals[i] = math.Round(rng.Float64()*1600) / 100
		}
	case f < 12:
		family = "all-equal"
		v := rng.NormFloat64()
		for i := range vals {
			vals[i] = v
		}
	case f < 14:
		family = "large-offset"
		off := math.Pow(10, float64(6+rng.Intn(10)))
		for i := range vals {
			vals[i] = off + float64(rng.Intn(64))
		}
	case f < 16:
		family = "mixed-magnitude"
		for i := range vals {
			vals[i] = rng.NormFloat64() * math.Pow(2, float64(rng.Intn(80)-40))
		}
	case f < 17:
		family = "signed-zeros"
		for i := range vals {
			switch rng.Intn(4) {
			case 0:
				vals[i] = math.Copysign(0, -1)
			case 1:
				vals[i] = 0
			case 2:
				vals[i] = -1
			default:
				vals[i] = 1
			}
		}
	case f < 18:
		family = "extreme-finite"
		for i := range vals {
			vals[i] = []float64{math.MaxFloat64, -math.MaxFloat64, math.SmallestNonzeroFloat64, -math.SmallestNonzeroFloat64, 1, -1, 0x1p-1022}[rng.Intn(7)]
		}
	case f < 19:
		family = "non-finite"
		for i := range vals {
			switch rng.Intn(6) {
			case 0:
				vals[i] = math.NaN()
			case 1:
				vals[i] = math.Inf(1)
			case 2:
				vals[i] = math.Inf(-1)
			default:
				vals[i] = rng.NormFloat64()
			}
		}
	default:
		family = "uniform"
		for i := range vals {
			vals[i] = rng.Float64()*200 - 100
		}
	}
	// ordering
	switch rng.Intn(5) {
	case 0:
		sort.Float64s(vals)
		family += "/sorted"
	case 1:
		sort.Sort(sort.Reverse(sort.Float64Slice(vals)))
		family += "/reversed"
	default:
		family += "/shuffled"
	}
	return vals, family
}

// ---------- (b) experiments ----------

func c19Genome(hidden, disabledMask, id int) (*genetics.Genome, int) {
	var sb strings.Builder
	fmt.Fprintf(&sb, "genomestart %d\ntrait 1 0.1 0 0 0 0 0 0 0\n", id)
	sb.WriteString("node 1 1 1 1 NullActivation\nnode 2 1 1 3 NullActivation\nnode 3 1 0 2 LinearActivation\n")
	for h := 0; h < hidden; h++ {
		fmt.Fprintf(&sb, "node %d 1 0 0 SigmoidSteepenedActivation\n", 4+h)
	}
	type ge struct{ in, out int }
	genes := []ge{{1, 3}, {2, 3}}
	for h := 0; h < hidden; h++ {
		genes = append(genes, ge{1, 4 + h}, ge{4 + h, 3})
	}
	enabled := 0
	for i, g := range genes {
		en := disabledMask&(1<<uint(i)) == 0
		if en {
			enabled++
		}
		fmt.Fprintf(&sb, "gene 1 %d %d %g false %d 0 %v\n", g.in, g.out, 0.5+float64(i), i+1, en)
	}
	fmt.Fprintf(&sb, "genomeend %d\n", id)
	return readPlain(sb.String(), id), 3 + hidden + enabled
}

// c19WithModules adds k enabled modules (control node with two incoming links and one outgoing link): the
// expressed network gains one node and three links per module
func c19WithModules(g *genetics.Genome, cx int, k int) (*genetics.Genome, int) {
	if k <= 0 {
		return g, cx
	}
	var mods []*genetics.MIMOControlGene
	for m := 0; m < k; m++ {
		cn := network.NewNNode(100+m, network.HiddenNeuron)
		cn.ActivationType = neatmath.MultiplyModuleActivation
		cn.Incoming = append(cn.Incoming, network.NewLink(1.0, g.Nodes[0], cn, false), network.NewLink(1.0, g.Nodes[1], cn, false))
		cn.Outgoing = append(cn.Outgoing, network.NewLink(1.0, cn, g.Nodes[2], false))
		mods = append(mods, genetics.NewMIMOGene(cn, int64(1000+m), 0, true))
	}
	return genetics.NewModularGenome(g.Id, g.Traits, g.Nodes, g.Genes, mods), cx + 4*k
}

type c19Built struct {
	exp    *experiment.Experiment
	champs [][]*genetics.Organism // [trial][generation], nil when absent
	cplx   map[*genetics.Organism]int
}

func c19Build(in *c19ExpIn) *c19Built {
	b := &c19Built{exp: &experiment.Experiment{Id: 1, Name: "c19"}, cplx: map[*genetics.Organism]int{}}
	b.exp.Trials = make(experiment.Trials, len(in.Trials))
	gid := 1
	for ti, t := range in.Trials {
		tr := experiment.Trial{Id: ti, Duration: time.Duration(t.DurationNs)}
		tr.Generations = make(experiment.Generations, len(t.Gens))
		cs := make([]*genetics.Organism, len(t.Gens))
		for gi, g := range t.Gens {
			gen := experiment.Generation{Id: gi, TrialId: ti, Solved: g.Solved, Diversity: g.Diversity,
				WinnerNodes: g.WinnerNodes, WinnerGenes: g.WinnerGenes, WinnerEvals: g.WinnerEvals,
				Duration: time.Duration(g.DurationNs),
				Fitness:  c19Place(g.Fitness, true), Age: c19Place(g.Age, true), Complexity: c19Place(g.Complexity, true)}
			if g.Champ != nil {
				genome, cx := c19Genome(g.Champ.Hidden, g.Champ.Disabled, gid)
				genome, cx = c19WithModules(genome, cx, g.Champ.Mods)
				gid++
				org, err := genetics.NewOrganism(g.Champ.Fit, genome, gi)
				if err != nil {
					panic(err)
				}
				if g.Champ.Age != nil {
					sp := genetics.NewSpecies(gid)
					sp.Age = *g.Champ.Age
					org.Species = sp
				}
				gen.Champion = org
				cs[gi] = org
				b.cplx[org] = cx
			}
			tr.Generations[gi] = gen
		}
		b.exp.Trials[ti] = tr
		b.champs = append(b.champs, cs)
		if t.PreCache {
			b.exp.Trials[ti].WinnerStatistics()
		}
	}
	return b
}

func (b *c19Built) orgTerm(o *genetics.Organism) string {
	age := "None"
	if o.Species != nil {
		age = "(Some " + ZI(o.Species.Age) + ")"
	}
	return fmt.Sprintf("(mkorg %s zero %s %s)", F(o.Fitness), age, ZI(b.cplx[o]))
}

func c19GenTerm(b *c19Built, g *experiment.Generation, champ *genetics.Organism) string {
	ch := "None"
	if champ != nil {
		ch = "(Some " + b.orgTerm(champ) + ")"
	}
	return fmt.Sprintf("(mkgen %s %s %s %s %s %s %s %s %s %s)", B(g.Solved), ch, FList(g.Fitness), FList(g.Age), FList(g.Complexity),
		ZI(g.Diversity), ZI(g.WinnerNodes), ZI(g.WinnerGenes), ZI(g.WinnerEvals), Z(int64(g.Duration)))
}

type c19Best struct { // result of a BestOrganism call
	Code  int
	Found bool
	Org   *genetics.Organism
	Trial int
}

func (b *c19Built) bestTerm(x c19Best, withTrial bool) string {
	if x.Code != 0 {
		return fmt.Sprintf("(GoPanic %d)", x.Code)
	}
	if !x.Found {
		return "(Ok None)"
	}
	if withTrial {
		return fmt.Sprintf("(Ok (Some (%s, %s)))", b.orgTerm(x.Org), ZI(x.Trial))
	}
	if x.Org == nil {
		return "(Ok (Some None))"
	}
	return fmt.Sprintf("(Ok (Some (Some %s)))", b.orgTerm(x.Org))
}

type c19FL struct { // a Floats result or a panic
	V    []float64
	Code int
}

func c19Floats(f func() experiment.Floats) c19FL {
	var r c19FL
	r.Code, _ = c19Call(func() { r.V = f() })
	return r
}

func (r c19FL) term() string {
	if r.Code != 0 {
		return fmt.Sprintf("(GoPanic %d)", r.Code)
	}
	return "(Ok " + FList(r.V) + ")"
}

type c19TrialObs struct {
	Solved            bool
	CF, CA, CC, Div   []float64
	AvgF, AvgA, AvgC  []float64
	WS                [4]int
	Cache             bool
	AED               int64
	ChC               []int64
	KAll, KSolv       int
	BestAll, BestSolv c19Best
	Code              int // first panic among the accessors that must not panic
	PanicIn           string
}

// position of org among the champions BestOrganism collects (the sort oracle)
func c19OracleIndex(gens experiment.Generations, only bool, org *genetics.Organism) int {
	k := 0
	for _, g := range gens {
		if only && !g.Solved {
			continue
		}
		if g.Champion == org {
			return k
		}
		k++
	}
	return 0
}

func c19TrialBest(t *experiment.Trial, only bool) c19Best {
	var x c19Best
	x.Code, _ = c19Call(func() { x.Org, x.Found = t.BestOrganism(only) })
	return x
}

func c19ObserveTrial(t experiment.Trial) c19TrialObs {
	var o c19TrialObs
	note := func(name string, f func()) {
		if code, _ := c19Call(f); code != 0 && o.Code == 0 {
			o.Code, o.PanicIn = code, name
		}
	}
	note("Trial.Solved", func() { o.Solved = t.Solved() })
	note("Trial.ChampionsFitness", func() { o.CF = t.ChampionsFitness() })
	note("Trial.ChampionSpeciesAges", func() { o.CA = t.ChampionSpeciesAges() })
	note("Trial.ChampionsComplexities", func() { o.CC = t.ChampionsComplexities() })
	note("Trial.Diversity", func() { o.Div = t.Diversity() })
	note("Trial.Average", func() { o.AvgF, o.AvgA, o.AvgC = t.Average() })
	note("Trial.AvgEpochDuration", func() { o.AED = int64(t.AvgEpochDuration()) })
	note("Generation.ChampionComplexity", func() {
		for i := range t.Generations {
			o.ChC = append(o.ChC, int64(t.Generations[i].ChampionComplexity()))
		}
	})
	o.BestAll = c19TrialBest(&t, false)
	o.BestSolv = c19TrialBest(&t, true)
	o.KAll = c19OracleIndex(t.Generations, false, o.BestAll.Org)
	o.KSolv = c19OracleIndex(t.Generations, true, o.BestSolv.Org)
	// last: the only accessor that writes (the cache of the copy t)
	note("Trial.WinnerStatistics", func() {
		o.WS[0], o.WS[1], o.WS[2], o.WS[3] = t.WinnerStatistics()
		o.Cache = t.WinnerGeneration != nil
	})
	return o
}

func (b *c19Built) trialObsTerm(o c19TrialObs) string {
	return fmt.Sprintf("{| ot_solved := %s; ot_cf := %s; ot_ca := %s; ot_cc := %s; ot_div := %s; ot_avg_f := %s; ot_avg_a := %s; ot_avg_c := %s;\n"+
		"        ot_ws := %s; ot_cache := %s; ot_aed := %s; ot_chc := %s; ot_k_all := %d; ot_k_solv := %d; ot_best_all := %s; ot_best_solv := %s |}",
		B(o.Solved), FList(o.CF), FList(o.CA), FList(o.CC), FList(o.Div), FList(o.AvgF), FList(o.AvgA), FList(o.AvgC),
		IList(o.WS[:]), B(o.Cache), Z(o.AED), ZList(o.ChC), o.KAll, o.KSolv, b.bestTerm(o.BestAll, false), b.bestTerm(o.BestSolv, false))
}

type c19ExpObs struct {
	Trials                     []c19TrialObs
	AvgTrialDur, AvgEpDur      int64
	AvgGens                    float64
	Solved                     bool
	TrialsSolved               int
	SuccessRate                float64
	Epochs, AvgDiv             []float64
	BestFit, BestAge, BestCplx c19FL
	KAll, KSolv                int
	BestAll, BestSolv          c19Best
	AvgWinner                  [4]float64
	Code                       int
	PanicIn                    string
}

func c19ExpBest(b *c19Built, only bool) (c19Best, int) {
	e := b.exp
	var x c19Best
	x.Code, _ = c19Call(func() { x.Org, x.Trial, x.Found = e.BestOrganism(only) })
	// oracle: position of the result among the per-trial bests in trial order
	k := 0
	if x.Code == 0 && x.Found {
		pos := 0
		for i := range e.Trials {
			tb := c19TrialBest(&e.Trials[i], only)
			if tb.Code != 0 || !tb.Found {
				continue
			}
			if tb.Org == x.Org {
				k = pos
				break
			}
			pos++
		}
	}
	return x, k
}

func c19ObserveExp(b *c19Built) c19ExpObs {
	e := b.exp
	var o c19ExpObs
	note := func(name string, f func()) {
		if code, _ := c19Call(f); code != 0 && o.Code == 0 {
			o.Code, o.PanicIn = code, name
		}
	}
	for i := range e.Trials {
		to := c19ObserveTrial(e.Trials[i]) // by value: the cache written by WinnerStatistics stays in the copy
		if to.Code != 0 && o.Code == 0 {
			o.Code, o.PanicIn = to.Code, to.PanicIn
		}
		o.Trials = append(o.Trials, to)
	}
	note("Experiment.AvgTrialDuration", func() { o.AvgTrialDur = int64(e.AvgTrialDuration()) })
	note("Experiment.AvgEpochDuration", func() { o.AvgEpDur = int64(e.AvgEpochDuration()) })
	note("Experiment.AvgGenerationsPerTrial", func() { o.AvgGens = e.AvgGenerationsPerTrial() })
	note("Experiment.Solved", func() { o.Solved = e.Solved() })
	note("Experiment.TrialsSolved", func() { o.TrialsSolved = e.TrialsSolved() })
	note("Experiment.SuccessRate", func() { o.SuccessRate = e.SuccessRate() })
	note("Experiment.EpochsPerTrial", func() { o.Epochs = e.EpochsPerTrial() })
	note("Experiment.AvgDiversity", func() { o.AvgDiv = e.AvgDiversity() })
	note("Experiment.AvgWinnerStatistics", func() {
		o.AvgWinner[0], o.AvgWinner[1], o.AvgWinner[2], o.AvgWinner[3] = e.AvgWinnerStatistics()
	})
	o.BestFit = c19Floats(e.BestFitness)
	o.BestAge = c19Floats(e.BestSpeciesAge)
	o.BestCplx = c19Floats(e.BestComplexity)
	o.BestAll, o.KAll = c19ExpBest(b, false)
	o.BestSolv, o.KSolv = c19ExpBest(b, true)
	return o
}

func c19ExpTerm(id int, b *c19Built, o c19ExpObs) string {
	e := b.exp
	trials := make([]string, len(e.Trials))
	tobs := make([]string, len(e.Trials))
	for ti := range e.Trials {
		t := &e.Trials[ti]
		gens := make([]string, len(t.Generations))
		for gi := range t.Generations {
			gens[gi] = c19GenTerm(b, &t.Generations[gi], b.champs[ti][gi])
		}
		w := "None"
		if t.WinnerGeneration != nil {
			w = "(Some " + c19GenTerm(b, t.WinnerGeneration, t.WinnerGeneration.Champion) + ")"
		}
		trials[ti] = fmt.Sprintf("(mktrial %s %s %s)", List(gens), w, Z(int64(t.Duration)))
		tobs[ti] = b.trialObsTerm(o.Trials[ti])
	}
	return fmt.Sprintf("{| c19e_id := %d;\n     c19e_trials := %s;\n     c19e_tobs := %s;\n"+
		"     c19e_avg_trial_dur := %s; c19e_avg_epoch_dur := %s; c19e_avg_gens := %s; c19e_solved := %s; c19e_trials_solved := %d; c19e_success_rate := %s;\n"+
		"     c19e_epochs := %s; c19e_avg_div := %s; c19e_best_fit := %s; c19e_best_age := %s; c19e_best_cplx := %s;\n"+
		"     c19e_k_all := %d; c19e_k_solv := %d; c19e_best_all := %s; c19e_best_solv := %s; c19e_avg_winner := %s |}",
		id, List(trials), List(tobs), Z(o.AvgTrialDur), Z(o.AvgEpDur), F(o.AvgGens), B(o.Solved), o.TrialsSolved, F(o.SuccessRate),
		FList(o.Epochs), FList(o.AvgDiv), o.BestFit.term(), o.BestAge.term(), o.BestCplx.term(),
		o.KAll, o.KSolv, b.bestTerm(o.BestAll, true), b.bestTerm(o.BestSolv, true), FList(o.AvgWinner[:]))
}

// ---- the Go-side oracle: every aggregate recomputed from the generations as given in the input ----

func c19ExactMean(xs []float64) float64 {
	if len(xs) == 0 {
		return math.NaN()
	}
	_, m, _ := c19Exact(xs)
	return c19RatF(m)
}

func c19CloseTo(a, b float64) bool {
	if math.IsNaN(a) || math.IsNaN(b) {
		return math.IsNaN(a) && math.IsNaN(b)
	}
	return math.Abs(a-b) <= 1e-12*math.Max(1, math.Max(math.Abs(a), math.Abs(b)))
}

func c19EqList(a, b []float64, close bool) bool {
	if len(a) != len(b) {
		return false
	}
	for i := range a {
		if close {
			if !c19CloseTo(a[i], b[i]) {
				return false
			}
		} else if !c19SameFloat(a[i], b[i]) {
			return false
		}
	}
	return true
}

func c19TruncDiv(total int64, n int) int64 {
	if n == 0 {
		return -1
	}
	return total / int64(n)
}

func c19ExpOracle(in *c19ExpIn, o c19ExpObs) (fails []Failure, anyNil bool) {
	fail := func(key, what string, obs, req interface{}) {
		fails = append(fails, Failure{Key: "aggregate-" + key, What: what, Input: c19Input{Kind: "experiment", Exp: in}, Observed: obs, Required: req})
	}
	if o.Code != 0 {
		fail("panic", o.PanicIn+" panicked", fmt.Sprintf("panic code %d", o.Code), "no panic")
		return
	}
	nT := len(in.Trials)
	solvedCount := 0
	totalGens := 0
	var sumTrialDur, sumEpochDur int64
	wantEpochs := make([]float64, nT)
	wantAvgDiv := make([]float64, nT)
	var wsum [4]int
	wcount := 0
	for ti, t := range in.Trials {
		to := o.Trials[ti]
		n := len(t.Gens)
		totalGens += n
		wantEpochs[ti] = float64(n)
		sumTrialDur += t.DurationNs
		solved := false
		first := -1
		var dsum int64
		divSum := 0
		cf := make([]float64, n)
		ca := make([]float64, n)
		cc := make([]float64, n)
		dv := make([]float64, n)
		af := make([]float64, n)
		aa := make([]float64, n)
		ac := make([]float64, n)
		chc := make([]int64, n)
		for gi, g := range t.Gens {
			if g.Solved && !solved {
				solved, first = true, gi
			}
			dsum += g.DurationNs
			divSum += g.Diversity
			dv[gi] = float64(g.Diversity)
			chc[gi] = math.MaxInt
			if g.Champ != nil {
				cf[gi] = g.Champ.Fit
				if g.Champ.Age != nil {
					ca[gi] = float64(*g.Champ.Age)
				}
				cx := 3 + g.Champ.Hidden + 4*g.Champ.Mods // a module adds its control node and three links
				for i := 0; i < 2+2*g.Champ.Hidden; i++ {
					if g.Champ.Disabled&(1<<uint(i)) == 0 {
						cx++
					}
				}
				cc[gi] = float64(cx)
				chc[gi] = int64(cx)
			} else {
				anyNil = true
			}
			af[gi], aa[gi], ac[gi] = c19ExactMean(g.Fitness), c19ExactMean(g.Age), c19ExactMean(g.Complexity)
		}
		if solved {
			solvedCount++
		}
		sumEpochDur += c19TruncDiv(dsum, n)
		if n > 0 {
			wantAvgDiv[ti] = float64(divSum) / float64(n)
		} else {
			wantAvgDiv[ti] = math.NaN()
		}
		key := fmt.Sprintf("trial-%d-", ti)
		if to.Solved != solved {
			fail(key+"solved", "Trial.Solved differs from 'some generation is solved'", to.Solved, solved)
		}
		if !c19EqList(to.CF, cf, false) {
			fail(key+"champions-fitness", "Trial.ChampionsFitness differs from the champions' fitness per generation", to.CF, cf)
		}
		if !c19EqList(to.CA, ca, false) {
			fail(key+"champion-ages", "Trial.ChampionSpeciesAges differs from the champions' species ages", to.CA, ca)
		}
		if !c19EqList(to.CC, cc, false) {
			fail(key+"champions-complexities", "Trial.ChampionsComplexities differs from nodes+enabled links of the champions", to.CC, cc)
		}
		if fmt.Sprint(to.ChC) != fmt.Sprint(chc) {
			fail(key+"champion-complexity", "Generation.ChampionComplexity differs from nodes+enabled links (MaxInt without champion)", to.ChC, chc)
		}
		if !c19EqList(to.Div, dv, false) {
			fail(key+"diversity", "Trial.Diversity differs from the recorded species counts", to.Div, dv)
		}
		if !c19EqList(to.AvgF, af, true) || !c19EqList(to.AvgA, aa, true) || !c19EqList(to.AvgC, ac, true) {
			fail(key+"average", "Trial.Average differs from the per-generation means", [][]float64{to.AvgF, to.AvgA, to.AvgC}, [][]float64{af, aa, ac})
		}
		if to.AED != c19TruncDiv(dsum, n) {
			fail(key+"avg-epoch-duration", "Trial.AvgEpochDuration differs from total/len (EmptyDuration when empty)", to.AED, c19TruncDiv(dsum, n))
		}
		// winner statistics: first solved generation; zeros when unsolved; -1 when there are no generations
		want := [4]int{0, 0, 0, 0}
		switch {
		case n == 0:
			want = [4]int{-1, -1, -1, -1}
		case solved:
			g := t.Gens[first]
			want = [4]int{g.WinnerNodes, g.WinnerGenes, g.WinnerEvals, g.Diversity}
			for i := range wsum {
				wsum[i] += want[i]
			}
			wcount++
		}
		if to.WS != want {
			fail(key+"winner-statistics", "Trial.WinnerStatistics differs from the first solved generation's record", to.WS, want)
		}
		// best organism: a champion (of a solved generation when asked so) of maximal fitness
		for _, only := range []bool{false, true} {
			got := to.BestAll
			if only {
				got = to.BestSolv
			}
			cnt, nils := 0, 0
			best := math.Inf(-1)
			for _, g := range t.Gens {
				if only && !g.Solved {
					continue
				}
				cnt++
				if g.Champ == nil {
					nils++
				} else if g.Champ.Fit > best {
					best = g.Champ.Fit
				}
			}
			if nils > 0 {
				continue // generations without champion: outside the statement (recorded as a note)
			}
			k := fmt.Sprintf("%sbest-organism-%v", key, only)
			switch {
			case got.Code != 0:
				fail(k, "Trial.BestOrganism panicked", got.Code, "no panic")
			case got.Found != (cnt > 0):
				fail(k, "Trial.BestOrganism found-flag differs from 'there is a candidate generation'", got.Found, cnt > 0)
			case cnt > 0 && (got.Org == nil || got.Org.Fitness != best):
				fail(k, "Trial.BestOrganism is not a champion of maximal fitness", fmt.Sprint(got.Org), best)
			}
		}
	}
	if o.TrialsSolved != solvedCount {
		fail("trials-solved", "TrialsSolved differs from the number of trials with a solved generation", o.TrialsSolved, solvedCount)
	}
	if o.Solved != (solvedCount > 0) {
		fail("solved", "Experiment.Solved differs from 'some trial is solved'", o.Solved, solvedCount > 0)
	}
	wantRate := 0.0
	if nT > 0 {
		wantRate = float64(solvedCount) / float64(nT)
	}
	if !c19SameFloat(o.SuccessRate, wantRate) {
		fail("success-rate", "SuccessRate differs from solved/len(trials)", o.SuccessRate, wantRate)
	}
	if !c19EqList(o.Epochs, wantEpochs, false) {
		fail("epochs-per-trial", "EpochsPerTrial differs from the generation counts", o.Epochs, wantEpochs)
	}
	wantAvgGens := 0.0
	if nT > 0 {
		wantAvgGens = float64(totalGens) / float64(nT)
	}
	if !c19SameFloat(o.AvgGens, wantAvgGens) {
		fail("avg-generations", "AvgGenerationsPerTrial differs from total generations / trials", o.AvgGens, wantAvgGens)
	}
	if !c19EqList(o.AvgDiv, wantAvgDiv, true) {
		fail("avg-diversity", "AvgDiversity differs from the mean species count per trial", o.AvgDiv, wantAvgDiv)
	}
	if o.AvgTrialDur != c19TruncDiv(sumTrialDur, nT) {
		fail("avg-trial-duration", "AvgTrialDuration differs from total/len", o.AvgTrialDur, c19TruncDiv(sumTrialDur, nT))
	}
	if o.AvgEpDur != c19TruncDiv(sumEpochDur, nT) {
		fail("avg-epoch-duration", "AvgEpochDuration differs from the mean of the trials' averages", o.AvgEpDur, c19TruncDiv(sumEpochDur, nT))
	}
	wantW := [4]float64{-1, -1, -1, -1}
	if wcount > 0 {
		for i := range wantW {
			wantW[i] = float64(wsum[i]) / float64(wcount)
		}
	}
	if !c19EqList(o.AvgWinner[:], wantW[:], false) {
		fail("avg-winner-statistics", "AvgWinnerStatistics differs from the mean over the first solved generation of the solved trials", o.AvgWinner, wantW)
	}
	// per-trial best fitness / age / complexity and the overall best organism
	if anyNil {
		return fails, anyNil
	}
	if o.BestFit.Code != 0 || o.BestAge.Code != 0 || o.BestCplx.Code != 0 || o.BestAll.Code != 0 || o.BestSolv.Code != 0 {
		fail("best-panic", "a Best* accessor panicked although every generation has a champion", "panic", "no panic")
		return fails, anyNil
	}
	overall := map[bool]float64{false: math.Inf(-1), true: math.Inf(-1)}
	overallFound := map[bool]bool{}
	for ti, t := range in.Trials {
		best := math.Inf(-1)
		for _, g := range t.Gens {
			if g.Champ.Fit > best {
				best = g.Champ.Fit
			}
			if g.Champ.Fit > overall[false] {
				overall[false] = g.Champ.Fit
			}
			overallFound[false] = true
			if g.Solved {
				overallFound[true] = true
				if g.Champ.Fit > overall[true] {
					overall[true] = g.Champ.Fit
				}
			}
		}
		wf := 0.0
		okAge, okCx := len(t.Gens) == 0, len(t.Gens) == 0
		if len(t.Gens) > 0 {
			wf = best
		}
		gotAge, gotCx := math.NaN(), math.NaN()
		if ti < len(o.BestAge.V) {
			gotAge = o.BestAge.V[ti]
		}
		if ti < len(o.BestCplx.V) {
			gotCx = o.BestCplx.V[ti]
		}
		if len(t.Gens) == 0 {
			okAge, okCx = gotAge == 0, gotCx == 0
		}
		for _, g := range t.Gens {
			if g.Champ.Fit != best {
				continue
			}
			age := 0.0
			if g.Champ.Age != nil {
				age = float64(*g.Champ.Age)
			}
			cx := 3 + g.Champ.Hidden + 4*g.Champ.Mods
			for i := 0; i < 2+2*g.Champ.Hidden; i++ {
				if g.Champ.Disabled&(1<<uint(i)) == 0 {
					cx++
				}
			}
			okAge = okAge || gotAge == age
			okCx = okCx || gotCx == float64(cx)
		}
		if ti >= len(o.BestFit.V) || !c19SameFloat(o.BestFit.V[ti], wf) {
			fail(fmt.Sprintf("best-fitness-%d", ti), "BestFitness differs from the maximal champion fitness of the trial", o.BestFit.V, wf)
		}
		if !okAge {
			fail(fmt.Sprintf("best-species-age-%d", ti), "BestSpeciesAge is not the species age of a champion of maximal fitness", o.BestAge.V, "age of a best champion")
		}
		if !okCx {
			fail(fmt.Sprintf("best-complexity-%d", ti), "BestComplexity is not the complexity of a champion of maximal fitness", o.BestCplx.V, "complexity of a best champion")
		}
	}
	for _, only := range []bool{false, true} {
		got := o.BestAll
		if only {
			got = o.BestSolv
		}
		k := fmt.Sprintf("best-organism-%v", only)
		if got.Found != overallFound[only] {
			fail(k, "Experiment.BestOrganism found-flag differs from 'there is a candidate generation'", got.Found, overallFound[only])
			continue
		}
		if !got.Found {
			if got.Trial != -1 {
				fail(k, "Experiment.BestOrganism returns a trial id without organism", got.Trial, -1)
			}
			continue
		}
		inTrial := false
		if got.Trial >= 0 && got.Trial < len(in.Trials) {
			for _, g := range in.Trials[got.Trial].Gens {
				if (!only || g.Solved) && g.Champ.Fit == got.Org.Fitness {
					inTrial = true
				}
			}
		}
		if got.Org.Fitness != overall[only] || !inTrial {
			fail(k, "Experiment.BestOrganism is not a champion of maximal fitness of the trial it names", map[string]interface{}{"fitness": got.Org.Fitness, "trial": got.Trial}, overall[only])
		}
	}
	return fails, anyNil
}

// c19ExpRun builds the experiment, runs the real accessors and the Go-side oracle
func c19ExpRun(in *c19ExpIn) (*c19Built, c19ExpObs, []Failure, bool) {
	quiet()
	b := c19Build(in)
	o := c19ObserveExp(b)
	// idempotence: a second round of calls on the same experiment gives the same answers
	o2 := c19ObserveExp(b)
	fails, anyNil := c19ExpOracle(in, o)
	if c19ExpTerm(0, b, o) != c19ExpTerm(0, b, o2) {
		fails = append(fails, Failure{Key: "aggregate-not-idempotent", What: "asking the same aggregates twice gave different answers",
			Input: c19Input{Kind: "experiment", Exp: in}})
	}
	// the winner record survives a later reordering of the recorded generations: ask on the experiment's own
	// trial slots (so that whatever WinnerStatistics caches stays there), reverse each trial's generations in
	// place and ask again.  With at most one solved generation per trial the first solved generation is the
	// same before and after, so the answers must not change.
	if o.Code == 0 && len(fails) == 0 {
		single := true
		for _, t := range in.Trials {
			n := 0
			for _, g := range t.Gens {
				if g.Solved {
					n++
				}
			}
			if n > 1 {
				single = false
			}
		}
		if single {
			func() {
				defer func() { _ = recover() }()
				e := c19Build(in).exp // a second, independent build: the observed one stays as it is
				before := make([][4]int, len(e.Trials))
				for i := range e.Trials {
					before[i][0], before[i][1], before[i][2], before[i][3] = e.Trials[i].WinnerStatistics()
				}
				var avg0, avg1 [4]float64
				avg0[0], avg0[1], avg0[2], avg0[3] = e.AvgWinnerStatistics()
				for i := range e.Trials {
					gs := e.Trials[i].Generations
					for l, r := 0, len(gs)-1; l < r; l, r = l+1, r-1 {
						gs[l], gs[r] = gs[r], gs[l]
					}
				}
				for i := range e.Trials {
					var after [4]int
					after[0], after[1], after[2], after[3] = e.Trials[i].WinnerStatistics()
					if after != before[i] {
						fails = append(fails, Failure{Key: fmt.Sprintf("aggregate-trial%d-winner-statistics-after-reorder", i),
							What:  "Trial.WinnerStatistics changed after the recorded generations were reordered in place (one solved generation: the winner record is the same)",
							Input: c19Input{Kind: "experiment", Exp: in}, Observed: after, Required: before[i]})
					}
				}
				avg1[0], avg1[1], avg1[2], avg1[3] = e.AvgWinnerStatistics()
				if !c19EqList(avg0[:], avg1[:], false) {
					fails = append(fails, Failure{Key: "aggregate-avg-winner-statistics-after-reorder",
						What:  "AvgWinnerStatistics changed after the recorded generations were reordered in place",
						Input: c19Input{Kind: "experiment", Exp: in}, Observed: avg1, Required: avg0})
				}
			}()
		}
	}
	return b, o, fails, anyNil
}

// failure keys name the trial index; compare them without it when shrinking
func c19KeyClass(key string) string {
	out := []rune{}
	for _, c := range key {
		if c < '0' || c > '9' {
			out = append(out, c)
		}
	}
	return string(out)
}

func c19ExpFailsLike(in *c19ExpIn, class string) *Failure {
	_, _, fs, _ := c19ExpRun(in)
	for i := range fs {
		if c19KeyClass(fs[i].Key) == class {
			return &fs[i]
		}
	}
	return nil
}

// c19ShrinkExp drops trials, then generations, while a failure of the same kind remains
func c19ShrinkExp(in *c19ExpIn, class string) *c19ExpIn {
	cur := &c19ExpIn{Trials: append([]c19TrialIn(nil), in.Trials...)}
	for i := 0; i < len(cur.Trials); {
		cand := &c19ExpIn{Trials: append(append([]c19TrialIn(nil), cur.Trials[:i]...), cur.Trials[i+1:]...)}
		if c19ExpFailsLike(cand, class) != nil {
			cur = cand
		} else {
			i++
		}
	}
	for ti := range cur.Trials {
		for gi := 0; gi < len(cur.Trials[ti].Gens); {
			cand := &c19ExpIn{Trials: append([]c19TrialIn(nil), cur.Trials...)}
			t := cand.Trials[ti]
			t.Gens = append(append([]c19GenIn(nil), t.Gens[:gi]...), t.Gens[gi+1:]...)
			cand.Trials[ti] = t
			if c19ExpFailsLike(cand, class) != nil {
				cur = cand
			} else {
				gi++
			}
		}
	}
	return cur
}

func c19ExpOne(r *Run, cf *CaseFile, id int, in *c19ExpIn) {
	b, o, fails, anyNil := c19ExpRun(in)
	if cf != nil {
		cf.Add(c19ExpTerm(id, b, o))
		r.SaveInput(id, c19Input{Kind: "experiment", Exp: in})
	}
	if len(fails) > 0 {
		class := c19KeyClass(fails[0].Key)
		if f := c19ExpFailsLike(c19ShrinkExp(in, class), class); f != nil {
			r.Fail(*f)
		} else {
			r.Fail(fails[0])
		}
	}
	if anyNil {
		r.Hist("experiments", "with-generation-without-champion")
	}
	gens := 0
	solved := 0
	for _, t := range in.Trials {
		gens += len(t.Gens)
		for _, g := range t.Gens {
			if g.Solved {
				solved++
				break
			}
		}
	}
	js, _ := json.Marshal(in)
	r.Count(string(js), len(in.Trials) >= 2 && gens >= 2)
	r.Hist("exp_trials", fmt.Sprint(len(in.Trials)))
	r.Hist("exp_solved_trials", fmt.Sprint(solved))
	if len(in.Trials) == 2 && gens <= 3 {
		r.Sample(map[string]interface{}{"experiment": in, "success_rate": o.SuccessRate, "avg_winner": o.AvgWinner})
	}
}

func c19GenExp(r *Run) *c19ExpIn {
	rng := r.Rng
	in := &c19ExpIn{}
	nT := rng.Intn(6)
	nilChamps := rng.Intn(8) == 0  // a family with generations that recorded no champion
	midSolved := rng.Intn(5) == 0  // solved flags anywhere, not only on the last generation
	tieFitness := rng.Intn(3) == 0 // champions with equal fitness (the sort order under ties matters)
	extremeFit := rng.Intn(6) == 0 // champions whose fitness is negative, hugely negative or huge
	series := func() []float64 {
		n := rng.Intn(6)
		s := make([]float64, n)
		for i := range s {
			if rng.Intn(2) == 0 {
				s[i] = float64(rng.Intn(40))
			} else {
				s[i] = rng.Float64() * 16
			}
		}
		return s
	}
	for t := 0; t < nT; t++ {
		tr := c19TrialIn{DurationNs: rng.Int63n(5e9), PreCache: rng.Intn(4) == 0}
		if rng.Intn(10) == 0 {
			tr.DurationNs = -rng.Int63n(1e6)
		}
		nG := rng.Intn(7)
		solvedTrial := rng.Intn(2) == 0
		for g := 0; g < nG; g++ {
			gen := c19GenIn{Fitness: series(), Age: series(), Complexity: series(), Diversity: rng.Intn(12),
				WinnerNodes: rng.Intn(20), WinnerGenes: rng.Intn(40), WinnerEvals: rng.Intn(5000), DurationNs: rng.Int63n(3e8)}
			if midSolved {
				gen.Solved = rng.Intn(3) == 0
			} else {
				gen.Solved = solvedTrial && g == nG-1
			}
			if !gen.Solved && rng.Intn(2) == 0 {
				gen.WinnerNodes, gen.WinnerGenes, gen.WinnerEvals = 0, 0, 0
			}
			if !(nilChamps && rng.Intn(3) == 0) {
				ch := &c19Champ{Fit: math.Round(rng.Float64()*1600) / 100, Hidden: rng.Intn(4)}
				if rng.Intn(5) == 0 {
					ch.Mods = 1 + rng.Intn(2)
				}
				if tieFitness {
					ch.Fit = float64(rng.Intn(3))
				}
				if extremeFit {
					ch.Fit = []float64{-1e19, -2e19, -9.3e18, -1e300, -5.5, -0.25, 1e300}[rng.Intn(7)]
				}
				ch.Disabled = rng.Intn(1 << uint(2+2*ch.Hidden))
				if rng.Intn(3) != 0 {
					ch.Disabled = 0
				}
				if rng.Intn(6) != 0 {
					a := rng.Intn(30)
					ch.Age = &a
				}
				gen.Champ = ch
			}
			tr.Gens = append(tr.Gens, gen)
		}
		in.Trials = append(in.Trials, tr)
	}
	return in
}

// ---------- (c) Generation.FillPopulationStatistics ----------

func c19ChampCplx(c c19Champ) int {
	cx := 3 + c.Hidden + 4*c.Mods
	for i := 0; i < 2+2*c.Hidden; i++ {
		if c.Disabled&(1<<uint(i)) == 0 {
			cx++
		}
	}
	return cx
}

type c19FillObs struct {
	Code           int
	Msg            string
	Diversity      int
	Age, Cplx, Fit []float64
	Champ          *genetics.Organism
	Ks             []int
}

func c19FillRun(in *c19FillIn) (string, c19FillObs, []Failure) {
	quiet()
	b := &c19Built{cplx: map[*genetics.Organism]int{}}
	pop := &genetics.Population{}
	orig := make([][]*genetics.Organism, len(in.Species))
	specTerms := make([]string, len(in.Species))
	gid := 1
	for si, sp := range in.Species {
		s := genetics.NewSpecies(si + 1)
		s.Age = sp.Age
		ots := make([]string, len(sp.Orgs))
		for oi, oc := range sp.Orgs {
			genome, cx := c19Genome(oc.Hidden, oc.Disabled, gid)
			gid++
			org, err := genetics.NewOrganism(oc.Fit, genome, 0)
			if err != nil {
				panic(err)
			}
			org.Species = s
			b.cplx[org] = cx
			s.Organisms = append(s.Organisms, org)
			orig[si] = append(orig[si], org)
			ots[oi] = b.orgTerm(org)
		}
		pop.Species = append(pop.Species, s)
		specTerms[si] = fmt.Sprintf("(mkspecies %s %s)", ZI(sp.Age), List(ots))
	}
	gen := &experiment.Generation{Solved: in.Solved}
	var o c19FillObs
	o.Code, o.Msg = c19Call(func() { gen.FillPopulationStatistics(pop) })
	o.Ks = make([]int, len(in.Species))
	if o.Code == 0 {
		o.Diversity, o.Age, o.Cplx, o.Fit, o.Champ = gen.Diversity, gen.Age, gen.Complexity, gen.Fitness, gen.Champion
	}
	// the sort oracle: where the organism now in front stood before the call (also for the species
	// that were sorted before a panic)
	for si, s := range pop.Species {
		for k, org := range orig[si] {
			if len(s.Organisms) > 0 && org == s.Organisms[0] {
				o.Ks[si] = k
			}
		}
	}
	out := fmt.Sprintf("(GoPanic %d)", o.Code)
	if o.Code == 0 {
		ch := "None"
		if o.Champ != nil {
			ch = "(Some " + b.orgTerm(o.Champ) + ")"
		}
		out = fmt.Sprintf("(Ok (%s, (%s, %s, %s, %s)))", ZI(o.Diversity), FList(o.Age), FList(o.Cplx), FList(o.Fit), ch)
	}
	term := fmt.Sprintf("c19g_solved := %s; c19g_species := %s; c19g_ks := %s; c19g_out := %s", B(in.Solved), List(specTerms), IList(o.Ks), out)

	// Go-side oracle: what the recorded statistics must be, from the population as given
	var fails []Failure
	fail := func(key, what string, obs, req interface{}) {
		fails = append(fails, Failure{Key: "fill-" + key, What: what, Input: c19Input{Kind: "fill", Fill: in}, Observed: obs, Required: req})
	}
	empty := false
	for _, sp := range in.Species {
		if len(sp.Orgs) == 0 {
			empty = true
		}
	}
	if empty {
		return term, o, fails // a species without organisms cannot occur in a population; only the correspondence looks at it
	}
	if o.Code != 0 {
		fail("panic", "FillPopulationStatistics panicked: "+o.Msg, o.Code, "no panic")
		return term, o, fails
	}
	if o.Diversity != len(in.Species) || len(o.Age) != len(in.Species) || len(o.Fit) != len(in.Species) || len(o.Cplx) != len(in.Species) {
		fail("diversity", "Diversity / series lengths differ from the number of species", o.Diversity, len(in.Species))
		return term, o, fails
	}
	overall := math.Inf(-1)
	for si, sp := range in.Species {
		best := math.Inf(-1)
		for _, oc := range sp.Orgs {
			best = math.Max(best, oc.Fit)
		}
		overall = math.Max(overall, best)
		okCx := false
		for _, oc := range sp.Orgs {
			if oc.Fit == best && float64(c19ChampCplx(oc)) == o.Cplx[si] {
				okCx = true
			}
		}
		if o.Age[si] != float64(sp.Age) {
			fail("age", "Age differs from the species' age", o.Age, sp.Age)
		}
		if o.Fit[si] != best {
			fail("fitness", "Fitness differs from the best fitness of the species", o.Fit, best)
		}
		if !okCx {
			fail("complexity", "Complexity is not the complexity of a best organism of the species", o.Cplx, "complexity of a best organism")
		}
	}
	switch {
	case in.Solved:
		if o.Champ != nil {
			fail("champion-solved", "a champion was chosen although the generation is already solved", o.Champ.Fitness, "champion left alone")
		}
	case len(in.Species) == 0 || !(overall > float64(math.MinInt64)):
		if o.Champ != nil {
			fail("champion-none", "a champion was chosen from nothing", o.Champ.Fitness, nil)
		}
	default:
		if o.Champ == nil || o.Champ.Fitness != overall {
			got := interface{}(nil)
			if o.Champ != nil {
				got = o.Champ.Fitness
			}
			fail("champion", "Champion is not an organism of maximal fitness", got, overall)
		}
	}
	return term, o, fails
}

func c19FillOne(r *Run, cf *CaseFile, id int, in *c19FillIn) {
	term, o, fails := c19FillRun(in)
	if cf != nil {
		cf.Add(fmt.Sprintf("{| c19g_id := %d; %s |}", id, term))
		r.SaveInput(id, c19Input{Kind: "fill", Fill: in})
	}
	if len(fails) > 0 {
		r.Fail(fails[0])
	}
	js, _ := json.Marshal(in)
	r.Count(string(js), len(in.Species) >= 2)
	r.Hist("fill_species", fmt.Sprint(len(in.Species)))
	r.Hist("fill_outcome", map[bool]string{true: "ok", false: "panic"}[o.Code == 0])
}

func c19GenFill(r *Run) *c19FillIn {
	rng := r.Rng
	in := &c19FillIn{Solved: rng.Intn(4) == 0}
	nS := rng.Intn(6)
	ties := rng.Intn(3) == 0
	huge := rng.Intn(25) == 0 // every fitness below float64(MinInt64): no champion can be chosen
	emptySp := rng.Intn(40) == 0
	for s := 0; s < nS; s++ {
		sp := c19SpeciesIn{Age: rng.Intn(40)}
		nO := 1 + rng.Intn(5)
		if emptySp && rng.Intn(2) == 0 {
			nO = 0
		}
		for o := 0; o < nO; o++ {
			c := c19Champ{Fit: math.Round(rng.Float64()*1600) / 100, Hidden: rng.Intn(4)}
			if ties {
				c.Fit = float64(rng.Intn(3))
			}
			if huge {
				c.Fit = -1e19 * (1 + rng.Float64())
			}
			if rng.Intn(3) == 0 {
				c.Disabled = rng.Intn(1 << uint(2+2*c.Hidden))
			}
			sp.Orgs = append(sp.Orgs, c)
		}
		in.Species = append(in.Species, sp)
	}
	return in
}

// ---------- runner ----------

func runC19(r *Run) error {
	r.Res.Rule = "series: lengths 0-200 (block boundaries of the 8/16-wide summation favoured), both 16-byte alignments, families normal / small integers with duplicates / " +
		"fitness-like / all equal / large offset / mixed magnitude / signed zeros / extreme finite / non-finite, sorted, reversed or shuffled; each also re-run sorted, reversed and rotated; " +
		"experiments: 0-5 trials x 0-6 generations, solved or not, champions with ties, some generations without champion, winner cache pre-filled or not; " +
		"populations for FillPopulationStatistics: 0-5 species x 1-5 organisms, ties, fitness below MinInt64, rarely an empty species; " +
		"non-trivial = series of >= 2 elements, experiment of >= 2 trials and >= 2 generations; distinct by input"
	id := 0
	// fixed boundary series first
	fixed := [][]float64{{}, {1}, {math.Copysign(0, -1)}, {2, 1}, {3, 1, 2}, {4, 1, 3, 2}, {5, 4, 3, 2, 1}, {1, 1, 1, 1},
		{0, math.Copysign(0, -1)}, {math.Copysign(0, -1), 0}, {1e16, 1, -1e16}, {1, 2, 3, 4, 5, 6, 7, 8}, {8, 7, 6, 5, 4, 3, 2, 1, 0},
		{math.NaN()}, {math.NaN(), 1}, {1, math.NaN()}, {math.Inf(1), 1}, {math.Inf(1), math.Inf(-1)}, {math.MaxFloat64, math.MaxFloat64}}
	nSeries := r.N(1000, 20000)
	perShard := 250
	if r.Thorough() {
		perShard = 1300
	}
	shard := 0
	cf := r.NewCaseFile(shard, "Res F64 Stats Exper C19Cases", "c19s_case")
	inShard := 0
	addSeries := func(vals []float64, al bool, fam string) {
		if inShard >= perShard {
			cf.Close("c19s_mismatches")
			shard++
			cf = r.NewCaseFile(shard, "Res F64 Stats Exper C19Cases", "c19s_case")
			inShard = 0
		}
		c19SeriesOne(r, cf, id, vals, al, fam)
		id++
		inShard++
	}
	for _, f := range fixed {
		addSeries(f, true, "fixed")
		addSeries(f, false, "fixed")
	}
	for i := 0; i < nSeries; i++ {
		vals, fam := c19GenSeries(r)
		addSeries(vals, r.Rng.Intn(2) == 0, fam)
	}
	cf.Close("c19s_mismatches")

	nExp := r.N(400, 6000)
	perShard = 100
	if r.Thorough() {
		perShard = 400
	}
	shard++
	cf = r.NewCaseFile(shard, "Res F64 Stats Exper C19Cases", "c19e_case")
	inShard = 0
	for i := 0; i < nExp; i++ {
		if inShard >= perShard {
			cf.Close("c19e_mismatches")
			shard++
			cf = r.NewCaseFile(shard, "Res F64 Stats Exper C19Cases", "c19e_case")
			inShard = 0
		}
		c19ExpOne(r, cf, id, c19GenExp(r))
		id++
		inShard++
	}
	cf.Close("c19e_mismatches")

	shard++
	cf = r.NewCaseFile(shard, "Res F64 Stats Exper C19Cases", "c19g_case")
	for i := 0; i < r.N(300, 3000); i++ {
		c19FillOne(r, cf, id, c19GenFill(r))
		id++
	}
	cf.Close("c19g_mismatches")
	c19GrownChampion(r)
	r.Note("gonum's amd64 Sum adds in an order that depends on whether the slice starts on a 16-byte boundary; the model takes that bit as an input and reproduces Sum/Mean/Variance/StdDev bit-exactly for both alignments")
	return nil
}

func replayC19(r *Run, input []byte) error {
	var in c19Input
	if err := json.Unmarshal(input, &in); err != nil {
		return err
	}
	switch in.Kind {
	case "series":
		vals := make([]float64, len(in.Series.Hex))
		for i, h := range in.Series.Hex {
			vals[i] = c19ParseHex(h)
		}
		c19SeriesOne(r, nil, 0, vals, in.Series.Aligned, "replay")
	case "experiment":
		c19ExpOne(r, nil, 0, in.Exp)
	case "fill":
		c19FillOne(r, nil, 0, in.Fill)
	default:
		return fmt.Errorf("unknown C19 input kind %q", in.Kind)
	}
	return nil
}
