package main

import (
	"bufio"
	"encoding/json"
	"fmt"
	"hash/fnv"
	"math"
	"math/rand"
	"os"
	"path/filepath"
	"strconv"
	"strings"
)

// Failure is a concrete input on which the real code fails the stated property (Go-side oracle)
type Failure struct {
	Key      string      `json:"key"`  // stable key of the failing input / call site (matched against known_findings.txt)
	What     string      `json:"what"` // what fails
	Input    interface{} `json:"input"`
	Observed interface{} `json:"observed,omitempty"`
	Required interface{} `json:"required,omitempty"`
}

// Result is what `cases` leaves behind for the driver
type Result struct {
	Property           string                    `json:"property"`
	Seed               int64                     `json:"seed"`
	Tier               string                    `json:"tier"`
	Evaluations        int                       `json:"evaluations"`
	DistinctNontrivial int                       `json:"distinct_nontrivial"`
	Rule               string                    `json:"rule"`
	Samples            []interface{}             `json:"samples"`
	Histograms         map[string]map[string]int `json:"histograms"`
	CaseFiles          []string                  `json:"case_files"`
	CaseInputs         map[string]interface{}    `json:"-"`
	Failures           []Failure                 `json:"failures"`
	Notes              []string                  `json:"notes,omitempty"`
	Exhaustive         bool                      `json:"exhaustive,omitempty"`
}

// Run is the state of one `cases` invocation
type Run struct {
	ID     string
	Seed   int64
	Tier   string
	Out    string
	Rng    *rand.Rand // the harness' own generator: every random choice of the generators derives from it
	Res    Result
	seen   map[uint64]bool
	inputs *os.File // JSON lines: case id -> Go-side input, so a mismatching case can be replayed
}

func newRun(id string, seed int64, tier, out string) *Run {
	_ = os.MkdirAll(out, 0o755)
	f, _ := os.Create(filepath.Join(out, "inputs.jsonl"))
	return &Run{ID: id, Seed: seed, Tier: tier, Out: out, Rng: rand.New(rand.NewSource(seed*7919 + 17)),
		Res:  Result{Property: id, Seed: seed, Tier: tier, Histograms: map[string]map[string]int{}, Failures: []Failure{}, Samples: []interface{}{}},
		seen: map[uint64]bool{}, inputs: f}
}

func (r *Run) Thorough() bool { return r.Tier == "thorough" }

// N picks a count by tier
func (r *Run) N(quick, thorough int) int {
	if r.Thorough() {
		return thorough
	}
	return quick
}

// Count records one evaluated case; digest identifies it for distinctness, nontrivial by the runner's rule
func (r *Run) Count(digest string, nontrivial bool) {
	r.Res.Evaluations++
	h := fnv.New64a()
	_, _ = h.Write([]byte(digest))
	k := h.Sum64()
	if nontrivial && !r.seen[k] {
		r.seen[k] = true
		r.Res.DistinctNontrivial++
	}
}

func (r *Run) Hist(name, bucket string) {
	m := r.Res.Histograms[name]
	if m == nil {
		m = map[string]int{}
		r.Res.Histograms[name] = m
	}
	m[bucket]++
}

func (r *Run) Sample(v interface{}) {
	if len(r.Res.Samples) < 4 {
		r.Res.Samples = append(r.Res.Samples, jsonSafe(v))
	}
}

// jsonSafe returns v if encoding/json can carry it, else a %+v rendering (NaN / Inf are not JSON numbers)
func jsonSafe(v interface{}) interface{} {
	if v == nil {
		return nil
	}
	if _, err := json.Marshal(v); err != nil {
		return fmt.Sprintf("%+v", v)
	}
	return v
}

func (r *Run) Fail(f Failure) {
	if len(r.Res.Failures) < 50 {
		f.Input, f.Observed, f.Required = jsonSafe(f.Input), jsonSafe(f.Observed), jsonSafe(f.Required)
		r.Res.Failures = append(r.Res.Failures, f)
	}
}

func (r *Run) Note(s string) { r.Res.Notes = append(r.Res.Notes, s) }

// SaveInput remembers the Go-side input of case id (for replay files of mismatching cases)
func (r *Run) SaveInput(caseID int, v interface{}) {
	b, _ := json.Marshal(map[string]interface{}{"case": caseID, "input": v})
	_, _ = r.inputs.Write(append(b, '\n'))
}

func (r *Run) finish() error {
	_ = r.inputs.Close()
	b, err := json.MarshalIndent(r.Res, "", " ")
	if err != nil {
		return err
	}
	return os.WriteFile(filepath.Join(r.Out, "result.json"), b, 0o644)
}

// ---- Coq case files ----

// CaseFile writes one cases_<ID>_<k>.v
type CaseFile struct {
	f    *os.File
	w    *bufio.Writer
	n    int
	name string
}

// NewCaseFile opens shard k; imports are module names under NeatModel; typ the record type; the
// file evaluates `<mism> cases` and prints it
func (r *Run) NewCaseFile(k int, imports string, typ string) *CaseFile {
	name := fmt.Sprintf("cases_%s_%02d.v", r.ID, k)
	f, err := os.Create(filepath.Join(r.Out, name))
	if err != nil {
		panic(err)
	}
	w := bufio.NewWriterSize(f, 1<<20)
	fmt.Fprintf(w, "(* written by neatverif cases %s -seed %d -tier %s; shard %d *)\n", r.ID, r.Seed, r.Tier, k)
	fmt.Fprintf(w, "From Coq Require Import ZArith List Floats.\nImport ListNotations.\nOpen Scope Z_scope.\nFrom NeatModel Require Import %s.\n", imports)
	fmt.Fprintf(w, "Definition cases : list %s := [\n", typ)
	r.Res.CaseFiles = append(r.Res.CaseFiles, name)
	return &CaseFile{f: f, w: w, name: name}
}

// Add appends one record term
func (c *CaseFile) Add(term string) {
	if c.n > 0 {
		c.w.WriteString(";\n")
	}
	c.w.WriteString("  ")
	c.w.WriteString(term)
	c.n++
}

// Close ends the list and asks Coq for the mismatching case ids
func (c *CaseFile) Close(mism string) {
	fmt.Fprintf(c.w, "\n].\nDefinition M := Eval vm_compute in %s cases.\nPrint M.\n", mism)
	_ = c.w.Flush()
	_ = c.f.Close()
}

// ---- Gallina literals ----

func Z(i int64) string {
	if i < 0 {
		return "(" + strconv.FormatInt(i, 10) + ")"
	}
	return strconv.FormatInt(i, 10)
}
func ZI(i int) string { return Z(int64(i)) }

func B(b bool) string {
	if b {
		return "true"
	}
	return "false"
}

// F renders a float64 exactly as a primitive-float term
func F(x float64) string {
	switch {
	case math.IsNaN(x):
		return "nan"
	case math.IsInf(x, 1):
		return "infinity"
	case math.IsInf(x, -1):
		return "neg_infinity"
	case x == 0 && math.Signbit(x):
		return "neg_zero"
	case x == 0:
		return "zero"
	}
	s := strconv.FormatFloat(x, 'x', -1, 64)
	if s[0] == '-' {
		return "(" + s + ")%float"
	}
	return s + "%float"
}

func List(items []string) string { return "[" + strings.Join(items, "; ") + "]" }

func ZList(xs []int64) string {
	it := make([]string, len(xs))
	for i, x := range xs {
		it[i] = Z(x)
	}
	return List(it)
}
func IList(xs []int) string {
	it := make([]string, len(xs))
	for i, x := range xs {
		it[i] = ZI(x)
	}
	return List(it)
}
func FList(xs []float64) string {
	it := make([]string, len(xs))
	for i, x := range xs {
		it[i] = F(x)
	}
	return List(it)
}
func Opt(present bool, s string) string {
	if !present {
		return "None"
	}
	return "(Some " + s + ")"
}
func Pair(a, b string) string { return "(" + a + ", " + b + ")" }

// ---- replay ----

type ReplayFile struct {
	Property string          `json:"property"`
	Kind     string          `json:"kind"`
	Key      string          `json:"key"`
	What     string          `json:"what"`
	Input    json.RawMessage `json:"input"`
}

func replayFile(path string) error {
	b, err := os.ReadFile(path)
	if err != nil {
		return err
	}
	var rf ReplayFile
	if err = json.Unmarshal(b, &rf); err != nil {
		return err
	}
	r := newRun(rf.Property, 0, "replay", os.TempDir())
	var generic struct {
		Plain string `json:"plain_genome"`
	}
	if json.Unmarshal(rf.Input, &generic) == nil && generic.Plain != "" {
		if _, pf := checkPlainRead(generic.Plain, 1); pf != nil {
			fmt.Println(pf.What)
			fmt.Printf("REPLAY-FAILS property=%s key=plain-genome-not-read-back\n", rf.Property)
		} else {
			fmt.Printf("REPLAY-PASSES property=%s\n", rf.Property)
		}
		return nil
	}
	f, ok := replayers[rf.Property]
	if !ok {
		return fmt.Errorf("no replayer for %s", rf.Property)
	}
	if err = f(r, rf.Input); err != nil {
		return err
	}
	out, _ := json.MarshalIndent(r.Res.Failures, "", " ")
	fmt.Println(string(out))
	if len(r.Res.Failures) > 0 {
		fmt.Printf("REPLAY-FAILS property=%s key=%s\n", rf.Property, r.Res.Failures[0].Key)
	} else {
		fmt.Printf("REPLAY-PASSES property=%s\n", rf.Property)
	}
	return nil
}
