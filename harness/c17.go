package main

// C17 -- evolution is reproducible from the seed.
//
//  (a) correspondence: every history goes through runHistory exactly as for C02/C03, so the implementation's
//      populations are exhibited, epoch by epoch, as the model function of tape(seed) (case files, epoch_mismatches);
//  (b) twin runs: the same histories (the epochInput as JSON) are executed again in SEPARATE PROCESSES (re-exec of
//      this binary with the hidden subcommand `c17-twin`) under different GOMAXPROCS/GOGC settings, after unrelated
//      allocation / map / goroutine / global-rand work before seeding and between histories (and, in one child,
//      garbage collections between epochs);
//  (c) in-process repeat: every history is run twice in the parent, with all the other histories in between.
//
// Go-side oracle = (b) + (c): for each history the per-stage observations (after spawn and after every epoch)
//   * the 61-bit digest of the full observable population state (exact float bits; popDigest),
//   * sha256 of the bytes written by Population.Write followed by Population.WriteBySpecies,
// and the next raw draw rand.Int63() after the whole history (same number of draws consumed) must be identical in
// the parent, the repeat and both children.

import (
	"bytes"
	"context"
	"crypto/sha256"
	"encoding/hex"
	"encoding/json"
	"fmt"
	"io"
	"math/rand"
	"os"
	"os/exec"
	"runtime"
	"strconv"
	"strings"
	"sync"
	"time"

	"github.com/yaricom/goNEAT/v4/neat"
	"github.com/yaricom/goNEAT/v4/neat/genetics"
	"github.com/yaricom/goNEAT/v4/neat/network"
)

func init() {
	// hidden subcommand: this process is a twin child
	if len(os.Args) >= 2 && os.Args[1] == "c17-twin" {
		c17TwinMain()
		os.Exit(0)
	}
	runners["C17"] = runC17
	replayers["C17"] = replayC17
}

// c17Trace is what one execution of a history leaves behind
type c17Trace struct {
	Index      int      `json:"index"`
	Digests    []string `json:"digests"`  // stage 0 = after spawn, stage k = after epoch k-1 (popDigest incl. the next raw draw)
	Hashes     []string `json:"hashes"`   // sha256(Population.Write ++ WriteBySpecies) per stage
	EndDraw    int64    `json:"end_draw"` // rand.Int63() after the last stage
	Err        string   `json:"err,omitempty"`
	EpochsRun  int      `json:"epochs_run"`
	Multi      int      `json:"multi"`
	Structural int      `json:"structural"`
}

type c17Setting struct {
	Name       string `json:"name"`
	GoMaxProcs string `json:"gomaxprocs"`
	GoGC       string `json:"gogc"`
	Level      int    `json:"level"`        // amount of unrelated work before seeding / between histories
	GCInEpochs bool   `json:"gc_in_epochs"` // garbage + runtime.GC() between the epochs of a history
}

func (s c17Setting) String() string {
	return fmt.Sprintf("%s: GOMAXPROCS=%s GOGC=%s", s.Name, s.GoMaxProcs, s.GoGC)
}

var c17Settings = []c17Setting{
	{Name: "A", GoMaxProcs: "1", GoGC: "10", Level: 1, GCInEpochs: false},
	{Name: "B", GoMaxProcs: "8", GoGC: "400", Level: 3, GCInEpochs: true},
}

type c17TwinJob struct {
	Setting c17Setting        `json:"setting"`
	Inputs  []json.RawMessage `json:"inputs"`
}

// c17Keep keeps some of the unrelated allocations alive so that the heap layout differs between processes
var c17Keep [][]byte
var c17KeepObj []interface{}

// c17Perturb does work that must not influence a seeded run: garbage of many size classes (some of it kept),
// maps created and iterated, draws from the global generator, goroutines, a collection
func c17Perturb(level, salt int) {
	n := 2000 * level
	junk := make([][]byte, 0, n)
	for i := 0; i < n; i++ {
		b := make([]byte, 8+((i*37+salt*11)%29)*16)
		b[0] = byte(i)
		junk = append(junk, b)
		if (i+salt)%7 == 0 && len(c17Keep) < 200000 {
			c17Keep = append(c17Keep, b)
		}
	}
	// objects of the library's own types (same allocator size classes as the run's organisms, species, genes ...):
	// most are kept, a process-specific pseudo-random eighth is dropped, so that after the collection below the
	// spans of these size classes have scattered holes and later allocations do not come in address order
	lcg := uint64(salt)*6364136223846793005 + 1442695040888963407
	cnt := 1200 * level
	tmp := make([]interface{}, 0, cnt*7)
	for i := 0; i < cnt; i++ {
		tmp = append(tmp, &genetics.Organism{Fitness: float64(i)}, &genetics.Species{Id: i}, &genetics.Genome{Id: i}, &genetics.Gene{InnovationNum: int64(i)},
			&network.NNode{Id: i}, &network.Link{ConnectionWeight: float64(i)}, &neat.Trait{Id: i})
	}
	if len(c17KeepObj) > 300000 {
		c17KeepObj = nil
	}
	for _, o := range tmp {
		lcg = lcg*6364136223846793005 + 1442695040888963407
		if (lcg>>33)%8 != 0 {
			c17KeepObj = append(c17KeepObj, o)
		}
	}
	m := map[int]*[]byte{}
	for i := range junk {
		m[i*7919+salt] = &junk[i]
	}
	sum := 0
	for k, v := range m {
		sum += k + len(*v)
	}
	sm := map[string]int{}
	for i := 0; i < 50*level; i++ {
		sm[strconv.Itoa(i*salt+i)] = i
	}
	for k := range sm {
		sum += len(k)
	}
	for i := 0; i < 17*level+salt%13; i++ {
		sum += int(rand.Int63() & 1)
		_ = rand.Float64()
	}
	var wg sync.WaitGroup
	for i := 0; i < 4*level; i++ {
		wg.Add(1)
		go func(i int) {
			defer wg.Done()
			x := make([]int, 100+i)
			for j := range x {
				x[j] = j * i
			}
		}(i)
	}
	wg.Wait()
	if sum == -1 {
		fmt.Fprintln(io.Discard, sum)
	}
	runtime.GC()
}

// c17Stage records one stage; like runHistory it draws one raw value from the generator after the stage (the
// model's correspondence digest covers it), so the plain run IS the history of the correspondence case
func c17Stage(t *c17Trace, pop *genetics.Population) {
	t.Digests = append(t.Digests, strconv.FormatUint(popDigest(pop, rand.Int63()), 10))
	var buf bytes.Buffer
	h := sha256.New()
	if err := pop.Write(&buf); err != nil {
		buf.WriteString("WRITE-ERROR " + err.Error())
	}
	buf.WriteString("\n--by-species--\n")
	if err := pop.WriteBySpecies(&buf); err != nil {
		buf.WriteString("WRITE-ERROR " + err.Error())
	}
	h.Write(buf.Bytes())
	t.Hashes = append(t.Hashes, hex.EncodeToString(h.Sum(nil)))
}

// c17RunPlain mirrors the driving loop of runHistory (seed, NewPopulation, one raw draw, per epoch: fitness rule,
// NextEpoch through the sequential executor, one raw draw)
// c17DebugLevel: the repeat pass of the parent runs with the library's process-global log level set to debug (as
// loading any options file with log_level debug leaves it) and the four output functions silenced: the log level
// is not an input of a run, so the results must not depend on it
var c17DebugLevel bool

func c17RunPlain(in *epochInput, between func(ep int)) (t c17Trace) {
	quiet()
	if c17DebugLevel {
		d, i, w, e := neat.DebugLog, neat.InfoLog, neat.WarnLog, neat.ErrorLog
		silent := func(string) {}
		neat.DebugLog, neat.InfoLog, neat.WarnLog, neat.ErrorLog = silent, silent, silent, silent
		neat.LogLevel = neat.LogLevelDebug
		defer func() {
			neat.DebugLog, neat.InfoLog, neat.WarnLog, neat.ErrorLog = d, i, w, e
			quiet()
		}()
	}
	t.Digests, t.Hashes = []string{}, []string{}
	start, err := startGenomeFor(in)
	if err != nil {
		t.Err = "start genome unreadable: " + err.Error()
		return t
	}
	rand.Seed(in.Seed)
	var pop *genetics.Population
	func() {
		defer func() {
			if p := recover(); p != nil {
				err = fmt.Errorf("panic: %v", p)
			}
		}()
		if in.Random {
			pop, err = genetics.NewPopulationRandom(3, 2, 5, false, 0.5, in.Opts)
		} else {
			pop, err = genetics.NewPopulation(start, in.Opts)
		}
	}()
	if err != nil {
		t.Err = "NewPopulation: " + err.Error()
		t.EndDraw = rand.Int63()
		return t
	}
	c17Stage(&t, pop)
	ex := &genetics.SequentialPopulationEpochExecutor{}
	ctx := in.Opts.NeatContext()
	for ep := 0; ep < in.Epochs; ep++ {
		if between != nil {
			between(ep)
		}
		for i, o := range pop.Organisms {
			o.Fitness = fitnessFor(in.FitRule, ep, i, o.Genotype)
		}
		if c17DebugLevel {
			// the repeat pass also LOOKS at the evaluated population before turning it over (prints it whole and by
			// species, verifies it): observing is not an input of the run either
			func() {
				defer func() { _ = recover() }()
				_ = pop.Write(io.Discard)
				_ = pop.WriteBySpecies(io.Discard)
				_, _ = pop.Verify()
				for _, sp := range pop.Species {
					_ = sp.Write(io.Discard)
					_ = fmt.Sprint(sp.FindChampion() != nil)
				}
			}()
		}
		var eerr error
		func() {
			defer func() {
				if p := recover(); p != nil {
					eerr = fmt.Errorf("panic: %v", p)
				}
			}()
			eerr = ex.NextEpoch(ctx, ep, pop)
		}()
		if eerr != nil {
			t.Err = fmt.Sprintf("epoch %d: %v", ep, eerr)
			break
		}
		c17Stage(&t, pop)
		t.EpochsRun++
		if len(pop.Species) > 1 {
			t.Multi++
		}
		for _, o := range pop.Organisms {
			if genetics.VOrganismInfo(o).MutationStructBaby {
				t.Structural++
			}
		}
	}
	t.EndDraw = rand.Int63()
	return t
}

// c17TwinMain: the child process. stdin: one c17TwinJob; stdout: one JSON line (c17Trace) per history
func c17TwinMain() {
	quiet()
	raw, err := io.ReadAll(os.Stdin)
	if err != nil {
		fmt.Fprintln(os.Stderr, "c17-twin: cannot read job:", err)
		os.Exit(4)
	}
	var job c17TwinJob
	if err = json.Unmarshal(raw, &job); err != nil {
		fmt.Fprintln(os.Stderr, "c17-twin: cannot parse job:", err)
		os.Exit(4)
	}
	lvl := job.Setting.Level
	c17Perturb(lvl, os.Getpid()%97+1) // unrelated work BEFORE any seeding
	c17LibraryWork(lvl, os.Getpid()%97+1)
	out := json.NewEncoder(os.Stdout)
	for i, rm := range job.Inputs {
		var in epochInput
		if err = json.Unmarshal(rm, &in); err != nil {
			fmt.Fprintln(os.Stderr, "c17-twin: cannot parse input", i, err)
			os.Exit(4)
		}
		var between func(ep int)
		if job.Setting.GCInEpochs {
			between = func(ep int) {
				g := make([][]byte, 0, 64)
				for k := 0; k < 300; k++ {
					b := make([]byte, 16+(k*13+ep)%23*16)
					if k%9 == 0 {
						g = append(g, b)
					}
				}
				c17Keep = append(c17Keep, g...)
				if ep%2 == 0 {
					runtime.GC()
				}
			}
		}
		t := c17RunPlain(&in, between)
		t.Index = i
		if err = out.Encode(&t); err != nil {
			os.Exit(5)
		}
		c17Perturb(1, i+lvl) // more unrelated work between histories
		if lvl >= 3 && i%8 == 0 {
			c17LibraryWork(lvl, i) // incl. a failing parallel epoch right before the next seeded history
		} else {
			c17LibraryWork(1, i)
		}
		if len(c17Keep) > 150000 {
			c17Keep = nil
		}
	}
}

type c17ChildResult struct {
	setting c17Setting
	traces  []c17Trace
	crash   string // non-empty: the child died or produced unparsable output (after len(traces) histories)
}

func c17RunChild(set c17Setting, raws []json.RawMessage, timeout time.Duration) c17ChildResult {
	res := c17ChildResult{setting: set}
	exe, err := os.Executable()
	if err != nil {
		exe = os.Args[0]
	}
	job, err := json.Marshal(c17TwinJob{Setting: set, Inputs: raws})
	if err != nil {
		res.crash = "cannot encode job: " + err.Error()
		return res
	}
	ctx, cancel := context.WithTimeout(context.Background(), timeout)
	defer cancel()
	cmd := exec.CommandContext(ctx, exe, "c17-twin")
	cmd.Env = append(os.Environ(), "GOMAXPROCS="+set.GoMaxProcs, "GOGC="+set.GoGC)
	cmd.Stdin = bytes.NewReader(job)
	var stdout, stderr bytes.Buffer
	cmd.Stdout, cmd.Stderr = &stdout, &stderr
	runErr := cmd.Run()
	dec := json.NewDecoder(&stdout)
	for dec.More() {
		var t c17Trace
		if err := dec.Decode(&t); err != nil {
			res.crash = "unparsable child output: " + err.Error()
			break
		}
		res.traces = append(res.traces, t)
	}
	if runErr != nil && res.crash == "" {
		tail := stderr.String()
		if len(tail) > 1500 {
			tail = tail[len(tail)-1500:]
		}
		res.crash = fmt.Sprintf("child %s: %v; stderr: %s", set, runErr, tail)
	}
	if res.crash == "" && len(res.traces) != len(raws) {
		res.crash = fmt.Sprintf("child %s answered %d of %d histories", set, len(res.traces), len(raws))
	}
	return res
}

// c17FirstDiff returns the first stage at which two traces differ (-1: equal; len: only the tail differs)
func c17FirstDiff(a, b *c17Trace) (int, string) {
	n := len(a.Digests)
	if len(b.Digests) < n {
		n = len(b.Digests)
	}
	for i := 0; i < n; i++ {
		if a.Digests[i] != b.Digests[i] {
			return i, "population digest"
		}
		if i < len(a.Hashes) && i < len(b.Hashes) && a.Hashes[i] != b.Hashes[i] {
			return i, "serialised population (Population.Write)"
		}
	}
	switch {
	case len(a.Digests) != len(b.Digests):
		return n, "number of completed stages"
	case a.Err != b.Err:
		return n, "error of the failing epoch"
	case a.EndDraw != b.EndDraw:
		return n, "next raw draw after the history (number of draws consumed)"
	}
	return -1, ""
}

func c17StageName(i int) string {
	if i == 0 {
		return "spawn"
	}
	return fmt.Sprintf("epoch %d", i-1)
}

type c17Run struct {
	who   string
	trace *c17Trace
}

// c17Check runs (b) and (c) on a batch; ins are used through their JSON form in every process, the parent included
func c17Check(r *Run, ins []*epochInput, chunk int) []c17Trace {
	raws := make([]json.RawMessage, len(ins))
	parsed := make([]*epochInput, len(ins))
	for i, in := range ins {
		b, err := json.Marshal(in)
		if err != nil {
			panic(err)
		}
		raws[i] = b
		parsed[i] = &epochInput{}
		if err = json.Unmarshal(b, parsed[i]); err != nil {
			panic(err)
		}
	}
	// children: one process per (chunk, setting), at most 6 at a time, while the parent does its own runs
	type cres struct {
		lo  int
		res c17ChildResult
	}
	var mu sync.Mutex
	var all []cres
	var wg sync.WaitGroup
	sem := make(chan struct{}, 6)
	timeout := 15 * time.Minute
	if r.Thorough() {
		timeout = 3 * time.Hour
	}
	for lo := 0; lo < len(raws); lo += chunk {
		hi := lo + chunk
		if hi > len(raws) {
			hi = len(raws)
		}
		for _, set := range c17Settings {
			wg.Add(1)
			go func(lo, hi int, set c17Setting) {
				defer wg.Done()
				sem <- struct{}{}
				defer func() { <-sem }()
				cr := c17RunChild(set, raws[lo:hi], timeout)
				mu.Lock()
				all = append(all, cres{lo, cr})
				mu.Unlock()
			}(lo, hi, set)
		}
	}
	// parent: first pass in order, second pass in reverse order (so other histories lie in between)
	p1 := make([]c17Trace, len(ins))
	p2 := make([]c17Trace, len(ins))
	for i := range parsed {
		p1[i] = c17RunPlain(parsed[i], nil)
	}
	c17DebugLevel = true
	var used *neat.Options
	for i := len(parsed) - 1; i >= 0; i-- {
		// the repeat pass hands the run an Options VALUE that was used before with other settings: a struct copy of
		// the previous history's options whose exported fields are then set to this history's (whatever a used
		// Options value remembers in unexported fields must not matter)
		in := *parsed[i]
		if used != nil {
			o := *used
			if b, err := json.Marshal(parsed[i].Opts); err == nil && json.Unmarshal(b, &o) == nil {
				in.Opts = &o
			}
		}
		c17LibraryWork(1, i)
		p2[i] = c17RunPlain(&in, nil)
		used = in.Opts
	}
	c17DebugLevel = false
	wg.Wait()
	byHist := make([][]c17Run, len(ins))
	for i := range ins {
		byHist[i] = []c17Run{{"parent", &p1[i]}, {"parent (repeat, global log level debug, population printed before every turnover, reused Options value)", &p2[i]}}
	}
	for _, c := range all {
		for k := range c.res.traces {
			if c.lo+k < len(ins) {
				t := &c.res.traces[k]
				byHist[c.lo+k] = append(byHist[c.lo+k], c17Run{"child " + c.res.setting.String(), t})
				r.Hist("twin_settings", c.res.setting.String())
			}
		}
		if c.res.crash != "" {
			idx := c.lo + len(c.res.traces)
			var input interface{} = ins
			if idx < len(ins) {
				input = ins[idx]
			}
			r.Fail(Failure{Key: "twin-run-crashed", What: "a twin process did not deliver the history: " + c.res.crash, Input: input,
				Observed: fmt.Sprintf("%d of the batch's histories answered", len(c.res.traces))})
		}
	}
	for i := range ins {
		runs := byHist[i]
		done := false
		for a := 0; a < len(runs) && !done; a++ {
			for b := a + 1; b < len(runs) && !done; b++ {
				st, what := c17FirstDiff(runs[a].trace, runs[b].trace)
				if st < 0 {
					continue
				}
				key := "twin-run-differs"
				if a == 0 && b == 1 {
					key = "repeat-run-differs"
				}
				r.Fail(Failure{Key: key,
					What: fmt.Sprintf("the same seeded history gave different results in %s and %s: first difference at stage %d (%s): %s",
						runs[a].who, runs[b].who, st, c17StageName(st), what),
					Input:    ins[i],
					Observed: map[string]interface{}{"first_differing_stage": st, "stage": c17StageName(st), "run": runs[b].who, "trace": runs[b].trace},
					Required: map[string]interface{}{"run": runs[a].who, "trace": runs[a].trace}})
				done = true
			}
		}
	}
	return p1
}

func c17Nontrivial(t *c17Trace) bool { return t.Multi > 0 && t.Structural > 0 }

func runC17(r *Run) error {
	r.Res.Rule = "the population generator of C02/C03 (three start genomes, PopSize 3..30, random option settings incl. stolen babies, both compat methods, " +
		"stagnation and delta coding; fitness rules {distinct, heavy-tailed, single dominant; all-zero and constant for PopSize<=12}; 2..6 epochs through the public NextEpoch) " +
		"plus oracle-only larger and longer histories (PopSize up to 70, up to 25 epochs) and small all-ties histories (PopSize<=12, constant fitness, low compat threshold). Every history: model correspondence on tape(seed) (first group), " +
		"two executions in the parent with the other histories in between, and two executions in separate processes (" + c17Settings[0].String() + "; " + c17Settings[1].String() +
		") after unrelated allocation/map/goroutine/global-rand work; all per-epoch digests, serialised populations and the next raw draw must coincide. " +
		"non-trivial = history had >= 2 species at some epoch and >= 1 structural mutation; distinct by seed"
	r.Note(fmt.Sprintf("twin processes: %s; %s (re-exec of the harness binary, histories passed as JSON); parent %s GOMAXPROCS=%d",
		c17Settings[0], c17Settings[1], runtime.Version(), runtime.GOMAXPROCS(0)))
	imports := "Res F64 Genome Options GenomeLit EpochCases C17Cases"
	// (a) correspondence, exactly as runEpochProp
	n := r.N(48, 1600)
	var ins []*epochInput
	var corr []historyResult
	cf := r.NewCaseFile(0, imports, "epoch_case")
	shard, per := 0, 0
	for i := 0; i < n; i++ {
		if per >= 6 {
			cf.Close("epoch_mismatches")
			shard++
			cf = r.NewCaseFile(shard, imports, "epoch_case")
			per = 0
		}
		in := newEpochInput(r, "C17", 30, 6, false)
		res := runHistory(r, in, cf, i)
		per++
		ins = append(ins, in)
		corr = append(corr, res)
		r.Hist("multi_species_epochs", fmt.Sprint(res.multi))
		if res.err != nil {
			r.Hist("epoch_errors", res.err.Error())
		}
	}
	cf.Close("epoch_mismatches")
	// larger populations and longer runs: (b) and (c) only
	for i := 0; i < r.N(30, 600); i++ {
		ins = append(ins, newEpochInput(r, "C17", 70, 25, true))
	}
	// fitness values of mixed sign (every negative value is clamped to one number: ties in the adjusted order)
	for i := 0; i < r.N(6, 80); i++ {
		in := newEpochInput(r, "C17", 40, 10, true)
		in.FitRule = 5
		ins = append(ins, in)
	}
	nLarge := len(ins)
	// small populations whose fitness values tie everywhere (all-zero / constant), many species: the histories on
	// which a tie-break by address or map order in a sort comparator or a champion search would show
	for i := 0; i < r.N(24, 300); i++ {
		in := newEpochInput(r, "C17", 12, 8, false)
		in.FitRule = 3 + r.Rng.Intn(2)
		in.Opts.CompatThreshold = []float64{0.3, 1}[r.Rng.Intn(2)]
		ins = append(ins, in)
	}
	// modular start genomes (two control genes): crossover inherits modules through mateModules; outside the
	// Coq model (no case files), covered by the repeat-run and twin-process oracle only
	for i := 0; i < r.N(10, 120); i++ {
		in := newEpochInput(r, "C17", 20, 6, true)
		starts := startGenomes()
		m := withModule(r.Rng, starts[r.Rng.Intn(len(starts))], true)
		if i%2 == 1 {
			// a module output that no connection gene mentions: reaches a child only through the module bookkeeping
			m = withLooseModule(r.Rng, starts[[]int{1, 3, 0}[i%3]])
			in.Opts.MutateAddLinkProb = 0
		}
		if m != nil {
			in.Start = genomeText(m)
			in.Opts.MutateOnlyProb = 0.2
			ins = append(ins, in)
		}
	}
	// very large populations (construction is where a library would be tempted to work in batches) and a wide
	// start genome with many loose inputs (>= 15 genes, 8 disconnected sensors): one or two epochs each
	for i, ps := range []int{1000, 1024, 1500, 2048} {
		if i >= r.N(2, 4) {
			break
		}
		in := newEpochInput(r, "C17", 30, 3, true)
		in.Opts.PopSize, in.Epochs = ps+i, 1
		ins = append(ins, in)
	}
	for i := 0; i < r.N(3, 30); i++ {
		in := newEpochInput(r, "C17", 40, 6, true)
		in.Start = map[string]string{"format": "plain", "text": c17WideStart()}
		in.Opts.MutateConnectSensors = 0.5 + 0.5*r.Rng.Float64()
		ins = append(ins, in)
	}
	traces := c17Check(r, ins, r.N(40, 110))
	for i, in := range ins {
		t := &traces[i]
		nt := c17Nontrivial(t)
		if i < len(corr) {
			// the correspondence run (whose digests the model reproduces) and the plain run are the same seeded history
			c := corr[i]
			if c.epochsRun != t.EpochsRun || c.multi != t.Multi || c.structural != t.Structural {
				r.Fail(Failure{Key: "repeat-run-differs", What: "the correspondence run and the plain run of the same seeded history disagree on epochs run / multi-species epochs / structural mutations",
					Input: in, Observed: []int{t.EpochsRun, t.Multi, t.Structural}, Required: []int{c.epochsRun, c.multi, c.structural}})
			}
			nt = c.multi > 0 && c.structural > 0
		}
		r.Count(fmt.Sprint(in.Seed), nt)
		r.Hist("pop_size", bucket(in.Opts.PopSize))
		r.Hist("fitness_rule", fmt.Sprint(in.FitRule))
		switch {
		case i < n:
			r.Hist("epochs_run", fmt.Sprint(t.EpochsRun))
		case i < nLarge:
			r.Hist("oracle_only_epochs_run", bucket(t.EpochsRun))
		default:
			r.Hist("all_ties_epochs_run", bucket(t.EpochsRun))
		}
		if t.Err != "" {
			r.Hist("history_errors", t.Err)
		}
		if i < 3 || i == n {
			last := ""
			if len(t.Hashes) > 0 {
				last = t.Hashes[len(t.Hashes)-1]
			}
			r.Sample(map[string]interface{}{"seed": in.Seed, "pop_size": in.Opts.PopSize, "epochs": in.Epochs, "fitness_rule": in.FitRule,
				"compat_threshold": in.Opts.CompatThreshold, "babies_stolen": in.Opts.BabiesStolen, "epochs_run": t.EpochsRun,
				"final_population_sha256": last, "next_draw_after_history": t.EndDraw, "identical_in": "parent, parent repeat, child A, child B"})
		}
	}
	return nil
}

// replayC17 re-runs (b) and (c) on one recorded history; it is executed three times per process, with
// re-seeded variants of it in between, because the failures this property is about are not deterministic
func replayC17(r *Run, input []byte) error {
	var in epochInput
	if err := json.Unmarshal(input, &in); err != nil {
		return err
	}
	if in.Opts == nil {
		return fmt.Errorf("replay input is not an epoch history")
	}
	in.Prop = "C17"
	other := func(k int64) *epochInput {
		o := in
		o.Seed = in.Seed ^ (0x5bd1e995 * k)
		return &o
	}
	c17Check(r, []*epochInput{&in, other(1), &in, other(2), &in}, 5)
	// report each failure against the recorded input only once per key
	seen := map[string]bool{}
	var fs []Failure
	for _, f := range r.Res.Failures {
		if !seen[f.Key] {
			seen[f.Key] = true
			fs = append(fs, f)
		}
	}
	if fs == nil {
		fs = []Failure{}
	}
	r.Res.Failures = fs
	return nil
}

// c17WideStart: a bias, 24 inputs and 2 outputs; the bias and 16 inputs are connected (18 genes), 8 inputs are loose
func c17WideStart() string {
	var sb strings.Builder
	sb.WriteString("genomestart 1\ntrait 1 0.1 0 0 0 0 0 0 0\n")
	sb.WriteString("node 1 1 1 3 NullActivation\n")
	for i := 2; i <= 25; i++ {
		fmt.Fprintf(&sb, "node %d 1 1 1 NullActivation\n", i)
	}
	sb.WriteString("node 26 1 0 2 SigmoidSteepenedActivation\nnode 27 1 0 2 SigmoidSteepenedActivation\n")
	innov := 1
	for i := 1; i <= 17; i++ {
		fmt.Fprintf(&sb, "gene 1 %d %d %v false %d 0 true\n", i, 26+i%2, 0.25*float64(i%7)-0.5, innov)
		innov++
	}
	fmt.Fprintf(&sb, "gene 1 1 27 0.75 false %d 0 true\n", innov)
	sb.WriteString("genomeend 1\n")
	return sb.String()
}
