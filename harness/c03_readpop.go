package main

import (
	"bytes"
	"fmt"
	"math"
	"math/rand"
	"strings"

	"github.com/yaricom/goNEAT/v4/neat"
	"github.com/yaricom/goNEAT/v4/neat/genetics"
	"github.com/yaricom/goNEAT/v4/neat/network"
)

// ---------- ReadPopulation and the two counters (coq/proofs/ReadPopRegistry.v, props/C03.v) ----------

// c03rLinkReg is a registry innovation number -> link, node id -> role, accumulated over organisms
type c03rLinkReg struct {
	links map[int64]string
	roles map[int]network.NodeNeuronType
}

func c03rNewReg() *c03rLinkReg {
	return &c03rLinkReg{links: map[int64]string{}, roles: map[int]network.NodeNeuronType{}}
}

func c03rLinkKey(x *genetics.Gene) string {
	return fmt.Sprint(x.Link.InNode.Id, ">", x.Link.OutNode.Id, " ", x.Link.IsRecurrent)
}

func (g *c03rLinkReg) add(p *genetics.Population) {
	for _, o := range p.Organisms {
		for _, x := range o.Genotype.Genes {
			g.links[x.InnovationNum] = c03rLinkKey(x)
		}
		for _, n := range o.Genotype.Nodes {
			g.roles[n.Id] = n.NeuronType
		}
	}
}

// c03rSorted: genes ascending by innovation number and nodes ascending by id (what C01 demands of a genome)
func c03rSorted(g *genetics.Genome) bool {
	for i := 1; i < len(g.Genes); i++ {
		if g.Genes[i-1].InnovationNum >= g.Genes[i].InnovationNum {
			return false
		}
	}
	for i := 1; i < len(g.Nodes); i++ {
		if g.Nodes[i-1].Id >= g.Nodes[i].Id {
			return false
		}
	}
	return true
}

// c03rCounters evaluates C03_read_counters_dominate on a population ReadPopulation returned:
//   - exactly: nextInnovNum = max(0, max over genomes (number of the last gene + 1)); nextNodeId is the fold of
//     "if counter < id of the last node then id + 1", hence between the maximum of the last ids and one more;
//   - the counters dominate every number / id of every genome whose genes and nodes are in ascending order.
//
// Returns (some genome out of order, a counter below something held).
func c03rCounters(pop *genetics.Population, bad func(key, what string)) (unsorted, short bool) {
	_, ni, nn32 := genetics.VPopulationCounters(pop)
	nn := int(nn32)
	wantI, foldN, maxLastN := int64(0), 0, 0
	maxI, maxN := int64(math.MinInt64), math.MinInt // nothing held yet (innovation numbers and ids may all be negative)
	allSorted := true
	for _, o := range pop.Organisms {
		g := o.Genotype
		if len(g.Genes) == 0 || len(g.Nodes) == 0 {
			bad("read-genome-without-gene-or-node", "ReadPopulation returned a genome without genes or nodes")
			return
		}
		lastI := g.Genes[len(g.Genes)-1].InnovationNum
		lastN := g.Nodes[len(g.Nodes)-1].Id
		if lastI+1 > wantI {
			wantI = lastI + 1
		}
		if foldN < lastN {
			foldN = lastN + 1
		}
		if lastN > maxLastN {
			maxLastN = lastN
		}
		for _, x := range g.Genes {
			if x.InnovationNum > maxI {
				maxI = x.InnovationNum
			}
		}
		for _, n := range g.Nodes {
			if n.Id > maxN {
				maxN = n.Id
			}
		}
		if !c03rSorted(g) {
			allSorted = false
		}
	}
	if ni != wantI {
		bad("read-counters-innov-not-the-maximum", fmt.Sprintf("nextInnovNum after ReadPopulation is %d, the largest last-gene number plus one is %d", ni, wantI))
	}
	if nn != foldN || nn < maxLastN || nn > maxLastN+1 {
		bad("read-counters-node-not-the-fold", fmt.Sprintf("nextNodeId after ReadPopulation is %d, expected %d (largest last node id %d)", nn, foldN, maxLastN))
	}
	short = ni <= maxI || nn < maxN
	if allSorted && short {
		bad("read-counters-below-held", fmt.Sprintf("after ReadPopulation nextInnovNum=%d nextNodeId=%d but the genomes read hold innovation number %d and node id %d", ni, nn, maxI, maxN))
	}
	return !allSorted, short
}

// c03rEvolve runs epochs on a population that was read and checks every generation against the registry of
// what lived before the read: pre (organisms that were written; unconditional) and preAll (every organism of
// every generation before the write; only for numbers / ids not above the counters the reader derived).
// Returns whether a number above the counter, held only by organisms extinct at the write, was issued again.
func c03rEvolve(pop2 *genetics.Population, opts *neat.Options, epochs, gen0 int, pre, preAll *c03rLinkReg, po *popOracle, bad func(key, what string)) (reissued bool, err error) {
	_, ni, nn := genetics.VPopulationCounters(pop2)
	check := func() {
		for _, o := range pop2.Organisms {
			for _, x := range o.Genotype.Genes {
				k := c03rLinkKey(x)
				if pre != nil {
					if old, ok := pre.links[x.InnovationNum]; ok && old != k {
						bad("innovation-number-reused-across-read", fmt.Sprintf("innovation %d denoted %s in the population written and denotes %s after ReadPopulation", x.InnovationNum, old, k))
					}
				}
				if preAll != nil {
					if old, ok := preAll.links[x.InnovationNum]; ok && old != k {
						if x.InnovationNum <= ni {
							bad("innovation-number-reused-across-read-history", fmt.Sprintf("innovation %d (not above the counter %d read) denoted %s before the write and denotes %s after ReadPopulation", x.InnovationNum, ni, old, k))
						} else {
							reissued = true
						}
					}
				}
			}
			for _, n := range o.Genotype.Nodes {
				if pre != nil {
					if old, ok := pre.roles[n.Id]; ok && old != n.NeuronType {
						bad("node-id-role-changed-across-read", fmt.Sprintf("node id %d changed its role across ReadPopulation", n.Id))
					}
				}
				if preAll != nil {
					if old, ok := preAll.roles[n.Id]; ok && old != n.NeuronType && n.Id <= int(nn) {
						bad("node-id-role-changed-across-read-history", fmt.Sprintf("node id %d (not above the counter %d read) changed its role across ReadPopulation", n.Id, nn))
					}
				}
			}
		}
	}
	check()
	ex := &genetics.SequentialPopulationEpochExecutor{}
	ctx := opts.NeatContext()
	for ep := 0; ep < epochs; ep++ {
		for i, o := range pop2.Organisms {
			o.Fitness = fitnessFor(0, ep+gen0, i, o.Genotype)
		}
		if err := ex.NextEpoch(ctx, ep+gen0, pop2); err != nil {
			return reissued, fmt.Errorf("epoch %d after ReadPopulation failed: %v", ep, err)
		}
		if po != nil {
			po.afterEpoch(pop2, opts, map[*genetics.Organism]bool{}, nil, nil, false)
		}
		check()
	}
	return reissued, nil
}

// c03ReadPopulation is the entry point called by runEpochProp: one round-trip history and one hand-made file
func c03ReadPopulation(r *Run) {
	c03ReadRoundTrip(r)
	c03ReadCounters(r)
}

// c03ReadRoundTrip: a population that was evolved, written, read back with ReadPopulation and evolved
// further must keep issuing innovation numbers and node ids larger than any it holds (C03: the counters
// are initialised past the genomes read), with one link per number over the whole continued history and
// ACROSS the round trip (C03_history_across_read, C03_whole_history_across_read).
func c03ReadRoundTrip(r *Run) {
	quiet()
	in0 := newEpochInput(r, "C03", 30, 5, true)
	in0.Opts.MutateAddLinkProb = 0.6 // heterogeneous genomes: new links without new nodes
	in := map[string]interface{}{"family": "read-population", "seed": in0.Seed, "opts": in0.Opts, "start": in0.Start, "epochs_before": in0.Epochs}
	bad := func(key, what string) { r.Fail(Failure{Key: key, What: what, Input: in}) }
	start, err := genomeFromText(in0.Start)
	if err != nil {
		return
	}
	rand.Seed(in0.Seed)
	pop, err := genetics.NewPopulation(start, in0.Opts)
	if err != nil {
		return
	}
	preAll := c03rNewReg()
	preAll.add(pop)
	ex := &genetics.SequentialPopulationEpochExecutor{}
	ctx := in0.Opts.NeatContext()
	for ep := 0; ep < in0.Epochs; ep++ {
		for i, o := range pop.Organisms {
			o.Fitness = fitnessFor(0, ep, i, o.Genotype)
		}
		if err := ex.NextEpoch(ctx, ep, pop); err != nil {
			return
		}
		preAll.add(pop)
	}
	pre := c03rNewReg()
	pre.add(pop)
	_, niBefore, _ := genetics.VPopulationCounters(pop)
	var buf bytes.Buffer
	if err := pop.Write(&buf); err != nil {
		bad("population-write-error", err.Error())
		return
	}
	pop2, err := genetics.ReadPopulation(&buf, in0.Opts)
	if err != nil {
		bad("population-read-error", "ReadPopulation failed on what Population.Write produced: "+err.Error())
		return
	}
	if unsorted, _ := c03rCounters(pop2, bad); unsorted {
		bad("written-genome-out-of-order", "Population.Write / ReadPopulation gave a genome whose genes or nodes are not ascending")
	}
	_, niAfter, _ := genetics.VPopulationCounters(pop2)
	r.Hist("innov_counter_after_read_vs_before_write", map[bool]string{true: "lower (numbers of extinct organisms forgotten)", false: "not lower"}[niAfter < niBefore])
	po := newPopOracle("C03", bad)
	po.afterEpoch(pop2, in0.Opts, map[*genetics.Organism]bool{}, nil, nil, true)
	reissued, err := c03rEvolve(pop2, in0.Opts, 6, in0.Epochs, pre, preAll, po, bad)
	if err != nil {
		bad("epoch-error-after-read", err.Error())
		return
	}
	r.Hist("number_of_extinct_organism_reissued_after_read", fmt.Sprint(reissued))
	r.Count(fmt.Sprint("readpop", in0.Seed), true)
	r.Hist("read_population_histories", "ok")
}

// ---------- hand-made population files ----------

// c03rBlocks cuts the output of Population.Write into genome blocks (genomestart .. genomeend)
func c03rBlocks(text string) [][]string {
	var blocks [][]string
	var cur []string
	for _, l := range strings.Split(text, "\n") {
		if l == "" {
			continue
		}
		cur = append(cur, l)
		if strings.HasPrefix(l, "genomeend ") {
			blocks = append(blocks, cur)
			cur = nil
		}
	}
	return blocks
}

// c03rShuffleTagged permutes the lines of one tag (they are contiguous in a block) among themselves
func c03rShuffleTagged(rng *rand.Rand, block []string, tag string) []string {
	out := append([]string(nil), block...)
	var idx []int
	for i, l := range out {
		if strings.HasPrefix(l, tag+" ") {
			idx = append(idx, i)
		}
	}
	perm := rng.Perm(len(idx))
	for k, i := range idx {
		out[i] = block[idx[perm[k]]]
	}
	return out
}

// c03ReadCounters: population files as a person would assemble them from evolved genomes: a subset of the
// genomes of an evolved population in any order, comment lines between and inside the genomes, optionally an
// unterminated genome at the end (dropped by the reader), and - class "unsorted" - gene or hidden-node lines
// of a genome in another order.  Oracle: C03_read_counters_dominate (exact characterisation of both counters
// for every file; domination of everything held when every genome is in order), then the C03 clauses over
// epochs continued from the file for the ordered class.  For the unsorted class the shortfall of the counters
// and the re-use of a held number are counted, not failed (recorded observation: the reader looks at the last
// gene and the last node only and accepts genomes in any order).
func c03ReadCounters(r *Run) {
	quiet()
	in0 := newEpochInput(r, "C03", 16, 5, true)
	in0.Opts.MutateAddLinkProb, in0.Opts.MutateAddNodeProb = 0.5, 0.4
	start, err := genomeFromText(in0.Start)
	if err != nil {
		return
	}
	rand.Seed(in0.Seed)
	pop, err := genetics.NewPopulation(start, in0.Opts)
	if err != nil {
		return
	}
	ex := &genetics.SequentialPopulationEpochExecutor{}
	ctx := in0.Opts.NeatContext()
	for ep := 0; ep < in0.Epochs; ep++ {
		for i, o := range pop.Organisms {
			o.Fitness = fitnessFor(0, ep, i, o.Genotype)
		}
		if err := ex.NextEpoch(ctx, ep, pop); err != nil {
			return
		}
	}
	var buf bytes.Buffer
	if err := pop.Write(&buf); err != nil {
		return
	}
	blocks := c03rBlocks(buf.String())
	if len(blocks) < 2 {
		return
	}
	rng := r.Rng
	class := []string{"ordered", "ordered", "unsorted-genes", "unsorted-nodes"}[rng.Intn(4)]
	keep := 2 + rng.Intn(len(blocks)-1)
	perm := rng.Perm(len(blocks))[:keep]
	var sb strings.Builder
	if rng.Intn(2) == 0 {
		sb.WriteString("/* population assembled by hand */\n")
	}
	for k, bi := range perm {
		b := blocks[bi]
		switch {
		case class == "unsorted-genes" && (k == 0 || rng.Intn(2) == 0):
			b = c03rShuffleTagged(rng, b, "gene")
		case class == "unsorted-nodes" && (k == 0 || rng.Intn(2) == 0):
			b = c03rShuffleTagged(rng, b, "node")
		}
		if rng.Intn(3) == 0 {
			sb.WriteString(fmt.Sprintf("/* Organism #%d */\n", k))
		}
		for j, l := range b {
			sb.WriteString(l + "\n")
			if j == 0 && rng.Intn(4) == 0 {
				sb.WriteString("/* a comment inside the genome */\n")
			}
		}
	}
	if rng.Intn(4) == 0 { // an unterminated genome: dropped silently
		b := blocks[perm[0]]
		for _, l := range b[:len(b)-1] {
			sb.WriteString(l + "\n")
		}
	}
	text := sb.String()
	opts := *in0.Opts
	opts.PopSize = keep
	opts.MutateAddNodeProb, opts.MutateAddLinkProb = 0.5, 0.5
	in := map[string]interface{}{"family": "read-counters", "class": class, "file": text, "opts": &opts, "seed": in0.Seed}
	bad := func(key, what string) { r.Fail(Failure{Key: key, What: what, Input: in}) }
	pop2, err := genetics.ReadPopulation(strings.NewReader(text), &opts)
	if err != nil {
		bad("hand-made-population-read-error", "ReadPopulation failed on a permuted / commented population file: "+err.Error())
		return
	}
	if len(pop2.Organisms) != keep {
		bad("hand-made-population-size", fmt.Sprintf("ReadPopulation returned %d organisms for %d terminated genomes", len(pop2.Organisms), keep))
		return
	}
	unsorted, short := c03rCounters(pop2, bad)
	r.Hist("read_counters_class", class)
	if !unsorted {
		pre := c03rNewReg()
		pre.add(pop2)
		po := newPopOracle("C03", bad)
		po.afterEpoch(pop2, &opts, map[*genetics.Organism]bool{}, nil, nil, true)
		rand.Seed(in0.Seed + 1)
		if _, err := c03rEvolve(pop2, &opts, 3, in0.Epochs, pre, nil, po, bad); err != nil {
			r.Hist("read_counters_epoch_errors", "error")
		}
		r.Count(fmt.Sprint("readcounters", in0.Seed, class, keep), true)
		return
	}
	// out-of-order genomes: count, do not fail
	r.Hist("unsorted_file_counter_below_held", fmt.Sprint(short))
	reused := false
	quietBad := func(key, what string) {
		if strings.HasPrefix(key, "innovation-number-reused") || strings.HasPrefix(key, "node-id-role-changed") {
			reused = true
		}
	}
	pre := c03rNewReg()
	pre.add(pop2)
	rand.Seed(in0.Seed + 1)
	func() {
		defer func() { _ = recover() }()
		_, _ = c03rEvolve(pop2, &opts, 3, in0.Epochs, pre, nil, nil, quietBad)
	}()
	r.Hist("unsorted_file_held_number_reused_after_read", fmt.Sprint(reused))
	r.Count(fmt.Sprint("readcounters", in0.Seed, class, keep), short)
}
