package main

import (
	"bytes"
	"fmt"
	"math/rand"

	"github.com/yaricom/goNEAT/v4/neat/genetics"
)

// c03ReadPopulation: a population that was evolved, written, read back with ReadPopulation and evolved
// further must keep issuing innovation numbers and node ids larger than any it holds (C03: the counters
// are initialised past the genomes read), with one link per number over the whole continued history.
func c03ReadPopulation(r *Run) {
	quiet()
	in0 := newEpochInput(r, "C03", 30, 5, true)
	in0.Opts.MutateAddLinkProb = 0.6 // heterogeneous genomes: new links without new nodes
	in := map[string]interface{}{"family": "read-population", "seed": in0.Seed, "opts": in0.Opts, "start": in0.Start, "epochs_before": in0.Epochs}
	bad := func(key, what string) { r.Fail(Failure{Key: key, What: what, Input: in}) }
	start, err := genomeFromText(in0.Start)
	if err != nil {
		return
	}
	rand.Seed(in0.Seed)
	pop, err := genetics.NewPopulation(start, in0.Opts)
	if err != nil {
		return
	}
	ex := &genetics.SequentialPopulationEpochExecutor{}
	ctx := in0.Opts.NeatContext()
	for ep := 0; ep < in0.Epochs; ep++ {
		for i, o := range pop.Organisms {
			o.Fitness = fitnessFor(0, ep, i, o.Genotype)
		}
		if err := ex.NextEpoch(ctx, ep, pop); err != nil {
			return
		}
	}
	var buf bytes.Buffer
	if err := pop.Write(&buf); err != nil {
		bad("population-write-error", err.Error())
		return
	}
	pop2, err := genetics.ReadPopulation(&buf, in0.Opts)
	if err != nil {
		bad("population-read-error", "ReadPopulation failed on what Population.Write produced: "+err.Error())
		return
	}
	po := newPopOracle("C03", bad)
	po.afterEpoch(pop2, in0.Opts, map[*genetics.Organism]bool{}, nil, nil, true)
	ex2 := &genetics.SequentialPopulationEpochExecutor{}
	for ep := 0; ep < 6; ep++ {
		for i, o := range pop2.Organisms {
			o.Fitness = fitnessFor(0, ep+in0.Epochs, i, o.Genotype)
		}
		if err := ex2.NextEpoch(ctx, ep+in0.Epochs, pop2); err != nil {
			bad("epoch-error-after-read", fmt.Sprintf("epoch %d after ReadPopulation failed: %v", ep, err))
			return
		}
		po.afterEpoch(pop2, in0.Opts, map[*genetics.Organism]bool{}, nil, nil, false)
	}
	r.Count(fmt.Sprint("readpop", in0.Seed), true)
	r.Hist("read_population_histories", "ok")
}
